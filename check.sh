#!/bin/sh
# usage: check.sh <property id> <quick|thorough>
# Static analysis of /repo's CURRENT working tree (re-loaded and re-type-checked on every run).
cd /verif || exit 2
. ./env.sh
if [ ! -x bin/smtpverif ] || [ -n "$(find cmd/smtpverif -newer bin/smtpverif -name '*.go' 2>/dev/null | head -1)" ]; then
  go build -o bin/smtpverif ./cmd/smtpverif || { echo "ERROR: cannot build checker"; exit 2; }
fi
exec bin/smtpverif -property "$1" -tier "${2:-quick}"
