package main

import (
	"fmt"
	"strings"

	"golang.org/x/tools/go/ssa"
)

func init() {
	register(&propDef{
		ID: "C10",
		Explanation: "STARTTLS decided structurally. Server: 220 and the handshake are unreachable under TLS or without TLSConfig; on the handshake-succeeded path the handler installs the TLS connection, re-initialises the text/line readers over it (fresh bufio: pipelined plaintext is unreachable), logs the session out and clears it, clears helo and didAuth and resets the envelope, with no read from the old reader in between. " +
			"Client: after 220 a fresh textproto.Conn over tls.Client replaces the old one and didHello is cleared; every command-sending method runs hello() first and hello() re-runs EHLO replacing the extension map; initStartTLS refuses when STARTTLS is not advertised; DialStartTLS/NewClientStartTLS close and return nil on failure; sendMail only obtains its client from DialTLS/DialStartTLS. The TLS handshake itself is trusted.",
		Run: runC10,
	})
}

func ruleTLSSuccessEffects(c *Ctx) {
	R := c.R
	_, s := c.Std()
	R.Rule("R-tls-success-effects", "E2 must-pass-through", "after the TLS connection is installed the handler re-initialises the readers, logs out and clears the session, clears helo and didAuth and resets the envelope before returning", 8)
	f := c.A.Func("(*Conn).handleStartTLS")
	if f == nil {
		return
	}
	// "clears the session" goes through setSession(nil): that helper stores its argument on every path — a guard in it
	// ("only when no session is in place") turns the clearing into a no-op and the plaintext session survives the upgrade
	if g := c.A.Func("(*Conn).setSession"); g != nil {
		uncond := false
		for _, st := range s.Find(g, "st:Conn.session") {
			if _, _, v := storedField(st); v != nil && describe(v) == "param1" {
				dom := true
				allInstrs(g, func(in ssa.Instruction) {
					if _, isRet := in.(*ssa.Return); isRet && in.Block() != g.Recover && !(st.Block() == in.Block() || st.Block().Dominates(in.Block())) {
						dom = false
					}
				})
				uncond = uncond || dom
			}
		}
		R.Ob("(*Conn).setSession/stores its argument on every path", c.P.Pos(g.Pos()), uncond, "setSession does not store its parameter into Conn.session unconditionally: setSession(nil) after the STARTTLS logout may leave the logged-out plaintext session installed (the next EHLO then resets it instead of creating a session that sees the TLS state)")
	}
	// the upgrade point: the store itself, or the call of a helper of this handler that certainly performs it
	up := s.Find(f, "st:Conn.conn")
	allInstrs(f, func(in ssa.Instruction) {
		if cc := callCommon(in); cc != nil {
			if g := staticCallee(cc); g != nil && inSmtp(g) && !isExported(g) && g != f && s.Must(g)["st:Conn.conn"] {
				up = append(up, in)
			}
		}
	})
	R.Ob("(*Conn).handleStartTLS/installs the TLS connection", c.P.Pos(f.Pos()), len(up) == 1, fmt.Sprintf("%d stores to Conn.conn", len(up)))
	upSet := map[ssa.Instruction]bool{}
	for _, st := range up {
		upSet[st] = true
		d := ""
		if _, _, v := storedField(st); v != nil {
			d = describe(v)
		} else if cc := callCommon(st); cc != nil {
			// helper call: the new connection is one of the arguments, and the helper stores that parameter
			for i, a := range cc.Args {
				if describe(a) == "tls.Server(Conn.conn,Server.TLSConfig)" {
					g := staticCallee(cc)
					for _, hs := range s.Find(g, "st:Conn.conn") {
						if _, _, hv := storedField(hs); hv != nil && describe(hv) == fmt.Sprintf("param%d", i) {
							d = describe(a)
						}
					}
				}
			}
		}
		R.Ob(c.siteKey(st, "conn = tls.Server(old conn, TLSConfig)"), c.P.InstrPos(st), d == "tls.Server(Conn.conn,Server.TLSConfig)", "Conn.conn becomes "+d)
		c.obUnreach("TLS conn installed", st, `(*tls.Conn).Handshake(tls.Server(Conn.conn,Server.TLSConfig)) != nil`)
	}
	isUp := func(in ssa.Instruction) bool { return upSet[in] }
	c.obFollow("upgrade then init()", f, isUp, []string{"call:(*Conn).init"}, nil, nil)
	c.obFollow("upgrade then reset()", f, isUp, []string{lReset}, nil, nil)
	// the effects themselves, not just the call: at this point the session is nil, so a reset() that
	// returns early without a session would leave the plaintext envelope alive
	c.obFollow("upgrade then sender cleared", f, isUp, []string{"st:Conn.fromReceived=false"}, nil, nil)
	c.obFollow("upgrade then recipients cleared", f, isUp, []string{"st:Conn.recipients=nil"}, nil, nil)
	c.obFollow("upgrade then helo cleared", f, isUp, []string{`st:Conn.helo=""`}, nil, nil)
	c.obFollow("upgrade then didAuth cleared", f, isUp, []string{"st:Conn.didAuth=false"}, nil, nil)
	c.obFollowH("upgrade then Logout", f, isUp, []string{lLogout}, `Conn.session != nil`)
	c.obFollowH("upgrade then session cleared", f, isUp, []string{"st:Conn.session=nil"}, `Conn.session != nil`)
	if g := c.A.Func("(*Conn).init"); g != nil {
		m := s.Must(g)
		R.Ob("(*Conn).init/fresh text conn", c.P.Pos(g.Pos()), m["st:Conn.text"] && m["call:textproto.NewConn"], "init() does not certainly replace the buffered text reader")
		R.Ob("(*Conn).init/fresh line limiter", c.P.Pos(g.Pos()), m["st:Conn.lineLimitReader"], "init() does not certainly replace the line limiter")
		for _, st := range s.Find(g, "st:Conn.text") {
			_, _, v := storedField(st)
			R.Ob(c.siteKey(st, "text = textproto.NewConn"), c.P.InstrPos(st), strings.HasPrefix(describe(v), "textproto.NewConn("), "Conn.text becomes "+describe(v))
		}
		for _, st := range s.Find(g, "st:lineLimitReader.R") {
			_, _, v := storedField(st)
			R.Ob(c.siteKey(st, "limiter reads the current conn"), c.P.InstrPos(st), describe(v) == "Conn.conn", "lineLimitReader.R is "+describe(v))
		}
	}
}

func runC10(c *Ctx) {
	R := c.R
	_, s := c.Std()

	R.Rule("R-tls-gate", "E3 edge-feasibility", "the 220 reply and the server-side handshake are unreachable when TLS is already active or not configured", 4)
	if f := c.A.Func("(*Conn).handleStartTLS"); f != nil {
		var sites []ssa.Instruction
		sites = append(sites, s.Find(f, "reply:220")...)
		sites = append(sites, s.Find(f, "call:tls.Server")...)
		for _, site := range sites {
			c.obUnreach("TLS start", site, `(*Conn).TLSConnectionState(param0)#1 == true`)
			c.obUnreach("TLS start", site, `Server.TLSConfig == nil`)
		}
		c.obMustUnder("refused under TLS", f, []string{"reply:5xx"}, `(*Conn).TLSConnectionState(param0)#1 == true`)
		c.obMustUnder("refused without config", f, []string{"reply:5xx"}, `(*Conn).TLSConnectionState(param0)#1 == false`, `Server.TLSConfig == nil`)
	}
	ruleTLSSuccessEffects(c)

	R.Rule("R-state-writers", "who-may-write", "the connection is replaced only by the TLS upgrade", 1)
	c.obWriters("Conn.conn", "set at construction, replaced by the TLS connection after a successful handshake", "newConn", "(*Conn).handleStartTLS")

	R.Rule("R-tls-no-plain-read", "E2 never-after", "between the 220 reply and init() nothing is read from the plaintext reader", 1)
	if f := c.A.Func("(*Conn).handleStartTLS"); f != nil {
		c.obNever("no plaintext read after 220", f, c.direct("reply:220"), lineReads, []string{"call:(*Conn).init"}, nil)
	}

	// ---------------- client ----------------
	R.Rule("R-ctls-success-effects", "E2", "Client.startTLS: after the 220 the connection is replaced by tls.Client over the old one with a fresh textproto.Conn, and didHello is cleared", 4)
	if f := c.A.Func("(*Client).startTLS"); f != nil {
		st := s.Find(f, "ccmd:STARTTLS")
		R.Ob("(*Client).startTLS/sends STARTTLS", c.P.Pos(f.Pos()), len(st) == 1, fmt.Sprintf("%d STARTTLS commands", len(st)))
		for _, site := range st {
			site := site
			code, _ := constInt(callCommon(site).Args[1])
			R.Ob(c.siteKey(site, "expects 220"), c.P.InstrPos(site), code == 220, fmt.Sprintf("expects %d", code))
			errAtom := describe(site.(ssa.Value)) + "#2 == nil"
			c.obFollowH("220 then setConn", f, func(in ssa.Instruction) bool { return in == site }, []string{"call:(*Client).setConn"}, errAtom)
			c.obFollowH("220 then didHello=false", f, func(in ssa.Instruction) bool { return in == site }, []string{"st:Client.didHello=false"}, errAtom)
			// ... and a refused STARTTLS (any reply but 220: 454, 502, ...) makes startTLS fail: the dial helpers and
			// SendMail rely on that error to stop before anything is sent in plaintext
			failAtom := describe(site.(ssa.Value)) + "#2 != nil"
			fb := c.F.feasibleBlocks(f, HSet(canonAtom(failAtom)))
			nRet := 0
			allInstrs(f, func(in ssa.Instruction) {
				r, ok := in.(*ssa.Return)
				if !ok || !fb[in.Block()] || in.Block() == f.Recover {
					return
				}
				if !site.Block().Dominates(in.Block()) {
					return // returns before the command (hello failed)
				}
				nRet++
				rv := returnedValues(r)
				okErr := len(rv) == 1 && !isNilConst(rv[0])
				if okErr {
					for _, l := range leafSources(rv[0]) {
						if l == "nil" {
							okErr = false
						}
					}
				}
				R.Ob(c.siteKey(in, "refused STARTTLS is an error"), c.P.InstrPos(in), okErr, "startTLS can return "+describe(rv[0])+" although the server did not answer 220: the caller goes on in plaintext (TLS stripping by answering 454)")
			})
			R.Ob("(*Client).startTLS/failure returns found", c.P.Pos(f.Pos()), nRet >= 1, "no return reachable when STARTTLS is refused")
		}
		for _, sc := range s.Find(f, "call:(*Client).setConn") {
			d := describe(callCommon(sc).Args[1])
			R.Ob(c.siteKey(sc, "setConn(tls.Client(old conn))"), c.P.InstrPos(sc), strings.HasPrefix(d, "tls.Client(Client.conn,"), "new connection is "+d)
			seen := s.SeenBefore(sc)
			R.Ob(c.siteKey(sc, "setConn only after the STARTTLS exchange"), c.P.InstrPos(sc), seen["ccmd:STARTTLS"], "connection replaced without STARTTLS exchange")
			c.obFactMatch("setConn only after 220", sc, `^\(\*Client\)\.cmd\(param0,220,"STARTTLS",nil\)#2 == nil$`, "connection upgraded although the server did not answer 220")
		}
	}
	if f := c.A.Func("(*Client).setConn"); f != nil {
		m := s.Must(f)
		R.Ob("(*Client).setConn/fresh text conn", c.P.Pos(f.Pos()), m["st:Client.text"] && m["call:textproto.NewConn"] && m["st:Client.conn"], "setConn does not certainly replace conn and the buffered text reader")
	}

	R.Rule("R-ctls-rehello", "E2+E3", "every command-sending Client method runs hello() first (Rcpt/Data/LMTPData follow Mail); hello() performs EHLO whenever didHello is false; EHLO replaces the extension map, HELO clears it", 10)
	followers := map[string]bool{"(*Client).Rcpt": true, "(*Client).Data": true, "(*Client).LMTPData": true}
	for _, f := range c.P.AllFuncs() {
		n := funcName(f)
		if !strings.HasPrefix(n, "(*Client).") || !isExported(f) || followers[n] {
			continue
		}
		for _, site := range s.Find(f, "ccmd") {
			seen := s.SeenBefore(site)
			R.Ob(c.siteKey(site, "hello() before command"), c.P.InstrPos(site), seen["call:(*Client).hello"], "command sent without hello(): after STARTTLS the plaintext capabilities would be trusted")
		}
	}
	if f := c.A.Func("(*Client).hello"); f != nil {
		c.obMustUnder("EHLO when not greeted", f, []string{"call:(*Client).ehlo"}, `Client.didHello == false`, `(*Client).greet(param0) == nil`)
	}
	ruleEhloReplacesExt(c)
	// ... and every exported method consults the extension map only after hello() has run in that very call: a
	// capability accessor that answers from the map it finds (filled by the plaintext EHLO) skips the renegotiation
	for _, f := range c.P.AllFuncs() {
		n := funcName(f)
		if !strings.HasPrefix(n, "(*Client).") || !isExported(f) || followers[n] {
			continue
		}
		allInstrs(f, func(in ssa.Instruction) {
			v, ok := in.(ssa.Value)
			if !ok {
				return
			}
			if fld, _ := loadedField(v); fld == nil || fld.Name() != "ext" {
				return
			}
			R.Ob(c.siteKey(in, "extension map read only after hello()"), c.P.InstrPos(in), s.SeenBefore(in)["call:(*Client).hello"], n+" reads Client.ext on a path that has not run hello() in this call: after STARTTLS (didHello cleared, map still holding the plaintext capabilities) the answer comes from the plaintext EHLO")
		})
	}
	ruleStickyHandshake(c)
	ruleHelloErrorNotMasked(c) // a refused EHLO inside TLS is an error, not "AUTH/STARTTLS not offered"

	R.Rule("R-ctls-no-downgrade", "E3 + who-may-call", "initStartTLS reaches startTLS only when STARTTLS is advertised and fails otherwise; the dial helpers close and return nil on failure; sendMail only uses a client from DialTLS/DialStartTLS obtained without error", 8)
	if f := c.A.Func("initStartTLS"); f != nil {
		notOffered := `(*Client).Extension(param0,"STARTTLS")#0 == false`
		for _, site := range s.Find(f, "call:(*Client).startTLS") {
			c.obUnreach("startTLS", site, notOffered)
			c.obUnreach("startTLS", site, `(*Client).hello(param0) != nil`)
		}
		// success is reported only when the upgrade succeeded
		for _, a := range acceptingReturns(f) {
			ok := false
			for _, site := range s.Find(f, "call:(*Client).startTLS") {
				if v, isV := site.(ssa.Value); isV {
					if m, _ := c.factMatch(a, "^"+regexpQuote(describe(v))+" == nil$"); m {
						ok = true
					}
				}
			}
			R.Ob(c.siteKey(a, "nil only after a successful startTLS"), c.P.InstrPos(a), ok, "initStartTLS returns nil on a path where startTLS may have failed: the caller continues on the plaintext connection")
		}
		// every return feasible under notOffered returns a non-nil error
		fb := c.F.feasibleBlocks(f, HSet(notOffered, `(*Client).hello(param0) == nil`))
		allInstrs(f, func(in ssa.Instruction) {
			r, ok := in.(*ssa.Return)
			if !ok || !fb[in.Block()] {
				return
			}
			R.Ob(c.siteKey(in, "not offered => error"), c.P.InstrPos(in), !isNilConst(r.Results[0]), "initStartTLS can return nil although STARTTLS is not advertised: the caller continues in plaintext")
		})
	}
	for _, fn := range []string{"DialStartTLS", "NewClientStartTLS"} {
		f := c.A.Func(fn)
		if f == nil {
			continue
		}
		for _, site := range s.Find(f, "call:initStartTLS") {
			site := site
			errAtom := describe(site.(ssa.Value)) + " != nil"
			c.obFollowH("failed STARTTLS closes the client", f, func(in ssa.Instruction) bool { return in == site }, []string{"call:(*Client).Close"}, errAtom)
			fb := c.F.feasibleBlocks(f, HSet(errAtom))
			allInstrs(f, func(in ssa.Instruction) {
				r, ok := in.(*ssa.Return)
				if !ok || !fb[in.Block()] || !reachableFrom(site.Block(), nil)[in.Block()] {
					return
				}
				R.Ob(c.siteKey(in, "failed STARTTLS returns no client"), c.P.InstrPos(in), isNilConst(r.Results[0]) && !isNilConst(r.Results[1]), "a usable plaintext client is returned after a failed STARTTLS")
			})
		}
		R.Ob(fn+"/calls initStartTLS", c.P.Pos(f.Pos()), s.Must(f)["call:initStartTLS"] || len(s.Find(f, "call:initStartTLS")) > 0, "no STARTTLS initialisation")
	}
	if f := c.A.Func("sendMail"); f != nil {
		allInstrs(f, func(in ssa.Instruction) {
			cc := callCommon(in)
			if cc == nil {
				return
			}
			g := staticCallee(cc)
			if g == nil || !strings.HasPrefix(qualFuncName(g), "(*Client).") {
				return
			}
			for _, l := range leafSources(cc.Args[0]) {
				ok := strings.HasPrefix(l, "DialTLS(") && strings.HasSuffix(l, "#0") || strings.HasPrefix(l, "DialStartTLS(") && strings.HasSuffix(l, "#0")
				R.Ob(c.siteKey(in, "client from a TLS dial ("+qualFuncName(g)+")"), c.P.InstrPos(in), ok, "sendMail uses a client obtained from "+l)
			}
			if n := qualFuncName(g); n != "(*Client).Close" {
				c.obFactMatch(n+" only after a successful dial", in, `^phi\{DialStartTLS\(.*\)#1\|DialTLS\(.*\)#1\} == nil$`, "client used although the TLS dial failed")
			}
		})
		for _, bad := range []string{"call:Dial", "call:NewClient"} {
			R.Ob("sendMail/no plaintext dial ("+bad+")", c.P.Pos(f.Pos()), len(s.Find(f, bad)) == 0, "sendMail dials without TLS")
		}
	}
}

// ruleEhloReplacesExt (part of R-ctls-rehello in C10, R-ext-latest-ehlo in C15): the extension map always
// reflects the most recent greeting.
func ruleEhloReplacesExt(c *Ctx) {
	R := c.R
	_, s := c.Std()
	if f := c.A.Func("(*Client).ehlo"); f != nil {
		for _, st := range s.Find(f, "st:Client.ext") {
			_, _, v := storedField(st)
			R.Ob(c.siteKey(st, "ext replaced by a fresh map"), c.P.InstrPos(st), describe(v) == "makemap", "Client.ext becomes "+describe(v))
			c.obFactMatch("ext replaced only after a 250", st, `^\(\*Client\)\.cmd\(param0,250,"%s %s",.*\)#2 == nil$`, "extension map replaced although EHLO failed")
		}
		R.Ob("(*Client).ehlo/replaces ext", c.P.Pos(f.Pos()), len(s.Find(f, "st:Client.ext")) >= 1, "ehlo does not store the extension map")
		// ... on EVERY successful EHLO, also one whose reply lists no extension at all
		for _, site := range s.Find(f, "ccmd") {
			site := site
			c.obFollowH("every successful EHLO replaces the extension map", f, func(in ssa.Instruction) bool { return in == site }, []string{"st:Client.ext"}, describe(site.(ssa.Value))+"#2 == nil")
		}
	}
	if f := c.A.Func("(*Client).helo"); f != nil {
		R.Ob("(*Client).helo/clears ext", c.P.Pos(f.Pos()), s.Must(f)["st:Client.ext=nil"], "HELO fallback keeps stale extensions")
	}
}

// ruleStickyHandshake (C10, C15): hello() and greet() run their exchange once (didHello / didGreet) and every later
// call returns the remembered outcome. That only protects the caller if a failure that is RETURNED is also REMEMBERED:
// after STARTTLS the renegotiated EHLO is such an exchange, and if its failure is reported once and then forgotten
// (the flag stays set), the next method finds hello() == nil and goes on with the capabilities learned in plaintext.
// Obligation: every value returned after the flag was set is the remembered field, a value stored into it on the way,
// or nil.
func ruleStickyHandshake(c *Ctx) {
	R := c.R
	R.Rule("R-chello-sticky", "E4 value flow + dominance", "after didHello/didGreet is set, hello()/greet() return only the remembered error (the field, or the value just stored into it) or nil: a failed exchange is not forgotten", 2)
	for _, it := range [][3]string{{"(*Client).hello", "didHello", "helloError"}, {"(*Client).greet", "didGreet", "greetError"}} {
		f := c.A.Func(it[0])
		if f == nil {
			continue
		}
		ff := c.F.Analyze(f)
		var flagStores []ssa.Instruction
		var errStores []*ssa.Store
		allInstrs(f, func(in ssa.Instruction) {
			fld, _, v := storedField(in)
			if fld == nil {
				return
			}
			if fld.Name() == it[1] {
				if b, ok := constBool(v); ok && b {
					flagStores = append(flagStores, in)
				}
			}
			if fld.Name() == it[2] {
				errStores = append(errStores, in.(*ssa.Store))
			}
		})
		if len(flagStores) != 1 {
			R.Und(it[0]+"/sets its once-flag", c.P.Pos(f.Pos()), fmt.Sprintf("%d stores of true to Client.%s found: the once-only shape is not recognised", len(flagStores), it[1]))
			continue
		}
		var okVal func(v ssa.Value, at *ssa.BasicBlock, facts FactSet, depth int) (bool, string)
		okVal = func(v ssa.Value, at *ssa.BasicBlock, facts FactSet, depth int) (bool, string) {
			v = stripConv(v)
			if isNilConst(v) {
				return true, ""
			}
			if fld, _ := loadedField(v); fld != nil && fld.Name() == it[2] {
				return true, ""
			}
			d := describe(v)
			if facts[d+" == nil"] {
				return true, ""
			}
			for _, st := range errStores {
				if stripConv(st.Val) == v && (st.Block() == at || st.Block().Dominates(at)) {
					return true, ""
				}
			}
			if phi, ok := v.(*ssa.Phi); ok && depth < 4 {
				for i, e := range phi.Edges {
					p := phi.Block().Preds[i]
					if good, why := okVal(e, p, ff.edgeOut(p, phi.Block()), depth+1); !good {
						return false, why
					}
				}
				return true, ""
			}
			return false, d
		}
		n := 0
		allInstrs(f, func(in ssa.Instruction) {
			r, ok := in.(*ssa.Return)
			if !ok || in.Block() == f.Recover || !reachesInstr(flagStores[0], in) {
				return
			}
			n++
			good, why := okVal(returnedValues(r)[0], in.Block(), ff.At(in), 0)
			R.Ob(c.siteKey(in, "returns the remembered outcome"), c.P.InstrPos(in), good,
				fmt.Sprintf("%s returns %s after setting Client.%s without storing it in Client.%s: the failure is reported once and forgotten, every later call returns nil and the client carries on with what it knew before (after STARTTLS: the plaintext capabilities)", it[0], why, it[1], it[2]))
		})
		R.Ob(it[0]+"/has a return after the exchange", c.P.Pos(f.Pos()), n >= 1, "no return found after the once-flag is set")
	}
}
