package main

import (
	"fmt"
	"go/types"
	"sort"
	"strings"

	"golang.org/x/tools/go/ssa"
)

func init() {
	register(&propDef{
		ID: "C08",
		Explanation: "Session lifetime decided structurally: every Logout call is made on the stored session and is paired, on all paths, with clearing the session field (so one object is logged out at most once per goroutine; cross-goroutine atomicity is C20); " +
			"every session returned by NewSession is stored before the handler returns (so Close sees it); handleConn registers Conn.Close for every exit; QUIT / error threshold / recovered panic reply and then Close; " +
			"a failed read leads to a reply and return without dispatch; after any dispatch that may close the connection the command loop passes a branch on state written by Close before it dispatches again; the set of go statements is frozen. " +
			"Goroutine termination when it depends on the backend is not decided.",
		Run: runC08,
	})
}

func runC08(c *Ctx) {
	R := c.R
	_, s := c.Std()

	R.Rule("R-logout-sites", "E2 pairing", "every Session.Logout is invoked on the connection's stored session and is followed on every path, before the function returns, by clearing Conn.session", 2)
	for _, site := range c.Sites(lLogout) {
		site := site
		cc := callCommon(site)
		d := describe(cc.Value)
		R.Ob(c.siteKey(site, "Logout receiver is the stored session"), c.P.InstrPos(site), d == "Conn.session", "Logout called on "+d)
		c.obFollow("Logout then session=nil", site.Parent(), func(in ssa.Instruction) bool { return in == site }, []string{"st:Conn.session=nil"}, nil, nil)
		c.obUnreach("Logout", site, d+" == nil")
	}
	// the only non-nil store to session is the NewSession result
	R.Rule("R-session-stored", "E2+E4", "a session returned by NewSession is stored before the handler returns; nothing else is ever stored as the session", 2)
	for _, site := range c.Sites(lNewSession) {
		site := site
		c.obFollow("NewSession result stored", site.Parent(), func(in ssa.Instruction) bool { return in == site }, []string{"st:Conn.session"}, c.F.SkipUnder(`invoke:Backend.NewSession#1 == nil`), nil)
	}
	for _, f := range c.P.AllFuncs() {
		allInstrs(f, func(in ssa.Instruction) {
			if isStaticCall(in, "(*Conn).setSession") {
				a := callCommon(in).Args[1]
				d := describe(a)
				R.Ob(c.siteKey(in, "setSession argument"), c.P.InstrPos(in), d == "nil" || d == "invoke:Backend.NewSession#0", "session set to "+d)
			}
			if fld, _, v := storedField(in); fld != nil && fld.Name() == "session" && fieldOwner(in) == "Conn" {
				d := describe(v)
				R.Ob(c.siteKey(in, "session store"), c.P.InstrPos(in), d == "nil" || d == "param1" && funcName(f) == "(*Conn).setSession" || d == "invoke:Backend.NewSession#0", "Conn.session assigned "+d)
			}
		})
	}

	R.Rule("R-close-on-exit", "E2", "handleConn runs Conn.Close on every exit", 1)
	if f := c.A.Func("(*Server).handleConn"); f != nil {
		R.Ob("(*Server).handleConn/Conn.Close on every exit", c.P.Pos(f.Pos()), s.Must(f)[lClose], "some return path of handleConn does not run Conn.Close: the session is never logged out")
	}
	if f := c.A.Func("(*Conn).Close"); f != nil {
		c.obMustUnder("Logout", f, []string{lLogout}, aSessSet)
		R.Ob("(*Conn).Close/closes the socket", c.P.Pos(f.Pos()), s.Must(f)["icall:iface:(net.Conn).Close"], "Close does not certainly close the network connection; events: "+fmt.Sprint(s.Must(f).list()))
	}

	R.Rule("R-close-paths", "E2", "QUIT replies 221 then closes; the recovered panic replies 421 then closes; a failed read replies (except on EOF/closed) and returns without dispatching", 5)
	if f := c.A.Func("(*Conn).handle"); f != nil {
		c.obMustUnder("QUIT closes", f, []string{lClose}, verbTag(c)+` == "QUIT"`, `param1 != ""`)
		c.obMustUnder("QUIT replies 221", f, []string{"reply:221"}, verbTag(c)+` == "QUIT"`, `param1 != ""`)
		for _, cl := range s.Find(f, lClose) {
			seen := s.SeenBefore(cl)
			R.Ob(c.siteKey(cl, "reply before Close"), c.P.InstrPos(cl), seen["reply"], "connection closed without a reply")
		}
	}
	if f := c.A.Func("(*Conn).handle$1"); f != nil {
		c.obMustUnder("recover replies 421", f, []string{"reply:421"}, `builtin:recover() != nil`)
		c.obMustUnder("recover closes", f, []string{lClose}, `builtin:recover() != nil`)
	}
	if f := c.A.Func("(*Server).handleConn"); f != nil {
		for _, rl := range s.Find(f, lReadLine) {
			// region after the read-failure edge
			var errEntry []*ssa.BasicBlock
			for _, b := range f.Blocks {
				for _, sc := range b.Succs {
					for _, a := range c.F.edgeAtoms(b, sc) {
						if a == "(*Conn).readLine(param1)#1 != nil" {
							errEntry = append(errEntry, sc)
						}
					}
				}
			}
			R.Ob("(*Server).handleConn/read failure is tested", c.P.InstrPos(rl), len(errEntry) >= 1, "the error of readLine is not tested")
			for _, e := range errEntry {
				region := reachableFrom(e, func(from, to *ssa.BasicBlock) bool { return to == rl.Block() })
				bad := ""
				for b := range region {
					for _, sc := range b.Succs {
						if sc == rl.Block() {
							bad = "the loop continues after a failed read"
						}
					}
					for _, in := range b.Instrs {
						if isStaticCall(in, "(*Conn).handle") || isStaticCall(in, "(*Conn).protocolError") {
							bad = "a command is dispatched after a failed read at " + c.P.InstrPos(in)
						}
					}
				}
				R.Ob("(*Server).handleConn/failed read returns without dispatch", c.P.InstrPos(rl), bad == "", bad)
			}
			// too long line => 500
			skip := c.F.SkipUnder(`(*Conn).readLine(param1)#1 != nil`, `(*Conn).readLine(param1)#1 == ErrTooLongLine`)
			m, exits := s.MustUnder(f, func(from, to *ssa.BasicBlock) bool {
				if skip(from, to) {
					return true
				}
				return false
			})
			_ = exits
			_ = m
		}
		for _, r500 := range s.Find(f, "reply:500") {
			c.obFactMatch("500 only for the too-long line", r500, `^(\(\*Conn\)\.readLine\(param1\)#1 == ErrTooLongLine|errors\.Is\(\(\*Conn\)\.readLine\(param1\)#1,ErrTooLongLine\) == true)$`, "closing 500 not tied to ErrTooLongLine")
		}
	}

	R.Rule("R-no-dispatch-after-close", "E2+E4+call graph", "after a dispatch that may close the connection (QUIT, error threshold, recovered panic) the command loop passes a branch on state written by Conn.Close before it dispatches another command", 2)
	ruleNoDispatchAfterClose(c)
	if f := c.A.Func("(*Conn).Close"); f != nil {
		R.Ob("(*Conn).Close/marks the connection closed on every path", c.P.Pos(f.Pos()), s.Must(f)["st:Conn.closed=true"], "Conn.Close can return without setting closed (for example when closing the socket fails): the loop's close check never fires and buffered commands are executed, a new session is created")
	}

	R.Rule("R-giveup-closes", "E2 must-pass-through", "a reply by which the server gives up on the connection (421) is followed, on every path, by Conn.Close before the function returns (in the command loop: by the return that runs the deferred Close)", 4)
	nGive := 0
	for _, f := range c.P.AllFuncs() {
		if !inSmtp(f) {
			continue
		}
		nGive += c.obFollow("421 then Close", f, c.direct("reply:421"), []string{lClose}, nil, nil)
	}
	R.Ob("give-up replies/found", "-", nGive >= 3, fmt.Sprintf("%d constant 421 replies", nGive))
	// the panic verdict (errPanic is a 421) travels through dataErrorToStatus: where the delivery result is known to
	// be errPanic, the handler closes
	if f := c.A.Func("(*Conn).handleBdat"); f != nil {
		_, s2 := c.Std()
		nP := 0
		var dynSites []ssa.Instruction
		for _, g := range c.withHelpers(f) {
			dynSites = append(dynSites, s2.Find(g, "reply:dyn")...)
		}
		for _, site := range dynSites {
			cc := callCommon(site)
			ex, ok := stripConv(cc.Args[1]).(*ssa.Extract)
			if !ok {
				continue
			}
			call, ok := ex.Tuple.(*ssa.Call)
			if !ok || len(call.Call.Args) != 1 {
				continue
			}
			src := describe(call.Call.Args[0])
			if as := c.argsAtCallSites(call.Call.Args[0]); len(as) > 0 {
				all := true
				for _, a := range as {
					if !strings.Contains(describe(a), "statusCollector") {
						all = false
					}
				}
				if all {
					continue // a helper writing one recipient's status
				}
			}
			if strings.Contains(src, "statusCollector") {
				continue // per-recipient statuses: the delivery's own result decides
			}
			nP++
			site := site
			c.obFollowH("panic verdict then Close", site.Parent(), func(in ssa.Instruction) bool { return in == site }, []string{lClose}, src+" == errPanic")
		}
		R.Ob("(*Conn).handleBdat/computed final replies found", c.P.Pos(f.Pos()), nP >= 2, fmt.Sprintf("%d", nP))
	}

	ruleResultOnEveryExit(c)

	ruleGoBounded(c)
	ruleAuthReadFailureEnds(c)
	// giving up after a failed DATA read relies on the reader's failure being repeated by the drain (which closes):
	// an error exit of the reader leaves its state alone, so the next Read goes back to the dead connection
	ruleDotStructure(c)
	rulePanicUnderLock(c) // a callback panicking under a lock that is not released by defer makes the recovery's Close block: no Logout, socket kept
	R.Rule("R-state-writers", "who-may-write", "the closed flag is written only by Conn.Close", 1)
	c.obWriters("Conn.closed", "set once the connection has been given up", "(*Conn).Close")
	ruleSocketCloseOwner(c)
	ruleLogoutOnceUnderLock(c)
	ruleNoPartialLine(c)      // a disconnect in the middle of a command line executes nothing: the fragment is never dispatched
	ruleDrainFailureCloses(c) // a timeout or connection error while the rest of a message or chunk is discarded is "given up": the connection is closed, the unread octets are not executed
	// the serving goroutine receives once per recipient occurrence before it goes back to the socket: a channel that is
	// not filled to capacity blocks it for good — no disconnect, QUIT or timeout is noticed, Close and Logout never run
	c.R.Rule("R-status-fill-shape", "E1", "fillRemaining fills every recipient channel to capacity (one status per occurrence), so the command loop's receives cannot block forever and the connection can still end", 2)
	ruleFillShape(c)
}

// ruleSocketCloseOwner (C08): the server closes a connection's socket only through Conn.Close — the one place that
// also aborts the pipe, logs the session out and sets the closed flag the command loop tests. A handler that closes
// c.conn itself leaves the flag unset: commands already buffered are still dispatched (callbacks after the peer was
// told the connection is closed), and the Logout is left to the loop's exit.
func ruleSocketCloseOwner(c *Ctx) {
	R := c.R
	R.Rule("R-socket-close-owner", "who-may-call", "on the server side net.Conn.Close is invoked only by Conn.Close", 1)
	n := 0
	for _, f := range c.P.AllFuncs() {
		fn := funcName(f)
		if !inSmtp(f) || !(strings.HasPrefix(fn, "(*Conn).") || strings.HasPrefix(fn, "(*Server).")) {
			continue
		}
		allInstrs(f, func(in ssa.Instruction) {
			if !labelHas(c.stdLabels(in), "icall:iface:(net.Conn).Close") {
				return
			}
			n++
			R.Ob(c.siteKey(in, "socket closed by Conn.Close only"), c.P.InstrPos(in), fn == "(*Conn).Close", fn+" closes the socket directly: the closed flag stays unset, so the command loop goes on dispatching buffered commands, and pipe abort and Logout are skipped at this point")
		})
	}
	R.Ob("server/socket close found", "-", n >= 1, "no net.Conn.Close call found on the server side")
}

// fieldOwner returns the struct type name owning the field stored by in.
func fieldOwner(in ssa.Instruction) string {
	fld, base, _ := storedField(in)
	if fld == nil {
		return ""
	}
	return strings.SplitN(fieldDesc(fld, base), ".", 2)[0]
}

// ruleResultOnEveryExit (C08, C13, C20): a delivery goroutine signals its result on every way out — on every
// normal path of its body and in the recovery branch of its deferred handler — because the command loop blocks
// on that result; a missing signal leaves the connection goroutine waiting forever (no 421, no Logout, Shutdown hangs).
func ruleResultOnEveryExit(c *Ctx) {
	R := c.R
	R.Rule("R-result-on-every-exit", "E2 path count + E3", "each delivery goroutine sends its result exactly once on every normal path, and its deferred recovery sends it when a panic was recovered", 4)
	isSend := func(in ssa.Instruction) (int, int) {
		if _, ok := in.(*ssa.Send); ok {
			return 1, 1
		}
		return 0, 0
	}
	// the handler waits for the delivery's result only after it has closed the writing end: the backend reads until
	// end-of-file, so waiting first is a deadlock
	if f := c.A.Func("(*Conn).handleBdat"); f != nil {
		_, sm := c.Std()
		nW := 0
		var waitSites []ssa.Instruction
		for _, g := range c.withHelpers(f) {
			waitSites = append(waitSites, sm.Find(g, "chan-recv:Conn.dataResult")...)
		}
		for _, site := range waitSites {
			nW++
			seen := sm.SeenBefore(site)
			R.Ob(c.siteKey(site, "result awaited only after the pipe is closed"), c.P.InstrPos(site), seen["pipe-close-clean"] || seen["pipe-abort"], "the handler waits for the delivery result on a path where the BDAT pipe is still open: the backend waits for end-of-file and the handler for the backend")
		}
		R.Ob("(*Conn).handleBdat/awaits the delivery result", c.P.Pos(f.Pos()), nW >= 1, "no receive from the delivery result channel")
	}
	for _, gn := range []string{"(*Conn).handleBdat$1", "(*Conn).handleDataLMTP$1"} {
		g := c.A.Func(gn)
		if g == nil {
			continue
		}
		res := CountPathsOpt(g, CountOpts{Count: isSend})
		R.Ob(gn+"/result sent on every normal path", c.P.Pos(g.Pos()), res.Min == 1 && res.Max == 1, fmt.Sprintf("between %d and %d result sends on a normal path through the delivery goroutine", res.Min, res.Max))
		nRec := 0
		for _, d := range withClosures(g) {
			if d == g {
				continue
			}
			hasRecover := false
			allInstrs(d, func(in ssa.Instruction) {
				if call, ok := in.(*ssa.Call); ok {
					if b, ok := call.Call.Value.(*ssa.Builtin); ok && b.Name() == "recover" {
						hasRecover = true
					}
				}
			})
			if !hasRecover {
				continue
			}
			nRec++
			_, sm := c.Std()
			m, _ := sm.MustUnder(d, c.F.SkipUnder(`builtin:recover() != nil`))
			sent := false
			for l := range m {
				if strings.HasPrefix(l, "chan-send:") {
					sent = true
				}
			}
			R.Ob(funcName(d)+"/result sent after a recovered panic", c.P.Pos(d.Pos()), sent, "the deferred recovery of the delivery goroutine does not certainly send a result when the backend panicked: the command loop waits for it forever")
		}
		R.Ob(gn+"/has a recovering defer", c.P.Pos(g.Pos()), nRec >= 1, "delivery goroutine without a recover(): a backend panic kills the process")
		if gn == "(*Conn).handleBdat$1" {
			// the reading end of the pipe is closed on every way out: otherwise the next chunk's copy blocks forever
			_, sm := c.Std()
			mm := sm.Must(g)
			closedNormal := false
			for l := range mm {
				if strings.HasPrefix(l, "rpipe-") {
					closedNormal = true
				}
			}
			R.Ob(gn+"/reading end closed on every normal path", c.P.Pos(g.Pos()), closedNormal, "the delivery goroutine can return without closing the reading end of the BDAT pipe: a backend that returns before LAST leaves the command loop blocked in the next chunk's copy")
			for _, d := range withClosures(g) {
				if d == g {
					continue
				}
				md, _ := sm.MustUnder(d, c.F.SkipUnder(`builtin:recover() != nil`))
				closed := false
				for l := range md {
					if strings.HasPrefix(l, "rpipe-") {
						closed = true
					}
				}
				hasRecover := false
				allInstrs(d, func(in ssa.Instruction) {
					if call, ok := in.(*ssa.Call); ok {
						if b, ok := call.Call.Value.(*ssa.Builtin); ok && b.Name() == "recover" {
							hasRecover = true
						}
					}
				})
				if hasRecover {
					R.Ob(funcName(d)+"/reading end closed after a recovered panic", c.P.Pos(d.Pos()), closed, "after a backend panic the reading end of the BDAT pipe stays open: a chunk being copied blocks forever")
				}
			}
		}
	}
}

// ruleGoBounded (C08, C20): which goroutines exist and that their result sends cannot block.
func ruleGoBounded(c *Ctx) {
	R := c.R
	R.Rule("R-go-bounded", "E1", "the go statements of the package are the four known ones; delivery goroutines send their result at most once per path on a channel of capacity >= 1", 4)
	want := map[string]bool{"(*Server).Serve": true, "(*Conn).handleBdat": true, "(*Conn).handleDataLMTP": true, "(*Server).Shutdown": true}
	var got []string
	for _, f := range c.P.AllFuncs() {
		allInstrs(f, func(in ssa.Instruction) {
			if _, ok := in.(*ssa.Go); ok {
				top := f
				for top.Parent() != nil {
					top = top.Parent()
				}
				got = append(got, funcName(top))
				R.Ob(funcName(f)+"/go statement is a known one", c.P.InstrPos(in), want[funcName(top)], "new goroutine started in "+funcName(f)+": its lifetime relative to the connection is not known to the rules")
			}
		})
	}
	sort.Strings(got)
	for _, gn := range []string{"(*Conn).handleBdat$1", "(*Conn).handleDataLMTP$1"} {
		g := c.A.Func(gn)
		if g == nil {
			continue
		}
		for _, body := range withClosures(g) {
			res := CountPathsOpt(body, CountOpts{Count: func(in ssa.Instruction) (int, int) {
				if _, ok := in.(*ssa.Send); ok {
					return 1, 1
				}
				return 0, 0
			}})
			R.Ob(funcName(body)+"/at most one blocking send per path", c.P.Pos(body.Pos()), res.Max >= 0 && res.Max <= 1, fmt.Sprintf("up to %d sends per path on a channel of capacity 1", res.Max))
			allInstrs(body, func(in ssa.Instruction) {
				if snd, ok := in.(*ssa.Send); ok {
					d := describe(snd.Chan)
					R.Ob(c.siteKey(in, "send on a buffered channel"), c.P.InstrPos(in), strings.HasPrefix(d, "makechan(") && d != "makechan(0)", "send on "+d)
				}
			})
		}
	}
}

// ruleNoDispatchAfterClose (C08 R-no-dispatch-after-close, C19): the command loop tests state written by Conn.Close
// between a dispatch that may close the connection and the next dispatch. For C19 it is what keeps commands buffered
// behind the closing error from being run on a connection whose session is already gone (nil session: recovered panic).
func ruleNoDispatchAfterClose(c *Ctx) {
	R := c.R
	_, s := c.Std()
	if f := c.A.Func("(*Server).handleConn"); f != nil {
		closeF := c.A.Func("(*Conn).Close")
		closing := map[*types.Var]bool{}
		if closeF != nil {
			for k := range c.F.MayWrite(closeF) {
				closing[k] = true
			}
		}
		isDispatch := func(in ssa.Instruction) bool {
			return (isStaticCall(in, "(*Conn).handle") || isStaticCall(in, "(*Conn).protocolError")) && s.InstrMay(in)[lClose]
		}
		isCloseCheck := func(in ssa.Instruction) bool {
			iff, ok := in.(*ssa.If)
			if !ok {
				return false
			}
			var fs []*types.Var
			collectFields(iff.Cond, &fs, 0)
			for _, fl := range fs {
				if closing[fl] {
					return true
				}
			}
			// call of a package function reading such a field
			var found bool
			var walk func(v ssa.Value, d int)
			walk = func(v ssa.Value, d int) {
				if d > 4 || v == nil {
					return
				}
				switch x := v.(type) {
				case *ssa.Call:
					// the callee must read the state on EVERY path to its returns (isClosed does); a test that sits
					// behind a configuration branch inside the callee (readLine consulting the flag only when a read
					// timeout is set) is no test for the other configurations
					if g := staticCallee(&x.Call); g != nil && inSmtp(g) && certainlyReads(g, closing, 0) {
						found = true
					}
				case *ssa.UnOp:
					walk(x.X, d+1)
				case *ssa.BinOp:
					walk(x.X, d+1)
					walk(x.Y, d+1)
				case *ssa.Extract:
					walk(x.Tuple, d+1)
				}
			}
			walk(iff.Cond, 0)
			return found
		}
		n := 0
		allInstrs(f, func(in ssa.Instruction) {
			if !isDispatch(in) {
				return
			}
			n++
			site := in
			v2 := RunPend(f, PendRule{
				Trig:  func(x ssa.Instruction) bool { return x == site },
				Disch: isCloseCheck,
				Forbid: func(x ssa.Instruction) bool {
					return isStaticCall(x, "(*Conn).handle") || isStaticCall(x, "(*Conn).protocolError")
				},
			})
			d := ""
			if len(v2) > 0 {
				d = fmt.Sprintf("after the dispatch at %s (which may close the connection: QUIT, too many errors, recovered panic) the loop reaches the dispatch at %s without testing any state written by Conn.Close: commands still buffered are executed and a new session is created", c.P.InstrPos(site), c.P.InstrPos(v2[0].At))
			}
			R.Ob(c.siteKey(site, "close check before next dispatch"), c.P.InstrPos(site), len(v2) == 0, d)
		})
		if n == 0 {
			R.Ob("(*Server).handleConn/dispatch sites", c.P.Pos(f.Pos()), false, "no dispatch site that may close the connection found")
		}
	}
}

// ruleLogoutOnceUnderLock (C08): "exactly one Logout". Conn.Close runs on the connection's goroutine (QUIT, the loop's
// exit, error threshold, panic) and on Server.Close's. What keeps two overlapping calls from logging the same session
// out twice is that reading the session, the Logout callback and forgetting the session form ONE critical section of
// Conn.locker. (reset() makes its callback under the same lock — R-reset-serialised-with-close in C20.)
func ruleLogoutOnceUnderLock(c *Ctx) {
	R := c.R
	_, s := c.Std()
	R.Rule("R-logout-once-under-lock", "E7 locksets (local)", "in Conn.Close the session is read, logged out and forgotten within one critical section of Conn.locker: overlapping Close calls log a session out once", 3)
	f := c.A.Func("(*Conn).Close")
	if f == nil {
		return
	}
	scope := c.withHelpers(f) // Close and the unexported helpers it calls (dropSessionLocked)
	funcs := map[*ssa.Function]bool{}
	for _, g := range scope {
		funcs[g] = true
	}
	la := &lockAnalysis{c: c, entry: map[*ssa.Function]map[string]bool{}, at: map[ssa.Instruction]map[string]bool{}}
	la.run([]*ssa.Function{f}, funcs)
	nLogout := 0
	for _, g := range scope {
		for _, site := range s.Find(g, lLogout) {
			nLogout++
			R.Ob(c.siteKey(site, "Logout under Conn.locker"), c.P.InstrPos(site), la.at[site]["Conn.locker"], "Conn.Close calls Logout without holding Conn.locker: a second Close (Server.Close against QUIT or the loop's exit) finds the session still set and logs it out again")
		}
	}
	R.Ob("(*Conn).Close/logs out", c.P.Pos(f.Pos()), nLogout >= 1, "no Logout call found in Conn.Close")
	nClear := 0
	for _, g := range scope {
		g := g
		for _, st := range s.Find(g, "st:Conn.session") {
			if _, _, v := storedField(st); !isNilConst(v) {
				continue
			}
			nClear++
			R.Ob(c.siteKey(st, "session forgotten under Conn.locker"), c.P.InstrPos(st), la.at[st]["Conn.locker"], "Conn.Close clears the session outside Conn.locker")
			// no explicit release of the lock between the entry and this store (in the function that stores; for a
			// helper also in Close before the helper is called)
			released := ""
			st := st
			chk := func(h *ssa.Function, target ssa.Instruction) {
				allInstrs(h, func(in ssa.Instruction) {
					if _, isDefer := in.(*ssa.Defer); isDefer {
						return
					}
					if name, isLock, ok := lockOp(in); ok && !isLock && name == "Conn.locker" && reachesInstr(in, target) {
						released = c.P.InstrPos(in)
					}
				})
			}
			chk(g, st)
			if g != f {
				for _, cs := range c.callersOf(g) {
					if cs.Parent() == f {
						chk(f, cs)
					}
				}
			}
			R.Ob(c.siteKey(st, "lock not released between reading and forgetting the session"), c.P.InstrPos(st), released == "", "Conn.locker is released at "+released+" before the session is forgotten: the session is logged out and cleared in two critical sections, another Close in between logs it out again (or the late clear wipes a newer session)")
		}
	}
	R.Ob("(*Conn).Close/forgets the session", c.P.Pos(f.Pos()), nClear >= 1, "Conn.Close does not clear Conn.session directly (setSession takes the lock again: a second critical section)")
}

// certainlyReads: on every path from g's entry to a normal return g loads one of the fields (directly, or through a
// package function that certainly does): the block of some such load dominates every returning block.
func certainlyReads(g *ssa.Function, fields map[*types.Var]bool, depth int) bool {
	if g.Blocks == nil || depth > 2 {
		return false
	}
	var readBlocks []*ssa.BasicBlock
	allInstrs(g, func(in ssa.Instruction) {
		if v, ok := in.(ssa.Value); ok {
			if fld, _ := loadedField(v); fld != nil && fields[fld] {
				readBlocks = append(readBlocks, in.Block())
			}
		}
		if _, isDefer := in.(*ssa.Defer); isDefer {
			return
		}
		if _, isGo := in.(*ssa.Go); isGo {
			return
		}
		if cc := callCommon(in); cc != nil {
			if h := staticCallee(cc); h != nil && inSmtp(h) && h != g && certainlyReads(h, fields, depth+1) {
				readBlocks = append(readBlocks, in.Block())
			}
		}
	})
	if len(readBlocks) == 0 {
		return false
	}
	ok := true
	nRet := 0
	allInstrs(g, func(in ssa.Instruction) {
		if _, isRet := in.(*ssa.Return); !isRet || in.Block() == g.Recover {
			return
		}
		nRet++
		dom := false
		for _, rb := range readBlocks {
			if rb == in.Block() || rb.Dominates(in.Block()) {
				dom = true
			}
		}
		if !dom {
			ok = false
		}
	})
	return ok && nRet > 0
}
