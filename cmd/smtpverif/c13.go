package main

import (
	"fmt"
	"go/token"
	"regexp"
	"strings"

	"golang.org/x/tools/go/ssa"
)

func init() {
	register(&propDef{
		ID: "C13",
		Explanation: "LMTP per-recipient status decided by shape and path rules: the collector has one channel per distinct recipient whose capacity is that recipient's multiplicity in the same recipient list, and an ordered view built by ranging that list (channel FIFO - language semantics - then gives 'k-th status to k-th occurrence'); " +
			"both emission loops range over the recipients, receive entry i of this transaction's collector, map it through dataErrorToStatus and name recipient i in the text, one reply per iteration; " +
			"no receive can starve: a fill event precedes every completion signal on normal and panic exits; SetStatus and fillRemaining only send inside non-blocking selects; completion channels are buffered. Timing of status calls is a runtime quantity and not decided.",
		Run: runC13,
	})
}

var idxRe = regexp.MustCompile(`\[(\(phi\{.*?\} \+ 1\))\]`)

func runC13(c *Ctx) {
	R := c.R
	_, s := c.Std()

	ruleStatusShape(c)
	R.Rule("R-status-emit", "E4 value flow", "each emission loop ranges over the recipients, takes the status from entry i of this transaction's collector via dataErrorToStatus and names recipient i", 2)
	nEmit := 0
	for _, fn := range []string{"(*Conn).handleDataLMTP", "(*Conn).handleBdat"} {
		f0 := c.A.Func(fn)
		if f0 == nil {
			continue
		}
		for _, f := range c.withHelpers(f0) {
			for _, li := range findLoops(f) {
				if !li.overRc {
					continue
				}
				for b := range li.blocks {
					for _, in := range b.Instrs {
						if !isStaticCall(in, "(*Conn).writeResponse") {
							// a helper that writes one recipient's reply from its parameters: judged at this call
							if ok, why, is := emitThroughHelper(c, in, fn); is {
								nEmit++
								R.Ob(c.siteKey(in, "per-recipient reply attribution (helper)"), c.P.InstrPos(in), ok, why)
							}
							continue
						}
						nEmit++
						cc := callCommon(in)
						code := describe(cc.Args[1])
						text := describeVarargs(cc.Args[3])
						coll := "(*Conn).createStatusCollector(param0)"
						if fn == "(*Conn).handleBdat" {
							coll = "Conn.bdatStatus"
						}
						collV, idxV := recvStatusIdx(cc.Args[1])
						ok := collV != nil && describe(collV) == coll
						why := "reply code is " + code + " (collector " + describe(collV) + ")"
						if ok {
							idx := describe(idxV)
							base := strings.TrimSuffix(code, "#0")
							want := `((("<" + Conn.recipients[` + idx + `]) + "> ") + ` + base + `#2)`
							ok = text == want && strings.HasPrefix(idx, "(loopvar:rangeindex")
							why = "reply text is " + text + ", want " + want
						}
						R.Ob(c.siteKey(in, "per-recipient reply attribution"), c.P.InstrPos(in), ok, why)
					}
				}
			}
		}
	}
	if nEmit < 2 {
		R.Ob("emission loops", "-", false, fmt.Sprintf("%d per-recipient reply sites found, want 2 (DATA and BDAT LAST)", nEmit))
	}

	R.Rule("R-status-frozen", "E3", "the BDAT collector is created from this transaction's recipients, only when none exists, and dropped by reset()", 2)
	for _, st := range c.Sites("st:Conn.bdatStatus") {
		_, _, v := storedField(st)
		if isNilConst(v) {
			continue
		}
		R.Ob(c.siteKey(st, "bdatStatus = createStatusCollector()"), c.P.InstrPos(st), describe(v) == "(*Conn).createStatusCollector(param0)", "bdatStatus assigned "+describe(v))
		c.obUnreach("bdatStatus created", st, `Conn.bdatStatus != nil`)
		c.obUnreach("bdatStatus created", st, aNoRcpt)
	}

	if f := c.A.Func("(*Conn).reset"); f != nil {
		R.Ob("(*Conn).reset/drops the BDAT collector", c.P.Pos(f.Pos()), s.Must(f)["st:Conn.bdatStatus=nil"], "reset() does not certainly clear Conn.bdatStatus: the next LMTP BDAT message reuses the previous message's collector (statuses attributed to the wrong recipients)")
	}

	R.Rule("R-status-fill", "E2", "a fill event precedes every completion signal of a delivery (normal and panic exits); the BDAT LAST branch fills before emitting", 5)
	if f := c.A.Func("(*Conn).handleDataLMTP"); f != nil {
		for _, g := range withClosures(f) {
			for _, snd := range s.Find(g, "chan-send:makechan(1)") {
				seen := s.SeenBefore(snd)
				ok := seen["call:(*statusCollector).fillRemaining"]
				if !ok {
					// fallback: dominated by a recipients loop that calls SetStatus
					for _, li := range findLoops(g) {
						if !li.overRc || li.blocks[snd.Block()] || !li.header.Dominates(snd.Block()) {
							continue
						}
						for b := range li.blocks {
							for _, in := range b.Instrs {
								if isStaticCall(in, "(*statusCollector).SetStatus") {
									ok = true
								}
							}
						}
					}
				}
				R.Ob(c.siteKey(snd, "fill before completion signal"), c.P.InstrPos(snd), ok, "completion is signalled on a path where recipients without a status are not filled: the emission loop blocks forever")
			}
		}
	}
	if f := c.A.Func("(*Conn).handleBdat"); f != nil {
		for _, li := range findLoops(f) {
			if !li.overRc || len(li.header.Instrs) == 0 {
				continue
			}
			seen := s.SeenBefore(li.header.Instrs[len(li.header.Instrs)-1])
			R.Ob("(*Conn).handleBdat/fillRemaining before the emission loop", c.P.InstrPos(li.header.Instrs[0]), seen["call:(*statusCollector).fillRemaining"], "BDAT LAST emits per-recipient replies without filling missing statuses first")
		}
	}
	if f := c.A.Func("(*Conn).handlePanic"); f != nil {
		c.obMustUnder("panic fills statuses", f, []string{"call:(*statusCollector).fillRemaining"}, `param2 != nil`)
	}
	for _, gn := range []string{"(*Conn).handleBdat$1$1", "(*Conn).handleDataLMTP$1$1"} {
		if g := c.A.Func(gn); g != nil {
			m, _ := s.MustUnder(g, c.F.SkipUnder(`builtin:recover() != nil`))
			R.Ob(gn+"/recovered panic fills statuses", c.P.Pos(g.Pos()), m["call:(*statusCollector).fillRemaining"] || m["call:(*Conn).handlePanic"], "the panic path signals completion without filling statuses")
		}
	}

	if f := c.A.Func("(*statusCollector).fillRemaining"); f != nil {
		// every channel is visited: the loop over the recipient channels is never left from inside its body
		nOuter := 0
		for _, li := range findLoops(f) {
			if li.body == nil || li.header.Comment != "rangeiter.loop" {
				continue
			}
			nOuter++
			region := reachableFrom(li.body, func(from, to *ssa.BasicBlock) bool { return to == li.header })
			esc := ""
			for b := range region {
				if !li.blocks[b] {
					esc = c.P.Pos(firstPos(b))
				}
			}
			R.Ob("(*statusCollector).fillRemaining/visits every recipient channel", c.P.Pos(firstPos(li.header)), esc == "", "the loop over the recipient channels can be left from inside its body (towards "+esc+"): recipients without a status stay unfilled and the emission loop blocks forever")
		}
		R.Ob("(*statusCollector).fillRemaining/ranges over the channels", c.P.Pos(f.Pos()), nOuter >= 1, "no range over the status map found")
	}

	R.Rule("R-state-writers", "who-may-write", "the BDAT status collector is created by handleBdat and dropped by reset()", 1)
	c.obWriters("Conn.bdatStatus", "one collector per chunked LMTP message", "(*Conn).handleBdat", "(*Conn).reset")
	ruleResultOnEveryExit(c) // "never deadlocks": the command loop blocks on the delivery result
	rulePanicUnderLock(c)
	ruleNoSMTPErrorMutation(c)

	R.Rule("R-status-nonblocking", "E1", "SetStatus and fillRemaining send only inside non-blocking selects on the recipient's channel; misuse panics instead of blocking the backend", 4)
	if f := c.A.Func("(*statusCollector).SetStatus"); f != nil {
		nSel, nSend := 0, 0
		allInstrs(f, func(in ssa.Instruction) {
			switch x := in.(type) {
			case *ssa.Select:
				nSel++
				ok := !x.Blocking && len(x.States) == 1 && describe(x.States[0].Chan) == "statusCollector.statusMap[param1]"
				R.Ob("(*statusCollector).SetStatus/non-blocking send on the recipient's channel", c.P.InstrPos(in), ok, "select is blocking or not on statusMap[rcptTo]")
			case *ssa.Send:
				nSend++
			}
		})
		R.Ob("(*statusCollector).SetStatus/no plain send", c.P.Pos(f.Pos()), nSend == 0 && nSel == 1, fmt.Sprintf("%d plain sends, %d selects", nSend, nSel))
		for _, site := range s.Find(f, "select-nonblocking") {
			c.obUnreach("send", site, `statusCollector.statusMap[param1] == nil`)
		}
	}
	ruleFillShape(c)
	ruleFillValue(c)
	ruleRecipientsInOrder(c)
	// "one reply per accepted RCPT of that message": the recipient list the replies are produced from is cleared when
	// the message ends, in LMTP mode too, so the next message on the connection is answered for its own recipients only
	R.Rule("R-envelope-per-message", "E2 must-pass-through", "once a message has been taken (354 sent, final or failed chunk answered) every path to the handler's return runs reset(): the recipient list of the next LMTP message starts empty", 3)
	obMessageEndResets(c)
	// the BDAT collector is sized for the recipients accepted so far: from the moment it exists no further RCPT may
	// be accepted, which handleRcpt decides by "a pipe is open" — so handleBdat never returns with a collector
	// but without a pipe
	R.Rule("R-collector-with-pipe", "E2 must-pass-through", "after creating the BDAT status collector every path through handleBdat either has a pipe already or creates one before returning", 1)
	if f := c.A.Func("(*Conn).handleBdat"); f != nil {
		for _, st := range s.Find(f, "st:Conn.bdatStatus") {
			if _, _, v := storedField(st); isNilConst(v) {
				continue
			}
			st := st
			c.obFollow("collector then pipe", f, func(in ssa.Instruction) bool { return in == st }, []string{"st:Conn.bdatPipe"}, c.F.SkipUnder(`Conn.bdatPipe == nil`), nil)
		}
	}
	// BDAT LAST in LMTP mode: once the delivery result has been received, every reply is one of the per-recipient
	// replies (also after a backend panic: errPanic is given to the recipients without a status, not sent once)
	R.Rule("R-lmtp-last-only-per-recipient", "E2 never-after under hypothesis", "in LMTP mode no reply is written between receiving the BDAT delivery result and the end of handleBdat except inside the loop over the accepted recipients", 1)
	if f0 := c.A.Func("(*Conn).handleBdat"); f0 != nil {
		nRecv := 0
		for _, f := range c.withHelpers(f0) {
			f := f
			loops := findLoops(f)
			inRc := func(b *ssa.BasicBlock) bool {
				for _, li := range loops {
					if li.overRc && li.blocks[b] {
						return true
					}
				}
				return false
			}
			allInstrs(f, func(in ssa.Instruction) {
				u, ok := in.(*ssa.UnOp)
				if !ok || u.Op != token.ARROW || describe(u.X) != "Conn.dataResult" {
					return
				}
				nRecv++
				v := RunPend(f, PendRule{
					Trig: func(x ssa.Instruction) bool { return x == in },
					Forbid: func(x ssa.Instruction) bool {
						if _, isDefer := x.(*ssa.Defer); isDefer || x == in {
							return false
						}
						return s.InstrMay(x)["reply"] && !inRc(x.Block())
					},
					SkipEdge: c.F.SkipUnder(`Server.LMTP == true`),
					PhiOK:    c.F.PhiFeasible(`Server.LMTP == true`),
				})
				d := ""
				if len(v) > 0 {
					d = fmt.Sprintf("in LMTP mode the reply at %s is written after the delivery result was received, outside the per-recipient loop: the client gets a reply that names no recipient instead of one per accepted RCPT", c.P.InstrPos(v[0].At))
				}
				R.Ob(c.siteKey(in, "only per-recipient replies after the result"), c.P.InstrPos(in), len(v) == 0, d)
			})
		}
		R.Ob("(*Conn).handleBdat/receives the delivery result", c.P.Pos(f0.Pos()), nRecv >= 1, "no receive from Conn.dataResult")
	}
	ruleGoCapture(c)
	ruleAcceptedRecorded(c)
	ruleReplyFormat(c)        // "each naming its recipient": the recipient and the status text are printed as data, never as a printf format
	ruleWriteDeadlineOwner(c) // every one of the n replies is written, however late its status arrives
}

// recvStatusIdx matches dataErrorToStatus(<-X.status[i])#0 and returns X, i.
func recvStatusIdx(v ssa.Value) (coll, idx ssa.Value) {
	ex, ok := v.(*ssa.Extract)
	if !ok || ex.Index != 0 {
		return nil, nil
	}
	call, ok := ex.Tuple.(*ssa.Call)
	if !ok || staticCallee(&call.Call) == nil || qualFuncName(staticCallee(&call.Call)) != "dataErrorToStatus" {
		return nil, nil
	}
	rc, ok := call.Call.Args[0].(*ssa.UnOp)
	if !ok || rc.Op.String() != "<-" {
		return nil, nil
	}
	ld, ok := rc.X.(*ssa.UnOp) // load of &status[i]
	if !ok {
		return nil, nil
	}
	ia, ok := ld.X.(*ssa.IndexAddr)
	if !ok {
		return nil, nil
	}
	fld, base := loadedField(ia.X)
	if fld == nil || fld.Name() != "status" {
		return nil, nil
	}
	return base, ia.Index
}

// ruleFillShape (C13, C04): fillRemaining gives every recipient channel as many statuses as it has room for, so
// that every occurrence of a recipient gets its reply.
func ruleFillShape(c *Ctx) {
	R := c.R
	if f := c.A.Func("(*statusCollector).fillRemaining"); f != nil {
		nSel, nSend := 0, 0
		allInstrs(f, func(in ssa.Instruction) {
			switch x := in.(type) {
			case *ssa.Select:
				nSel++
				ok := !x.Blocking && len(x.States) == 1
				// the channel must be the value of a range over statusMap
				var nextBlock *ssa.BasicBlock
				if ok {
					ex, isE := x.States[0].Chan.(*ssa.Extract)
					ok = false
					if isE && ex.Index == 2 {
						if nx, isN := ex.Tuple.(*ssa.Next); isN {
							if rg, isR := nx.Iter.(*ssa.Range); isR && describe(rg.X) == "statusCollector.statusMap" {
								ok = true
								nextBlock = nx.Block()
							}
						}
					}
				}
				// a full channel moves on to the NEXT channel (back to the range), it does not end the whole fill
				if ok && nextBlock != nil {
					for _, sc := range in.Block().Succs {
						if sc != in.Block() && sc != nextBlock && !reachableFrom(sc, nil)[nextBlock] {
							ok = false
						}
					}
				}
				// loops on itself while the send succeeds
				self := false
				for _, sc := range in.Block().Succs {
					if sc == in.Block() {
						self = true
					}
				}
				R.Ob("(*statusCollector).fillRemaining/fills every channel to capacity without blocking", c.P.InstrPos(in), ok && self, "fillRemaining does not loop a non-blocking send over every channel of statusMap")
			case *ssa.Send:
				nSend++
			}
		})
		R.Ob("(*statusCollector).fillRemaining/no plain send", c.P.Pos(f.Pos()), nSend == 0 && nSel == 1, fmt.Sprintf("%d plain sends, %d selects", nSend, nSel))
	}
}

// recvFromStatus: v is <-coll.status[idx]; returns the collector base and the index.
func recvFromStatus(v ssa.Value) (coll, idx ssa.Value) {
	rc, ok := stripConv(v).(*ssa.UnOp)
	if !ok || rc.Op.String() != "<-" {
		return nil, nil
	}
	ld, ok := rc.X.(*ssa.UnOp)
	if !ok {
		return nil, nil
	}
	ia, ok := ld.X.(*ssa.IndexAddr)
	if !ok {
		return nil, nil
	}
	fld, base := loadedField(ia.X)
	if fld == nil || fld.Name() != "status" {
		return nil, nil
	}
	return base, ia.Index
}

// emitThroughHelper: in is a call, inside an emission loop, of an unexported Conn helper whose only reply is
// writeResponse(dataErrorToStatus(pB)#0, ..#1, "<"+pA+"> "+..#2). The attribution is then decided by the
// arguments of this call: A = Conn.recipients[i], B = <-collector.status[i].
func emitThroughHelper(c *Ctx, in ssa.Instruction, handler string) (ok bool, why string, is bool) {
	cc := callCommon(in)
	if cc == nil {
		return false, "", false
	}
	h := staticCallee(cc)
	if h == nil || !inSmtp(h) || isExported(h) || h.Blocks == nil || !strings.HasPrefix(funcName(h), "(*Conn).") {
		return false, "", false
	}
	var wr []ssa.Instruction
	allInstrs(h, func(x ssa.Instruction) {
		if isStaticCall(x, "(*Conn).writeResponse") {
			wr = append(wr, x)
		}
	})
	if len(wr) != 1 {
		return false, "", false
	}
	hcc := callCommon(wr[0])
	code := describe(hcc.Args[1])
	m := regexp.MustCompile(`^dataErrorToStatus\(param(\d+)\)#0$`).FindStringSubmatch(code)
	if m == nil {
		return false, "", false
	}
	bIdx := int(m[1][0] - '0')
	text := describeVarargs(hcc.Args[3])
	tm := regexp.MustCompile(`^\(\(\("<" \+ param(\d+)\) \+ "> "\) \+ dataErrorToStatus\(param` + m[1] + `\)#2\)$`).FindStringSubmatch(text)
	if tm == nil || describe(hcc.Args[2]) != "dataErrorToStatus(param"+m[1]+")#1" {
		return false, "helper " + funcName(h) + " writes code " + code + ", enhanced code " + describe(hcc.Args[2]) + ", text " + text, true
	}
	aIdx := int(tm[1][0] - '0')
	if aIdx >= len(cc.Args) || bIdx >= len(cc.Args) {
		return false, "helper parameters out of range", true
	}
	collV, idxV := recvFromStatus(cc.Args[bIdx])
	coll := "(*Conn).createStatusCollector(param0)"
	if handler == "(*Conn).handleBdat" {
		coll = "Conn.bdatStatus"
	}
	if collV == nil || describe(collV) != coll {
		return false, "status argument is " + describe(cc.Args[bIdx]) + ", want a receive from entry i of " + coll, true
	}
	idx := describe(idxV)
	if describe(cc.Args[aIdx]) != "Conn.recipients["+idx+"]" || !strings.HasPrefix(idx, "(loopvar:rangeindex") {
		return false, "recipient argument is " + describe(cc.Args[aIdx]) + " while the status comes from entry " + idx, true
	}
	return true, "", true
}

// ruleFillValue (C13): what fillRemaining hands to the recipients the backend set no status for is the outcome of
// this delivery: the value received from the delivery goroutine, the LMTPData call's own result, or a panic marker.
func ruleFillValue(c *Ctx) {
	R := c.R
	R.Rule("R-fill-value", "E4 value flow", "every fillRemaining call passes the delivery's outcome (the received data result, the LMTPData call's result) or a panic marker built on a recovery path", 4)
	n := 0
	for _, site := range c.Sites("call:(*statusCollector).fillRemaining") {
		cc := callCommon(site)
		if len(cc.Args) < 2 {
			continue
		}
		n++
		d := describe(cc.Args[1])
		f := site.Parent()
		ok := false
		switch {
		case d == "<-Conn.dataResult", strings.HasPrefix(d, "invoke:LMTPSession.LMTPData"):
			ok = true
		case d == "errPanic" || d == "alloc:complit":
			// only where a panic has been recovered
			ff := c.F.Analyze(f)
			ok = ff.At(site)["builtin:recover() != nil"] || ff.At(site)["param2 != nil"] || funcName(f) == "(*Conn).handlePanic"
		}
		R.Ob(c.siteKey(site, "fill value is the delivery outcome"), c.P.InstrPos(site), ok, "recipients without a status are given "+d+", which is not this delivery's result")
	}
	R.Ob("fillRemaining call sites/found", "-", n >= 3, fmt.Sprintf("%d call sites", n))
	// the plain-backend fallback: every recipient gets the Data call's own result
	nSet := 0
	for _, site := range c.Sites("call:(*statusCollector).SetStatus") {
		f := site.Parent()
		if !strings.HasPrefix(funcName(f), "(*Conn).") {
			continue
		}
		cc := callCommon(site)
		if len(cc.Args) < 3 {
			continue
		}
		nSet++
		d := describe(cc.Args[2])
		R.Ob(c.siteKey(site, "single result given to every recipient is the Data call's"), c.P.InstrPos(site), strings.HasPrefix(d, "invoke:Session.Data"), "the server sets a recipient's status to "+d+" instead of the result of Session.Data")
		inLoop := false
		for _, li := range findLoops(f) {
			if li.overRc && li.blocks[site.Block()] {
				inLoop = true
				a := describe(cc.Args[1])
				R.Ob(c.siteKey(site, "status set for the loop's recipient"), c.P.InstrPos(site), strings.HasPrefix(a, "Conn.recipients[(loopvar:rangeindex") && strings.HasSuffix(a, "]"), "status set for "+a+" inside the loop over Conn.recipients")
			}
		}
		R.Ob(c.siteKey(site, "status set for each accepted recipient"), c.P.InstrPos(site), inLoop, "SetStatus is not inside a loop over Conn.recipients")
	}
	R.Ob("server-side SetStatus sites/found", "-", nSet >= 1, fmt.Sprintf("%d call sites", nSet))
}

// ruleRecipientsInOrder (C13): the list the per-recipient replies follow holds the accepted recipients in RCPT
// order: it only ever grows at its end, by the recipient just accepted, on the nil-error edge of Session.Rcpt, and
// is otherwise only emptied by reset().
func ruleRecipientsInOrder(c *Ctx) {
	R := c.R
	_, s := c.Std()
	R.Rule("R-recipients-in-order", "E3+E4", "Conn.recipients grows only by append(c.recipients, <this recipient>) after Session.Rcpt returned nil; no other store rearranges it", 2)
	n := 0
	for _, site := range c.Sites("st:Conn.recipients") {
		_, _, v := storedField(site)
		if isNilConst(v) {
			continue
		}
		n++
		for _, ea := range c.cbErrAtoms(lRcpt, "invoke:Session.Rcpt", site.Parent()) {
			c.obUnreach("recipients=append", site, ea+` != nil`)
		}
		R.Ob(c.siteKey(site, "recipient recorded after the backend accepted it"), c.P.InstrPos(site), s.SeenBefore(site)[lRcpt], "a recipient is recorded before the backend was asked")
		ok := false
		if call, isCall := v.(*ssa.Call); isCall {
			if b, isB := call.Call.Value.(*ssa.Builtin); isB && b.Name() == "append" {
				ok = describe(call.Call.Args[0]) == "Conn.recipients"
			}
		}
		R.Ob(c.siteKey(site, "list extended at its end only"), c.P.InstrPos(site), ok, "Conn.recipients is set to "+describe(v)+": entries are removed or rearranged, the per-recipient replies no longer follow RCPT order")
	}
	R.Ob("Conn.recipients/growth sites", "-", n >= 1, fmt.Sprintf("%d sites", n))
}

// ruleAcceptedRecorded (C13, C03): every recipient the backend accepted (Session.Rcpt returned nil) is recorded in
// Conn.recipients before the handler returns — the status collector is built from that list, and a per-recipient
// backend that reports a status for an address it was given but the server did not record panics in SetStatus
// (421 for everybody). A refusal (recipient limit, …) therefore comes BEFORE the callback, never after its success.
func ruleAcceptedRecorded(c *Ctx) {
	R := c.R
	R.Rule("R-accepted-recorded", "E2 must-pass-through under hypothesis", "after Session.Rcpt returned nil every path of handleRcpt records the recipient before it returns", 1)
	n := 0
	for _, site := range c.Sites(lRcpt) {
		f := site.Parent()
		for _, ea := range c.cbErrAtoms(lRcpt, "invoke:Session.Rcpt", f) {
			site := site
			n += c.obFollowH("accepted recipient is recorded", f, func(in ssa.Instruction) bool { return in == site }, []string{"st:Conn.recipients"}, ea+" == nil")
		}
	}
	R.Ob("handleRcpt/Session.Rcpt call found", "-", n >= 1, "no Session.Rcpt call site found")
	// ... and the list is frozen while a chunked transfer is open: the LMTP status collector was built from it when the
	// first chunk arrived ("BDAT 0" included), a recipient added afterwards has no channel and the final reply loop
	// indexes past the collector
	for _, st := range c.Sites("st:Conn.recipients") {
		if _, _, v := storedField(st); isNilConst(v) {
			continue
		}
		c.obUnreach("recipient list grows", st, aPipeOpen)
	}
}

// ruleStatusShape (C13, C20): the collector's channels hold exactly one slot per occurrence of their recipient. C20
// needs it for "never deadlocks": a channel with fewer slots makes a contract-abiding SetStatus panic or leaves the
// command loop's k-th receive for a duplicated recipient without a value (it blocks on a channel, not on the socket).
func ruleStatusShape(c *Ctx) {
	R := c.R
	_, s := c.Std()
	_ = s
	R.Rule("R-status-shape", "E4 value flow", "createStatusCollector: channel capacity = multiplicity of the recipient in Conn.recipients; ordered view = map entry of each recipient in list order", 3)
	if f := c.A.Func("(*Conn).createStatusCollector"); f != nil {
		var countMap ssa.Value
		okCount, okChan, okView := false, false, false
		allInstrs(f, func(in ssa.Instruction) {
			switch x := in.(type) {
			case *ssa.MapUpdate:
				if mm, ok := x.Map.(*ssa.MakeMap); ok && strings.HasSuffix(typeShort(mm.Type()), "map[string]int") {
					// counts[rcpt] = counts[rcpt] + 1 with rcpt an element of Conn.recipients
					kd := describe(x.Key)
					vd := describe(x.Value)
					if strings.HasPrefix(kd, "Conn.recipients[") && vd == "(makemap["+kd+"] + 1)" {
						okCount = true
						countMap = mm
					}
				}
			}
		})
		allInstrs(f, func(in ssa.Instruction) {
			x, ok := in.(*ssa.MapUpdate)
			if !ok || describe(x.Map) != "statusCollector.statusMap" {
				return
			}
			mc, ok := x.Value.(*ssa.MakeChan)
			if !ok {
				return
			}
			// key and size must be the key/value of one iteration over the count map
			ke, ok1 := x.Key.(*ssa.Extract)
			se, ok2 := stripConv(mc.Size).(*ssa.Extract)
			if ok1 && ok2 && ke.Tuple == se.Tuple && ke.Index == 1 && se.Index == 2 {
				if nx, ok := ke.Tuple.(*ssa.Next); ok {
					if rg, ok := nx.Iter.(*ssa.Range); ok && rg.X == countMap && countMap != nil {
						okChan = true
					}
				}
			}
		})
		for _, st := range s.Find(f, "st:statusCollector.status") {
			_, _, v := storedField(st)
			call, ok := v.(*ssa.Call)
			if !ok {
				continue
			}
			if b, isB := call.Call.Value.(*ssa.Builtin); !isB || b.Name() != "append" {
				continue
			}
			elem := describeVarargs(call.Call.Args[1])
			if describe(call.Call.Args[0]) == "statusCollector.status" && regexp.MustCompile(`^statusCollector\.statusMap\[Conn\.recipients\[.*\]\]$`).MatchString(elem) {
				// must be inside a loop ranging over Conn.recipients
				for _, li := range findLoops(f) {
					if li.overRc && li.blocks[st.Block()] {
						okView = true
					}
				}
			}
		}
		R.Ob("(*Conn).createStatusCollector/counts multiplicity of each recipient", c.P.Pos(f.Pos()), okCount, "no counts[rcpt]++ over Conn.recipients found")
		R.Ob("(*Conn).createStatusCollector/channel capacity = multiplicity", c.P.Pos(f.Pos()), okChan, "the per-recipient channel is not created with the recipient's count as capacity: duplicates can block or lose statuses")
		R.Ob("(*Conn).createStatusCollector/ordered view follows Conn.recipients", c.P.Pos(f.Pos()), okView, "status[] is not built by appending statusMap[rcpt] while ranging Conn.recipients: replies would be mis-attributed")
	}

}
