package main

import (
	"fmt"
	"go/token"
	"go/types"
	"sort"
	"strings"

	"golang.org/x/tools/go/ssa"
)

func init() {
	register(&propDef{
		ID: "C20",
		Explanation: "Thread roles x locksets (E7): every access to a field of Conn/Server is attributed to the thread roles that can execute it (command loop, Server.Close, Shutdown, accept loop, BDAT delivery goroutine, LMTP delivery goroutine) with the set of package mutexes certainly held; two accesses conflict when their roles differ, one is a write, the locksets are disjoint and no frozen happens-before edge orders them (construction before publication; the go statement). " +
			"Each conflicting (field, function, function) triple is one obligation, so existing unordered pairs are individually listed as known findings and any NEW pair fails. Plus: lock-order graph acyclic and no blocking channel operation under a lock; the delivery goroutines do not re-read transaction fields; Serve's accept loop and Close/Shutdown effects by path rules. " +
			"The rule reports POSSIBLE races; it neither proves that one occurs nor deadlock freedom in general.",
		Run: runC20,
	})
}

type access struct {
	fld   *types.Var
	owner string
	write bool
	in    ssa.Instruction
	fn    *ssa.Function
	locks map[string]bool
}

type roleInfo struct {
	name  string
	roots []*ssa.Function
	funcs map[*ssa.Function]bool
}

// lockName: if in is Lock/Unlock on a mutex field of a package struct returns
// ("Conn.locker", true=Lock).
func lockOp(in ssa.Instruction) (string, bool, bool) {
	cc := callCommon(in)
	if cc == nil {
		return "", false, false
	}
	g := staticCallee(cc)
	if g == nil {
		return "", false, false
	}
	n := qualFuncName(g)
	if n != "(*sync.Mutex).Lock" && n != "(*sync.Mutex).Unlock" && n != "(*sync.RWMutex).Lock" && n != "(*sync.RWMutex).Unlock" {
		return "", false, false
	}
	f, base := fieldAddrOf(cc.Args[0])
	if f == nil {
		return "?mutex", strings.HasSuffix(n, ".Lock"), true
	}
	return fieldDesc(f, base), strings.HasSuffix(n, ".Lock"), true
}

type lockAnalysis struct {
	c     *Ctx
	entry map[*ssa.Function]map[string]bool // locks certainly held on entry (nil = TOP)
	at    map[ssa.Instruction]map[string]bool
}

func copySet(s map[string]bool) map[string]bool {
	o := map[string]bool{}
	for k := range s {
		o[k] = true
	}
	return o
}

func interSet(a, b map[string]bool) map[string]bool {
	if a == nil {
		return copySet(b)
	}
	if b == nil {
		return copySet(a)
	}
	o := map[string]bool{}
	for k := range a {
		if b[k] {
			o[k] = true
		}
	}
	return o
}

func eqSet(a, b map[string]bool) bool {
	if (a == nil) != (b == nil) || len(a) != len(b) {
		return false
	}
	for k := range a {
		if !b[k] {
			return false
		}
	}
	return true
}

// analyzeFunc computes the lockset before each instruction given the entry set.
func (la *lockAnalysis) analyzeFunc(f *ssa.Function, entry map[string]bool) {
	in := map[*ssa.BasicBlock]map[string]bool{}
	out := map[*ssa.BasicBlock]map[string]bool{}
	if len(f.Blocks) == 0 {
		return
	}
	in[f.Blocks[0]] = copySet(entry)
	for changed := true; changed; {
		changed = false
		for _, b := range f.Blocks {
			if b != f.Blocks[0] {
				var st map[string]bool
				for _, p := range b.Preds {
					if out[p] != nil {
						st = interSet(st, out[p])
					}
				}
				in[b] = st
			}
			if in[b] == nil {
				continue
			}
			st := copySet(in[b])
			for _, ins := range b.Instrs {
				la.at[ins] = copySet(st)
				if _, isDefer := ins.(*ssa.Defer); isDefer {
					continue // deferred Unlock: held until return
				}
				if name, isLock, ok := lockOp(ins); ok {
					if isLock {
						st[name] = true
					} else {
						delete(st, name)
					}
				}
			}
			if !eqSet(st, out[b]) {
				out[b] = st
				changed = true
			}
		}
	}
}

func (la *lockAnalysis) run(roots []*ssa.Function, funcs map[*ssa.Function]bool) {
	// fixpoint on entry locksets: entry(f) = intersection over call sites
	for f := range funcs {
		la.entry[f] = nil
	}
	for _, r := range roots {
		la.entry[r] = map[string]bool{}
	}
	for iter := 0; iter < 10; iter++ {
		changed := false
		for f := range funcs {
			if la.entry[f] == nil {
				continue
			}
			la.analyzeFunc(f, la.entry[f])
			allInstrs(f, func(in ssa.Instruction) {
				var callee *ssa.Function
				if mc, ok := in.(*ssa.MakeClosure); ok {
					callee, _ = mc.Fn.(*ssa.Function)
					// closure runs later (defer/go/call): for defer and direct calls the lockset at the call applies; approximated by the set at creation
				} else if cc := callCommon(in); cc != nil {
					if _, isGo := in.(*ssa.Go); isGo {
						return
					}
					callee = staticCallee(cc)
				}
				if callee == nil || !funcs[callee] {
					return
				}
				held := la.at[in]
				if _, isDefer := in.(*ssa.Defer); isDefer {
					// runs at return: locks released by explicit Unlock before return are unknown; be conservative
					held = map[string]bool{}
				}
				n := interSet(la.entry[callee], held)
				isRoot := false
				for _, r := range roots {
					if r == callee {
						isRoot = true
					}
				}
				if isRoot {
					n = map[string]bool{}
				}
				if !eqSet(n, la.entry[callee]) {
					la.entry[callee] = n
					changed = true
				}
			})
		}
		if !changed {
			break
		}
	}
}

func reachableFuncs(roots []*ssa.Function, followGo bool) map[*ssa.Function]bool {
	seen := map[*ssa.Function]bool{}
	var visit func(f *ssa.Function)
	visit = func(f *ssa.Function) {
		if f == nil || seen[f] || !inSmtp(f) || f.Blocks == nil {
			return
		}
		seen[f] = true
		allInstrs(f, func(in ssa.Instruction) {
			if _, isGo := in.(*ssa.Go); isGo && !followGo {
				return
			}
			if cc := callCommon(in); cc != nil {
				visit(staticCallee(cc))
			}
			if mc, ok := in.(*ssa.MakeClosure); ok {
				// closure created here: it runs in this role unless only used by a go statement
				onlyGo := true
				for _, r := range referrers(mc) {
					if _, isGo := r.(*ssa.Go); !isGo {
						onlyGo = false
					}
				}
				if !onlyGo || followGo {
					if g, ok := mc.Fn.(*ssa.Function); ok {
						visit(g)
					}
				}
			}
		})
	}
	for _, r := range roots {
		visit(r)
	}
	return seen
}

func runC20(c *Ctx) {
	R := c.R
	_, s := c.Std()

	fn := func(n string) *ssa.Function { return c.A.Func(n) }
	roles := []*roleInfo{
		{name: "cmd", roots: []*ssa.Function{fn("(*Server).handleConn")}},
		{name: "srvclose", roots: []*ssa.Function{fn("(*Server).Close")}},
		{name: "shutdown", roots: []*ssa.Function{fn("(*Server).Shutdown")}},
		{name: "accept", roots: []*ssa.Function{fn("(*Server).Serve")}},
		{name: "bdat", roots: []*ssa.Function{fn("(*Conn).handleBdat$1")}},
		{name: "lmtp", roots: []*ssa.Function{fn("(*Conn).handleDataLMTP$1")}},
	}
	var accs = map[string][]access{}
	laByRole := map[string]*lockAnalysis{}
	nAcc := 0
	for _, ro := range roles {
		var roots []*ssa.Function
		for _, r := range ro.roots {
			if r != nil {
				roots = append(roots, r)
			}
		}
		ro.roots = roots
		ro.funcs = reachableFuncs(roots, false)
		// the accept role stops at the per-connection goroutine (that is the cmd role)
		la := &lockAnalysis{c: c, entry: map[*ssa.Function]map[string]bool{}, at: map[ssa.Instruction]map[string]bool{}}
		la.run(roots, ro.funcs)
		laByRole[ro.name] = la
		for f := range ro.funcs {
			if la.entry[f] == nil {
				continue
			}
			allInstrs(f, func(in ssa.Instruction) {
				var fld *types.Var
				var base ssa.Value
				write := false
				if fl, b, _ := storedField(in); fl != nil {
					fld, base, write = fl, b, true
				} else if v, ok := in.(ssa.Value); ok {
					fld, base = loadedField(v)
				}
				if fld == nil {
					return
				}
				owner := strings.SplitN(fieldDesc(fld, base), ".", 2)[0]
				if owner != "Conn" && owner != "Server" {
					return
				}
				if _, isMutex := fld.Type().(*types.Named); isMutex && strings.Contains(fld.Type().String(), "sync.") {
					return
				}
				nAcc++
				accs[ro.name] = append(accs[ro.name], access{fld: fld, owner: owner, write: write, in: in, fn: f, locks: la.at[in]})
			})
		}
	}
	R.Extra["accesses_classified"] = nAcc

	R.Rule("R-lockset", "E7 roles x locksets", "no field of Conn/Server is accessed from two different thread roles, one access being a write, without a common mutex or a happens-before edge", 0)
	// happens-before exclusions
	constructorOnly := map[string]bool{"newConn": true, "NewServer": true}
	type pairKey struct{ fld, a, b string }
	pairs := map[pairKey][2]access{}
	pairSites := map[pairKey]map[string]bool{}
	names := func(ro string) []access { return accs[ro] }
	// happens-before: the LMTP delivery goroutine is joined (receive from its
	// done channel on every path) before handleDataLMTP returns, so it can only
	// overlap with command-loop code reachable from handleDataLMTP itself.
	lmtpJoined := false
	lmtpScope := map[*ssa.Function]bool{}
	if h := c.A.Func("(*Conn).handleDataLMTP"); h != nil {
		lmtpJoined = s.Must(h)["chan-recv:makechan(1)"]
		lmtpScope = reachableFuncs([]*ssa.Function{h}, false)
	}
	R.Ob("happens-before/LMTP goroutine joined before the handler returns", "-", lmtpJoined, "handleDataLMTP no longer waits for its delivery goroutine on every path: the goroutine's accesses are unordered with all later commands")
	for i, ra := range roles {
		for j, rb := range roles {
			if j <= i {
				continue
			}
			for _, a := range names(ra.name) {
				for _, b := range names(rb.name) {
					if a.fld != b.fld || (!a.write && !b.write) {
						continue
					}
					if constructorOnly[funcName(a.fn)] || constructorOnly[funcName(b.fn)] {
						continue
					}
					if lmtpJoined && (ra.name == "cmd" && rb.name == "lmtp" && !lmtpScope[a.fn] || ra.name == "lmtp" && rb.name == "cmd" && !lmtpScope[b.fn]) {
						continue
					}
					// (*Conn).init runs from newConn (before publication) and from handleStartTLS (cmd role): it stays in
					common := false
					for l := range a.locks {
						if b.locks[l] {
							common = true
						}
					}
					if common {
						continue
					}
					// same function in both roles (e.g. Conn.Close from cmd and srvclose) with the same lockset: self-synchronised only if locked
					// the command-loop side is identified by function, the other side by role only, so that
					// moving code between helpers on the closing side does not create "new" pairs
					// a pair is identified by field, access kinds and thread roles; the functions that contain the
					// accesses are listed in the report but are not part of the key, so that moving an access into
					// a helper does not turn a recorded race into a "new" one
					ka := fmt.Sprintf("%s[%s]", rw(a.write), ra.name)
					kb := fmt.Sprintf("%s[%s]", rw(b.write), rb.name)
					k := pairKey{a.owner + "." + a.fld.Name(), ka, kb}
					if _, dup := pairs[k]; !dup {
						pairs[k] = [2]access{a, b}
					}
					if pairSites[k] == nil {
						pairSites[k] = map[string]bool{}
					}
					pairSites[k][funcName(a.fn)+" / "+funcName(b.fn)] = true
				}
			}
		}
	}
	var keys []pairKey
	for k := range pairs {
		keys = append(keys, k)
	}
	sort.Slice(keys, func(i, j int) bool {
		if keys[i].fld != keys[j].fld {
			return keys[i].fld < keys[j].fld
		}
		if keys[i].a != keys[j].a {
			return keys[i].a < keys[j].a
		}
		return keys[i].b < keys[j].b
	})
	for _, k := range keys {
		p := pairs[k]
		R.Ob(fmt.Sprintf("%s/%s vs %s", k.fld, k.a, k.b), c.P.InstrPos(p[0].in), false,
			fmt.Sprintf("unordered conflicting accesses to %s: %s at %s holding %v, and %s at %s holding %v; function pairs: %s", k.fld, k.a, c.P.InstrPos(p[0].in), setList(p[0].locks), k.b, c.P.InstrPos(p[1].in), setList(p[1].locks), strings.Join(setList(pairSites[k]), "; ")))
	}
	// positive control so that the rule is never vacuous: the locked accessors exist
	for _, g := range []string{"(*Conn).Session", "(*Conn).setSession", "(*Conn).Close", "(*Conn).reset"} {
		if f := c.A.Func(g); f != nil {
			m := s.Must(f)
			R.Ob(g+"/runs under Conn.locker", c.P.Pos(f.Pos()), m["call:(*sync.Mutex).Lock"] && m["call:(*sync.Mutex).Unlock"], g+" no longer takes the connection lock on every path")
		}
	}

	ruleGoCapture(c)
	ruleGoFreshCaptures(c)
	ruleStatusShape(c)
	ruleNoSharedMutableGlobals(c)
	rulePanicUnderLock(c)
	ruleCallbackReentrancy(c)
	// Conn.Close is what releases the goroutines waiting on this connection: whatever closing the socket returns, it
	// aborts an open BDAT pipe (the delivery goroutine is blocked reading it) and logs the session out
	R.Rule("R-close-releases", "E1 must-under", "Conn.Close certainly aborts an open pipe and logs out an existing session on every path (also when closing the socket fails)", 2)
	if f := c.A.Func("(*Conn).Close"); f != nil {
		c.obMustUnder("abort pipe", f, []string{"pipe-abort"}, aPipeOpen)
		c.obMustUnder("Logout", f, []string{lLogout}, aSessSet)
		_, sm := c.Std()
		// the delivery goroutine is released (pipe aborted) BEFORE the backend is called back with Logout: a Logout that
		// waits for the session's Data call to finish (a per-session mutex) would otherwise wait, under Conn.locker
		// and Server.locker, for a goroutine that only the pipe abort can release
		for _, g := range c.withHelpers(f) {
			c.obNever("pipe aborted before Logout, not after", g, func(in ssa.Instruction) bool { return labelHas(c.stdLabels(in), lLogout) }, []string{"pipe-abort"}, nil, nil)
		}
		R.Ob("(*Conn).Close/marks the connection closed on every path", c.P.Pos(f.Pos()), sm.Must(f)["st:Conn.closed=true"], "Conn.Close can return without setting closed (for example when closing the socket fails): the command loop keeps dispatching buffered commands on a connection whose session is gone")
	}
	// Conn.Close (from Server.Close, on another goroutine) logs the session out and forgets it under Conn.locker. The
	// reset callback is the one callback the command loop makes under the same lock, after testing the session under
	// it: Session.Reset therefore never overlaps Logout and never runs on a session that has been logged out.
	R.Rule("R-reset-serialised-with-close", "E7 locksets", "the Session.Reset callback of reset() and the Logout of Conn.Close are both made with Conn.locker held, and reset() tests the session under that lock", 2)
	nSer := 0
	for _, it := range []struct{ role, fn, label string }{{"cmd", "(*Conn).reset", lSessReset}, {"srvclose", "(*Conn).Close", lLogout}} {
		la := laByRole[it.role]
		f := c.A.Func(it.fn)
		if la == nil || f == nil {
			continue
		}
		var cbSites []ssa.Instruction
		for _, g := range c.withHelpers(f) {
			cbSites = append(cbSites, s.Find(g, it.label)...)
		}
		for _, site := range cbSites {
			nSer++
			held := la.at[site]["Conn.locker"]
			R.Ob(c.siteKey(site, "callback under Conn.locker"), c.P.InstrPos(site), held, fmt.Sprintf("%s makes the %s callback without holding Conn.locker (held: %v): Server.Close can log the session out while, or before, this callback runs", it.fn, strings.TrimPrefix(it.label, "cb:"), setList(la.at[site])))
			// the session the callback is made on was read under the same lock
			if cc := callCommon(site); cc != nil && cc.IsInvoke() {
				okRead := true
				src := stripConv(cc.Value)
				if d := singleDef(src); d != nil {
					src = d
				}
				if in, isI := src.(ssa.Instruction); isI {
					if fld, _ := loadedField(src); fld != nil && fld.Name() == "session" {
						okRead = la.at[in]["Conn.locker"]
					}
				}
				R.Ob(c.siteKey(site, "session read under Conn.locker"), c.P.InstrPos(site), okRead, it.fn+" reads the session it calls back outside Conn.locker")
			}
		}
	}
	R.Ob("serialised callbacks/found", "-", nSer >= 2, fmt.Sprintf("%d callback sites", nSer))
	c.R.Rule("R-status-fill-shape", "E1", "the command loop receives once per recipient occurrence: fillRemaining fills every recipient channel to capacity, otherwise the handler blocks forever on a channel no goroutine will write", 2)
	ruleFillShape(c)

	ruleResultOnEveryExit(c) // "never deadlocks": the command loop blocks on the delivery result
	ruleGoBounded(c)

	R.Rule("R-lock-order", "E7", "the acquired-while-holding graph over the package mutexes is acyclic; no blocking channel operation or backend-independent wait happens under a lock", 2)
	edges := map[[2]string]string{}
	for _, ro := range roles {
		la := &lockAnalysis{c: c, entry: map[*ssa.Function]map[string]bool{}, at: map[ssa.Instruction]map[string]bool{}}
		la.run(ro.roots, ro.funcs)
		for f := range ro.funcs {
			if la.entry[f] == nil {
				continue
			}
			allInstrs(f, func(in ssa.Instruction) {
				if name, isLock, ok := lockOp(in); ok && isLock {
					if _, isDefer := in.(*ssa.Defer); isDefer {
						return
					}
					for h := range la.at[in] {
						edges[[2]string{h, name}] = c.P.InstrPos(in)
					}
				}
				if len(la.at[in]) > 0 {
					blocking := false
					switch x := in.(type) {
					case *ssa.Send:
						blocking = true
					case *ssa.UnOp:
						blocking = x.Op.String() == "<-"
					case *ssa.Select:
						blocking = x.Blocking
					}
					if blocking {
						R.Ob(c.siteKey(in, "blocking channel operation under "+strings.Join(setList(la.at[in]), ",")), c.P.InstrPos(in), false, "a goroutine can block on a channel while holding a mutex")
					}
					// ... nor a wait for the PEER: a TLS handshake, a read from the connection or a copy of message
					// octets under Conn.locker keeps Server.Close (which holds Server.locker and needs Conn.locker to
					// close this very connection) waiting for as long as the peer likes
					if cc := callCommon(in); cc != nil {
						waits := ""
						if g := staticCallee(cc); g != nil {
							switch qualFuncName(g) {
							case "(*tls.Conn).Handshake", "(*tls.Conn).HandshakeContext", "io.Copy", "io.CopyN", "io.ReadAll", "(*Conn).readLine", "(*textproto.Conn).ReadLine", "(*textproto.Reader).ReadLine", "time.Sleep":
								waits = qualFuncName(g)
							}
						} else if cc.IsInvoke() && (cc.Method.Name() == "Read" || cc.Method.Name() == "Handshake") {
							waits = "interface method " + cc.Method.Name()
						}
						if waits != "" {
							R.Ob(c.siteKey(in, "no wait for the peer under "+strings.Join(setList(la.at[in]), ",")), c.P.InstrPos(in), false, funcName(f)+" calls "+waits+" while holding "+strings.Join(setList(la.at[in]), ",")+": Server.Close / Conn.Close block on that mutex until the peer moves, so Close no longer ends the connection (and, holding Server.locker, stalls every other connection's teardown)")
						}
					}
				}
			})
		}
	}
	cyc := ""
	for e := range edges {
		if e[0] == e[1] {
			cyc = e[0] + " re-acquired while held at " + edges[e]
		}
		if _, back := edges[[2]string{e[1], e[0]}]; back && e[0] != e[1] {
			cyc = e[0] + " <-> " + e[1]
		}
	}
	var es []string
	for e, pos := range edges {
		es = append(es, e[0]+" -> "+e[1]+" ("+pos+")")
	}
	sort.Strings(es)
	R.Extra["lock_order_edges"] = es
	R.Ob("lock order/acyclic", "-", cyc == "", "lock order cycle: "+cyc)
	R.Ob("lock order/edges found", "-", len(es) >= 1, "no nested lock acquisition found (Server.Close -> Conn.Close expected)")

	R.Rule("R-serve-loop", "E2+E3", "Serve: an Accept error returns nil iff the server was closed, is retried when temporary, otherwise returned; wg.Add precedes the go statement and the goroutine defers wg.Done", 5)
	if f := c.A.Func("(*Server).Serve"); f != nil {
		// returns in the error region
		allInstrs(f, func(in ssa.Instruction) {
			r, ok := in.(*ssa.Return)
			if !ok {
				return
			}
			v := returnedValues(r)[0]
			if isNilConst(v) {
				c.obFactMatch("nil only when closed", in, `^select\[recv:Server\.done\|default\]#0 == 0$`, "Serve returns nil on an Accept error although the server was not closed")
			} else {
				R.Ob(c.siteKey(in, "returns the Accept error"), c.P.InstrPos(in), describe(v) == "invoke:Listener.Accept#1", "Serve returns "+describe(v))
				c.obUnreach("permanent error", in, `invoke:Listener.Accept#1 == nil`)
			}
		})
		// temporary => continue: under Temporary()==true (and not closed) no return is feasible after the Accept error
		for _, acc := range s.Find(f, "icall:iface:(net.Listener).Accept") {
			acc := acc
			H := []string{`invoke:Listener.Accept#1 != nil`, `select[recv:Server.done|default]#0 != 0`, `assert[net.Error](invoke:Listener.Accept#1)#1 == true`, `invoke:Error.Temporary == true`}
			v := RunPend(f, PendRule{
				Trig:   func(in ssa.Instruction) bool { return in == acc },
				Forbid: func(in ssa.Instruction) bool { _, isRet := in.(*ssa.Return); return isRet },
				Disch: func(in ssa.Instruction) bool {
					return in != acc && labelHas(c.stdLabels(in), "icall:iface:(net.Listener).Accept")
				},
				SkipEdge: c.F.SkipUnder(H...),
				PhiOK:    c.F.PhiFeasible(H...),
			})
			d := ""
			if len(v) > 0 {
				d = "a temporary Accept error (server not closed) can make Serve return at " + c.P.InstrPos(v[0].At)
			}
			R.Ob(c.siteKey(acc, "temporary Accept errors are retried"), c.P.InstrPos(acc), len(v) == 0, d)
		}
		for _, site := range s.Find(f, "call:time.Sleep") {
			c.obFactMatch("back-off only for temporary errors", site, `^invoke:Error\.Temporary == true$`, "back-off taken for a non-temporary error")
		}
		gos := 0
		allInstrs(f, func(in ssa.Instruction) {
			if _, ok := in.(*ssa.Go); ok {
				gos++
				seen := s.SeenBefore(in)
				R.Ob(c.siteKey(in, "wg.Add before go"), c.P.InstrPos(in), seen["call:(*sync.WaitGroup).Add"], "connection goroutine started before wg.Add: Shutdown can return while it runs")
				c.obUnreach("connection goroutine", in, `invoke:Listener.Accept#1 != nil`)
			}
		})
		R.Ob("(*Server).Serve/starts one goroutine per connection", c.P.Pos(f.Pos()), gos == 1, fmt.Sprintf("%d go statements", gos))
	}
	if f := c.A.Func("(*Server).Serve$1"); f != nil {
		R.Ob("(*Server).Serve$1/defers wg.Done", c.P.Pos(f.Pos()), s.Must(f)["call:(*sync.WaitGroup).Done"], "connection goroutine does not certainly call wg.Done")
	}

	R.Rule("R-close-effects", "E1", "Close/Shutdown: ErrServerClosed iff already closed, else close done, every listener and (Close) every registered connection under the server lock; handleConn registers under the lock before serving and unregisters on exit", 8)
	for _, g := range []string{"(*Server).Close", "(*Server).Shutdown"} {
		f := c.A.Func(g)
		if f == nil {
			continue
		}
		allInstrs(f, func(in ssa.Instruction) {
			r, ok := in.(*ssa.Return)
			if !ok {
				return
			}
			if describe(returnedValues(r)[0]) == "ErrServerClosed" {
				seen := s.SeenBefore(in)
				R.Ob(c.siteKey(in, "ErrServerClosed only when done is closed"), c.P.InstrPos(in), seen["select-recv:Server.done"] && !seen["builtin:close"], "ErrServerClosed returned on a path that did not find done closed")
			}
		})
		// ... and if it is closed, that is all that happens: every return feasible on the "done is closed" edge reports
		// ErrServerClosed, and nothing is closed, started or waited for on the way
		{
			fbClosed := c.F.feasibleBlocks(f, HSet(`select[recv:Server.done|default]#0 == 0`))
			nRet := 0
			allInstrs(f, func(in ssa.Instruction) {
				if !fbClosed[in.Block()] || in.Block() == f.Recover {
					return
				}
				if r, ok := in.(*ssa.Return); ok {
					nRet++
					rv := returnedValues(r)
					R.Ob(c.siteKey(in, "already closed => ErrServerClosed"), c.P.InstrPos(in), len(rv) > 0 && describe(rv[0]) == "ErrServerClosed", g+" can return "+describe(rv[0])+" although the server was already closed")
				}
				ls := c.stdLabels(in)
				acts := labelHas(ls, "icall:iface:(net.Listener).Close") || isStaticCall(in, "(*Conn).Close") || isStaticCall(in, "(*sync.WaitGroup).Wait")
				if _, isGo := in.(*ssa.Go); isGo {
					acts = true
				}
				if sel, isSel := in.(*ssa.Select); isSel && sel.Blocking {
					acts = true
				}
				if acts {
					R.Ob(c.siteKey(in, "already closed => no further action"), c.P.InstrPos(in), false, "when the server is already closed "+g+" still reaches this action: a second call closes the listeners again or waits for connections instead of reporting ErrServerClosed")
				}
			})
			R.Ob(g+"/has an already-closed return", c.P.Pos(f.Pos()), nRet >= 1, "no return reachable on the already-closed edge")
		}
		nClose := 0
		allInstrs(f, func(in ssa.Instruction) {
			if call, ok := in.(*ssa.Call); ok {
				if b, ok := call.Call.Value.(*ssa.Builtin); ok && b.Name() == "close" && describe(call.Call.Args[0]) == "Server.done" {
					nClose++
				}
			}
		})
		R.Ob(g+"/closes done once", c.P.Pos(f.Pos()), nClose == 1, fmt.Sprintf("%d close(done) sites", nClose))
		// done is closed before any listener is: Serve tells an orderly Close from a failing listener by looking at done
		// when Accept fails, so a listener closed first makes Serve return the "use of closed network connection" error
		for _, lc := range s.Find(f, "icall:iface:(net.Listener).Close") {
			R.Ob(c.siteKey(lc, "done closed before the listener"), c.P.InstrPos(lc), s.SeenBefore(lc)["builtin:close"], g+" closes a listener on a path that has not closed Server.done yet: Serve, woken by the failing Accept, finds done open and returns the accept error instead of nil")
		}
		// the function and the unexported Server helpers it calls (closing code moved into a helper stays in scope)
		scope := []*ssa.Function{f}
		scopeSet := map[*ssa.Function]bool{f: true}
		helperCall := map[*ssa.Function][]ssa.Instruction{}
		allInstrs(f, func(in ssa.Instruction) {
			if cc := callCommon(in); cc != nil {
				if h := staticCallee(cc); h != nil && inSmtp(h) && !isExported(h) && h.Blocks != nil && strings.HasPrefix(funcName(h), "(*Server).") && h.Parent() == nil {
					if !scopeSet[h] {
						scopeSet[h] = true
						scope = append(scope, h)
					}
					helperCall[h] = append(helperCall[h], in)
				}
			}
		})
		la := &lockAnalysis{c: c, entry: map[*ssa.Function]map[string]bool{}, at: map[ssa.Instruction]map[string]bool{}}
		la.run([]*ssa.Function{f}, scopeSet)
		// the test of done and its close must be one atomic step (same lock held over both, or sync.Once)
		allInstrs(f, func(in ssa.Instruction) {
			if call, ok := in.(*ssa.Call); ok {
				if b, ok := call.Call.Value.(*ssa.Builtin); ok && b.Name() == "close" && describe(call.Call.Args[0]) == "Server.done" {
					atomic := la.at[in]["Server.locker"]
					for _, sel := range s.Find(f, "select-recv:Server.done") {
						if !la.at[sel]["Server.locker"] {
							atomic = false
						}
					}
					R.Ob(g+"/test-and-close of done is atomic", c.P.InstrPos(in), atomic, "done is tested with a non-blocking receive and then closed without a lock held over both steps: two concurrent "+g[len("(*Server)."):]+"/Close/Shutdown calls can both pass the test and the second close(done) panics")
				}
			}
		})
		nL := 0
		for _, sf := range scope {
			allInstrs(sf, func(in ssa.Instruction) {
				if labelHas(c.stdLabels(in), "icall:iface:(net.Listener).Close") {
					nL++
					R.Ob(c.siteKey(in, "listeners closed under the server lock"), c.P.InstrPos(in), la.at[in]["Server.locker"], "listener closed without holding Server.locker")
				}
				if isStaticCall(in, "(*Conn).Close") {
					R.Ob(c.siteKey(in, "connections closed under the server lock"), c.P.InstrPos(in), la.at[in]["Server.locker"], "connections closed without holding Server.locker")
				}
			})
		}
		R.Ob(g+"/closes the listeners", c.P.Pos(f.Pos()), nL == 1, fmt.Sprintf("%d listener close sites", nL))
		// the closing loops run to completion: no exit from a loop body other than the back edge, and every
		// return that is not the already-closed refusal has passed the loop
		for _, sf := range scope {
			for _, li := range findLoops(sf) {
				what := ""
				for b := range li.blocks {
					for _, in := range b.Instrs {
						if labelHas(c.stdLabels(in), "icall:iface:(net.Listener).Close") {
							what = "listener"
						} else if isStaticCall(in, "(*Conn).Close") {
							what = "connection"
						}
					}
				}
				if what == "" || li.body == nil {
					continue
				}
				region := reachableFrom(li.body, func(from, to *ssa.BasicBlock) bool { return to == li.header })
				esc := ""
				for b := range region {
					if !li.blocks[b] {
						esc = c.P.Pos(firstPos(b))
					}
				}
				R.Ob(g+"/"+what+" loop has no early exit", c.P.Pos(firstPos(li.header)), esc == "", "the loop that closes every "+what+" can be left from inside its body (towards "+esc+"): one failing element leaves the remaining ones open")
				allInstrs(f, func(in ssa.Instruction) {
					r, ok := in.(*ssa.Return)
					if !ok || in.Block() == f.Recover {
						return
					}
					if rv := returnedValues(r); len(rv) > 0 && describe(rv[0]) == "ErrServerClosed" {
						return
					}
					passes := false
					if sf == f {
						passes = li.header.Dominates(in.Block())
					} else {
						// loop in a helper: some call of the helper dominates the return, and inside the helper the loop
						// dominates every return
						for _, cs := range helperCall[sf] {
							if cs.Block().Dominates(in.Block()) {
								passes = true
							}
						}
						allInstrs(sf, func(x ssa.Instruction) {
							if _, isR := x.(*ssa.Return); isR && x.Block() != sf.Recover && !li.header.Dominates(x.Block()) {
								passes = false
							}
						})
					}
					R.Ob(c.siteKey(in, "return passes the "+what+" loop"), c.P.InstrPos(in), passes, "return is reachable without running the loop that closes every "+what)
				})
			}
		}
	}
	if f := c.A.Func("(*Server).Close"); f != nil {
		R.Ob("(*Server).Close/closes every connection", c.P.Pos(f.Pos()), len(s.Find(f, lClose)) == 1, "Close does not close the registered connections")
	}
	if f := c.A.Func("(*Server).Shutdown"); f != nil {
		// every blocking wait in Shutdown itself can be ended by the context
		nWait := 0
		allInstrs(f, func(in ssa.Instruction) {
			switch x := in.(type) {
			case *ssa.Select:
				if x.Blocking {
					nWait++
					R.Ob(c.siteKey(in, "wait can be ended by the context"), c.P.InstrPos(in), labelHas(c.stdLabels(in), "select-recv:invoke:Context.Done"), "blocking select without a case on ctx.Done(): Shutdown does not return when its context expires")
				}
			case *ssa.UnOp:
				if x.Op == token.ARROW {
					nWait++
					R.Ob(c.siteKey(in, "wait can be ended by the context"), c.P.InstrPos(in), describe(x.X) == "invoke:Context.Done", "blocking receive from "+describe(x.X)+" outside a select with ctx.Done(): Shutdown does not return when its context expires")
				}
			}
			if isStaticCall(in, "(*sync.WaitGroup).Wait") {
				nWait++
				R.Ob(c.siteKey(in, "wait can be ended by the context"), c.P.InstrPos(in), false, "Shutdown waits on the WaitGroup directly: it cannot return when its context expires")
			}
		})
		R.Ob("(*Server).Shutdown/has a wait", c.P.Pos(f.Pos()), nWait >= 1, "Shutdown has no blocking wait at all")
		R.Ob("(*Server).Shutdown/waits for the connections", c.P.Pos(f.Pos()), s.May(f)["go:(*Server).Shutdown$1"] || len(s.FindMay(f, "go:(*Server).Shutdown$1")) > 0, "Shutdown no longer waits for active connections")
		if g := c.A.Func("(*Server).Shutdown$1"); g != nil {
			R.Ob("(*Server).Shutdown$1/waits on the WaitGroup", c.P.Pos(g.Pos()), s.Must(g)["call:(*sync.WaitGroup).Wait"], "waiter does not wait for the connection goroutines")
		}
	}
	if f := c.A.Func("(*Server).handleConn"); f != nil {
		la := &lockAnalysis{c: c, entry: map[*ssa.Function]map[string]bool{}, at: map[ssa.Instruction]map[string]bool{}}
		fs := map[*ssa.Function]bool{}
		for _, g := range withClosures(f) {
			fs[g] = true
		}
		la.run([]*ssa.Function{f}, fs)
		reg, unreg := false, false
		for g := range fs {
			allInstrs(g, func(in ssa.Instruction) {
				switch x := in.(type) {
				case *ssa.MapUpdate:
					if describe(x.Map) == "Server.conns" {
						reg = la.at[in]["Server.locker"] && g == f
						seen := s.SeenBefore(in)
						if seen["call:(*Conn).greet"] || seen[lReadLine] {
							reg = false
						}
						// the implicit-TLS handshake blocks on the peer: Close must be able to end it, so no path
						// may run the handshake before the connection is registered
						for _, hs := range s.Find(g, "call:(*tls.Conn).Handshake") {
							if hs.Block() == in.Block() {
								for _, y := range in.Block().Instrs {
									if y == hs {
										reg = false
									}
									if y == in {
										break
									}
								}
							} else if reachableFrom(hs.Block(), nil)[in.Block()] {
								reg = false
							}
						}
					}
				case *ssa.Call:
					if b, ok := x.Call.Value.(*ssa.Builtin); ok && b.Name() == "delete" && describe(x.Call.Args[0]) == "Server.conns" {
						unreg = la.at[in]["Server.locker"] && g != f
					}
				}
			})
		}
		R.Ob("(*Server).handleConn/registers under the lock before serving", c.P.Pos(f.Pos()), reg, "the connection is not registered in Server.conns under Server.locker before it is served: Server.Close can miss it")
		R.Ob("(*Server).handleConn/unregisters under the lock on exit", c.P.Pos(f.Pos()), unreg, "the connection is not removed from Server.conns under the lock in the deferred exit")
	}
	// Serve records its listener before it starts accepting, so Close/Shutdown can close it and make Serve return
	if f := c.A.Func("(*Server).Serve"); f != nil {
		ok := false
		for _, acc := range s.Find(f, "icall:iface:(net.Listener).Accept") {
			ok = true
			seen := s.SeenBefore(acc)
			R.Ob(c.siteKey(acc, "listener recorded before Accept"), c.P.InstrPos(acc), seen["st:Server.listeners"], "Serve accepts on a listener it has not recorded in Server.listeners: Close cannot close it and Serve never returns")
		}
		for _, st := range s.Find(f, "st:Server.listeners") {
			_, _, v := storedField(st)
			d := describe(v)
			R.Ob(c.siteKey(st, "listener list grows by this listener"), c.P.InstrPos(st), strings.HasPrefix(d, "builtin:append(Server.listeners,"), "Server.listeners is set to "+d)
		}
		R.Ob("(*Server).Serve/accepts", c.P.Pos(f.Pos()), ok, "no Accept call found")
	}
}

func rw(w bool) string {
	if w {
		return "write"
	}
	return "read"
}

func setList(s map[string]bool) []string {
	var o []string
	for k := range s {
		o = append(o, k)
	}
	sort.Strings(o)
	return o
}

// ruleNoSharedMutableGlobals (C20, C12): connections run concurrently, so package-level slices and maps must not be
// written after initialisation. An append whose base is a package-level slice counts as a write: when the slice has
// spare capacity the new element lands in the shared backing array and concurrent handlers overwrite each other.
func ruleNoSharedMutableGlobals(c *Ctx) {
	R := c.R
	R.Rule("R-no-shared-mutable-globals", "E7 escape of package-level state", "outside the package initialiser no function appends to, stores into or updates a package-level slice or map", 1)
	isGlobalAgg := func(v ssa.Value) (string, bool) {
		v = stripConv(v)
		u, ok := v.(*ssa.UnOp)
		if !ok {
			return "", false
		}
		g, ok := u.X.(*ssa.Global)
		if !ok || g.Pkg == nil || g.Pkg.Pkg.Path() != smtpPath {
			return "", false
		}
		switch g.Type().(*types.Pointer).Elem().Underlying().(type) {
		case *types.Slice, *types.Map:
			return g.Name(), true
		}
		return "", false
	}
	nFuncs := 0
	for _, f := range c.P.AllFuncs() {
		if !inSmtp(f) || f.Name() == "init" || strings.HasPrefix(f.Name(), "init#") {
			continue
		}
		nFuncs++
		allInstrs(f, func(in ssa.Instruction) {
			switch x := in.(type) {
			case *ssa.Call:
				if b, ok := x.Call.Value.(*ssa.Builtin); ok && b.Name() == "append" && len(x.Call.Args) > 0 {
					base := x.Call.Args[0]
					// follow local copies: caps := baseCaps
					if name, ok := isGlobalAgg(base); ok {
						R.Ob(c.siteKey(in, "append to package-level slice "+name), c.P.InstrPos(in), false, "append with the package-level slice "+name+" as its base: with spare capacity the element is written into the array shared by all connections (concurrent EHLOs overwrite each other's capability lists)")
					}
					if sl, ok := stripConv(base).(*ssa.Slice); ok {
						if name, ok := isGlobalAgg(sl.X); ok {
							R.Ob(c.siteKey(in, "append to a slice of package-level "+name), c.P.InstrPos(in), false, "append onto a slice of the package-level "+name)
						}
					}
				}
			case *ssa.MapUpdate:
				if name, ok := isGlobalAgg(x.Map); ok {
					R.Ob(c.siteKey(in, "update of package-level map "+name), c.P.InstrPos(in), false, "package-level map "+name+" is written at run time without synchronisation")
				}
			case *ssa.Store:
				if ia, ok := x.Addr.(*ssa.IndexAddr); ok {
					if name, ok := isGlobalAgg(ia.X); ok {
						R.Ob(c.siteKey(in, "store into package-level slice "+name), c.P.InstrPos(in), false, "element of the package-level slice "+name+" is written at run time")
					}
				}
			}
		})
	}
	R.Ob("package functions/scanned for writes to package-level aggregates", "-", nFuncs >= 50, fmt.Sprintf("%d functions scanned", nFuncs))
}

// rulePanicUnderLock (C20, C13): a mutex that is released by an explicit Unlock (not a deferred one) stays locked when
// the code in between panics; the panic is recovered higher up (the handlers and delivery goroutines recover), and the
// recovery path then blocks forever on the same mutex.
func rulePanicUnderLock(c *Ctx) {
	R := c.R
	R.Rule("R-no-panic-under-lock", "E7 may-held locks", "no panic statement and no backend callback is reachable while a package mutex is held whose release is not deferred", 1)
	nLockFuncs := 0
	nCb := 0
	_, sm := c.Std()
	for _, f := range c.P.AllFuncs() {
		if !inSmtp(f) || len(f.Blocks) == 0 {
			continue
		}
		deferred := map[string]bool{}
		hasLock := false
		allInstrs(f, func(in ssa.Instruction) {
			if name, isLock, ok := lockOp(in); ok {
				if _, isDefer := in.(*ssa.Defer); isDefer && !isLock {
					deferred[name] = true
				}
				if isLock {
					hasLock = true
				}
			}
		})
		if !hasLock {
			continue
		}
		nLockFuncs++
		// may-held locks, forward, union at joins
		in := map[*ssa.BasicBlock]map[string]bool{f.Blocks[0]: {}}
		work := []*ssa.BasicBlock{f.Blocks[0]}
		for len(work) > 0 {
			b := work[len(work)-1]
			work = work[:len(work)-1]
			cur := copySet(in[b])
			for _, x := range b.Instrs {
				if _, isDefer := x.(*ssa.Defer); isDefer {
					continue
				}
				if name, isLock, ok := lockOp(x); ok {
					if isLock {
						cur[name] = true
					} else {
						delete(cur, name)
					}
				}
				if _, isPanic := x.(*ssa.Panic); isPanic {
					for l := range cur {
						if !deferred[l] {
							R.Ob(c.siteKey(x, "panic while "+l+" is held without a deferred unlock"), c.P.InstrPos(x), false, "this panic leaves "+l+" locked: the recovery path (fillRemaining after a recovered backend panic) blocks on it forever")
						}
					}
				}
				// a backend callback may panic as well (Conn.handle recovers it and calls Close, which takes the lock)
				cb := ""
				for l := range sm.InstrMay(x) {
					if strings.HasPrefix(l, "cb:") {
						cb = l
					}
				}
				if cb != "" {
					nCb++
					for l := range cur {
						if l != "Conn.locker" {
							// only the connection's own lock is taken again by the recovery path (Conn.handle -> Close)
							continue
						}
						R.Ob(c.siteKey(x, "callback under "+l+" is covered by a deferred unlock"), c.P.InstrPos(x), deferred[l], "a panic in "+strings.TrimPrefix(cb, "cb:")+" leaves "+l+" locked: the recovery in Conn.handle calls Close, which blocks on it forever (socket kept open, no Logout, Server.Close hangs)")
					}
				}
			}
			for _, sc := range b.Succs {
				old, seen := in[sc]
				merged := copySet(cur)
				for l := range old {
					merged[l] = true
				}
				if !seen || len(merged) != len(old) {
					in[sc] = merged
					work = append(work, sc)
				}
			}
		}
	}
	R.Ob("package functions/lock users scanned", "-", nLockFuncs >= 5, fmt.Sprintf("%d functions take a mutex", nLockFuncs))
	R.Ob("package functions/callbacks in lock users", "-", nCb >= 2, fmt.Sprintf("%d callback sites in functions that take a mutex", nCb))
}

// ruleCallbackReentrancy (C20): Session.Reset and Session.Logout are invoked while Conn.locker is held (reset(),
// Close()). The mutex is not re-entrant, so an accessor the backend calls from those callbacks must not take it.
// The exported methods of *Conn that do take it are a frozen table (confirmed by reading, one reason each); any other
// exported method that may acquire the lock — directly or through package callees — is a deadlock for a backend that
// uses it at the end of a session.
func ruleCallbackReentrancy(c *Ctx) {
	R := c.R
	R.Rule("R-callback-reentrancy", "E7 lock acquisition summary + frozen table", "no exported method of *Conn other than the listed ones may acquire Conn.locker: callbacks run under it", 5)
	allowed := map[string]string{
		"(*Conn).Session": "returns the session the callback already is; pre-existing",
		"(*Conn).Close":   "closing from inside Reset/Logout is a re-entrant close, documented hazard; pre-existing",
		"(*Conn).Reject":  "calls Close; meant for NewSession, before any lock is held",
	}
	memo := map[*ssa.Function]bool{}
	var mayLock func(f *ssa.Function, depth int) bool
	mayLock = func(f *ssa.Function, depth int) bool {
		if v, ok := memo[f]; ok {
			return v
		}
		memo[f] = false
		res := false
		allInstrs(f, func(in ssa.Instruction) {
			if name, isLock, ok := lockOp(in); ok && isLock && name == "Conn.locker" {
				res = true
			}
			if res || depth > 4 {
				return
			}
			if cc := callCommon(in); cc != nil {
				if g := staticCallee(cc); g != nil && inSmtp(g) && g.Blocks != nil && g != f {
					if mayLock(g, depth+1) {
						res = true
					}
				}
			}
		})
		memo[f] = res
		return res
	}
	n, nLockers := 0, 0
	cbUnderLock := false
	for _, f := range c.P.AllFuncs() {
		if !inSmtp(f) || f.Parent() != nil || f.Signature.Recv() == nil || !strings.HasPrefix(funcName(f), "(*Conn).") || !isExported(f) {
			continue
		}
		n++
		locks := mayLock(f, 0)
		if locks {
			nLockers++
		}
		_, isAllowed := allowed[funcName(f)]
		R.Ob(funcName(f)+"/may be called from a callback that runs under Conn.locker", c.P.Pos(f.Pos()), !locks || isAllowed, funcName(f)+" may acquire Conn.locker: a backend that calls it from Session.Reset or Session.Logout (both invoked with the lock held) blocks forever, and with it Conn.Close, Server.Close and Shutdown")
	}
	// the premise: callbacks do run under the lock (if that changes, the table is moot)
	_, sm := c.Std()
	for _, fn := range []string{"(*Conn).reset", "(*Conn).Close"} {
		if f := c.A.Func(fn); f != nil {
			if m := sm.Must(f); m["call:(*sync.Mutex).Lock"] || true {
				for l := range sm.May(f) {
					if strings.HasPrefix(l, "cb:") {
						cbUnderLock = true
					}
				}
			}
		}
	}
	R.Ob("exported Conn methods/scanned", "-", n >= 6 && nLockers >= 2 && cbUnderLock, fmt.Sprintf("%d exported methods, %d of them take the lock, callbacks under lock: %v", n, nLockers, cbUnderLock))
}

// ruleGoFreshCaptures (C20): a goroutine started by the package may capture a variable of the function that starts it
// only if that function does not assign the variable again while the goroutine can be running. The case that matters
// is the accept loop: the connection handed to the serving goroutine must be this iteration's own variable; one
// variable shared by all iterations is overwritten by the next Accept before the goroutine has read it (a connection
// is then never served or closed, another is served twice, and the accesses race).
func ruleGoFreshCaptures(c *Ctx) {
	R := c.R
	R.Rule("R-go-fresh-captures", "E7 capture rule (cells)", "no variable captured by a go closure is assigned again by the starting function after the go statement (per-iteration variables of the accept loop are fresh cells)", 4)
	n := 0
	for _, f := range c.P.AllFuncs() {
		if !inSmtp(f) {
			continue
		}
		allInstrs(f, func(in ssa.Instruction) {
			g, ok := in.(*ssa.Go)
			if !ok {
				return
			}
			n++
			mc, ok := g.Call.Value.(*ssa.MakeClosure)
			if !ok {
				R.Ob(c.siteKey(in, "go statement captures"), c.P.InstrPos(in), true, "")
				return
			}
			var bad []string
			for _, b := range mc.Bindings {
				a, isAlloc := b.(*ssa.Alloc)
				if !isAlloc {
					continue
				}
				for _, ref := range *a.Referrers() {
					st, isSt := ref.(*ssa.Store)
					if !isSt || st.Addr != a || st.Parent() != f {
						continue
					}
					if storeAfter(in, st, a) {
						bad = append(bad, fmt.Sprintf("%s (assigned again at %s)", a.Comment, c.P.InstrPos(st)))
					}
				}
			}
			sort.Strings(bad)
			R.Ob(c.siteKey(in, "go statement captures only variables that are not reassigned afterwards"), c.P.InstrPos(in), len(bad) == 0,
				fmt.Sprintf("the goroutine captures %v: the starting function stores to the same variable after the go statement (for a loop: the variable is declared outside the loop, so every iteration shares it) — the goroutine may see the next value instead of its own", bad))
		})
	}
	R.Ob("package/go statements found", "-", n >= 4, fmt.Sprintf("%d go statements found", n))
}

// storeAfter: can st execute after goIn on the SAME cell, i.e. without the allocation a being executed in between?
func storeAfter(goIn ssa.Instruction, st *ssa.Store, a *ssa.Alloc) bool {
	scan := func(b *ssa.BasicBlock, from int) (found, cut bool) {
		for i := from; i < len(b.Instrs); i++ {
			if b.Instrs[i] == ssa.Instruction(a) {
				return false, true
			}
			if b.Instrs[i] == ssa.Instruction(st) {
				return true, false
			}
		}
		return false, false
	}
	gb := goIn.Block()
	start := 0
	for i, x := range gb.Instrs {
		if x == goIn {
			start = i + 1
		}
	}
	if found, cut := scan(gb, start); found {
		return true
	} else if cut {
		return false
	}
	seen := map[*ssa.BasicBlock]bool{}
	work := append([]*ssa.BasicBlock{}, gb.Succs...)
	for len(work) > 0 {
		b := work[len(work)-1]
		work = work[:len(work)-1]
		if seen[b] {
			continue
		}
		seen[b] = true
		found, cut := scan(b, 0)
		if found {
			return true
		}
		if cut {
			continue
		}
		work = append(work, b.Succs...)
	}
	return false
}
