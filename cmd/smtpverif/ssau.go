package main

import (
	"fmt"
	"go/constant"
	"go/token"
	"go/types"
	"sort"
	"strings"
	"sync"

	"golang.org/x/tools/go/ssa"
)

// ---------- callee resolution ----------

// callCommon returns the CallCommon of a Call/Go/Defer instruction.
func callCommon(in ssa.Instruction) *ssa.CallCommon {
	switch c := in.(type) {
	case *ssa.Call:
		return &c.Call
	case *ssa.Go:
		return &c.Call
	case *ssa.Defer:
		return &c.Call
	}
	return nil
}

// staticCallee resolves the function called (function, method or closure
// literal), or nil for dynamic calls.
func staticCallee(cc *ssa.CallCommon) *ssa.Function {
	if cc == nil {
		return nil
	}
	if f := cc.StaticCallee(); f != nil {
		return f
	}
	return nil
}

// ifaceCallee returns the interface method invoked (for invoke-mode calls).
func ifaceCallee(cc *ssa.CallCommon) *types.Func {
	if cc == nil || !cc.IsInvoke() {
		return nil
	}
	return cc.Method
}

// calleeName gives a printable name of the callee, "pkg.Func", "(T).M",
// "iface:(Session).Data", "builtin:len", or "dynamic".
func calleeName(cc *ssa.CallCommon) string {
	if cc == nil {
		return ""
	}
	if m := ifaceCallee(cc); m != nil {
		recv := types.TypeString(cc.Value.Type(), func(p *types.Package) string { return p.Name() })
		return "iface:(" + recv + ")." + m.Name()
	}
	if f := staticCallee(cc); f != nil {
		return qualFuncName(f)
	}
	if b, ok := cc.Value.(*ssa.Builtin); ok {
		return "builtin:" + b.Name()
	}
	return "dynamic"
}

// qualFuncName: "io.Copy", "(*net/textproto.Conn).PrintfLine" style (package
// name, not path) and for smtp package functions the funcName() form.
func qualFuncName(f *ssa.Function) string {
	if f.Pkg != nil && f.Pkg.Pkg.Path() == smtpPath {
		return funcName(f)
	}
	if f.Parent() != nil {
		return qualFuncName(f.Parent()) + "$" + f.Name()
	}
	pk := ""
	if f.Pkg != nil {
		pk = f.Pkg.Pkg.Name()
	} else if o := f.Object(); o != nil && o.Pkg() != nil {
		pk = o.Pkg().Name()
	}
	if recv := f.Signature.Recv(); recv != nil {
		return "(" + types.TypeString(recv.Type(), func(p *types.Package) string { return p.Name() }) + ")." + f.Name()
	}
	return pk + "." + f.Name()
}

// isIfaceCall reports whether in invokes the given interface method (by
// object identity or, for embedded interfaces, by name on a type implementing
// the named interface).
func isIfaceCall(in ssa.Instruction, m *types.Func) bool {
	cc := callCommon(in)
	if cc == nil || m == nil {
		return false
	}
	got := ifaceCallee(cc)
	if got == nil {
		return false
	}
	if got == m {
		return true
	}
	// embedded: LMTPSession embeds Session; method object is the same
	// *types.Func in go/types, so identity suffices. Fall back on name+sig.
	return got.Name() == m.Name() && types.Identical(got.Type().(*types.Signature).Params(), m.Type().(*types.Signature).Params()) && got.Pkg() == m.Pkg()
}

func isStaticCall(in ssa.Instruction, name string) bool {
	cc := callCommon(in)
	if cc == nil {
		return false
	}
	f := staticCallee(cc)
	return f != nil && qualFuncName(f) == name
}

// ---------- values ----------

// stripConv removes value-preserving wrappers.
func stripConv(v ssa.Value) ssa.Value {
	for {
		switch x := v.(type) {
		case *ssa.ChangeType:
			v = x.X
		case *ssa.Convert:
			v = x.X
		case *ssa.MakeInterface:
			v = x.X
		case *ssa.ChangeInterface:
			v = x.X
		default:
			return v
		}
	}
}

// fieldAddrOf: if v is &x.f returns the field var and base.
func fieldAddrOf(v ssa.Value) (*types.Var, ssa.Value) {
	fa, ok := v.(*ssa.FieldAddr)
	if !ok {
		return nil, nil
	}
	pt, ok := fa.X.Type().Underlying().(*types.Pointer)
	if !ok {
		return nil, nil
	}
	st, ok := pt.Elem().Underlying().(*types.Struct)
	if !ok {
		return nil, nil
	}
	return st.Field(fa.Field), fa.X
}

// loadedField: if v is a load *(&x.f) (or a Field extract of a struct value)
// returns the field.
func loadedField(v ssa.Value) (*types.Var, ssa.Value) {
	switch x := v.(type) {
	case *ssa.UnOp:
		if x.Op == token.MUL {
			return fieldAddrOf(x.X)
		}
	case *ssa.Field:
		if st, ok := x.X.Type().Underlying().(*types.Struct); ok {
			return st.Field(x.Field), x.X
		}
	}
	return nil, nil
}

// storedField: if in is a store to &x.f returns field, base and value.
func storedField(in ssa.Instruction) (*types.Var, ssa.Value, ssa.Value) {
	st, ok := in.(*ssa.Store)
	if !ok {
		return nil, nil, nil
	}
	f, base := fieldAddrOf(st.Addr)
	if f == nil {
		return nil, nil, nil
	}
	return f, base, st.Val
}

func constVal(v ssa.Value) (constant.Value, bool) {
	c, ok := stripConv(v).(*ssa.Const)
	if !ok {
		return nil, false
	}
	return c.Value, true // nil Value means nil/zero const
}

func isNilConst(v ssa.Value) bool {
	c, ok := v.(*ssa.Const)
	return ok && c.Value == nil
}

func constInt(v ssa.Value) (int64, bool) {
	c, ok := stripConv(v).(*ssa.Const)
	if !ok || c.Value == nil {
		return 0, false
	}
	if c.Value.Kind() != constant.Int {
		return 0, false
	}
	i, ok := constant.Int64Val(c.Value)
	return i, ok
}

func constString(v ssa.Value) (string, bool) {
	c, ok := stripConv(v).(*ssa.Const)
	if !ok || c.Value == nil || c.Value.Kind() != constant.String {
		return "", false
	}
	return constant.StringVal(c.Value), true
}

func constBool(v ssa.Value) (bool, bool) {
	c, ok := stripConv(v).(*ssa.Const)
	if !ok || c.Value == nil || c.Value.Kind() != constant.Bool {
		return false, false
	}
	return constant.BoolVal(c.Value), true
}

// typeShort prints a type with package names only.
func typeShort(t types.Type) string {
	return types.TypeString(t, func(p *types.Package) string {
		if p.Path() == smtpPath {
			return ""
		}
		return p.Name()
	})
}

// fieldDesc: "Conn.helo"
func fieldDesc(f *types.Var, base ssa.Value) string {
	t := base.Type()
	if pt, ok := t.Underlying().(*types.Pointer); ok {
		t = pt.Elem()
	}
	return typeShort(t) + "." + f.Name()
}

// describe gives a structural, line-independent description of a value:
// field loads by Type.field chains, constants by value, calls by callee and
// argument descriptions, parameters by index.
func describe(v ssa.Value) string { return describeD(v, 0) }

func describeD(v ssa.Value, depth int) string {
	if v == nil {
		return "<nil>"
	}
	if depth > 12 {
		return "?deep"
	}
	switch x := v.(type) {
	case *ssa.Const:
		if x.Value == nil {
			if _, ok := x.Type().Underlying().(*types.Basic); ok {
				return "0"
			}
			return "nil"
		}
		return x.Value.ExactString()
	case *ssa.Parameter:
		for i, p := range x.Parent().Params {
			if p == x {
				return fmt.Sprintf("param%d", i)
			}
		}
		return "param?"
	case *ssa.FreeVar:
		return "free:" + x.Name()
	case *ssa.Global:
		return x.Name()
	case *ssa.Function:
		return qualFuncName(x)
	case *ssa.ChangeType:
		return describeD(x.X, depth)
	case *ssa.Convert:
		return describeD(x.X, depth)
	case *ssa.MakeInterface:
		return describeD(x.X, depth)
	case *ssa.ChangeInterface:
		return describeD(x.X, depth)
	case *ssa.UnOp:
		switch x.Op {
		case token.MUL:
			if d := singleDef(x); d != nil {
				return describeD(d, depth+1)
			}
			if f, base := fieldAddrOf(x.X); f != nil {
				// field of a (pointer to a) named struct: identified by
				// Type.field, whatever expression yields the struct
				t := base.Type()
				if pt, ok := t.Underlying().(*types.Pointer); ok {
					t = pt.Elem()
				}
				if _, ok := t.(*types.Named); ok {
					return fieldDesc(f, base)
				}
				return describeD(base, depth+1) + "." + f.Name()
			}
			if g, ok := x.X.(*ssa.Global); ok {
				return g.Name()
			}
			if fv, ok := x.X.(*ssa.FreeVar); ok {
				return "free:" + fv.Name()
			}
			if ia, ok := x.X.(*ssa.IndexAddr); ok {
				return describeD(ia.X, depth+1) + "[" + describeD(ia.Index, depth+1) + "]"
			}
			if a, ok := x.X.(*ssa.Alloc); ok {
				return "local:" + allocName(a)
			}
			return "*" + describeD(x.X, depth+1)
		case token.NOT:
			return "!" + describeD(x.X, depth+1)
		case token.ARROW:
			return "<-" + describeD(x.X, depth+1)
		case token.SUB:
			return "-" + describeD(x.X, depth+1)
		}
	case *ssa.Field:
		if st, ok := x.X.Type().Underlying().(*types.Struct); ok {
			return describeD(x.X, depth+1) + "." + st.Field(x.Field).Name()
		}
	case *ssa.FieldAddr:
		if f, base := fieldAddrOf(x); f != nil {
			return "&" + fieldDesc(f, base)
		}
	case *ssa.BinOp:
		return "(" + describeD(x.X, depth+1) + " " + x.Op.String() + " " + describeD(x.Y, depth+1) + ")"
	case *ssa.Call:
		if g := staticCallee(&x.Call); g != nil && inSmtp(g) {
			if fd := getterField(g); fd != "" && len(x.Call.Args) == 1 {
				return fd // locked or plain accessor: identified with the field it returns
			}
		}
		cn := calleeName(&x.Call)
		var as []string
		if x.Call.IsInvoke() {
			// callbacks are identified by interface and method only
			return "invoke:" + recvName(&x.Call) + "." + x.Call.Method.Name()
		}
		for _, a := range x.Call.Args {
			as = append(as, describeD(a, depth+1))
		}
		return cn + "(" + strings.Join(as, ",") + ")"
	case *ssa.Extract:
		return describeD(x.Tuple, depth+1) + fmt.Sprintf("#%d", x.Index)
	case *ssa.TypeAssert:
		s := "assert[" + typeShort(x.AssertedType) + "](" + describeD(x.X, depth+1) + ")"
		return s
	case *ssa.Lookup:
		return describeD(x.X, depth+1) + "[" + describeD(x.Index, depth+1) + "]"
	case *ssa.Index:
		return describeD(x.X, depth+1) + "[" + describeD(x.Index, depth+1) + "]"
	case *ssa.Slice:
		return "slice(" + describeD(x.X, depth+1) + ")"
	case *ssa.Phi:
		if isLoopCarried(x) {
			// loop-carried variable (range index, counter): named by its
			// comment and the ordinal of its block among equally named ones
			k := 0
			for _, b := range x.Parent().Blocks {
				if b == x.Block() {
					break
				}
				if b.Comment == x.Block().Comment {
					k++
				}
			}
			return fmt.Sprintf("loopvar:%s@%s#%d", loopVarName(x), x.Block().Comment, k)
		}
		var es []string
		for _, e := range x.Edges {
			if e == v {
				continue
			}
			if _, isPhi := e.(*ssa.Phi); isPhi {
				es = append(es, "phi")
				continue
			}
			es = append(es, describeD(e, depth+2))
		}
		sort.Strings(es)
		return "phi{" + strings.Join(dedup(es), "|") + "}"
	case *ssa.Alloc:
		return "alloc:" + allocName(x)
	case *ssa.MakeClosure:
		return "closure:" + describeD(x.Fn, depth+1)
	case *ssa.Next:
		return "next"
	case *ssa.MakeChan:
		return "makechan(" + describeD(x.Size, depth+1) + ")"
	case *ssa.Select:
		var ps []string
		for _, st := range x.States {
			dir := "recv:"
			if st.Dir == types.SendOnly {
				dir = "send:"
			}
			ps = append(ps, dir+describeD(st.Chan, depth+1))
		}
		if !x.Blocking {
			ps = append(ps, "default")
		}
		return "select[" + strings.Join(ps, "|") + "]"
	case *ssa.MakeMap:
		return "makemap"
	case *ssa.MakeSlice:
		return "makeslice"
	}
	return "?" + v.Name()
}

func dedup(s []string) []string {
	var out []string
	for i, x := range s {
		if i == 0 || x != s[i-1] {
			out = append(out, x)
		}
	}
	return out
}

// ---------- graph helpers ----------

// reachableFrom returns blocks reachable from start (inclusive) following
// successor edges, optionally skipping some edges.
func reachableFrom(start *ssa.BasicBlock, skipEdge func(from, to *ssa.BasicBlock) bool) map[*ssa.BasicBlock]bool {
	seen := map[*ssa.BasicBlock]bool{start: true}
	work := []*ssa.BasicBlock{start}
	for len(work) > 0 {
		b := work[len(work)-1]
		work = work[:len(work)-1]
		for _, s := range b.Succs {
			if skipEdge != nil && skipEdge(b, s) {
				continue
			}
			if !seen[s] {
				seen[s] = true
				work = append(work, s)
			}
		}
	}
	return seen
}

// instrIndex returns the index of in within its block.
func instrIndex(in ssa.Instruction) int {
	for i, x := range in.Block().Instrs {
		if x == in {
			return i
		}
	}
	return -1
}

// allInstrs iterates over every instruction of f (excluding the recover block
// unless includeRecover).
func allInstrs(f *ssa.Function, fn func(in ssa.Instruction)) {
	for _, b := range f.Blocks {
		for _, in := range b.Instrs {
			fn(in)
		}
	}
}

// withClosures returns f and all functions lexically nested in it.
func withClosures(f *ssa.Function) []*ssa.Function {
	out := []*ssa.Function{f}
	for _, a := range f.AnonFuncs {
		out = append(out, withClosures(a)...)
	}
	return out
}

// referrers returns the instructions that use v (nil-safe).
func referrers(v ssa.Value) []ssa.Instruction {
	r := v.Referrers()
	if r == nil {
		return nil
	}
	return *r
}

// ---------- single-definition cells ----------

var cellCache = map[ssa.Value]ssa.Value{}

// cellOf maps a free variable to the cell (Alloc) it is bound to in the
// enclosing function, when there is exactly one binding site.
func cellOf(v ssa.Value) ssa.Value {
	for depth := 0; depth < 4; depth++ {
		fv, ok := v.(*ssa.FreeVar)
		if !ok {
			return v
		}
		fn := fv.Parent()
		idx := -1
		for i, x := range fn.FreeVars {
			if x == fv {
				idx = i
			}
		}
		if fn.Parent() == nil || idx < 0 {
			return v
		}
		var bound ssa.Value
		n := 0
		allInstrs(fn.Parent(), func(in ssa.Instruction) {
			if mc, ok := in.(*ssa.MakeClosure); ok && mc.Fn == fn {
				n++
				bound = mc.Bindings[idx]
			}
		})
		if n != 1 {
			return v
		}
		v = bound
	}
	return v
}

// storesToCell collects every store to the cell, in the owning function and
// in closures that capture it.
func storesToCell(cell ssa.Value) []*ssa.Store {
	var out []*ssa.Store
	var visit func(v ssa.Value, depth int)
	visit = func(v ssa.Value, depth int) {
		if depth > 4 {
			return
		}
		for _, r := range referrers(v) {
			switch x := r.(type) {
			case *ssa.Store:
				if x.Addr == v {
					out = append(out, x)
				}
			case *ssa.MakeClosure:
				for i, b := range x.Bindings {
					if b == v {
						if fn, ok := x.Fn.(*ssa.Function); ok && i < len(fn.FreeVars) {
							visit(fn.FreeVars[i], depth+1)
						}
					}
				}
			}
		}
	}
	visit(cell, 0)
	return out
}

// singleDef: if v is a load of a local cell (Alloc or captured variable) with
// exactly one store anywhere, returns the stored value; else nil.
func singleDef(v ssa.Value) ssa.Value {
	u, ok := v.(*ssa.UnOp)
	if !ok || u.Op != token.MUL {
		return nil
	}
	switch u.X.(type) {
	case *ssa.Alloc, *ssa.FreeVar:
	default:
		return nil
	}
	if r, ok := cellCache[v]; ok {
		return r
	}
	cellCache[v] = nil
	cell := cellOf(u.X)
	if _, ok := cell.(*ssa.Alloc); !ok {
		return nil
	}
	st := storesToCell(cell)
	if len(st) != 1 {
		return nil
	}
	cellCache[v] = st[0].Val
	return st[0].Val
}

// fieldChain returns the chain of field descriptors leading to v, outermost
// first, e.g. ["Conn.text", "textproto.Conn.Reader", "textproto.Reader.R"], and
// the root value.
func fieldChain(v ssa.Value) ([]string, ssa.Value) {
	var chain []string
	for depth := 0; depth < 8; depth++ {
		v = stripConv(v)
		if d := singleDef(v); d != nil {
			v = d
			continue
		}
		if f, base := loadedField(v); f != nil {
			chain = append([]string{fieldDesc(f, base)}, chain...)
			v = base
			continue
		}
		if fa, ok := v.(*ssa.FieldAddr); ok { // embedded struct by address
			f, base := fieldAddrOf(fa)
			chain = append([]string{fieldDesc(f, base)}, chain...)
			v = base
			continue
		}
		break
	}
	return chain, v
}

// leafSources returns the descriptions of the non-phi values that can flow
// into v through phis (and single-definition cells), sorted and de-duplicated.
func leafSources(v ssa.Value) []string {
	seen := map[ssa.Value]bool{}
	set := map[string]bool{}
	var walk func(v ssa.Value)
	walk = func(v ssa.Value) {
		v = stripConvKeepIface(v)
		if seen[v] {
			return
		}
		seen[v] = true
		if d := singleDef(v); d != nil {
			walk(d)
			return
		}
		if phi, ok := v.(*ssa.Phi); ok {
			for _, e := range phi.Edges {
				walk(e)
			}
			return
		}
		set[describe(v)] = true
	}
	walk(v)
	var out []string
	for k := range set {
		out = append(out, k)
	}
	sort.Strings(out)
	return out
}

// leafSourcesThroughHelpers is leafSources, but a leaf that is result #k of a call to an unexported package function
// (not a closure) is replaced by what that function can return at #k, with the function's parameters substituted by
// the call's arguments (one level). `resp, ok := c.decodeResponse(line)` then has the sources of decodeResponse's own
// returns: decodeSASLResponse(<line>)#0 and nil.
func leafSourcesThroughHelpers(v ssa.Value, stop func(desc string) bool) []string {
	seen := map[ssa.Value]bool{}
	set := map[string]bool{}
	var walk func(v ssa.Value)
	walk = func(v ssa.Value) {
		v = stripConvKeepIface(v)
		if seen[v] {
			return
		}
		seen[v] = true
		if d := singleDef(v); d != nil {
			walk(d)
			return
		}
		if phi, ok := v.(*ssa.Phi); ok {
			for _, e := range phi.Edges {
				walk(e)
			}
			return
		}
		var call *ssa.Call
		idx := 0
		switch x := v.(type) {
		case *ssa.Extract:
			call, _ = x.Tuple.(*ssa.Call)
			idx = x.Index
		case *ssa.Call:
			call = x
		}
		if call != nil && (stop == nil || !stop(describe(v))) {
			if g := staticCallee(&call.Call); g != nil && inSmtp(g) && !isExported(g) && g.Parent() == nil && len(g.Blocks) > 0 {
				expanded := false
				allInstrs(g, func(in ssa.Instruction) {
					r, ok := in.(*ssa.Return)
					if !ok || in.Block() == g.Recover {
						return
					}
					rv := returnedValues(r)
					if idx >= len(rv) {
						return
					}
					for _, l := range leafSources(rv[idx]) {
						// substitute the callee's parameters by the arguments (longest names first: param10 before param1)
						for i := len(call.Call.Args) - 1; i >= 0; i-- {
							l = strings.ReplaceAll(l, fmt.Sprintf("param%d", i), "\x00"+fmt.Sprint(i)+"\x00")
						}
						for i := len(call.Call.Args) - 1; i >= 0; i-- {
							l = strings.ReplaceAll(l, "\x00"+fmt.Sprint(i)+"\x00", describe(call.Call.Args[i]))
						}
						set[l] = true
						expanded = true
					}
				})
				if expanded {
					return
				}
			}
		}
		set[describe(v)] = true
	}
	walk(v)
	var out []string
	for k := range set {
		out = append(out, k)
	}
	sort.Strings(out)
	return out
}

func stripConvKeepIface(v ssa.Value) ssa.Value {
	for {
		switch x := v.(type) {
		case *ssa.ChangeType:
			v = x.X
		case *ssa.Convert:
			v = x.X
		default:
			return v
		}
	}
}

// isLoopCarried: one of the phi's incoming values is computed from the phi
// itself (within a few arithmetic steps).
func isLoopCarried(phi *ssa.Phi) bool {
	var dep func(v ssa.Value, d int) bool
	dep = func(v ssa.Value, d int) bool {
		if v == ssa.Value(phi) {
			return true
		}
		if d > 3 {
			return false
		}
		switch x := v.(type) {
		case *ssa.BinOp:
			return dep(x.X, d+1) || dep(x.Y, d+1)
		case *ssa.Convert:
			return dep(x.X, d+1)
		case *ssa.Phi:
			if x == phi {
				return true
			}
			for _, e := range x.Edges {
				if e == ssa.Value(phi) {
					return true
				}
			}
		}
		return false
	}
	for _, e := range phi.Edges {
		if e != ssa.Value(phi) && dep(e, 0) {
			return true
		}
	}
	return false
}

// returnedValues resolves the values a Return yields, seeing through the
// spill cell go/ssa introduces for functions with defers (`*t0 = v;
// rundefers; t = *t0; return t`).
func returnedValues(r *ssa.Return) []ssa.Value {
	out := make([]ssa.Value, len(r.Results))
	for i, v := range r.Results {
		out[i] = v
		u, ok := v.(*ssa.UnOp)
		if !ok || u.Op != token.MUL {
			continue
		}
		a, ok := u.X.(*ssa.Alloc)
		if !ok {
			continue
		}
		// last store to the cell in the same block before the load
		var last ssa.Value
		for _, in := range r.Block().Instrs {
			if in == ssa.Instruction(u) {
				break
			}
			if st, ok := in.(*ssa.Store); ok && st.Addr == ssa.Value(a) {
				last = st.Val
			}
		}
		if last != nil {
			out[i] = last
		}
	}
	return out
}

var getterCache = map[*ssa.Function]string{}

// getterField: g is an accessor method whose only result is the value of a
// field of its receiver (possibly read under a lock); returns "Type.field".
func getterField(g *ssa.Function) string {
	if r, ok := getterCache[g]; ok {
		return r
	}
	getterCache[g] = ""
	if g.Signature.Recv() == nil || len(g.Params) != 1 || g.Signature.Results().Len() != 1 || g.Blocks == nil {
		return ""
	}
	res := ""
	n := 0
	allInstrs(g, func(in ssa.Instruction) {
		r, ok := in.(*ssa.Return)
		if !ok || in.Block() == g.Recover {
			return
		}
		n++
		v := returnedValues(r)[0]
		if f, base := loadedField(v); f != nil && base == ssa.Value(g.Params[0]) {
			res = fieldDesc(f, base)
		} else {
			res = "-"
		}
	})
	// no stores to fields, no calls other than lock operations
	pure := true
	allInstrs(g, func(in ssa.Instruction) {
		if f, _, _ := storedField(in); f != nil {
			pure = false
		}
		if cc := callCommon(in); cc != nil {
			if _, _, isLock := lockOp(in); !isLock {
				pure = false
			}
		}
	})
	if n != 1 || res == "-" || !pure {
		return ""
	}
	getterCache[g] = res
	return res
}

// parseUintOrigin follows v (through conversions and through package helpers
// that return it on their success paths) back to a strconv.ParseUint call.
// It returns the ParseUint call, the chain of (helper call, result index) it
// went through, and the value the parsed string is in the ORIGINAL frame.
type originStep struct {
	call *ssa.Call
	idx  int
}

func parseUintOrigin(v ssa.Value, depth int) (pu *ssa.Call, steps []originStep, ok bool) {
	v = stripConv(v)
	if d := singleDef(v); d != nil {
		v = stripConv(d)
	}
	ex, isEx := v.(*ssa.Extract)
	if !isEx {
		return nil, nil, false
	}
	call, isCall := ex.Tuple.(*ssa.Call)
	if !isCall {
		return nil, nil, false
	}
	g := staticCallee(&call.Call)
	if g == nil {
		return nil, nil, false
	}
	if qualFuncName(g) == "strconv.ParseUint" && ex.Index == 0 {
		return call, nil, true
	}
	if !inSmtp(g) || depth > 2 || g.Blocks == nil {
		return nil, nil, false
	}
	// every success return (nil error result, if the last result is an error) must derive from ParseUint
	res := g.Signature.Results()
	errIdx := -1
	if res.Len() > 0 && types.Identical(res.At(res.Len()-1).Type(), types.Universe.Lookup("error").Type()) {
		errIdx = res.Len() - 1
	}
	var inner *ssa.Call
	var innerSteps []originStep
	n := 0
	good := true
	// a helper that passes the error through (`return int64(v), err`) has no return with a constant nil error:
	// then every return counts
	hasNilRet := false
	allInstrs(g, func(in ssa.Instruction) {
		if r, isR := in.(*ssa.Return); isR && in.Block() != g.Recover && errIdx >= 0 && isNilConst(returnedValues(r)[errIdx]) {
			hasNilRet = true
		}
	})
	allInstrs(g, func(in ssa.Instruction) {
		r, isR := in.(*ssa.Return)
		if !isR || in.Block() == g.Recover {
			return
		}
		vals := returnedValues(r)
		if errIdx >= 0 && hasNilRet && !isNilConst(vals[errIdx]) {
			return // failure return
		}
		n++
		c2, st, ok := parseUintOrigin(vals[ex.Index], depth+1)
		if !ok {
			good = false
			return
		}
		inner, innerSteps = c2, st
	})
	if !good || n == 0 || inner == nil {
		return nil, nil, false
	}
	return inner, append([]originStep{{call, ex.Index}}, innerSteps...), true
}

// argInCallerFrame: describes value v of helper frames in terms of the
// outermost caller by substituting parameters with call arguments along steps.
func argInCallerFrame(v ssa.Value, steps []originStep) string {
	for i := len(steps) - 1; i >= 0; i-- {
		p, ok := stripConv(v).(*ssa.Parameter)
		if !ok {
			return describe(v) + " (inside helper)"
		}
		g := staticCallee(&steps[i].call.Call)
		idx := -1
		for k, q := range g.Params {
			if q == p {
				idx = k
			}
		}
		if idx < 0 || idx >= len(steps[i].call.Call.Args) {
			return "?"
		}
		v = steps[i].call.Call.Args[idx]
	}
	return describe(v)
}

// firstPos: position of the first instruction of b that has one.
func firstPos(b *ssa.BasicBlock) token.Pos {
	for _, in := range b.Instrs {
		if in.Pos().IsValid() {
			return in.Pos()
		}
	}
	for _, s := range b.Succs {
		for _, in := range s.Instrs {
			if in.Pos().IsValid() {
				return in.Pos()
			}
		}
	}
	return token.NoPos
}

// Names of local storage are independent of the identifiers chosen in the source: a variable is named by its type and
// its ordinal among the function's variables of that type (alloc:parser, alloc:parser#2), a loop-carried variable by
// its type and ordinal in its loop header. Renaming a local changes no description. go/ssa's own labels (complit,
// varargs, slicelit, new, makeslice, rangeindex, ...) are kept.
var syntheticAlloc = map[string]bool{"complit": true, "varargs": true, "slicelit": true, "new": true, "makeslice": true, "": true, "rangeindex": true, "rangeiter": true, "defers": true}

var allocNames = map[*ssa.Alloc]string{}
var allocNamesMu sync.Mutex

func allocName(a *ssa.Alloc) string {
	if syntheticAlloc[a.Comment] {
		return a.Comment
	}
	allocNamesMu.Lock()
	defer allocNamesMu.Unlock()
	if n, ok := allocNames[a]; ok {
		return n
	}
	f := a.Parent()
	count := map[string]int{}
	assign := func(x *ssa.Alloc) {
		if syntheticAlloc[x.Comment] {
			return
		}
		if _, done := allocNames[x]; done {
			return
		}
		t := typeShort(derefType(x.Type()))
		count[t]++
		if count[t] == 1 {
			allocNames[x] = t
		} else {
			allocNames[x] = fmt.Sprintf("%s#%d", t, count[t])
		}
	}
	if f != nil {
		for _, l := range f.Locals {
			assign(l)
		}
		for _, b := range f.Blocks {
			for _, in := range b.Instrs {
				if x, ok := in.(*ssa.Alloc); ok {
					assign(x)
				}
			}
		}
	}
	if n, ok := allocNames[a]; ok {
		return n
	}
	return typeShort(derefType(a.Type()))
}

func loopVarName(phi *ssa.Phi) string {
	if syntheticAlloc[phi.Comment] {
		return phi.Comment
	}
	t := typeShort(phi.Type())
	k := 0
	for _, in := range phi.Block().Instrs {
		q, ok := in.(*ssa.Phi)
		if !ok {
			break
		}
		if q == phi {
			break
		}
		if !syntheticAlloc[q.Comment] && isLoopCarried(q) && typeShort(q.Type()) == t {
			k++
		}
	}
	if k == 0 {
		return t
	}
	return fmt.Sprintf("%s.%d", t, k+1)
}
