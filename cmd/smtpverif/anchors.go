package main

import (
	"go/types"
	"sort"

	"golang.org/x/tools/go/ssa"
)

// Anchors resolves semantic roles to program objects through go/types, lazily;
// every anchor a property asks for becomes an obligation of rule "anchors".
type Anchors struct {
	p    *Program
	used map[string]bool // name -> resolved?
}

func ResolveAnchors(p *Program) *Anchors { return &Anchors{p: p, used: map[string]bool{}} }

func (a *Anchors) Field(typ, field string) *types.Var {
	v := a.p.Field(typ, field)
	a.used["field "+typ+"."+field] = v != nil
	return v
}

func (a *Anchors) Func(name string) *ssa.Function {
	f := a.p.Func(name)
	a.used["func "+name] = f != nil
	return f
}

// OptFunc resolves a function that may legitimately not exist.
func (a *Anchors) OptFunc(name string) *ssa.Function { return a.p.Func(name) }

func (a *Anchors) Iface(iface, method string) *types.Func {
	m := a.p.IfaceMethod(iface, method)
	a.used["callback "+iface+"."+method] = m != nil
	return m
}

func (a *Anchors) Object(name string) types.Object {
	o := a.p.Object(name)
	a.used["object "+name] = o != nil
	return o
}

func (a *Anchors) Named(name string) *types.Named {
	n := a.p.Named(name)
	a.used["type "+name] = n != nil
	return n
}

func (c *Ctx) anchorObligations() {}

// emitAnchors is called after the property's rules ran.
func (c *Ctx) emitAnchors() {
	var names []string
	for n := range c.A.used {
		names = append(names, n)
	}
	sort.Strings(names)
	c.R.Rule("anchors", "go/types", "every program object the rules are anchored on resolves in the current tree", 1)
	for _, n := range names {
		ok := c.A.used[n]
		d := ""
		if !ok {
			d = "anchor no longer resolves: the rules cannot vouch for renamed or removed code"
		}
		c.R.Ob("anchor/"+n, "-", ok, d)
	}
}
