package main

import (
	"fmt"
	"strings"

	"golang.org/x/tools/go/ssa"
)

func init() {
	register(&propDef{
		ID: "C02",
		Explanation: "End-of-data detection is decided by the extracted automaton table (only BOL '.' CR LF reaches the end state; compared exhaustively with the reference transducer, so LF.LF, LF.CRLF, CRLF.LF, CR.CR are covered as ordinary strings). " +
			"Resynchronisation is decided structurally on every path: after each Session.Data/LMTPData call on a DATA reader the handler passes through a drain of that reader with the size limit lifted first, the LMTP goroutine is joined after its drain, " +
			"no command line is read between the 354 reply and the drain, and exactly one reader is created per DATA.",
		Run: runC02,
	})
}

var lineReads = []string{lReadLine, "call:(*textproto.Reader).ReadLine", "call:(*textproto.Reader).ReadLineBytes", "call:(*textproto.Reader).ReadDotBytes",
	"call:(*textproto.Reader).ReadDotLines", "call:(*textproto.Reader).ReadContinuedLine", "call:(*textproto.Reader).DotReader", "call:(*textproto.Reader).ReadResponse",
	"call:(*bufio.Reader).ReadString", "call:(*bufio.Reader).ReadBytes", "call:(*bufio.Reader).ReadSlice", "call:(*bufio.Reader).ReadLine"}

// dataReaderCallbacks: Data/LMTPData call sites whose reader is the DATA reader.
func dataReaderCallbacks(c *Ctx) []ssa.Instruction {
	var out []ssa.Instruction
	for _, l := range []string{lData, lLMTPData} {
		for _, site := range c.Sites(l) {
			cc := callCommon(site)
			if len(cc.Args) > 0 && describe(cc.Args[0]) == "newDataReader(param0)" {
				out = append(out, site)
			}
		}
	}
	return out
}

func ruleDrains(c *Ctx) {
	R := c.R
	_, s := c.Std()
	cbs := dataReaderCallbacks(c)
	R.Rule("R-drain-after-data", "E2 must-pass-through", "after Session.Data/LMTPData returns, every path to the function exit drains the DATA reader, whatever the callback returned", 3)
	for _, site := range cbs {
		site := site
		c.obFollow("callback then drain", site.Parent(), func(in ssa.Instruction) bool { return in == site }, []string{"drain:*dataReader"}, nil, nil)
	}
	R.Rule("R-drain-unlimited", "E2 never-before", "the size limit is lifted (limited=false) between the callback's return and the drain, so the drain reaches the end marker of an over-limit message", 3)
	for _, site := range cbs {
		site := site
		c.obNever("no drain while the limit is armed", site.Parent(), func(in ssa.Instruction) bool { return in == site }, []string{"drain:*dataReader"}, []string{"st:dataReader.limited=false"}, nil)
	}
	R.Rule("R-lmtp-join", "E2", "the LMTP delivery signals completion only after its drain and the handler waits for that signal on every path before returning", 3)
	if f := c.A.Func("(*Conn).handleDataLMTP"); f != nil {
		for _, g := range withClosures(f) {
			if len(s.Find(g, lData))+len(s.Find(g, lLMTPData)) == 0 {
				continue
			}
			for _, snd := range s.Find(g, "chan-send:makechan(1)") {
				seen := s.SeenBefore(snd)
				R.Ob(c.siteKey(snd, "done sent after drain"), c.P.InstrPos(snd), seen["drain:*dataReader"], "completion is signalled on a path that has not drained the DATA reader")
			}
		}
		R.Ob("(*Conn).handleDataLMTP/waits for done", c.P.Pos(f.Pos()), s.Must(f)["chan-recv:makechan(1)"], "handler can return without receiving the completion signal: the next command may be read while the drain is still running")
	}
	R.Rule("R-no-cmd-during-data", "E2 never-after", "between the 354 reply and the end of the handler no command line is read from the connection", 1)
	for _, fn := range []string{"(*Conn).handleData"} {
		if f := c.A.Func(fn); f != nil {
			c.obNever("no line read after 354", f, c.direct("reply:354"), lineReads, nil, nil)
			// ... and the message the client sends in answer to 354 is consumed by this handler: a refusal after 354
			// that returns to the command loop has the message executed line by line
			c.obFollow("354 then the message is consumed", f, c.direct("reply:354"), []string{"drain:*dataReader", "call:(*Conn).handleDataLMTP"}, nil, nil) // the LMTP handler drains in its delivery goroutine and waits for it: R-lmtp-join
		}
	}
	R.Rule("R-one-reader-per-data", "E2 path count", "exactly one DATA reader is created on every accepting path of DATA", 1)
	if f := c.A.Func("(*Conn).handleData"); f != nil {
		memo := map[*ssa.Function]*CountResult{}
		res := c.countLabel(f, c.direct(lNewReader), c.F.SkipUnder(`param1 == ""`, `Conn.bdatPipe == nil`, `Conn.binarymime == false`, `Conn.fromReceived == true`, `builtin:len(Conn.recipients) != 0`), nil, memo)
		R.Ob("(*Conn).handleData/newDataReader count", c.P.Pos(f.Pos()), res.Min == 1 && res.Max == 1, fmt.Sprintf("accepting DATA paths create between %d and %d readers (want exactly 1)", res.Min, res.Max))
	}
}

func runC02(c *Ctx) {
	ruleDotTable(c)
	ruleDotStructure(c)
	ruleDataSource(c) // a second buffer between the connection and the automaton over-reads past the end marker
	ruleDrains(c)
	ruleDrainFailureCloses(c)
	// where the message is NOT drained (backend panic, failed drain) the connection is closed instead — and the command
	// loop must then really stop: it tests the closed state before every dispatch, whatever the configuration
	c.R.Rule("R-no-dispatch-after-close", "E2+E4+call graph", "after a dispatch that may close the connection the command loop passes a test of state written by Conn.Close before it dispatches another command", 2)
	ruleNoDispatchAfterClose(c)
	if f := c.A.Func("(*Conn).Close"); f != nil {
		_, sm := c.Std()
		c.R.Ob("(*Conn).Close/marks the connection closed on every path", c.P.Pos(f.Pos()), sm.Must(f)["st:Conn.closed=true"], "Conn.Close can return without setting closed (an error from Logout or from closing the socket returned early): after an aborted DATA the loop goes on and executes the rest of the message as commands")
	}
	ruleSocketCloseOwner(c)  // ... and that state is set: the socket is closed through Conn.Close only
	ruleLineLimitCounting(c) // the limiter's refusal must stay in force (count past the limit): a drain that resumes after a refused segment reads a stream with a hole in it
}

// ruleDrainFailureCloses (C02, C04, C05): a discard that stops before the end of the message / chunk (read timeout,
// connection error) leaves the stream position inside message data. On every such path the connection is closed —
// directly, or by signalling failure to the handler that closes — before the next command line can be read.
func ruleDrainFailureCloses(c *Ctx) {
	R := c.R
	R.Rule("R-drain-failure-closes", "E2 must-pass-through + E3", "when the discard of an unread message remainder or chunk returns an error, every path to the handler's exit closes the connection (or reports the failure to the handler, which closes on it)", 6)
	n := 0
	type drainItem struct {
		site    ssa.Instruction
		errAtom string
	}
	var work []drainItem
	for _, d := range c.Sites("drain") {
		if dv, ok := d.(ssa.Value); ok {
			work = append(work, drainItem{d, describe(dv) + "#1"})
		}
	}
	for len(work) > 0 {
		it := work[0]
		work = work[1:]
		d, errAtom := it.site, it.errAtom
		f := d.Parent()
		if !strings.HasPrefix(funcName(f), "(*Conn).") {
			continue
		}
		n++
		// a helper that hands the discard's error back to its caller moves the obligation to its call sites
		if k := returnsValueDescribed(f, errAtom); k >= 0 && !isExported(f) && f.Parent() == nil {
			callers := c.callersOf(f)
			for _, cs := range callers {
				if cv, ok := cs.(ssa.Value); ok {
					a := describe(cv)
					if f.Signature.Results().Len() > 1 {
						a = fmt.Sprintf("%s#%d", a, k)
					}
					work = append(work, drainItem{cs, a})
				}
			}
			if len(callers) > 0 {
				R.Ob(c.siteKey(d, "discard error handed to the caller"), c.P.InstrPos(d), true, "")
				continue
			}
		}
		isSignal := func(in ssa.Instruction) bool {
			snd, ok := in.(*ssa.Send)
			return ok && describe(snd.X) == "("+errAtom+" == nil)"
		}
		site := d
		v := RunPend(f, PendRule{
			Trig: func(in ssa.Instruction) bool { return in == site },
			Disch: func(in ssa.Instruction) bool {
				return c.mustDo(lClose)(in) || isSignal(in)
			},
			DeferD:   c.deferMustDo(lClose),
			SkipEdge: c.F.SkipUnder(errAtom + " != nil"),
			PhiOK:    c.F.PhiFeasible(errAtom + " != nil"),
			AtExit:   true,
		})
		dmsg := ""
		if len(v) > 0 {
			dmsg = fmt.Sprintf("the discard at %s can fail (timeout, connection error) and the path to the return at %s neither closes the connection nor reports the failure: the rest of the message is then read as commands", c.P.InstrPos(d), c.P.InstrPos(v[0].At))
		}
		R.Ob(c.siteKey(d, "failed discard closes the connection"), c.P.InstrPos(d), len(v) == 0, dmsg)
	}
	R.Ob("drain sites/found", "-", n >= 4, fmt.Sprintf("%d discard sites in Conn handlers", n))
	if f := c.A.Func("(*Conn).handleDataLMTP"); f != nil {
		c.obMustUnder("a delivery that reports failure closes the connection", f, []string{lClose}, `<-makechan(1) == false`)
	}
}

// returnsValueDescribed: index of the result through which every normal return of f hands out the value described
// by d (or a phi over it and nil); -1 if some return does not.
func returnsValueDescribed(f *ssa.Function, d string) int {
	idx := -1
	ok := true
	nRet := 0
	allInstrs(f, func(in ssa.Instruction) {
		r, isR := in.(*ssa.Return)
		if !isR || in.Block() == f.Recover {
			return
		}
		nRet++
		found := -1
		for i, v := range returnedValues(r) {
			for _, l := range leafSources(v) {
				if l == d {
					found = i
				}
			}
		}
		if found < 0 {
			ok = false
			return
		}
		if idx >= 0 && idx != found {
			ok = false
		}
		idx = found
	})
	if !ok || nRet == 0 {
		return -1
	}
	return idx
}
