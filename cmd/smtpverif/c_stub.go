package main

func init() {
	register(&propDef{ID: "C00", Explanation: "stub", Run: func(c *Ctx) {}})
}
