package main

import (
	"fmt"
	"go/types"
	"sort"
	"strings"

	"golang.org/x/tools/go/ssa"
)

func init() {
	register(&propDef{
		ID: "C11",
		Explanation: "Whole-language agreement of the hand-written parser with the RFC 5321 grammar is not structural and not claimed. Decided: the MAIL/RCPT parameter switches handle exactly the keys of the property and refuse everything else with 5xx (default branch); " +
			"each option field is written only inside its own case, from that case's decoded value, on the decoder's success edge (so unset fields stay zero); every parser/decoder error in the two handlers is tested and its failure edge cannot reach the accepting store or the callback; " +
			"enumerated values (BODY, RET, NOTIFY, ORCPT type) are accepted only through comparison with the declared constants; the path handed to the backend is the parser's result unmodified.",
		Run: runC11,
	})
}

type fieldFlow struct {
	label string // store label
	key   string // parameter key
	value string // regexp on describe(value) ("" = any)
}

func runC11(c *Ctx) {
	R := c.R
	_, s := c.Std()

	R.Rule("R-param-dispatch", "E8 switch exhaustiveness", "the parameter switches handle exactly {SIZE,SMTPUTF8,REQUIRETLS,BODY,RET,ENVID,AUTH} and {NOTIFY,ORCPT,RRVS}; any other key is refused with 5xx and no callback", 4)
	wantKeys := map[string][]string{
		"(*Conn).handleMail": {"AUTH", "BODY", "ENVID", "REQUIRETLS", "RET", "SIZE", "SMTPUTF8"},
		"(*Conn).handleRcpt": {"NOTIFY", "ORCPT", "RRVS"},
	}
	tags := map[string]string{}
	for fn, want := range wantKeys {
		f := c.A.Func(fn)
		if f == nil {
			continue
		}
		tag, keys := switchTag(c, f)
		tags[fn] = tag
		// BODY/RET values and others also compare with upper-case constants on a different tag; switchTag picks the tag with most keys
		R.Ob(fn+"/parameter keys", c.P.Pos(f.Pos()), strings.Join(keys, ",") == strings.Join(want, ","), fmt.Sprintf("switch handles %v, property lists %v", keys, want))
		var H []string
		for _, k := range keys {
			H = append(H, tag+` != "`+k+`"`)
		}
		H = append(H, "next#0 == true")
		// under "no known key" the loop body must reply 5xx and return: the
		// callback must be unreachable from the default edge => check the
		// default block: find the reply whose facts contain all negations
		found := false
		for _, site := range s.Find(f, "reply:5xx") {
			ff := c.F.Analyze(f)
			st := ff.At(site)
			all := true
			for _, k := range keys {
				if !st[tag+` != "`+k+`"`] {
					all = false
				}
			}
			if all && st["next#0 == true"] {
				found = true
				site := site
				c.obNever("unknown parameter refused without callback", f, func(in ssa.Instruction) bool { return in == site }, advancing, nil, nil)
			}
		}
		R.Ob(fn+"/default refuses with 5xx", c.P.Pos(f.Pos()), found, "no 5xx refusal found on the branch where the key matches none of the handled parameters: unknown parameters are accepted silently")
	}

	ruleQuotedString(c)

	R.Rule("R-args-single-equals", "E3", "parseArgs splits a parameter at every '=' and accepts only one or two pieces: a value containing a raw '=' (malformed per RFC 5321/3461) is refused", 3)
	if f := c.A.Func("parseArgs"); f != nil {
		_, sm := c.Std()
		unbounded := false
		allInstrs(f, func(in ssa.Instruction) {
			if isStaticCall(in, "strings.Split") {
				if k, ok := constString(callCommon(in).Args[1]); ok && k == "=" {
					unbounded = true
				}
			}
		})
		R.Ob("parseArgs/splits at every '='", c.P.Pos(f.Pos()), unbounded, "key and value are no longer separated with an unbounded strings.Split on '=': a second '=' inside the value is not detected")
		nStores := 0
		allInstrs(f, func(in ssa.Instruction) {
			if mu, ok := in.(*ssa.MapUpdate); ok && strings.HasPrefix(describe(mu.Map), "makemap") {
				nStores++
				ok1, _ := c.factMatch(in, `^builtin:len\(strings\.Split\(.*,"="\)\) == [12]$`)
				R.Ob(c.siteKey(in, "parameter stored only for 1 or 2 pieces"), c.P.InstrPos(in), ok1, "a parameter is stored without the piece count being exactly 1 or 2")
				// ESMTP keywords are case-insensitive: the handlers' switches compare with upper-case constants
				R.Ob(c.siteKey(in, "keyword stored upper-cased"), c.P.InstrPos(in), strings.HasPrefix(describe(mu.Key), "strings.ToUpper("), "parameter keyword stored as "+describe(mu.Key)+": a lower-case keyword of a well-formed line (size=, body=) is treated as unknown")
			}
		})
		R.Ob("parseArgs/stores parameters", c.P.Pos(f.Pos()), nStores >= 2, fmt.Sprintf("%d parameter stores", nStores))
		_ = sm
	}

	R.Rule("R-param-flow", "E4 value flow + E3", "each option field is stored only in its own parameter's case from the decoded value; the envelope path given to the backend is the parser's result", 14)
	flows := map[string][]fieldFlow{
		"(*Conn).handleMail": {
			{"st:MailOptions.Size", "SIZE", `@parseuint`},
			{"st:MailOptions.UTF8", "SMTPUTF8", `^true$`},
			{"st:MailOptions.RequireTLS", "REQUIRETLS", `^true$`},
			{"st:MailOptions.Body", "BODY", `^strings\.ToUpper\(next#2\)$`},
			{"st:MailOptions.Return", "RET", `^strings\.ToUpper\(next#2\)$`},
			{"st:MailOptions.EnvelopeID", "ENVID", `^decodeXtext\(next#2\)#0$`},
			{"st:MailOptions.Auth", "AUTH", ``},
			{"st:Conn.binarymime=true", "BODY", ``},
		},
		"(*Conn).handleRcpt": {
			{"st:RcptOptions.Notify", "NOTIFY", ``},
			{"st:RcptOptions.OriginalRecipientType", "ORCPT", `^decodeTypedAddress\(next#2\)#0$`},
			{"st:RcptOptions.OriginalRecipient", "ORCPT", `^decodeTypedAddress\(next#2\)#1$`},
			{"st:RcptOptions.RequireRecipientValidSince", "RRVS", `^time\.Parse\("2006-01-02T15:04:05Z07:00",strings\.Cut\(next#2,";"\)#0\)#0$`},
		},
	}
	for fn, fl := range flows {
		f := c.A.Func(fn)
		if f == nil {
			continue
		}
		tag := tags[fn]
		known := map[string]bool{}
		for _, x := range fl {
			known[x.label] = true
			sites := s.Find(f, x.label)
			if len(sites) == 0 {
				R.Ob(fn+"/"+x.label+" exists", c.P.Pos(f.Pos()), false, "option field is never stored: the parameter value does not reach the backend")
			}
			for _, site := range sites {
				R.Ob(c.siteKey(site, x.label+" inside case "+x.key), c.P.InstrPos(site), keyOf(c, site, tag) == x.key, "stored in the case of key "+keyOf(c, site, tag))
				if x.value == "@parseuint" {
					_, _, v := storedField(site)
					pu, steps, ok := parseUintOrigin(v, 0)
					okSrc := ok && argInCallerFrame(pu.Call.Args[0], steps) == "next#2"
					R.Ob(c.siteKey(site, x.label+" value source"), c.P.InstrPos(site), okSrc, "stored value is "+describe(v)+", not the parsed parameter value")
					// the failure of the parse (or of the helper wrapping it) must not reach the store
					if ok {
						errAtom := describe(pu) + "#1 != nil"
						if len(steps) > 0 {
							errAtom = describe(steps[0].call) + fmt.Sprintf("#%d != nil", steps[0].call.Type().(*types.Tuple).Len()-1)
							// inside the helper: success returns are unreachable when ParseUint failed
							g := staticCallee(&steps[len(steps)-1].call.Call)
							allInstrs(g, func(in ssa.Instruction) {
								if r, isR := in.(*ssa.Return); isR && in.Block() != g.Recover {
									vals := returnedValues(r)
									last := vals[len(vals)-1]
									if isNilConst(last) {
										c.obUnreach("helper success", in, describe(pu)+"#1 != nil")
									} else if d := describe(last); d != describe(pu)+"#1" && !valueKnownNonNil(last) {
										R.Ob(c.siteKey(in, "helper passes the parse error on"), c.P.InstrPos(in), false, "helper returns error "+d+" instead of the parse error")
									}
								}
							})
						}
						c.obUnreach(x.label, site, errAtom)
					}
				} else if x.value != "" {
					_, _, v := storedField(site)
					d := describe(v)
					ok := regexpMatch(x.value, d)
					R.Ob(c.siteKey(site, x.label+" value source"), c.P.InstrPos(site), ok, "stored value is "+d)
				}
			}
		}
		// no other store to option fields
		allInstrs(f, func(in ssa.Instruction) {
			fld, base, _ := storedField(in)
			if fld == nil {
				return
			}
			d := fieldDesc(fld, base)
			if (strings.HasPrefix(d, "MailOptions.") || strings.HasPrefix(d, "RcptOptions.")) && !known["st:"+d] {
				R.Ob(c.siteKey(in, "store to "+d), c.P.InstrPos(in), false, "option field "+d+" is written outside the table of parameter flows")
			}
		})
	}
	for _, site := range c.Sites(lMail) {
		a0, a1 := c.cbArgAt(site, 0), c.cbArgAt(site, 1)
		R.Ob(c.siteKey(site, "Mail gets the parsed reverse-path"), c.P.InstrPos(site), describe(a0) == "(*parser).parseReversePath(alloc:parser)#0", "from is "+describe(a0))
		R.Ob(c.siteKey(site, "Mail gets the options built here"), c.P.InstrPos(site), describe(a1) == "alloc:complit", "opts is "+describe(a1))
	}
	for _, site := range c.Sites(lRcpt) {
		a0, a1 := c.cbArgAt(site, 0), c.cbArgAt(site, 1)
		R.Ob(c.siteKey(site, "Rcpt gets the parsed path"), c.P.InstrPos(site), describe(a0) == "(*parser).parsePath(alloc:parser)#0", "to is "+describe(a0))
		R.Ob(c.siteKey(site, "Rcpt gets the options built here"), c.P.InstrPos(site), describe(a1) == "alloc:complit", "opts is "+describe(a1))
	}

	R.Rule("R-param-errors-checked", "E3 edge-feasibility", "every parser/decoder failure in the two handlers makes the accepting store and the callback unreachable and leads to a 5xx", 12)
	type errCheck struct {
		fn, errAtom string
		targets     []string // labels that must be unreachable under the failure
	}
	checks := []errCheck{
		{"(*Conn).handleMail", `cutPrefixFold(param1,"FROM:")#1 == false`, []string{lMail}},
		{"(*Conn).handleMail", `(*parser).parseReversePath(alloc:parser)#1 != nil`, []string{lMail}},
		{"(*Conn).handleMail", `parseArgs(parser.s)#1 != nil`, []string{lMail}},
		{"(*Conn).handleMail", `decodeXtext(next#2)#1 != nil`, []string{"st:MailOptions.EnvelopeID", "st:MailOptions.Auth"}},
		{"(*Conn).handleMail", `decodeXtext(next#2)#0 == ""`, []string{"st:MailOptions.EnvelopeID"}},
		{"(*Conn).handleMail", `isPrintableASCII(decodeXtext(next#2)#0) == false`, []string{"st:MailOptions.EnvelopeID"}},
		{"(*Conn).handleRcpt", `cutPrefixFold(param1,"TO:")#1 == false`, []string{lRcpt}},
		{"(*Conn).handleRcpt", `(*parser).parsePath(alloc:parser)#1 != nil`, []string{lRcpt}},
		{"(*Conn).handleRcpt", `parseArgs(parser.s)#1 != nil`, []string{lRcpt}},
		{"(*Conn).handleRcpt", `decodeTypedAddress(next#2)#2 != nil`, []string{"st:RcptOptions.OriginalRecipient", "st:RcptOptions.OriginalRecipientType"}},
		{"(*Conn).handleRcpt", `decodeTypedAddress(next#2)#1 == ""`, []string{"st:RcptOptions.OriginalRecipient"}},
		{"(*Conn).handleRcpt", `time.Parse("2006-01-02T15:04:05Z07:00",strings.Cut(next#2,";")#0)#1 != nil`, []string{"st:RcptOptions.RequireRecipientValidSince"}},
	}
	for _, ec := range checks {
		f := c.A.Func(ec.fn)
		if f == nil {
			continue
		}
		// the atom must actually be tested somewhere in the function
		tested := false
		for _, b := range f.Blocks {
			for _, sc := range b.Succs {
				for _, a := range c.F.edgeAtoms(b, sc) {
					if a == canonAtom(ec.errAtom) || a == negAtom(canonAtom(ec.errAtom)) {
						tested = true
					}
				}
			}
		}
		R.Ob(ec.fn+"/tests "+ec.errAtom, c.P.Pos(f.Pos()), tested, "no branch on "+ec.errAtom+": the failure is not detected (or the code changed shape)")
		for _, l := range ec.targets {
			for _, site := range s.Find(f, l) {
				c.obUnreach(l, site, ec.errAtom)
			}
		}
	}
	// NOTIFY: checked set; AUTH mailbox
	if f := c.A.Func("(*Conn).handleRcpt"); f != nil {
		for _, site := range s.Find(f, "st:RcptOptions.Notify") {
			c.obFactMatch("Notify only after checkNotifySet succeeded", site, `^checkNotifySet\(.*\) == nil$`, "NOTIFY stored without a successful checkNotifySet")
		}
	}
	if f := c.A.Func("(*Conn).handleMail"); f != nil {
		for _, site := range s.Find(f, "st:MailOptions.Auth") {
			c.obFactMatch("AUTH value decoded", site, `^decodeXtext\(next#2\)#1 == nil$`, "AUTH stored without a successful xtext decode")
			// RFC 4954: the decoded value is "<>" or a Mailbox — not a Path. What the backend is handed is therefore
			// the xtext decoder's result, the empty string standing for "<>", or parseMailbox's result; parsePath would
			// also accept (and strip) angle brackets and a source route
			if _, _, v := storedField(site); v != nil {
				if cell, isCell := stripConv(v).(*ssa.Alloc); isCell {
					for _, ref := range *cell.Referrers() {
						st, isSt := ref.(*ssa.Store)
						if !isSt || st.Addr != ssa.Value(cell) {
							continue
						}
						d := describe(st.Val)
						ok := d == `""` || d == "decodeXtext(next#2)#0" || regexpCache(`^\(\*parser\)\.parseMailbox\(alloc:parser(#\d+)?\)#0$`).MatchString(d)
						R.Ob(c.siteKey(st, "AUTH identity is the decoded value, empty, or a parsed Mailbox"), c.P.InstrPos(st), ok, "the AUTH identity handed to the backend can be "+d+": RFC 4954 allows \"<>\" or a Mailbox only (a Path parser also takes <...> and @route: forms and hands on something the client did not send)")
					}
				}
			}
		}
	}

	ruleSizeParam(c)   // SIZE is decoded as an unsigned decimal that cannot wrap
	ruleParamEnable(c) // a parameter of a disabled extension is refused, one of an enabled extension is not (each by its own flag)

	ruleGrammarGuards(c)
	ruleOptsPointerFresh(c)
	ruleXtextDecodesEveryPlus(c)
	rulePathBytesPassThrough(c)
	ruleParserCursor(c)
	ruleASCIIFold(c)
	ruleLimiterBypass(c) // a well-formed line within the limit is not refused as too long: octets of a chunk read with the limit lifted are not counted towards the next command line
	ruleNoPartialLine(c) // "exactly as sent, or refused": the buffered beginning of an over-long line is never parsed as the command

	R.Rule("R-enum-whitelist", "E3 edge-feasibility", "BODY, RET, NOTIFY elements and the ORCPT address type are accepted only when equal to a declared constant", 6)
	if f := c.A.Func("(*Conn).handleMail"); f != nil {
		for _, site := range s.Find(f, "st:MailOptions.Body") {
			c.obUnreach("BODY accepted", site, `strings.ToUpper(next#2) != "7BIT"`, `strings.ToUpper(next#2) != "8BITMIME"`, `strings.ToUpper(next#2) != "BINARYMIME"`)
		}
		for _, site := range s.Find(f, "st:MailOptions.Return") {
			c.obUnreach("RET accepted", site, `strings.ToUpper(next#2) != "FULL"`, `strings.ToUpper(next#2) != "HDRS"`)
		}
		for _, site := range s.Find(f, "st:Conn.binarymime=true") {
			c.obUnreach("binarymime set", site, `strings.ToUpper(next#2) != "BINARYMIME"`)
		}
	}
	if f := c.A.Func("(*Conn).handleRcpt"); f != nil {
		// NOTIFY keywords are matched case-insensitively (RFC 3461 ABNF literals): every element handed to
		// checkNotifySet is an upper-cased piece of the parameter value
		n := 0
		allInstrs(f, func(in ssa.Instruction) {
			st, ok := in.(*ssa.Store)
			if !ok {
				return
			}
			ia, ok := st.Addr.(*ssa.IndexAddr)
			if !ok {
				return
			}
			if !strings.Contains(ia.X.Type().String(), "DSNNotify") {
				return
			}
			n++
			d := describe(st.Val)
			R.Ob(c.siteKey(in, "NOTIFY element is upper-cased"), c.P.InstrPos(in), strings.Contains(d, "strings.ToUpper("), "NOTIFY element stored as "+d+": a lower-case keyword of a well-formed parameter is refused")
		})
		R.Ob("(*Conn).handleRcpt/NOTIFY elements collected", c.P.Pos(f.Pos()), n >= 1, "no store of a NOTIFY element found")
		// the list is cut at every comma and empty elements are kept, so "SUCCESS,", ",FAILURE" and "A,,B" reach
		// checkNotifySet with an element that is no keyword and are refused
		split, lossy := false, ""
		allInstrs(f, func(in ssa.Instruction) {
			cc := callCommon(in)
			if cc == nil {
				return
			}
			g := staticCallee(cc)
			if g == nil || len(cc.Args) == 0 {
				return
			}
			if a0 := describe(cc.Args[0]); a0 != "next#2" && a0 != "strings.ToUpper(next#2)" {
				return
			}
			switch qualFuncName(g) {
			case "strings.Split":
				if k, ok := constString(cc.Args[1]); ok && k == "," && keyOf(c, in, tags["(*Conn).handleRcpt"]) == "NOTIFY" {
					split = true
				}
			case "strings.FieldsFunc", "strings.Fields", "strings.SplitN", "strings.SplitAfter":
				if keyOf(c, in, tags["(*Conn).handleRcpt"]) == "NOTIFY" {
					lossy = qualFuncName(g)
				}
			}
		})
		R.Ob("(*Conn).handleRcpt/NOTIFY list split keeps empty elements", c.P.Pos(f.Pos()), split && lossy == "", "the NOTIFY value is not cut with strings.Split(value, \",\") ("+lossy+"): empty list elements (leading, trailing or doubled comma) disappear instead of being refused")
	}
	if f := c.A.Func("checkNotifySet"); f != nil {
		// returns nil only if every element equals one of the four constants
		var consts []string
		allInstrs(f, func(in ssa.Instruction) {
			if bo, ok := in.(*ssa.BinOp); ok && bo.Op.String() == "==" {
				if k, ok := constString(bo.Y); ok {
					consts = append(consts, k)
				}
			}
		})
		sort.Strings(consts)
		R.Ob("checkNotifySet/compares with the four NOTIFY constants", c.P.Pos(f.Pos()), strings.Join(dedup(consts), ",") == "DELAY,FAILURE,NEVER,SUCCESS", "constants compared: "+strings.Join(consts, ","))
		c.obMustUnder("empty set refused", f, []string{"call:errors.New"}, `builtin:len(param0) == 0`)
		ruleNotifyCheckerExact(c)
	}
	if f := c.A.Func("decodeTypedAddress"); f != nil {
		allInstrs(f, func(in ssa.Instruction) {
			r, ok := in.(*ssa.Return)
			if !ok || len(r.Results) != 3 || !isNilConst(r.Results[2]) {
				return
			}
			tag := `strings.ToUpper(strings.SplitN(param0,";",2)[0])`
			c.obUnreach("typed address accepted", in, tag+` != "RFC822"`, tag+` != "UTF-8"`)
		})
	}
}

func regexpMatch(re, s string) bool {
	return regexpCache(re).MatchString(s)
}

// ruleQuotedString extracts, by class-wise abstract interpretation, what the
// quoted-string loop of parseLocalPart does per (first byte, escaped byte)
// class and compares it with RFC 5321 quoted-string: a backslash makes the
// NEXT byte literal whatever it is; an unescaped '"' ends the string; every
// other byte is taken literally.
func ruleQuotedString(c *Ctx) {
	R := c.R
	R.Rule("R-quoted-pair-table", "E5 class-wise extraction", "parseLocalPart quoted-string: backslash takes the next byte literally (also '\"' and backslash), an unescaped '\"' ends the string, other bytes are literal", 5)
	f := c.A.Func("(*parser).parseLocalPart")
	if f == nil {
		return
	}
	// the loop containing two readByte calls
	var loop *loopInfo
	for _, li := range findLoops(f) {
		n := 0
		for b := range li.blocks {
			for _, in := range b.Instrs {
				if isStaticCall(in, "(*parser).readByte") {
					n++
				}
			}
		}
		if n >= 1 && (loop == nil || n > 1) {
			loop = li
		}
	}
	if loop == nil {
		R.Und("(*parser).parseLocalPart/quoted-string loop", c.P.Pos(f.Pos()), "no loop reading bytes with readByte found")
		return
	}
	type cls struct {
		name string
		v    int64
	}
	classes := []cls{{"'\"'", '"'}, {"backslash", '\\'}, {"other", 'a'}}
	for _, c1 := range classes {
		for _, c2 := range classes {
			if c1.v != '\\' && c2.name != "other" {
				continue // the second byte is only read after a backslash
			}
			reads := 0
			run := &ivRun{env: map[ssa.Value]ivVal{}}
			callVal := map[*ssa.Call]int64{}
			run.h = ivHooks{
				Stop: func(b *ssa.BasicBlock) bool { return b == loop.header },
				Value: func(v ssa.Value) (ivVal, bool) {
					if e, ok := v.(*ssa.Extract); ok {
						if call, ok := e.Tuple.(*ssa.Call); ok {
							if val, known := callVal[call]; known {
								if e.Index == 0 {
									return ivVal{K: ivSym, Lo: val, Hi: val}, true
								}
								return ivVal{K: ivBool, B: true}, true
							}
						}
					}
					return ivVal{}, false
				},
				Call: func(call *ssa.Call, arg func(ssa.Value) ivVal) (ivVal, string) {
					g := staticCallee(&call.Call)
					if g == nil {
						return ivVal{}, ""
					}
					switch qualFuncName(g) {
					case "(*parser).readByte":
						reads++
						if reads == 1 {
							callVal[call] = c1.v
						} else {
							val := c2.v
							if c2.name == "other" {
								val = 'b'
							}
							callVal[call] = val
						}
						return ivVal{}, ""
					case "(*strings.Builder).WriteByte":
						a := arg(call.Call.Args[1])
						if a.K == ivSym {
							return ivVal{}, fmt.Sprintf("WRITE:%c", rune(a.Lo))
						}
						return ivVal{}, "WRITE:?"
					}
					return ivVal{}, ""
				},
				Return: func(r *ssa.Return, arg func(ssa.Value) ivVal) string {
					if len(r.Results) == 2 && isNilConst(r.Results[1]) {
						return "END"
					}
					return "ERROR"
				},
			}
			// start at the loop header as if entered from outside
			var from *ssa.BasicBlock
			for _, p := range loop.header.Preds {
				if !loop.blocks[p] {
					from = p
				}
			}
			run.Walk(loop.header, from)
			got := strings.Join(run.Events, ",")
			var want string
			switch {
			case c1.v == '"':
				want = "END"
			case c1.v == '\\':
				ch := c2.v
				if c2.name == "other" {
					ch = 'b'
				}
				want = fmt.Sprintf("WRITE:%c", rune(ch))
			default:
				want = "WRITE:a"
			}
			key := fmt.Sprintf("(*parser).parseLocalPart/quoted-string cell(%s,%s)", c1.name, c2.name)
			if run.Und != "" {
				R.Und(key, c.P.Pos(f.Pos()), run.Und)
				continue
			}
			R.Ob(key, c.P.Pos(f.Pos()), got == want, fmt.Sprintf("first byte %s, next byte %s: parser does [%s], RFC 5321 quoted-string requires [%s]", c1.name, c2.name, got, want))
		}
	}
}
