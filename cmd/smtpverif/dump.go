package main

import (
	"fmt"
	"strings"

	"golang.org/x/tools/go/ssa"
)

func dumpFunc(p *Program, name string) {
	f := p.Func(name)
	if f == nil {
		fmt.Println("no such function; have:", strings.Join(p.FuncNames(), " "))
		return
	}
	r := NewReporter("dump", "quick", p)
	ctx := &Ctx{P: p, R: r, A: ResolveAnchors(p), F: NewFacts(p)}
	ev := NewStdEvents(ctx)
	ff := ctx.F.Analyze(f)
	for _, b := range f.Blocks {
		var preds, succs []string
		for _, x := range b.Preds {
			preds = append(preds, fmt.Sprint(x.Index))
		}
		for _, x := range b.Succs {
			succs = append(succs, fmt.Sprint(x.Index))
		}
		fmt.Printf("block %d (%s) preds=%v succs=%v\n   facts-in: %v\n", b.Index, b.Comment, preds, succs, ff.in[b].list())
		for _, in := range b.Instrs {
			s := in.String()
			if v, ok := in.(ssa.Value); ok {
				s = v.Name() + " = " + s
			}
			ls := ev.Label(in)
			fmt.Printf("   %-70s %s %v\n", s, p.InstrPos(in), ls)
		}
	}
}
