package main

import (
	"fmt"
	"strings"

	"golang.org/x/tools/go/ssa"
)

func init() {
	register(&propDef{
		ID: "C03",
		Explanation: "Typestate of the SMTP transaction decided structurally: every backend-callback call site is unreachable under each out-of-order state " +
			"(edge-feasibility on the SSA graph with branch conditions normalised to atoms over Conn/Server fields), state is advanced only on the callback's nil-error edge, " +
			"reset() certainly clears the envelope and every transaction end passes through reset()/Close on all paths, and after a refusal reply no advancing event follows. " +
			"Decides the guards/effects that make the ordering possible, for all paths; does not prove the behaviour over all histories.",
		Run: runC03,
	})
}

const (
	aHeloEmpty  = `Conn.helo == ""`
	aPipeOpen   = `Conn.bdatPipe != nil`
	aNoFrom     = `Conn.fromReceived == false`
	aNoRcpt     = `builtin:len(Conn.recipients) == 0`
	aBinary     = `Conn.binarymime == true`
	aSessNil    = `Conn.session == nil`
	aSessSet    = `Conn.session != nil`
	lReset      = "call:(*Conn).reset"
	lClose      = "call:(*Conn).Close"
	lNewSession = "cb:Backend.NewSession"
	lMail       = "cb:Session.Mail"
	lRcpt       = "cb:Session.Rcpt"
	lData       = "cb:Session.Data"
	lLMTPData   = "cb:LMTPSession.LMTPData"
	lSessReset  = "cb:Session.Reset"
	lLogout     = "cb:Session.Logout"
	lAuth       = "cb:AuthSession.Auth"
	lNext       = "cb:sasl.Server.Next"
	lNewReader  = "call:newDataReader"
	lPipe       = "call:io.Pipe"
	lReadLine   = "call:(*Conn).readLine"
)

var advancing = []string{lNewSession, lMail, lRcpt, lData, lLMTPData, lAuth, lNext,
	"st:Conn.fromReceived=true", "st:Conn.didAuth=true", lPipe, lNewReader}

func runC03(c *Ctx) {
	R := c.R
	ev, s := c.Std()
	_ = ev
	for _, f := range []string{"helo", "fromReceived", "recipients", "bdatPipe", "binarymime", "session", "bytesReceived", "bdatStatus", "didAuth"} {
		c.A.Field("Conn", f)
	}
	c.A.Field("Server", "MaxRecipients")
	c.A.Field("Server", "LMTP")

	R.Rule("R-guard-mail", "E3 edge-feasibility", "Session.Mail is unreachable without a greeting or during a chunked transfer", 2)
	for _, site := range c.Sites(lMail) {
		c.obUnreach("Session.Mail", site, aHeloEmpty)
		c.obUnreach("Session.Mail", site, aPipeOpen)
	}

	R.Rule("R-guard-rcpt", "E3 edge-feasibility", "Session.Rcpt is unreachable without an accepted MAIL, during a chunked transfer, or when the recipient limit is reached", 3)
	for _, site := range c.Sites(lRcpt) {
		c.obUnreach("Session.Rcpt", site, aNoFrom)
		c.obUnreach("Session.Rcpt", site, aPipeOpen)
		c.obUnreach("Session.Rcpt", site, `Server.MaxRecipients > 0`, `builtin:len(Conn.recipients) >= Server.MaxRecipients`)
	}
	R.Rule("R-rcptmax-not-stricter", "E3 edge-feasibility", "the 452 recipient-limit refusal is unreachable below the limit or with no limit", 2)
	if f := c.A.Func("(*Conn).handleRcpt"); f != nil {
		for _, site := range s.Find(f, "reply:452") {
			c.obUnreach("reply 452", site, `builtin:len(Conn.recipients) < Server.MaxRecipients`)
			c.obUnreach("reply 452", site, `Server.MaxRecipients <= 0`)
		}
	}

	R.Rule("R-guard-data", "E3 edge-feasibility", "message readers, the BDAT pipe and Data/LMTPData are unreachable without MAIL and at least one accepted RCPT; DATA also not during BDAT, for BINARYMIME or with an argument", 10)
	for _, l := range []string{lNewReader, lPipe, lData, lLMTPData} {
		for _, site := range c.Sites(l) {
			c.obUnreach(l, site, aNoFrom)
			c.obUnreach(l, site, aNoRcpt)
		}
	}
	for _, site := range c.Sites(lNewReader) {
		c.obUnreach(lNewReader, site, aPipeOpen)
		c.obUnreach(lNewReader, site, aBinary)
	}
	if f := c.A.Func("(*Conn).handleData"); f != nil {
		for _, site := range s.Find(f, "reply:354") {
			c.obUnreach("reply 354", site, `param1 != ""`)
			c.obUnreach("reply 354", site, aNoFrom)
			c.obUnreach("reply 354", site, aNoRcpt)
			c.obUnreach("reply 354", site, aPipeOpen)
			c.obUnreach("reply 354", site, aBinary)
		}
	}

	R.Rule("R-guard-greet", "E3 edge-feasibility", "Backend.NewSession only after a parsed greeting of the server's flavour and only when no session exists", 4)
	for _, es := range c.effSites(lNewSession, "invoke:Backend.NewSession#1") {
		site := es.site
		c.obUnreach("NewSession", site, aSessSet)
		if funcName(site.Parent()) == "(*Conn).handleGreet" {
			c.obUnreach("NewSession", site, `parseHelloArgument(param2)#1 != nil`)
		} else {
			R.Ob(c.siteKey(site, "NewSession outside handleGreet"), c.P.InstrPos(site), false, "NewSession call site outside the greeting handler: its guards are not known to the rule")
		}
	}
	if h := c.A.Func("(*Conn).handle"); h != nil {
		for _, site := range s.Find(h, "call:(*Conn).handleGreet") {
			c.obUnreach("handleGreet", site, `Server.LMTP == true`, verbTag(c)+` != "LHLO"`)
			c.obUnreach("handleGreet", site, `Server.LMTP == false`, verbTag(c)+` == "LHLO"`)
		}
	}

	R.Rule("R-state-set-on-success", "E3+E1", "envelope state advances only on the nil-error edge of the corresponding callback in the same activation", 2)
	for _, site := range c.Sites("st:Conn.fromReceived=true") {
		for _, ea := range c.cbErrAtoms(lMail, "invoke:Session.Mail", site.Parent()) {
			c.obUnreach("fromReceived=true", site, ea+` != nil`)
		}
		seen := s.SeenBefore(site)
		R.Ob(c.siteKey(site, "fromReceived=true after Session.Mail"), c.P.InstrPos(site), seen[lMail], "store not preceded by a Session.Mail call on every path")
	}
	for _, site := range c.Sites("st:Conn.fromReceived") {
		if _, _, v := storedField(site); v != nil {
			if _, isC := constBool(v); !isC {
				R.Ob(c.siteKey(site, "fromReceived=<non-constant>"), c.P.InstrPos(site), false, "fromReceived assigned a non-constant value: rule cannot tell whether MAIL was accepted")
			}
		}
	}
	// the envelope is discarded only by reset() (which signals Reset to the backend)
	for _, site := range c.Sites("st:Conn.recipients") {
		if _, _, v := storedField(site); isNilConst(v) {
			R.Ob(c.siteKey(site, "recipients discarded only by reset()"), c.P.InstrPos(site), c.onlyCalledFrom(site.Parent(), []string{"(*Conn).reset"}, 0), "Conn.recipients is cleared in "+funcName(site.Parent())+": the recipients are forgotten (and the limit restarts) without a Reset signalled to the backend")
		}
	}
	for _, site := range c.Sites("st:Conn.fromReceived=false") {
		R.Ob(c.siteKey(site, "sender discarded only by reset()"), c.P.InstrPos(site), c.onlyCalledFrom(site.Parent(), []string{"(*Conn).reset"}, 0), "Conn.fromReceived is cleared in "+funcName(site.Parent())+" outside reset()")
	}
	for _, site := range c.Sites("st:Conn.recipients") {
		_, _, v := storedField(site)
		if isNilConst(v) {
			continue
		}
		for _, ea := range c.cbErrAtoms(lRcpt, "invoke:Session.Rcpt", site.Parent()) {
			c.obUnreach("recipients=append", site, ea+` != nil`)
		}
		seen := s.SeenBefore(site)
		R.Ob(c.siteKey(site, "recipients append after Session.Rcpt"), c.P.InstrPos(site), seen[lRcpt], "store not preceded by a Session.Rcpt call on every path")
		// appended value must be the recipient handed to the callback
		ok := false
		if call, isCall := v.(*ssa.Call); isCall {
			if b, isB := call.Call.Value.(*ssa.Builtin); isB && b.Name() == "append" {
				ok = strings.HasPrefix(describe(call.Call.Args[0]), "Conn.recipients")
			}
		}
		R.Ob(c.siteKey(site, "recipients grows by append to itself"), c.P.InstrPos(site), ok, "recipients must be extended by append(c.recipients, rcpt); got "+describe(v))
	}

	ruleResetEffects(c)

	R.Rule("R-state-writers", "who-may-write", "the greeting name and the BINARYMIME flag are written only by the handlers that own them", 2)
	c.obWriters("Conn.helo", "set by the greeting, cleared when session creation fails and by the TLS upgrade", "(*Conn).handleGreet", "(*Conn).handleStartTLS")
	c.obWriters("Conn.binarymime", "decided by each MAIL command (reset() may clear it as well)", "(*Conn).handleMail", "(*Conn).reset")
	ruleBinarymimePerMail(c)
	rulePositiveAfterCallback(c)

	R.Rule("R-reset-at-end", "E2 must-pass-through", "every transaction end passes through reset() (or Close after a backend panic) before the handler returns", 6)
	obMessageEndResets(c)
	ruleAbandonResets(c)
	ruleAcceptedRecorded(c)
	// Conn.Close logs the session out but keeps helo and the envelope: it relies on the command loop stopping. A buffered
	// EHLO dispatched after Close would create a session that inherits the interrupted transaction (Rcpt without Mail)
	c.R.Rule("R-no-dispatch-after-close", "E2+E4+call graph", "after a dispatch that may close the connection the command loop passes a test of state written by Conn.Close before it dispatches another command", 2)
	ruleNoDispatchAfterClose(c)
	ruleTLSSuccessEffects(c) // STARTTLS ends the whole session (Logout, session cleared): the next EHLO creates one that sees the TLS state
	if f := c.A.Func("(*Conn).handleStartTLS"); f != nil {
		c.obFollow("TLS upgrade then reset", f, c.direct("st:Conn.conn"), []string{lReset}, nil, nil)
		c.obFollow("TLS upgrade then helo cleared", f, c.direct("st:Conn.conn"), []string{`st:Conn.helo=""`}, nil, nil)
		c.obFollowH("TLS upgrade then Logout", f, c.direct("st:Conn.conn"), []string{lLogout}, `Conn.session != nil`)
	}

	R.Rule("R-refusal-no-callback", "E2 never-after", "after a refusal reply (constant code >= 400) no callback or state-advancing store follows before the handler returns or reads the next line", 40)
	isRefusal := func(in ssa.Instruction) bool {
		_, code, isConst, ok := replyCall(in)
		return ok && isConst && code >= 400
	}
	for _, f := range c.P.AllFuncs() {
		if !strings.HasPrefix(funcName(f), "(*Conn).") {
			continue
		}
		c.obNever("refusal", f, isRefusal, append(append([]string{}, advancing...), "go:"), []string{lReadLine}, nil)
	}

	// ... and an out-of-order or malformed command (50x) does not end the transaction either: no Reset callback, no
	// clearing of the sender, neither directly nor through a deferred call registered before the refusal (a
	// `defer c.reset()` hoisted above the state checks of handleData turns "DATA without recipients" into an RSET)
	R.Rule("R-refusal-no-reset", "E2 never-after incl. deferred calls", "after a 500-504 refusal with a constant code the handler performs no Session.Reset and does not clear the sender before it returns, also not through a defer registered earlier", 20)
	is50x := func(in ssa.Instruction) bool {
		_, code, isConst, ok := replyCall(in)
		return ok && isConst && code >= 500 && code <= 504
	}
	noReset := []string{lSessReset, "st:Conn.fromReceived=false"}
	for _, f := range c.P.AllFuncs() {
		fn := funcName(f)
		if !strings.HasPrefix(fn, "(*Conn).handle") || f.Parent() != nil {
			continue
		}
		f := f
		var defers []*ssa.Defer
		allInstrs(f, func(in ssa.Instruction) {
			if d, ok := in.(*ssa.Defer); ok {
				defers = append(defers, d)
			}
		})
		allInstrs(f, func(t ssa.Instruction) {
			if !is50x(t) {
				return
			}
			v := RunPend(f, PendRule{
				Trig: func(in ssa.Instruction) bool { return in == t },
				Forbid: func(in ssa.Instruction) bool {
					if in == t {
						return false
					}
					if _, isDefer := in.(*ssa.Defer); isDefer {
						return false
					}
					if rd, isRD := in.(*ssa.RunDefers); isRD {
						for _, d := range defers {
							if reachesInstr(d, rd) && hasAny(s.deferMay(d), noReset...) {
								return true
							}
						}
						return false
					}
					return c.mayForbidFirst(in, noReset, nil, 0)
				},
			})
			d := ""
			if len(v) > 0 {
				d = fmt.Sprintf("after the refusal at %s the handler reaches %s, which resets the transaction (Session.Reset / sender cleared): a refused command ends the transaction the client is still building", c.P.InstrPos(t), c.P.InstrPos(v[0].At))
			}
			R.Ob(c.siteKey(t, "refusal leaves the transaction alone"), c.P.InstrPos(t), len(v) == 0, d)
		})
	}

	// the message commands end a transaction only when there is one: with no accepted sender, or no accepted
	// recipient, DATA/BDAT reach neither reset() (Reset callback, sender dropped) nor a deferred one — whatever else
	// is wrong with the command (a size over the limit is answered first in a reordered handleBdat)
	for _, fn := range []string{"(*Conn).handleData", "(*Conn).handleBdat"} {
		f := c.A.Func(fn)
		if f == nil {
			continue
		}
		allInstrs(f, func(in ssa.Instruction) {
			cc := callCommon(in)
			if cc == nil {
				return
			}
			if g := staticCallee(cc); g == nil || funcName(g) != "(*Conn).reset" {
				return
			}
			c.obUnreach("reset() without an accepted sender", in, aNoFrom)
			c.obUnreach("reset() without an accepted recipient", in, `Conn.fromReceived == true`, aNoRcpt)
		})
	}

	R.Rule("R-refusal-5xx", "E1 must-under", "each out-of-order state leads to a 5xx reply (452 for the recipient limit) on every path", 9)
	type ref struct {
		fn    string
		label string
		H     []string
	}
	for _, x := range []ref{
		{"(*Conn).handleMail", "reply:5xx", []string{aHeloEmpty}},
		{"(*Conn).handleMail", "reply:5xx", []string{`Conn.helo != ""`, aPipeOpen}},
		{"(*Conn).handleRcpt", "reply:5xx", []string{aNoFrom}},
		{"(*Conn).handleRcpt", "reply:5xx", []string{`Conn.fromReceived == true`, aPipeOpen}},
		{"(*Conn).handleData", "reply:5xx", []string{`param1 == ""`, `Conn.bdatPipe == nil`, `Conn.binarymime == false`, aNoFrom}},
		{"(*Conn).handleData", "reply:5xx", []string{`param1 == ""`, `Conn.bdatPipe == nil`, `Conn.binarymime == false`, `Conn.fromReceived == true`, aNoRcpt}},
		{"(*Conn).handleData", "reply:5xx", []string{`param1 == ""`, aPipeOpen}},
		{"(*Conn).handleData", "reply:5xx", []string{`param1 == ""`, `Conn.bdatPipe == nil`, aBinary}},
		{"(*Conn).handleData", "reply:5xx", []string{`param1 != ""`}},
	} {
		if f := c.A.Func(x.fn); f != nil {
			c.obMustUnder(x.label, f, []string{x.label}, x.H...)
		}
	}

	R.Rule("R-helo-before-newsession", "E2+E4", "the greeting name is stored before NewSession and cleared when NewSession fails; Hostname/TLSConnectionState read the live fields", 4)
	obHeloFollowsNewSession(c)
	if f := c.A.Func("(*Conn).handleGreet"); f != nil {
		for _, st := range s.Find(f, "st:Conn.helo") {
			_, _, v := storedField(st)
			if cs, ok := constString(v); ok && cs == "" {
				continue
			}
			R.Ob(c.siteKey(st, "helo = parsed domain"), c.P.InstrPos(st), describe(v) == "parseHelloArgument(param2)#0", "helo is stored from "+describe(v))
		}
	}
	if f := c.A.Func("(*Conn).Hostname"); f != nil {
		ok := false
		allInstrs(f, func(in ssa.Instruction) {
			if r, isR := in.(*ssa.Return); isR && len(r.Results) == 1 && describe(r.Results[0]) == "Conn.helo" {
				ok = true
			}
		})
		R.Ob("(*Conn).Hostname/returns Conn.helo", c.P.Pos(f.Pos()), ok, "Hostname no longer returns the live helo field")
	}
	if f := c.A.Func("(*Conn).TLSConnectionState"); f != nil {
		ok := false
		allInstrs(f, func(in ssa.Instruction) {
			if ta, isT := in.(*ssa.TypeAssert); isT && describe(ta.X) == "Conn.conn" {
				ok = true
			}
		})
		R.Ob("(*Conn).TLSConnectionState/asserts on Conn.conn", c.P.Pos(f.Pos()), ok, "TLS state is no longer derived from the live connection field")
	}
}

// ruleAbandonResets (C03 R-reset-at-end, C07 R-abort-on-every-exit): the commands by which a client abandons a
// transaction run the connection's reset() (RSET, a repeated greeting) or Close (QUIT), which abort an open transfer.
func ruleAbandonResets(c *Ctx) {
	if f := c.A.Func("(*Conn).handle"); f != nil {
		c.obMustUnder("RSET resets", f, []string{lReset}, verbTag(c)+` == "RSET"`, `param1 != ""`)
		c.obMustUnder("QUIT closes", f, []string{lClose}, verbTag(c)+` == "QUIT"`, `param1 != ""`)
	}
	if f := c.A.Func("(*Conn).handleGreet"); f != nil {
		c.obMustUnder("repeated EHLO resets", f, []string{lReset}, aSessSet, `parseHelloArgument(param2)#1 == nil`)
	}
}

// ruleResetEffects (C03, C04): what reset() certainly does. For C04 it is the reason why a reply can only report
// the outcome of the transaction it belongs to: no per-message state survives into the next one.
func ruleResetEffects(c *Ctx) {
	R := c.R
	_, s := c.Std()
	R.Rule("R-reset-effects", "E1 must-summary", "reset() certainly clears sender, recipients, byte count and LMTP status, aborts an open pipe and signals Session.Reset", 7)
	if f := c.A.Func("(*Conn).reset"); f != nil {
		m := s.Must(f)
		for _, l := range []string{"st:Conn.fromReceived=false", "st:Conn.recipients=nil", "st:Conn.bytesReceived=0", "st:Conn.bdatStatus=nil"} {
			R.Ob("(*Conn).reset/"+l, c.P.Pos(f.Pos()), m[l], "not on every path; events on all paths: "+fmt.Sprint(m.list()))
		}
		c.obMustUnder("Session.Reset", f, []string{lSessReset}, aSessSet)
		c.obMustUnder("abort pipe", f, []string{"pipe-abort"}, aPipeOpen)
		c.obMustUnder("bdatPipe=nil", f, []string{"st:Conn.bdatPipe=nil"}, aPipeOpen)
	}
}

// obMessageEndResets (C03 R-reset-at-end, C16 R-envelope-per-message): once a message has been taken (354 sent, final
// or failed chunk answered) every path to the handler's return clears the envelope, in SMTP and LMTP mode alike.
func obMessageEndResets(c *Ctx) {
	if f := c.A.Func("(*Conn).handleData"); f != nil {
		c.obFollow("354 then reset", f, c.direct("reply:354"), []string{lReset}, nil, nil)
	}
	if f := c.A.Func("(*Conn).handleBdat"); f != nil {
		c.obFollow("552 then reset", f, c.direct("reply:552"), []string{lReset}, nil, nil)
		c.obFollow("final/failed chunk reply then reset|Close", f, c.direct("reply:dyn"), []string{lReset, lClose}, nil, nil)
	}
}

// ruleBinarymimePerMail (C03, C04): whether DATA is refused "for BINARYMIME messages" is decided by the MAIL command
// of the current transaction alone: handleMail clears the flag before it can set it and before the backend is asked,
// so a BODY=BINARYMIME on an earlier, refused MAIL cannot make a later plain message's DATA fail.
func ruleBinarymimePerMail(c *Ctx) {
	R := c.R
	_, s := c.Std()
	f := c.A.Func("(*Conn).handleMail")
	if f == nil {
		return
	}
	v := RunPend(f, PendRule{
		StartPending: true,
		Disch:        func(in ssa.Instruction) bool { return labelHas(c.stdLabels(in), "st:Conn.binarymime=false") },
		Forbid: func(in ssa.Instruction) bool {
			if _, isDefer := in.(*ssa.Defer); isDefer {
				return false
			}
			return labelHas(c.stdLabels(in), "st:Conn.binarymime=true") || s.InstrMay(in)[lMail]
		},
	})
	d := ""
	if len(v) > 0 {
		d = fmt.Sprintf("handleMail reaches %s without having cleared Conn.binarymime: the flag set by an earlier (possibly refused) MAIL survives into this transaction and its DATA is refused with 502", c.P.InstrPos(v[0].At))
	}
	R.Ob("(*Conn).handleMail/binarymime cleared before it is decided", c.P.Pos(f.Pos()), len(v) == 0, d)
	for _, st := range s.Find(f, "st:Conn.binarymime=true") {
		R.Ob(c.siteKey(st, "binarymime set only for BODY=BINARYMIME"), c.P.InstrPos(st), true, "")
	}
}

// rulePositiveAfterCallback (C03, C04, C16): MAIL and RCPT are answered positively only after the backend has been
// asked about exactly this command: no shortcut (a cache, a de-duplication, a "nothing to do" path) can say 250 on
// the backend's behalf, or the backend's view of the envelope differs from what the client was told.
func rulePositiveAfterCallback(c *Ctx) {
	R := c.R
	_, s := c.Std()
	R.Rule("R-positive-after-callback", "E2 must-precede", "every 2xx reply of handleMail/handleRcpt is preceded on all paths by the Session.Mail/Session.Rcpt call of this command", 2)
	n := 0
	for _, x := range []struct{ fn, cb string }{{"(*Conn).handleMail", lMail}, {"(*Conn).handleRcpt", lRcpt}} {
		f := c.A.Func(x.fn)
		if f == nil {
			continue
		}
		for _, g := range c.withHelpers(f) {
			allInstrs(g, func(in ssa.Instruction) {
				_, code, isConst, ok := replyCall(in)
				if !ok || !isConst || code < 200 || code > 299 {
					return
				}
				if g != f {
					return // helper replies are judged where they are called (none on this tree)
				}
				n++
				R.Ob(c.siteKey(in, "positive reply only after the backend was asked"), c.P.InstrPos(in), s.SeenBefore(in)[x.cb], fmt.Sprintf("%s answers %d on a path that has not called %s: the client is told the command was accepted although the backend never saw it", x.fn, code, x.cb))
			})
		}
	}
	R.Ob("positive MAIL/RCPT replies/found", "-", n >= 2, fmt.Sprintf("%d sites", n))
}

// obHeloFollowsNewSession (C03, C09): Conn.helo is the "greeted" flag of MAIL and AUTH. It is stored before NewSession
// (so the backend can query the name) and cleared again when NewSession fails: a refused greeting must leave the
// connection un-greeted, otherwise AUTH/MAIL pass their "introduce yourself first" test with no session in place.
func obHeloFollowsNewSession(c *Ctx) {
	R := c.R
	_, s := c.Std()
	for _, es := range c.effSites(lNewSession, "invoke:Backend.NewSession#1") {
		site := es.site
		seen := s.SeenBefore(site)
		R.Ob(c.siteKey(site, "helo stored before NewSession"), c.P.InstrPos(site), seen["st:Conn.helo"], "no store to Conn.helo on every path before the NewSession call")
		f := site.Parent()
		c.obFollow("failed NewSession clears helo", f, func(in ssa.Instruction) bool { return in == site }, []string{`st:Conn.helo=""`}, c.F.SkipUnder(es.errDesc+` != nil`), nil)
	}
}
