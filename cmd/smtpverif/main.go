// smtpverif decides structural necessary conditions of the go-smtp properties
// by static analysis of /repo's current working tree (see /verif/DESIGN.md).
package main

import (
	"encoding/json"
	"flag"
	"fmt"
	"os"
	"sort"
	"strconv"
	"time"
)

type propDef struct {
	ID          string
	Explanation string
	Assumptions []string
	Run         func(c *Ctx)
}

// Ctx is what a property's rules get to work with.
type Ctx struct {
	P    *Program
	R    *Reporter
	Tier string
	A    *Anchors
	F    *Facts
}

var props = map[string]*propDef{}

func register(p *propDef) { props[p.ID] = p }

var commonAssumptions = []string{
	"anchors: the mechanism lives in the named types/fields/functions of package smtp (a pure rename is reported as anchor-unresolved, not as held)",
	"standard library and go-sasl behave as modelled (io.Copy, io.Pipe, bufio.Reader, net/textproto, sync.Mutex, channel FIFO)",
	"backends honour the documented contract (consume the reader before returning, no SetStatus after return, do not retain *Conn internals)",
	"structural necessary conditions are decided for every path/site/cell of the current tree; the behavioural property as a whole is not proved",
}

func main() {
	prop := flag.String("property", "", "property id (C01..C20) or 'all'")
	tier := flag.String("tier", "quick", "quick|thorough")
	repo := flag.String("repo", "", "repository directory (default $VERIF_REPO or /repo)")
	replay := flag.String("replay", "", "replay file: re-run only that obligation")
	list := flag.Bool("list", false, "list functions and exit")
	dump := flag.String("dump", "", "dump SSA of a function with labels and guard facts, then exit")
	benign := flag.String("benign", "", "benign variant id: analyse the tree with that behaviour-preserving edit overlaid and exit 0 iff the property's rules stay silent")
	variant := flag.String("variant", "", "liveness bank entry id: analyse the tree with that single edit overlaid and exit 0 iff the expected rule fires")
	flag.Parse()
	if t := os.Getenv("VERIF_TIER"); t != "" && *tier == "quick" && !flagSet("tier") {
		*tier = t
	}
	dir := *repo
	if dir == "" {
		dir = os.Getenv("VERIF_REPO")
	}
	if dir == "" {
		dir = "/repo"
	}
	seed := 0
	if s := os.Getenv("VERIF_SEED"); s != "" {
		seed, _ = strconv.Atoi(s)
	}
	onlyKey := ""
	if *replay != "" {
		b, err := os.ReadFile(*replay)
		if err != nil {
			fmt.Println("ERROR:", err)
			os.Exit(2)
		}
		var m map[string]interface{}
		if err := json.Unmarshal(b, &m); err != nil {
			fmt.Println("ERROR:", err)
			os.Exit(2)
		}
		*prop, _ = m["property"].(string)
		onlyKey, _ = m["key"].(string)
	}
	if *variant != "" {
		os.Exit(runVariant(dir, *variant))
	}
	if *benign != "" {
		os.Exit(runBenignVariant(dir, *benign, *prop))
	}
	start := time.Now()
	configs := []struct{ tags, arch string }{{"", ""}}
	if *tier == "thorough" {
		configs = append(configs, struct{ tags, arch string }{"verif", ""}, struct{ tags, arch string }{"", "386"})
	}
	var ids []string
	if *prop == "all" {
		for id := range props {
			ids = append(ids, id)
		}
		sort.Strings(ids)
	} else {
		if props[*prop] == nil && !*list && *dump == "" {
			fmt.Printf("ERROR: unknown property %q\n", *prop)
			os.Exit(2)
		}
		ids = []string{*prop}
	}
	exit := 0
	for ci, cf := range configs {
		p, err := Load(dir, cf.tags, cf.arch)
		if err != nil {
			fmt.Printf("ERROR: cannot analyse %s (tags=%q arch=%q): %v\n", dir, cf.tags, cf.arch, err)
			for _, id := range ids {
				fmt.Printf("VIOLATION property=%s replay=%s\n", id, "none:load-failure")
			}
			os.Exit(1)
		}
		if *list {
			for _, n := range p.FuncNames() {
				fmt.Println(n)
			}
			return
		}
		if *dump != "" {
			dumpFunc(p, *dump)
			return
		}
		for _, id := range ids {
			pd := props[id]
			r := NewReporter(id, *tier, p)
			r.Extra["configuration"] = map[string]string{"tags": cf.tags, "goarch": cf.arch}
			ctx := &Ctx{P: p, R: r, Tier: *tier, A: ResolveAnchors(p), F: NewFacts(p)}
			func() {
				defer func() {
					if e := recover(); e != nil {
						if os.Getenv("VERIF_PANIC") != "" {
							panic(e)
						}
						r.Rule("checker-panic", "-", "the checker must not crash: a crash means the source has a shape the rule cannot interpret", 0)
						r.Und("checker/panic", "-", fmt.Sprint(e))
					}
				}()
				pd.Run(ctx)
			}()
			ctx.emitAnchors()
			// evidence of the LAST configuration is kept for thorough; quick has one.
			if ci < len(configs)-1 {
				os.Setenv("VERIF_NO_EVIDENCE", "1")
			} else {
				os.Unsetenv("VERIF_NO_EVIDENCE")
			}
			if ci > 0 {
				r.Extra["configurations_checked"] = ci + 1
			}
			if *tier == "thorough" && ci == len(configs)-1 && onlyKey == "" {
				runLivenessBank(dir, id, r)
			}
			code := r.Finish(start, seed, pd.Explanation, append(append([]string{}, commonAssumptions...), pd.Assumptions...), onlyKey)
			if code > exit {
				exit = code
			}
		}
	}
	os.Exit(exit)
}

func flagSet(name string) bool {
	found := false
	flag.Visit(func(f *flag.Flag) {
		if f.Name == name {
			found = true
		}
	})
	return found
}
