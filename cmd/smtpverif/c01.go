package main

import (
	"fmt"
	"strings"

	"golang.org/x/tools/go/ssa"
)

func init() {
	register(&propDef{
		ID: "C01",
		Explanation: "dataReader.Read touches the input octet only through comparisons with constants and a copy to the output, and its only memory is a small-integer state field, " +
			"so a finite table (state x byte class -> next state, emitted octets, unread) extracted from the SSA by abstract interpretation IS the reader's behaviour. " +
			"The table is compared with the RFC 5321 §4.5.2 reference transducer by exhaustive product search tolerant of bounded output delay: this decides the octet map for ALL streams, segmentations and read sizes " +
			"(state is carried only in the field; buffer-full and error exits neither consume nor lose octets). Plus: sole constructor over the connection's buffered reader, reader handed to the backend unwrapped.",
		Run: runC01,
	})
}

// ---------- table construction (shared by C01, C02, C07) ----------

type dotTable struct {
	m     *tblMachine
	cells map[[2]int64]tblOutcome // (state, event index) -> outcome; events: classes..., other, eof, err, full
	evs   []inEvent
	end   map[int64]bool
	err   error
}

var dotTableCache = map[*Program]*dotTable{}

func buildDotTable(c *Ctx) *dotTable {
	if t, ok := dotTableCache[c.P]; ok {
		return t
	}
	t := &dotTable{cells: map[[2]int64]tblOutcome{}, end: map[int64]bool{}}
	dotTableCache[c.P] = t
	f := c.A.Func("(*dataReader).Read")
	if f == nil {
		t.err = fmt.Errorf("(*dataReader).Read not found")
		return t
	}
	m, err := newTblMachine(c.P, f, "state")
	if err != nil {
		t.err = err
		return t
	}
	t.m = m
	for i := 0; i <= len(m.classes); i++ {
		t.evs = append(t.evs, inEvent{Kind: "byte", Class: i})
	}
	t.evs = append(t.evs, inEvent{Kind: "eof"}, inEvent{Kind: "err"}, inEvent{Kind: "full"})
	for _, s := range m.states {
		for ei, ev := range t.evs {
			// the post-loop code may branch on the limit flag: both values must agree
			o1 := m.Run(s, ev, map[string]bool{"field:limited": false})
			// with the limit armed and the budget not exceeded the automaton must behave identically;
			// the overflow branch (budget < 0 after the read) is decided by C06's rules
			o2 := m.Run(s, ev, map[string]bool{"field:limited": true, "field:n<0": false})
			if o1.Und == "" && o2.Und == "" && !sameOutcome(o1, o2) {
				o1.Und = "behaviour of the automaton differs with the size limit flag"
			}
			if o1.Und == "" && o2.Und != "" {
				o1 = o2
			}
			t.cells[[2]int64{s, int64(ei)}] = o1
		}
	}
	// end states: byte event returns EOF without reading
	for _, s := range m.states {
		o := t.cells[[2]int64{s, 0}]
		if o.Und == "" && !o.Back && !o.Consumed && o.RetErr.K == avErrGlobal && o.RetErr.S == "EOF" {
			t.end[s] = true
		}
	}
	return t
}

func sameOutcome(a, b tblOutcome) bool {
	if a.Back != b.Back || a.State != b.State || a.Unread != b.Unread || a.Consumed != b.Consumed || len(a.Out) != len(b.Out) {
		return false
	}
	for i := range a.Out {
		if !(a.Out[i].K == b.Out[i].K && a.Out[i].I == b.Out[i].I) {
			return false
		}
	}
	return a.RetErr.K == b.RetErr.K && a.RetErr.S == b.RetErr.S
}

func (t *dotTable) evName(ei int) string {
	ev := t.evs[ei]
	if ev.Kind == "byte" {
		return t.m.className(ev.Class)
	}
	return ev.Kind
}

func (t *dotTable) cellString(s int64, ei int) string {
	o := t.cells[[2]int64{s, int64(ei)}]
	if o.Und != "" {
		return "UNDECIDED: " + o.Und
	}
	var outs []string
	for _, a := range o.Out {
		outs = append(outs, a.String())
	}
	x := fmt.Sprintf("-> state %d emit [%s]", o.State, strings.Join(outs, " "))
	if o.Unread {
		x += " unread"
	}
	if !o.Back {
		x += fmt.Sprintf(" RETURN n=%v err=%v consumed=%v", o.RetN, o.RetErr, o.Consumed)
	}
	return x
}

// ---------- reference transducer (RFC 5321 §4.5.2, CRLF kept) ----------

const (
	refBOL = iota
	refDot
	refDotCR
	refCR
	refMid
	refEnd
)

// refStep: byte value v (-1 == any octet other than '.', CR, LF).
func refStep(s int, v int64) (int, []int64) {
	switch s {
	case refBOL:
		switch v {
		case '.':
			return refDot, nil
		case '\r':
			return refCR, []int64{v}
		}
		return refMid, []int64{v}
	case refDot:
		if v == '\r' {
			return refDotCR, nil // held: ".CR LF" is the end marker
		}
		return refMid, []int64{v}
	case refDotCR:
		if v == '\n' {
			return refEnd, nil
		}
		if v == '\r' {
			return refCR, []int64{'\r', v}
		}
		return refMid, []int64{'\r', v}
	case refCR:
		switch v {
		case '\n':
			return refBOL, []int64{v}
		case '\r':
			return refCR, []int64{v}
		}
		return refMid, []int64{v}
	case refMid:
		if v == '\r' {
			return refCR, []int64{v}
		}
		return refMid, []int64{v}
	}
	return refEnd, nil
}

type prodState struct {
	impl int64
	ref  int
	lagI string // symbols emitted by impl not yet matched by ref
	lagR string
}

func symStr(vs []int64) string {
	var sb strings.Builder
	for _, v := range vs {
		sb.WriteString(fmt.Sprintf("%d,", v))
	}
	return sb.String()
}

// implStep runs the implementation on one input byte (following unreads).
func (t *dotTable) implStep(s int64, class int) (ns int64, out []int64, ended bool, problem string) {
	rep := int64(-1)
	if class < len(t.m.classes) {
		rep = t.m.classes[class]
	}
	for i := 0; i < 4; i++ {
		if t.end[s] {
			return s, out, true, ""
		}
		o, ok := t.cells[[2]int64{s, int64(class)}]
		if !ok {
			return s, out, false, fmt.Sprintf("state %d is not in the extracted table", s)
		}
		if o.Und != "" {
			return s, out, false, "undecided cell: " + o.Und
		}
		if !o.Back {
			return s, out, false, fmt.Sprintf("returns in the middle of an iteration (err=%v)", o.RetErr)
		}
		for _, a := range o.Out {
			if a.K == avByteIn {
				out = append(out, rep)
			} else {
				out = append(out, a.I)
			}
		}
		s = o.State
		if !o.Unread {
			return s, out, t.end[s], ""
		}
	}
	return s, out, false, "input byte is unread more than 3 times"
}

// compareWithReference explores the product exhaustively. Returns the number
// of product states and a counterexample (class names) or "".
func (t *dotTable) compareWithReference() (states, transitions int, cex string, why string) {
	type node struct {
		ps   prodState
		path []int
	}
	start := prodState{impl: 0, ref: refBOL}
	seen := map[prodState]bool{start: true}
	work := []node{{start, nil}}
	name := func(path []int) string {
		var ns []string
		for _, k := range path {
			ns = append(ns, t.m.className(k))
		}
		return strings.Join(ns, " ")
	}
	for len(work) > 0 {
		n := work[0]
		work = work[1:]
		states++
		for k := 0; k <= len(t.m.classes); k++ {
			transitions++
			path := append(append([]int{}, n.path...), k)
			rep := int64(-1)
			if k < len(t.m.classes) {
				rep = t.m.classes[k]
			}
			ns, iout, iend, prob := t.implStep(n.ps.impl, k)
			if prob != "" {
				return states, transitions, name(path), prob
			}
			rs, rout := refStep(n.ps.ref, rep)
			I := n.ps.lagI + symStr(iout)
			Rr := n.ps.lagR + symStr(rout)
			// strip common prefix (symbol-wise)
			for I != "" && Rr != "" {
				i1 := strings.IndexByte(I, ',')
				r1 := strings.IndexByte(Rr, ',')
				if I[:i1] != Rr[:r1] {
					return states, transitions, name(path), fmt.Sprintf("outputs diverge: implementation delivers octet %s where the reference delivers %s", I[:i1], Rr[:r1])
				}
				I, Rr = I[i1+1:], Rr[r1+1:]
			}
			if strings.Count(I, ",") > 2 || strings.Count(Rr, ",") > 2 {
				return states, transitions, name(path), "output lag exceeds 2 octets (an octet is dropped or duplicated)"
			}
			rend := rs == refEnd
			if iend != rend {
				if iend {
					return states, transitions, name(path), "implementation reports end-of-data where the reference does not"
				}
				return states, transitions, name(path), "implementation misses the end-of-data marker"
			}
			if iend {
				if I != "" || Rr != "" {
					return states, transitions, name(path), "octets still owed at end-of-data (lost or extra output)"
				}
				continue
			}
			np := prodState{impl: ns, ref: rs, lagI: I, lagR: Rr}
			if !seen[np] {
				seen[np] = true
				work = append(work, node{np, path})
			}
		}
	}
	return states, transitions, "", ""
}

// ---------- rules ----------

func ruleDotTable(c *Ctx) {
	R := c.R
	R.Rule("R-dot-table", "E5 finite-table extraction + product search", "the (state x byte class) table of dataReader.Read equals the RFC 5321 dot-unstuffing transducer on all octet streams", 2)
	t := buildDotTable(c)
	if t.err != nil {
		R.Und("(*dataReader).Read/table", "-", "cannot extract table: "+t.err.Error())
		return
	}
	f := t.m.f
	var rows []string
	for _, s := range t.m.states {
		for ei := range t.evs {
			o := t.cells[[2]int64{s, int64(ei)}]
			key := fmt.Sprintf("(*dataReader).Read/cell(state=%d,%s)", s, t.evName(ei))
			rows = append(rows, fmt.Sprintf("state %d on %s %s", s, t.evName(ei), t.cellString(s, ei)))
			if o.Und != "" {
				R.Und(key, c.P.Pos(o.UndPos), o.Und)
			} else {
				R.Ob(key, c.P.Pos(f.Pos()), true, "")
			}
		}
	}
	R.Extra["dot_table"] = rows
	st, tr, cex, why := t.compareWithReference()
	R.Extra["product_states"] = st
	R.Extra["product_transitions"] = tr
	R.Ob("(*dataReader).Read/equals reference transducer", c.P.Pos(f.Pos()), cex == "",
		fmt.Sprintf("shortest distinguishing input (byte classes) [%s]: %s", cex, why))
}

func ruleDotStructure(c *Ctx) {
	R := c.R
	t := buildDotTable(c)
	R.Rule("R-dot-state-carried", "E4 value flow", "the automaton's only memory is the state field: loop-carried values are n, b, err; they enter the loop as 0, the caller's buffer (possibly cut), nil; no other buffered-reader call or output store exists outside the table", 4)
	if t.err != nil {
		R.Und("(*dataReader).Read/structure", "-", t.err.Error())
		return
	}
	f, m := t.m.f, t.m
	inLoop := map[*ssa.BasicBlock]bool{}
	for _, b := range f.Blocks {
		if m.header.Dominates(b) && reachableFrom(b, nil)[m.header] {
			inLoop[b] = true
		}
	}
	for _, in := range m.header.Instrs {
		phi, ok := in.(*ssa.Phi)
		if !ok {
			break
		}
		for i, e := range phi.Edges {
			if inLoop[m.header.Preds[i]] {
				continue
			}
			d := describe(e)
			ok := false
			switch {
			case isIntType(phi.Type()):
				ok = d == "0"
			case describe(phi) != "" && strings.Contains(phi.Type().String(), "error"):
				ok = d == "nil"
			default:
				ok = d == "param1" || (strings.HasPrefix(d, "slice(param1)") && sliceFromZero(e))
			}
			R.Ob(fmt.Sprintf("(*dataReader).Read/loop entry %s", phi.Comment), c.P.InstrPos(phi), ok, "loop-carried "+phi.Comment+" enters the loop as "+d)
		}
	}
	// the reader's behaviour may depend on no memory other than the automaton state and the budget
	allowedRead := map[string]bool{"r": true, "state": true, "limited": true, "n": true}
	allowedWrite := map[string]bool{"state": true, "n": true}
	for _, g := range withClosures(f) {
		allInstrs(g, func(in ssa.Instruction) {
			if fld, base, _ := storedField(in); fld != nil && strings.HasPrefix(fieldDesc(fld, base), "dataReader.") {
				R.Ob(fmt.Sprintf("(*dataReader).Read/writes field %s", fld.Name()), c.P.InstrPos(in), allowedWrite[fld.Name()], "Read keeps memory in dataReader."+fld.Name()+" besides the automaton state and the budget: its result then depends on the history of calls (e.g. a remembered error makes the post-delivery drain a no-op)")
			} else if v, ok := in.(ssa.Value); ok {
				if fld, base := loadedField(v); fld != nil && strings.HasPrefix(fieldDesc(fld, base), "dataReader.") {
					if !allowedRead[fld.Name()] {
						R.Ob(fmt.Sprintf("(*dataReader).Read/reads field %s", fld.Name()), c.P.InstrPos(in), false, "Read consults dataReader."+fld.Name()+": its result depends on memory other than the automaton state and the budget")
					}
				}
			}
		})
	}
	// no reader calls / output stores outside the loop, reader field not leaked
	nRead, bad := 0, ""
	allInstrs(f, func(in ssa.Instruction) {
		if cc := callCommon(in); cc != nil {
			if g := staticCallee(cc); g != nil && strings.HasPrefix(qualFuncName(g), "(*bufio.Reader).") {
				nRead++
				if !inLoop[in.Block()] {
					bad = "buffered-reader call outside the automaton loop at " + c.P.InstrPos(in)
				}
				n := qualFuncName(g)
				if n != "(*bufio.Reader).ReadByte" && n != "(*bufio.Reader).UnreadByte" {
					bad = "call of " + n + " bypasses the automaton at " + c.P.InstrPos(in)
				}
			}
		}
		if st, ok := in.(*ssa.Store); ok {
			if _, isIdx := st.Addr.(*ssa.IndexAddr); isIdx && !inLoop[in.Block()] {
				bad = "output store outside the automaton loop at " + c.P.InstrPos(in)
			}
		}
	})
	R.Ob("(*dataReader).Read/reader touched only by the loop", c.P.Pos(f.Pos()), bad == "" && nRead >= 1, bad)
	// "full" and error events neither consume nor emit nor change state
	for _, s := range m.states {
		for ei, ev := range t.evs {
			if ev.Kind == "byte" {
				continue
			}
			o := t.cells[[2]int64{s, int64(ei)}]
			if o.Und != "" {
				continue // reported by R-dot-table
			}
			ok := !o.Back && o.State == s && len(o.Out) == 0 && (ev.Kind != "full" || !o.Consumed) && o.RetN.K == avSym && o.RetN.S == "n" && o.RetN.Off == 0
			R.Ob(fmt.Sprintf("(*dataReader).Read/exit(state=%d,%s) keeps state", s, ev.Kind), c.P.Pos(f.Pos()), ok,
				"an early exit of the loop changes the automaton state, emits, or miscounts: "+t.cellString(s, ei))
		}
	}
}

func sliceFromZero(v ssa.Value) bool {
	s, ok := v.(*ssa.Slice)
	if !ok {
		return false
	}
	if s.Low == nil {
		return true
	}
	k, ok := constInt(s.Low)
	return ok && k == 0
}

func ruleDataSource(c *Ctx) {
	R := c.R
	R.Rule("R-data-source", "E4 + who-may-construct", "dataReader is constructed only by newDataReader over the connection's buffered reader (c.text.R); handlers pass exactly that reader to Session.Data/LMTPData", 4)
	dr := c.A.Named("dataReader")
	nd := c.A.Func("newDataReader")
	if dr == nil || nd == nil {
		return
	}
	// who may construct
	for _, f := range c.P.AllFuncs() {
		allInstrs(f, func(in ssa.Instruction) {
			if a, ok := in.(*ssa.Alloc); ok {
				if pt, ok := a.Type().Underlying().(interface{ Elem() interface{} }); ok {
					_ = pt
				}
				if typeShort(a.Type()) == "*dataReader" {
					R.Ob(funcName(f)+"/constructs dataReader", c.P.InstrPos(in), f == nd, "dataReader constructed outside newDataReader: the reader's source and limit are not vouched for")
				}
			}
		})
	}
	// the r field is stored exactly once, from c.text.R
	n := 0
	allInstrs(nd, func(in ssa.Instruction) {
		if fld, _, v := storedField(in); fld != nil && fld.Name() == "r" {
			n++
			ch, root := fieldChain(v)
			d := strings.Join(ch, " -> ")
			ok := len(ch) >= 2 && ch[0] == "Conn.text" && ch[len(ch)-1] == "textproto.Reader.R" && describe(root) == "param0"
			R.Ob("newDataReader/source is Conn.text.R", c.P.InstrPos(in), ok, "dataReader.r is initialised from "+d+" of "+describe(root))
		}
	})
	if n == 0 {
		R.Ob("newDataReader/source is Conn.text.R", c.P.Pos(nd.Pos()), false, "newDataReader does not initialise the reader's source")
	}
	// the automaton starts at the beginning of a line: outside Read (and the helpers it calls) the state field is
	// never written, or only with the zero value the table's initial state stands for
	readFns := map[*ssa.Function]bool{}
	if rd := c.A.Func("(*dataReader).Read"); rd != nil {
		var add func(f *ssa.Function, depth int)
		add = func(f *ssa.Function, depth int) {
			if readFns[f] || depth > 3 {
				return
			}
			readFns[f] = true
			for _, g := range withClosures(f) {
				readFns[g] = true
			}
			allInstrs(f, func(in ssa.Instruction) {
				if cc := callCommon(in); cc != nil {
					if g := staticCallee(cc); g != nil && inSmtp(g) && g.Blocks != nil {
						add(g, depth+1)
					}
				}
			})
		}
		add(rd, 0)
	}
	nInit := 0
	for _, f := range c.P.AllFuncs() {
		if readFns[f] {
			continue
		}
		allInstrs(f, func(in ssa.Instruction) {
			if fld, base, v := storedField(in); fld != nil && fld.Name() == "state" {
				if typeShort(base.Type()) != "*dataReader" {
					return
				}
				nInit++
				k, isK := constInt(v)
				R.Ob(c.siteKey(in, "initial state is line start"), c.P.InstrPos(in), isK && k == 0, "dataReader.state written outside Read with "+describe(v)+": the message does not start in the beginning-of-line state (a leading '.<CRLF>' or a stuffed first line is mishandled)")
			}
		})
	}
	R.Ob("dataReader.state/initialised to line start", c.P.Pos(nd.Pos()), true, fmt.Sprintf("%d explicit initialisations, all checked", nInit))
	// hand-off: argument 0 of Data / LMTPData in functions using newDataReader is the newDataReader result
	for _, l := range []string{lData, lLMTPData} {
		for _, site := range c.Sites(l) {
			fn := site.Parent()
			top := fn
			for top.Parent() != nil {
				top = top.Parent()
			}
			_, s := c.Std()
			if len(s.Find(top, lNewReader)) == 0 {
				continue // BDAT path: pipe reader (C05)
			}
			arg := callCommon(site).Args[0]
			d := describe(arg)
			ok := d == "newDataReader(param0)"
			R.Ob(c.siteKey(site, l+" gets the dataReader"), c.P.InstrPos(site), ok, "reader argument is "+d)
		}
	}
}

// closureBinds: the free variable name of closure fn is bound, at every
// MakeClosure, to a value whose description is want.
func closureBinds(fn *ssa.Function, name, want string) bool {
	idx := -1
	for i, fv := range fn.FreeVars {
		if fv.Name() == name {
			idx = i
		}
	}
	if idx < 0 || fn.Parent() == nil {
		return false
	}
	found := false
	ok := true
	allInstrs(fn.Parent(), func(in ssa.Instruction) {
		if mc, isMC := in.(*ssa.MakeClosure); isMC && mc.Fn == fn {
			found = true
			if describe(mc.Bindings[idx]) != want {
				ok = false
			}
		}
	})
	return found && ok
}

func runC01(c *Ctx) {
	ruleDotTable(c)
	ruleDotStructure(c)
	ruleDataSource(c)
	ruleLineLimitCounting(c)  // the limiter below the reader counts octet by octet, independent of read boundaries
	ruleWriteDeadlineOwner(c) // "independent of how the stream is cut into network segments": no reply arms a READ deadline that would cut a slow body short
	ruleDrains(c)             // the reader has one consumer at a time: the drain follows the backend's callback in the same goroutine, it never reads beside it
	ruleBudgetNotEarly(c)
	ruleStreamLayersReadOnly(c)
	// the limit the message's lines are measured against is the configured one: a handler that lowers it for the
	// duration of the body makes the limiter drop part of a conforming message
	c.R.Rule("R-linelimit-owners", "who-may-write", "lineLimitReader.LineLimit is armed by init() from the configuration and lifted only by handleBdat for the duration of a chunk; no DATA handler changes it", 1)
	c.obWriters("lineLimitReader.LineLimit", "armed by init(), lifted for the duration of a chunk by handleBdat", "(*Conn).init", "(*Conn).handleBdat", "(*Client).setConn")
}

// ruleBudgetNotEarly (C01; the same two obligations are part of C06 R-limit-budget): with a size limit configured, a
// message that fits still ends in end-of-file for every read size: the over-limit error needs a budget that is
// exceeded (n < 0), not merely used up, and is never produced when the limit is lifted.
func ruleBudgetNotEarly(c *Ctx) {
	R := c.R
	R.Rule("R-limit-not-early", "E3 edge-feasibility", "dataReader.Read reports ErrDataTooLarge only with limited == true and n < 0: reads whose sizes add up to exactly the budget still reach the end marker and EOF", 2)
	f := c.A.Func("(*dataReader).Read")
	if f == nil {
		return
	}
	n := 0
	allInstrs(f, func(in ssa.Instruction) {
		if r, ok := in.(*ssa.Return); ok && len(r.Results) == 2 && describe(r.Results[1]) == "ErrDataTooLarge" {
			n++
			c.obUnreach("ErrDataTooLarge", in, `dataReader.limited == false`)
			c.obUnreach("ErrDataTooLarge", in, `dataReader.n >= 0`)
		}
	})
	R.Ob("(*dataReader).Read/over-limit returns found", c.P.Pos(f.Pos()), n >= 1, fmt.Sprintf("%d returns of ErrDataTooLarge", n))
	// ... and it is armed only by a positive maximum: a negative MaxMessageBytes means "no limit" at every other site
	// (EHLO SIZE, MAIL SIZE=); armed with a negative budget, the first Read reports 552 for every message
	for _, site := range c.Sites("st:dataReader.limited=true") {
		c.obUnreach("limit armed", site, `Server.MaxMessageBytes < 0`)
	}
	// ... and the budget is the configured maximum, nothing smaller (a SIZE the client announced is an estimate, it
	// does not delimit the message)
	if g := c.A.Func("newDataReader"); g != nil {
		_, s := c.Std()
		for _, st := range s.Find(g, "st:dataReader.n") {
			_, _, v := storedField(st)
			R.Ob(c.siteKey(st, "budget is the configured maximum"), c.P.InstrPos(st), describe(v) == "Server.MaxMessageBytes", "the reader's budget is initialised from "+describe(v)+": a message within the configured limit can be cut short")
		}
	}
}
