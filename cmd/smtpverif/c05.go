package main

import (
	"fmt"
	"regexp"
	"strings"

	"golang.org/x/tools/go/ssa"
)

func init() {
	register(&propDef{
		ID: "C05",
		Explanation: "BDAT framing decided structurally on every path of handleBdat: the chunk handed to the pipe is io.LimitReader over the connection's buffered reader with the size parsed from this command's first argument; " +
			"no dot-reader or line reader touches the payload; once the size is parsed every path (including the refusals named in the property) consumes exactly that chunk before returning; " +
			"one delivery goroutine per message; byte accounting only for accepted chunks. The clause about read-ahead below the line limiter depends on network segmentation and is not decided.",
		Run: runC05,
	})
}

type bdatInfo struct {
	f        *ssa.Function
	parse    ssa.Instruction
	sizeDesc string
	chunkRe  *regexp.Regexp
}

func bdatAnchors(c *Ctx) *bdatInfo {
	_, s := c.Std()
	f := c.A.Func("(*Conn).handleBdat")
	if f == nil {
		return nil
	}
	bi := &bdatInfo{f: f}
	ps := s.Find(f, "call:strconv.ParseUint")
	if len(ps) == 1 {
		bi.parse = ps[0]
		bi.sizeDesc = describe(ps[0].(ssa.Value)) + "#0"
		bi.chunkRe = regexp.MustCompile(`^io\.LimitReader\(textproto\.Reader\.R,` + regexp.QuoteMeta(bi.sizeDesc) + `\)$`)
	}
	return bi
}

func (bi *bdatInfo) isChunk(v ssa.Value) bool {
	return bi.chunkRe != nil && bi.chunkRe.MatchString(describe(v))
}

func runC05(c *Ctx) {
	R := c.R
	_, s := c.Std()
	bi := bdatAnchors(c)
	if bi == nil {
		return
	}
	f := bi.f
	R.Rule("R-bdat-frame", "E4 value flow", "the chunk is io.LimitReader(c.text.R, N) with N parsed from this command's first argument; pipe copy and discards use that same (reader, N)", 3)
	if bi.parse == nil {
		R.Ob("(*Conn).handleBdat/single size parse", c.P.Pos(f.Pos()), false, "expected exactly one strconv.ParseUint call giving the chunk size")
		return
	}
	pc := callCommon(bi.parse)
	R.Ob("(*Conn).handleBdat/size from first argument", c.P.InstrPos(bi.parse), describe(pc.Args[0]) == "strings.Fields(param1)[0]",
		"chunk size is parsed from "+describe(pc.Args[0]))
	if b, ok := constInt(pc.Args[1]); ok {
		R.Ob("(*Conn).handleBdat/size base 10", c.P.InstrPos(bi.parse), b == 10, fmt.Sprintf("size parsed in base %d", b))
	}
	if b, ok := constInt(pc.Args[2]); ok {
		R.Ob("(*Conn).handleBdat/size cannot wrap when converted to int64", c.P.InstrPos(bi.parse), b >= 1 && b <= 63, fmt.Sprintf("chunk size parsed with %d bits and converted to int64: a declared size >= 2^63 becomes a negative LimitReader bound, nothing is consumed and the payload is executed as commands", b))
	} else {
		R.Ob("(*Conn).handleBdat/size cannot wrap when converted to int64", c.P.InstrPos(bi.parse), false, "bit size of the chunk size parse is not a constant")
	}
	nCopies := 0
	allInstrs(f, func(in ssa.Instruction) {
		cc := callCommon(in)
		if cc == nil {
			return
		}
		g := staticCallee(cc)
		if g == nil || qualFuncName(g) != "io.Copy" {
			return
		}
		nCopies++
		src := cc.Args[1]
		ok := bi.isChunk(src)
		// the LimitReader's source must be the connection's buffered reader
		if ok {
			if call, isCall := stripConv(src).(*ssa.Call); isCall {
				ch, root := fieldChain(call.Call.Args[0])
				ok = len(ch) == 3 && ch[0] == "Conn.text" && ch[2] == "textproto.Reader.R" && describe(root) == "param0"
			}
		}
		R.Ob(c.siteKey(in, "copy source is the framed chunk"), c.P.InstrPos(in), ok, "io.Copy in handleBdat reads from "+describe(src)+" instead of LimitReader(c.text.R, declared size)")
	})
	if nCopies == 0 {
		R.Ob("(*Conn).handleBdat/has chunk copies", c.P.Pos(f.Pos()), false, "no io.Copy of the chunk found")
	}

	R.Rule("R-bdat-raw", "E1 may-summary", "no dot-unstuffing reader and no line reader is used on the chunk path", 1)
	may := LSet{}
	for _, g := range withClosures(f) {
		for l := range s.May(g) {
			may[l] = true
		}
	}
	var bad []string
	for _, l := range append([]string{lNewReader}, lineReads...) {
		if may[l] {
			bad = append(bad, l)
		}
	}
	R.Ob("(*Conn).handleBdat/raw payload", c.P.Pos(f.Pos()), len(bad) == 0, "chunk path may perform "+strings.Join(bad, ","))

	R.Rule("R-bdat-consume", "E2 must-pass-through", "once the size argument is known every path through handleBdat consumes the declared chunk before returning (pipe copy, with discard of the remainder on a failed copy, or discard)", 2)
	obBdatConsumes(c, bi)
	// the dispatcher hands every BDAT line to handleBdat and does not answer it itself: a refusal issued one level up
	// (before the size is even parsed) leaves the chunk in the command stream
	if hf := c.A.Func("(*Conn).handle"); hf != nil {
		Hd := []string{verbTag(c) + ` == "BDAT"`, `param1 != ""`}
		c.obMustUnder("BDAT reaches handleBdat", hf, []string{"call:(*Conn).handleBdat"}, Hd...)
		v := RunPend(hf, PendRule{
			StartPending: true,
			Disch:        func(in ssa.Instruction) bool { return isStaticCall(in, "(*Conn).handleBdat") },
			Forbid: func(in ssa.Instruction) bool {
				if _, isDefer := in.(*ssa.Defer); isDefer || isStaticCall(in, "(*Conn).handleBdat") {
					return false
				}
				return s.InstrMay(in)["reply"]
			},
			SkipEdge: c.F.SkipUnder(Hd...),
			PhiOK:    c.F.PhiFeasible(Hd...),
		})
		d := ""
		if len(v) > 0 {
			d = fmt.Sprintf("the dispatcher itself can answer a BDAT command at %s without entering handleBdat: the declared chunk is not consumed and its octets are executed as commands", c.P.InstrPos(v[0].At))
		}
		R.Ob("(*Conn).handle/BDAT answered only by handleBdat", c.P.Pos(hf.Pos()), len(v) == 0, d)
	}
	// a chunk thrown away for exceeding the size limit ends the message: what the backend reads up to end-of-file is
	// the concatenation of ALL chunks, never the accepted ones around a hole
	c.obFollow("552 then reset", f, c.direct("reply:552"), []string{lReset}, nil, nil)
	// failed pipe copy => remainder discarded
	for _, cp := range s.Find(f, "copy-to:Conn.bdatPipe") {
		cp := cp
		errAtom := describe(cp.(ssa.Value)) + "#1 != nil"
		c.obFollow("failed pipe copy discards the remainder", f, func(in ssa.Instruction) bool { return in == cp }, []string{"drain:io.Reader"}, c.F.SkipUnder(errAtom), nil)
	}

	R.Rule("R-bdat-reader-is-the-pipe", "E4 value flow", "the backend reads the pipe's reading end itself: exactly the concatenation of the chunk payloads, end-of-file only by the clean close after LAST", 2)
	ruleBdatReaderIsPipe(c)
	ruleGoCapture(c) // the reply to BDAT LAST is the result of THIS message's Data call: the delivery goroutine reports through the channel it captured, not through a connection field a later message may have replaced
	R.Rule("R-bdat-linelimit", "E2", "the line limit is lifted before the chunk is copied to the pipe", 1)
	for _, cp := range s.Find(f, "copy-to:Conn.bdatPipe") {
		seen := s.SeenBefore(cp)
		R.Ob(c.siteKey(cp, "LineLimit=0 before chunk copy"), c.P.InstrPos(cp), seen["st:lineLimitReader.LineLimit=0"], "payload is copied with the command line limit still armed")
	}
	// ... and stays lifted until the last octet of the chunk has been read: the discard of a refused chunk's remainder
	// reads payload too (with the limit back, a remainder without line breaks is a "too long line" and the connection is closed)
	c.obNever("no chunk octet read after the limit is back", f, func(in ssa.Instruction) bool {
		fld, _, v := storedField(in)
		if fld == nil || fld.Name() != "LineLimit" {
			return false
		}
		k, isK := constInt(v)
		return !(isK && k == 0)
	}, []string{"copy-to:Conn.bdatPipe", "drain:io.Reader"}, []string{"st:lineLimitReader.LineLimit=0"}, nil)

	ruleLimiterBypass(c)

	R.Rule("R-bdat-limiter-layer", "E4 layering", "lifting the line limit for a chunk is effective for every payload octet: the limit must not be enforced below the buffered reader the chunk is read from (read-ahead puts payload octets through the limiter before LineLimit=0 executes)", 1)
	if g := c.A.Func("(*Conn).init"); g != nil {
		below := false
		allInstrs(g, func(in ssa.Instruction) {
			if fld, _, v := storedField(in); fld != nil && fld.Name() == "Reader" {
				if d := describe(v); d == "Conn.lineLimitReader" || strings.HasPrefix(d, "alloc:complit") {
					below = true
				}
			}
		})
		chunkFromBuffer := false
		for _, cp := range s.Find(f, "copy-to:Conn.bdatPipe") {
			if bi.isChunk(callCommon(cp).Args[1]) {
				chunkFromBuffer = true
			}
		}
		R.Ob("(*Conn).init/line limit is not enforced below the chunk's buffered reader", c.P.Pos(g.Pos()), !(below && chunkFromBuffer),
			"textproto's bufio.Reader reads through lineLimitReader and the chunk is read from that bufio.Reader: payload octets that arrive in the same network read as the BDAT command line are counted as a line before LineLimit=0 takes effect")
	}

	R.Rule("R-bdat-one-call", "E3", "the pipe and the delivery goroutine are created only when no transfer is open; the pipe field is only cleared after the pipe was closed", 3)
	for _, site := range c.Sites(lPipe) {
		c.obUnreach("io.Pipe", site, aPipeOpen)
	}
	allInstrs(f, func(in ssa.Instruction) {
		if _, ok := in.(*ssa.Go); ok {
			c.obUnreach("go delivery", in, aPipeOpen)
		}
	})
	for _, site := range c.Sites("st:Conn.bdatPipe=nil") {
		seen := s.SeenBefore(site)
		R.Ob(c.siteKey(site, "bdatPipe cleared only after close"), c.P.InstrPos(site), seen["pipe-abort"] || seen["pipe-close-clean"], "bdatPipe set to nil on a path that did not close the pipe: the delivery would never see the end of the message")
	}
	// non-nil stores to bdatPipe come from io.Pipe only
	for _, site := range c.Sites("st:Conn.bdatPipe") {
		_, _, v := storedField(site)
		if isNilConst(v) {
			continue
		}
		R.Ob(c.siteKey(site, "bdatPipe from io.Pipe"), c.P.InstrPos(site), describe(v) == "io.Pipe()#1", "bdatPipe assigned from "+describe(v))
	}

	ruleBdatAccounting(c, bi)
	ruleDrainFailureCloses(c) // a chunk that cannot be consumed to its declared size ends the connection
	ruleResetEffects(c)       // no per-message chunk state (total, collector, pipe) survives into the next message

	R.Rule("R-bdat-one-reply", "E2 path counting", "every path through handleBdat emits exactly one final reply (per accepted recipient in LMTP)", 1)
	ruleReplyCountFor(c, []string{"(*Conn).handleBdat"})
	R.Rule("R-state-writers", "who-may-write", "the BDAT pipe is created by handleBdat and forgotten only by reset() and Close, which abort it first", 1)
	c.obWriters("Conn.bdatPipe", "created with the delivery goroutine; cleared after an abort", "(*Conn).handleBdat", "(*Conn).reset", "(*Conn).Close")
	// end-of-file only after the LAST chunk, and only a well-formed LAST token ends the message
	rulePipeClose(c)
	ruleProtocolErrorSites(c)   // a refused BDAT gets its one reply and the connection goes on, however many were refused before
	ruleResultOnEveryExit(c)    // a backend that returns without reading everything releases the chunk copy (reading end closed on every exit): the rest of the chunk is discarded, the next command parsed at the chunk boundary
	ruleLineLimitLayer(c)       // the limit handleBdat lifts is the one textproto reads through
	ruleStreamLayersReadOnly(c) // "all 256 octet values": no layer between the socket and the chunk copy rewrites octets
}

func ruleBdatAccounting(c *Ctx, bi *bdatInfo) {
	R := c.R
	R.Rule("R-bdat-accounting", "E3+E4", "bytesReceived grows by exactly the declared size, only after a successful pipe copy", 1)
	for _, site := range c.Sites("st:Conn.bytesReceived") {
		_, _, v := storedField(site)
		if k, ok := constInt(v); ok && k == 0 {
			continue
		}
		want := "(Conn.bytesReceived + " + bi.sizeDesc + ")"
		R.Ob(c.siteKey(site, "bytesReceived += size"), c.P.InstrPos(site), describe(v) == want, "bytesReceived becomes "+describe(v)+", want "+want)
		c.obFactMatch("bytesReceived only after successful copy", site, `^io\.Copy\(Conn\.bdatPipe,.*\)#1 == nil$`, "accounting on a path where the chunk copy did not succeed")
	}
	// ... and before the transaction is reset, not after: reset() zeroes the total, so a chunk counted after the reset
	// that ends a message is charged to the next message
	if f := c.A.Func("(*Conn).handleBdat"); f != nil {
		c.obNever("chunk counted before the reset, not after", f, c.direct(lReset), []string{"st:Conn.bytesReceived"}, nil, nil)
	}
}

var helperConsumeCache = map[*ssa.Function]int{}

// helperConsumes: g (a package helper) copies io.LimitReader(c.text.R, param k)
// somewhere on every path to its returns; returns k.
func helperConsumes(g *ssa.Function) (int, bool) {
	if !inSmtp(g) || g.Blocks == nil {
		return 0, false
	}
	if k, ok := helperConsumeCache[g]; ok {
		return k, k >= 0
	}
	helperConsumeCache[g] = -1
	re := regexpCache(`^io\.LimitReader\(textproto\.Reader\.R,param(\d+)\)$`)
	res := -1
	allInstrs(g, func(in ssa.Instruction) {
		cc := callCommon(in)
		if cc == nil || staticCallee(cc) == nil || qualFuncName(staticCallee(cc)) != "io.Copy" {
			return
		}
		m := re.FindStringSubmatch(describe(cc.Args[1]))
		if m == nil {
			return
		}
		// must dominate every return
		dom := true
		for _, b := range g.Blocks {
			if len(b.Instrs) == 0 || b == g.Recover {
				continue
			}
			if _, isRet := b.Instrs[len(b.Instrs)-1].(*ssa.Return); isRet && !in.Block().Dominates(b) {
				dom = false
			}
		}
		if dom {
			fmt.Sscanf(m[1], "%d", &res)
		}
	})
	helperConsumeCache[g] = res
	return res, res >= 0
}

// obBdatConsumes (C05 R-bdat-consume, C04 R-bdat-chunk-never-commands): once the size argument is known every path
// through handleBdat consumes the declared chunk.
func obBdatConsumes(c *Ctx, bi *bdatInfo) {
	R := c.R
	f := bi.f
	isConsume := func(in ssa.Instruction) bool {
		cc := callCommon(in)
		if cc == nil {
			return false
		}
		g := staticCallee(cc)
		if g == nil {
			return false
		}
		if qualFuncName(g) == "io.Copy" && bi.isChunk(cc.Args[1]) {
			return true
		}
		// helper that certainly consumes LimitReader(c.text.R, <its parameter k>), called with the declared size
		if k, ok := helperConsumes(g); ok && k < len(cc.Args) && describe(cc.Args[k]) == bi.sizeDesc {
			return true
		}
		return false
	}
	// (a declared size of zero leaves nothing to consume)
	H := []string{`builtin:len(strings.Fields(param1)) != 0`, strings.TrimSuffix(bi.sizeDesc, "#0") + "#1 == nil", bi.sizeDesc + " != 0"}
	res := CountPaths(f, func(in ssa.Instruction) (int, int) {
		if isConsume(in) {
			return 1, 1
		}
		return 0, 0
	}, c.F.SkipUnder(H...), nil)
	d := ""
	if res.Min < 1 {
		d = fmt.Sprintf("with a well-formed size argument the path returning at %s consumes no chunk: the declared octets stay in the command stream and are executed as commands", c.P.InstrPos(res.MinExit))
	}
	R.Ob("(*Conn).handleBdat/every sized path consumes the chunk", c.P.InstrPos(res.MinExit), res.Min >= 1, d)
}
