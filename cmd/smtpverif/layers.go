package main

import (
	"fmt"
	"go/types"
	"regexp"
	"strings"

	"golang.org/x/tools/go/ssa"
)

// ruleStreamLayersReadOnly (C01, C05): the octets the backend reads pass through every layer the library stacks on
// the connection (debug tee, line limiter). io.TeeReader hands its writer the very buffer it then returns to the
// reader, so a repository-defined Write that stores into its argument changes the message; the limiter fills the
// caller's buffer only through the wrapped reader. Decided as a parameter-effect analysis over every Write method of
// the package and lineLimitReader.Read.
func ruleStreamLayersReadOnly(c *Ctx) {
	R := c.R
	R.Rule("R-stream-layers-readonly", "E4 parameter effect", "every Write([]byte) method defined in the package leaves the slice it is handed unmodified (io.Writer contract; io.TeeReader shares that buffer with the reader), and lineLimitReader.Read stores into the caller's buffer only through the wrapped reader's Read", 2)
	n := 0
	// package types that init() puts between the socket and textproto (converted to an io interface there)
	layerTypes := map[string]bool{"lineLimitReader": true}
	if f := c.A.Func("(*Conn).init"); f != nil {
		allInstrs(f, func(in ssa.Instruction) {
			if mi, ok := in.(*ssa.MakeInterface); ok {
				if nt, ok := derefType(mi.X.Type()).(*types.Named); ok && nt.Obj().Pkg() != nil && nt.Obj().Pkg().Path() == smtpPath {
					layerTypes[nt.Obj().Name()] = true
				}
			}
		})
	}
	for _, f := range c.P.AllFuncs() {
		if !inSmtp(f) || f.Blocks == nil || f.Signature.Recv() == nil || f.Parent() != nil {
			continue
		}
		if strings.HasSuffix(f.Name(), "$bound") || strings.HasSuffix(f.Name(), "$thunk") {
			continue
		}
		rt, _ := derefType(f.Signature.Recv().Type()).(*types.Named)
		isW := f.Name() == "Write" && byteSliceIO(f.Signature)
		isR := f.Name() == "Read" && byteSliceIO(f.Signature) && rt != nil && layerTypes[rt.Obj().Name()]
		if !isW && !isR {
			continue
		}
		n++
		p := f.Params[1]
		why := paramMutated(f, p, isR, 0, map[*ssa.Function]bool{})
		what := "argument slice is only read"
		if isR {
			what = "buffer filled only by the wrapped reader"
		}
		R.Ob(funcName(f)+"/"+what, c.P.Pos(f.Pos()), why == "", why)
		if isR {
			// ... and the count handed up is the wrapped reader's count (or 0 with an error): a layer that reports fewer
			// or more octets than were read drops or invents message octets
			var bad []string
			allInstrs(f, func(in ssa.Instruction) {
				r, ok := in.(*ssa.Return)
				if !ok || in.Block() == f.Recover {
					return
				}
				rv := returnedValues(r)
				if len(rv) != 2 {
					return
				}
				for _, l := range leafSources(rv[0]) {
					if layerInnerCount.MatchString(l) {
						continue
					}
					if l == "0" {
						// a count of 0 goes with the layer's OWN refusal; paired with the wrapped reader's error it
						// drops the octets that reader delivered together with that error (io.Reader allows n > 0 with
						// err != nil; crypto/tls does it for the record in front of a close_notify)
						for _, e := range leafSources(rv[1]) {
							if layerInnerErr.MatchString(e) {
								bad = append(bad, "0 together with the wrapped reader's error "+e)
							}
						}
						continue
					}
					bad = append(bad, l)
				}
			})
			R.Ob(funcName(f)+"/count is the wrapped reader's count", c.P.Pos(f.Pos()), len(bad) == 0, fmt.Sprintf("%s can report a count of %v octets: not what the wrapped reader delivered", funcName(f), dedup(bad)))
		}
	}
	R.Ob("stream layers/found", "-", n >= 2, fmt.Sprintf("%d Write/Read layer methods analysed", n))
}

var layerInnerCount = regexp.MustCompile(`^invoke:[A-Za-z.]*Read#0$`)
var layerInnerErr = regexp.MustCompile(`^invoke:[A-Za-z.]*Read#1$`)

func byteSliceIO(sig *types.Signature) bool {
	if sig.Params().Len() != 1 || sig.Results().Len() != 2 {
		return false
	}
	sl, ok := sig.Params().At(0).Type().Underlying().(*types.Slice)
	if !ok {
		return false
	}
	b, ok := sl.Elem().Underlying().(*types.Basic)
	return ok && b.Kind() == types.Byte
}

// readOnlyStdPkgs: standard-library packages whose package-level functions and methods never store into a []byte
// argument (they return copies or sub-slices), minus the listed exceptions.
var readOnlyStdPkgs = map[string]bool{"bytes": true, "fmt": true, "log": true, "unicode/utf8": true, "encoding/hex": true, "strings": true, "unicode": true}
var mutatingStd = map[string]bool{"utf8.EncodeRune": true, "utf8.AppendRune": true, "hex.Encode": true, "hex.Decode": true, "hex.AppendEncode": true, "hex.AppendDecode": true,
	"fmt.Append": true, "fmt.Appendf": true, "fmt.Appendln": true, "bytes.NewBuffer": true, "(*bytes.Buffer).Read": true, "(*bytes.Reader).Read": true, "(*bytes.Reader).ReadAt": true, "(*strings.Reader).Read": true, "(*strings.Reader).ReadAt": true}

// paramMutated: "" when no path through f (and the package functions it hands the slice to) stores into the backing
// array of parameter p; otherwise the construct that does or may.
func paramMutated(f *ssa.Function, p ssa.Value, allowInnerRead bool, depth int, seen map[*ssa.Function]bool) string {
	if seen[f] {
		return ""
	}
	seen[f] = true
	derived := map[ssa.Value]bool{p: true}
	for changed := true; changed; {
		changed = false
		allInstrs(f, func(in ssa.Instruction) {
			v, ok := in.(ssa.Value)
			if !ok || derived[v] {
				return
			}
			add := false
			switch x := in.(type) {
			case *ssa.Slice:
				add = derived[x.X]
			case *ssa.Phi:
				for _, e := range x.Edges {
					if derived[e] {
						add = true
					}
				}
			case *ssa.ChangeType:
				add = derived[x.X]
			case *ssa.MakeInterface:
				add = derived[x.X]
			case *ssa.Call:
				// read-only std functions returning a sub-slice of their argument (bytes.TrimSpace, ...)
				if g := staticCallee(&x.Call); g != nil && g.Pkg != nil && g.Pkg.Pkg.Path() == "bytes" {
					if _, isSl := x.Type().Underlying().(*types.Slice); isSl {
						for _, a := range x.Call.Args {
							if derived[a] {
								add = true
							}
						}
					}
				}
			}
			if add {
				derived[v] = true
				changed = true
			}
		})
	}
	pos := func(in ssa.Instruction) string {
		return f.Prog.Fset.Position(in.Pos()).String()
	}
	out := ""
	allInstrs(f, func(in ssa.Instruction) {
		if out != "" {
			return
		}
		switch x := in.(type) {
		case *ssa.Store:
			if ia, ok := x.Addr.(*ssa.IndexAddr); ok && derived[ia.X] {
				out = fmt.Sprintf("%s stores into the slice it was handed (%s): the reader behind io.TeeReader sees the modified octets", funcName(f), pos(in))
			}
			return
		}
		cc := callCommon(in)
		if cc == nil {
			return
		}
		var hit []int
		for i, a := range cc.Args {
			if derived[a] {
				hit = append(hit, i)
			}
		}
		if len(hit) == 0 {
			return
		}
		if b, ok := cc.Value.(*ssa.Builtin); ok {
			switch b.Name() {
			case "copy", "append":
				if derived[cc.Args[0]] {
					out = fmt.Sprintf("%s uses the slice it was handed as the destination of %s (%s)", funcName(f), b.Name(), pos(in))
				}
			}
			return
		}
		if cc.IsInvoke() {
			switch cc.Method.Name() {
			case "Write", "WriteString", "Print", "Printf", "Println":
				return
			case "Read":
				if allowInnerRead {
					return
				}
			}
			out = fmt.Sprintf("%s hands the slice to %s through an interface (%s): not known to leave it unmodified", funcName(f), cc.Method.Name(), pos(in))
			return
		}
		g := staticCallee(cc)
		if g == nil {
			out = fmt.Sprintf("%s hands the slice to a function value (%s): not known to leave it unmodified", funcName(f), pos(in))
			return
		}
		if inSmtp(g) && g.Blocks != nil {
			if depth >= 3 {
				out = fmt.Sprintf("%s hands the slice to %s (%s): helper chain too deep to decide", funcName(f), funcName(g), pos(in))
				return
			}
			for _, i := range hit {
				k := i
				if k < len(g.Params) {
					if _, isSl := g.Params[k].Type().Underlying().(*types.Slice); !isSl {
						if _, isIf := g.Params[k].Type().Underlying().(*types.Interface); !isIf {
							continue
						}
					}
					if w := paramMutated(g, g.Params[k], false, depth+1, seen); w != "" {
						out = w
						return
					}
				}
			}
			return
		}
		qn := qualFuncName(g)
		pkg := ""
		if g.Pkg != nil {
			pkg = g.Pkg.Pkg.Path()
		} else if r := g.Signature.Recv(); r != nil {
			if nt, ok := derefType(r.Type()).(*types.Named); ok && nt.Obj().Pkg() != nil {
				pkg = nt.Obj().Pkg().Path()
			}
		}
		switch g.Name() {
		case "Write", "WriteString":
			if g.Signature.Recv() != nil {
				return
			}
		}
		if readOnlyStdPkgs[pkg] && !mutatingStd[qn] {
			return
		}
		out = fmt.Sprintf("%s hands the slice to %s (%s): not known to leave it unmodified", funcName(f), qn, pos(in))
	})
	return out
}

func derefType(t types.Type) types.Type {
	if p, ok := t.Underlying().(*types.Pointer); ok {
		return p.Elem()
	}
	return t
}
