package main

import (
	"fmt"
	"go/types"
	"regexp"
	"sort"
	"strings"

	"golang.org/x/tools/go/ssa"
)

type stdPack struct {
	ev *StdEvents
	s  *Summ
}

var stdCache = map[*Ctx]*stdPack{}

func (c *Ctx) Std() (*StdEvents, *Summ) {
	if sp, ok := stdCache[c]; ok {
		return sp.ev, sp.s
	}
	ev := NewStdEvents(c)
	sp := &stdPack{ev: ev, s: NewSumm(c.P, ev.Label)}
	stdCache[c] = sp
	return sp.ev, sp.s
}

// Sites returns all instructions in package smtp directly carrying label l.
func (c *Ctx) Sites(l string) []ssa.Instruction {
	ev, _ := c.Std()
	var out []ssa.Instruction
	for _, f := range c.P.AllFuncs() {
		allInstrs(f, func(in ssa.Instruction) {
			if labelHas(ev.Label(in), l) {
				out = append(out, in)
			}
		})
	}
	return out
}

// SitesPrefix returns instructions carrying a label with the given prefix.
func (c *Ctx) SitesPrefix(pfx string) []ssa.Instruction {
	ev, _ := c.Std()
	var out []ssa.Instruction
	for _, f := range c.P.AllFuncs() {
		allInstrs(f, func(in ssa.Instruction) {
			for _, l := range ev.Label(in) {
				if strings.HasPrefix(l, pfx) {
					out = append(out, in)
					return
				}
			}
		})
	}
	return out
}

// obUnreach records: under assumption H the site must be unreachable.
func (c *Ctx) obUnreach(what string, site ssa.Instruction, H ...string) {
	reach, w := c.ReachableUnder(site, H)
	d := ""
	if reach {
		d = fmt.Sprintf("%s is reachable although {%s}: %s", what, strings.Join(H, " && "), w)
	}
	c.R.Ob(c.siteKey(site, what)+" unless !("+strings.Join(H, "&&")+")", c.P.InstrPos(site), !reach, d)
}

// obReach records: under assumption H the site must stay reachable (the guard
// must not be stricter than the property allows).
func (c *Ctx) obReach(what string, site ssa.Instruction, H ...string) {
	reach, _ := c.ReachableUnder(site, H)
	d := ""
	if !reach {
		d = fmt.Sprintf("%s is NOT reachable when {%s}: the code refuses more than the property allows", what, strings.Join(H, " && "))
	}
	c.R.Ob(c.siteKey(site, what)+" when "+strings.Join(H, "&&"), c.P.InstrPos(site), reach, d)
}

// obHolds records: the fact (any alternative) must hold at site on all paths,
// not invalidated by a later store.
func (c *Ctx) obHolds(what string, site ssa.Instruction, alts ...string) {
	for i := range alts {
		alts[i] = canonAtom(alts[i])
	}
	ok := c.Guarded(site, alts...)
	d := ""
	if !ok {
		ff := c.F.Analyze(site.Parent())
		d = fmt.Sprintf("%s not dominated by guard %s (or the guarded field is written again before it); facts here: %v", what, strings.Join(alts, " | "), ff.At(site).list())
	}
	c.R.Ob(c.siteKey(site, what)+" needs "+alts[0], c.P.InstrPos(site), ok, d)
}

// hasAny: does set contain any of the labels?
func hasAny(s LSet, ls ...string) bool {
	for _, l := range ls {
		if s[l] {
			return true
		}
	}
	return false
}

// labelPred builds an instruction predicate: instruction directly carries one
// of the labels.
func (c *Ctx) direct(ls ...string) func(ssa.Instruction) bool {
	ev, _ := c.Std()
	return func(in ssa.Instruction) bool {
		got := ev.Label(in)
		for _, l := range ls {
			if labelHas(got, l) {
				return true
			}
		}
		return false
	}
}

// mustDo: instruction certainly produces one of the labels (directly or via
// callee must-summary).
func (c *Ctx) mustDo(ls ...string) func(ssa.Instruction) bool {
	_, s := c.Std()
	return func(in ssa.Instruction) bool { return hasAny(s.InstrMust(in), ls...) }
}

// mayDo: instruction may produce one of the labels (directly or via callees).
func (c *Ctx) mayDo(ls ...string) func(ssa.Instruction) bool {
	_, s := c.Std()
	return func(in ssa.Instruction) bool { return hasAny(s.InstrMay(in), ls...) }
}

func (c *Ctx) deferMustDo(ls ...string) func(*ssa.Defer) bool {
	_, s := c.Std()
	return func(d *ssa.Defer) bool { return hasAny(s.deferMust(d), ls...) }
}

// obFollow: after every trigger in f, every path to a normal return passes an
// instruction that certainly produces one of disch. One obligation per trigger.
func (c *Ctx) obFollow(what string, f *ssa.Function, trig func(ssa.Instruction) bool, disch []string, skip func(from, to *ssa.BasicBlock) bool, exitOK func(ssa.Instruction) bool) int {
	var trigs []ssa.Instruction
	allInstrs(f, func(in ssa.Instruction) {
		if trig(in) {
			trigs = append(trigs, in)
		}
	})
	for _, t := range trigs {
		t := t
		var v []PathViolation
		if !c.mustDo(disch...)(t) { // a helper that performs both the trigger and the required event satisfies the rule
			v = RunPend(f, PendRule{
				Trig:     func(in ssa.Instruction) bool { return in == t },
				Disch:    c.mustDo(disch...),
				DeferD:   c.deferMustDo(disch...),
				SkipEdge: skip,
				ExitOK:   exitOK,
				AtExit:   true,
			})
		}
		d := ""
		if len(v) > 0 {
			d = fmt.Sprintf("path from %s to the return at %s does not pass any of %v", c.P.InstrPos(t), c.P.InstrPos(v[0].At), disch)
			if skip == nil && exitOK == nil && c.followedInCallers(f, disch, 0) {
				// the trigger sits in an unexported helper: each of its callers performs the required event after
				// the call, before returning and before reading or dispatching another command line
				v, d = nil, ""
			}
		}
		c.R.Ob(c.siteKey(t, what), c.P.InstrPos(t), len(v) == 0, d)
	}
	return len(trigs)
}

// followedInCallers: f is an unexported top-level helper and at every call site of f the caller passes through one
// of disch (directly, deferred, or in turn through its own callers) before it returns, with no command line read
// or dispatched in between.
func (c *Ctx) followedInCallers(f *ssa.Function, disch []string, depth int) bool {
	if depth > 2 || f.Parent() != nil || isExported(f) || !inSmtp(f) {
		return false
	}
	callers := c.callersOf(f)
	if len(callers) == 0 {
		return false
	}
	_, s := c.Std()
	for _, cs := range callers {
		cs := cs
		if _, isGo := cs.(*ssa.Go); isGo {
			return false
		}
		if _, isDefer := cs.(*ssa.Defer); isDefer {
			return false
		}
		g := cs.Parent()
		v := RunPend(g, PendRule{
			Trig:   func(in ssa.Instruction) bool { return in == cs },
			Disch:  c.mustDo(disch...),
			DeferD: c.deferMustDo(disch...),
			Forbid: func(in ssa.Instruction) bool {
				if in == cs {
					return false
				}
				if _, isDefer := in.(*ssa.Defer); isDefer {
					return false
				}
				return hasAny(s.InstrMay(in), append(append([]string{}, lineReads...), "call:(*Conn).handle")...)
			},
			AtExit: true,
		})
		if len(v) > 0 {
			onlyExit := true
			for _, x := range v {
				if x.Why != "reaches return without the required event" {
					onlyExit = false
				}
			}
			if !onlyExit || !c.followedInCallers(g, disch, depth+1) {
				return false
			}
		}
	}
	return true
}

// obNever: after every trigger in f, no instruction that may produce one of
// the forbidden labels executes before discharge/exit.
func (c *Ctx) obNever(what string, f *ssa.Function, trig func(ssa.Instruction) bool, forbid []string, disch []string, skip func(from, to *ssa.BasicBlock) bool) int {
	var trigs []ssa.Instruction
	allInstrs(f, func(in ssa.Instruction) {
		if trig(in) {
			trigs = append(trigs, in)
		}
	})
	_, s := c.Std()
	for _, t := range trigs {
		t := t
		v := RunPend(f, PendRule{
			Trig:  func(in ssa.Instruction) bool { return in == t },
			Disch: c.mustDo(disch...),
			Forbid: func(in ssa.Instruction) bool {
				if in == t {
					return false
				}
				if d, ok := in.(*ssa.Defer); ok {
					_ = d
					return false
				}
				return c.mayForbidFirst(in, forbid, disch, 0)
			},
			SkipEdge: skip,
		})
		d := ""
		if len(v) > 0 {
			var which []string
			for l := range s.InstrMay(v[0].At) {
				for _, fl := range forbid {
					if l == fl {
						which = append(which, l)
					}
				}
			}
			d = fmt.Sprintf("after %s the path reaches %s which may perform %v", c.P.InstrPos(t), c.P.InstrPos(v[0].At), which)
		}
		c.R.Ob(c.siteKey(t, what), c.P.InstrPos(t), len(v) == 0, d)
	}
	return len(trigs)
}

// obMustUnder: under assumption H every feasible entry→return path of f
// produces one of the labels.
func (c *Ctx) obMustUnder(what string, f *ssa.Function, labels []string, H ...string) {
	_, s := c.Std()
	m, exits := s.MustUnder(f, c.F.SkipUnder(H...))
	ok := hasAny(m, labels...) && exits > 0
	if !ok && exits > 0 && f.Parent() == nil && !isExported(f) && len(f.Blocks) > 0 && len(f.Blocks[0].Instrs) > 0 {
		// the condition may already have been dealt with one level up (a guard hoisted into the dispatcher): if no
		// caller can enter f under H, there is nothing to show here
		if reach, _ := c.ReachableUnder(f.Blocks[0].Instrs[0], H); !reach {
			c.R.Ob(funcName(f)+"/"+what+" when "+strings.Join(H, "&&"), c.P.Pos(f.Pos()), true, "")
			return
		}
	}
	if !ok && exits > 0 {
		// the effect may sit in a helper that tests the same condition itself: a call that lies on every feasible
		// path, to an unexported helper that certainly produces the label under H, counts — provided H only speaks
		// about fields that f has not written before the call
		onlyFields := true
		for _, h := range H {
			if strings.Contains(h, "param") || strings.Contains(h, "local:") || strings.Contains(h, "alloc:") || strings.Contains(h, "next#") {
				onlyFields = false
			}
		}
		if onlyFields {
			allInstrs(f, func(in ssa.Instruction) {
				if ok {
					return
				}
				cc := callCommon(in)
				if cc == nil {
					return
				}
				if _, isDefer := in.(*ssa.Defer); isDefer {
					return
				}
				g := staticCallee(cc)
				if g == nil || !inSmtp(g) || isExported(g) || g == f || g.Blocks == nil {
					return
				}
				if !m["call:"+qualFuncName(g)] {
					return
				}
				gm, gex := s.MustUnder(g, c.F.SkipUnder(H...))
				if gex == 0 || !hasAny(gm, labels...) {
					return
				}
				var flds []*types.Var
				for _, h := range H {
					flds = append(flds, c.F.mentionsOf(canonAtom(h))...)
					flds = append(flds, c.F.mentionsOf(h)...)
				}
				if !c.writtenBefore(in, flds) {
					ok = true
				}
			})
		}
	}
	d := ""
	if !ok {
		d = fmt.Sprintf("under {%s} some path through %s returns without any of %v (feasible exits: %d; events on all such paths: %v)", strings.Join(H, " && "), funcName(f), labels, exits, m.list())
	}
	c.R.Ob(funcName(f)+"/"+what+" when "+strings.Join(H, "&&"), c.P.Pos(f.Pos()), ok, d)
}

// factMatch: does a fact matching the regular expression hold before site
// (lifted through closures/callees like Guarded)?
func (c *Ctx) factMatch(site ssa.Instruction, re string) (bool, string) {
	return c.factMatchD(site, re, 0)
}

// writtenBefore: may one of the fields be written between the entry of site's function and site?
func (c *Ctx) writtenBefore(site ssa.Instruction, fields []*types.Var) bool {
	if len(fields) == 0 {
		return false
	}
	want := map[*types.Var]bool{}
	for _, f := range fields {
		want[f] = true
	}
	// blocks from which the site's block is reachable
	rb := map[*ssa.BasicBlock]bool{site.Block(): true}
	work := []*ssa.BasicBlock{site.Block()}
	inLoop := false
	for len(work) > 0 {
		b := work[len(work)-1]
		work = work[:len(work)-1]
		for _, p := range b.Preds {
			if p == site.Block() {
				inLoop = true
			}
			if !rb[p] {
				rb[p] = true
				work = append(work, p)
			}
		}
	}
	hit := false
	for b := range rb {
		for _, x := range b.Instrs {
			if b == site.Block() && x == site && !inLoop {
				break
			}
			if fld, _, _ := storedField(x); fld != nil && want[fld] {
				hit = true
			}
			if cc := callCommon(x); cc != nil {
				if _, isDefer := x.(*ssa.Defer); isDefer {
					continue
				}
				if g := staticCallee(cc); g != nil && inSmtp(g) {
					for fld := range c.F.MayWrite(g) {
						if want[fld] {
							hit = true
						}
					}
				}
			}
		}
	}
	return hit
}

func (c *Ctx) factMatchD(site ssa.Instruction, re string, depth int) (bool, string) {
	if ok, a := c.factMatchLocal(site, re); ok {
		return true, a
	}
	// an unexported helper inherits what holds at every one of its call sites, unless the helper itself may have
	// written a field the fact speaks about before reaching the site
	f := site.Parent()
	if depth >= 3 || f.Parent() != nil || isExported(f) {
		return false, ""
	}
	callers := c.callersOf(f)
	if len(callers) == 0 {
		return false, ""
	}
	found := ""
	for _, cs := range callers {
		ok, a := c.factMatchD(cs, re, depth+1)
		if !ok {
			return false, ""
		}
		if strings.Contains(a, "param") || strings.Contains(a, "local:") || strings.Contains(a, "alloc:") {
			// the caller's parameters and locals are not the helper's: accepted only because the atom is evaluated in
			// the caller's frame at the call; nothing in the helper can change them
		}
		if c.writtenBefore(site, c.F.mentionsOf(a)) {
			return false, ""
		}
		found = a
	}
	return true, found + " (at every call site of " + funcName(f) + ")"
}

func (c *Ctx) factMatchLocal(site ssa.Instruction, re string) (bool, string) {
	rx := regexp.MustCompile(re)
	ff := c.F.Analyze(site.Parent())
	for a := range ff.At(site) {
		if rx.MatchString(a) {
			return true, a
		}
		if ca := canonAtom(a); ca != a && rx.MatchString(ca) {
			return true, ca
		}
	}
	return false, ""
}

func (c *Ctx) obFactMatch(what string, site ssa.Instruction, re string, explain string) {
	ok, _ := c.factMatch(site, re)
	d := ""
	if !ok {
		ff := c.F.Analyze(site.Parent())
		d = fmt.Sprintf("%s: no fact matching /%s/ holds here; facts: %v", explain, re, ff.At(site).list())
	}
	c.R.Ob(c.siteKey(site, what), c.P.InstrPos(site), ok, d)
}

// deferredAtAllReturns: label is certainly produced (via a registered defer or
// directly) before every normal return of f.
func (c *Ctx) mustAtAllReturns(f *ssa.Function, labels ...string) bool {
	_, s := c.Std()
	return hasAny(s.Must(f), labels...)
}

// countLabel computes min/max occurrences of a direct label on entry→return
// paths of f, following static callees in package smtp (memoised, recursion
// cut).
func (c *Ctx) countLabel(f *ssa.Function, isEvent func(ssa.Instruction) bool, skip func(from, to *ssa.BasicBlock) bool, exitOK func(ssa.Instruction) bool, memo map[*ssa.Function]*CountResult) CountResult {
	if r, ok := memo[f]; ok {
		if r == nil {
			return CountResult{}
		}
		return *r
	}
	memo[f] = nil
	res := CountPaths(f, func(in ssa.Instruction) (int, int) {
		lo, hi := 0, 0
		if isEvent(in) {
			lo, hi = 1, 1
		}
		switch in.(type) {
		case *ssa.Go, *ssa.Defer:
			return lo, hi
		}
		if cc := callCommon(in); cc != nil {
			if g := staticCallee(cc); g != nil && inSmtp(g) {
				r := c.countLabel(g, isEvent, nil, nil, memo)
				lo += r.Min
				if r.Max < 0 || hi >= inf/2 {
					hi = inf
				} else {
					hi += r.Max
				}
			}
		}
		return lo, hi
	}, skip, exitOK)
	memo[f] = &res
	return res
}

// obFollowH: like obFollow, restricted to paths feasible under assumption H,
// with one step of path sensitivity through phi-testing branches.
func (c *Ctx) obFollowH(what string, f *ssa.Function, trig func(ssa.Instruction) bool, disch []string, H ...string) int {
	var trigs []ssa.Instruction
	allInstrs(f, func(in ssa.Instruction) {
		if trig(in) {
			trigs = append(trigs, in)
		}
	})
	for _, t := range trigs {
		t := t
		var v []PathViolation
		// a trigger that is the call of a helper which itself, under H, certainly performs the required event
		helperDoes := false
		if cc := callCommon(t); cc != nil {
			if g := staticCallee(cc); g != nil && inSmtp(g) && !isExported(g) && g.Blocks != nil {
				_, sm := c.Std()
				gm, gex := sm.MustUnder(g, c.F.SkipUnder(H...))
				helperDoes = gex > 0 && hasAny(gm, disch...)
			}
		}
		if !helperDoes {
			v = RunPend(f, PendRule{
				Trig: func(in ssa.Instruction) bool { return in == t },
				Disch: func(in ssa.Instruction) bool {
					return c.mustDo(disch...)(in) || c.helperDoesUnder(in, disch, H)
				},
				DeferD:   c.deferMustDo(disch...),
				SkipEdge: c.F.SkipUnder(H...),
				PhiOK:    c.F.PhiFeasible(H...),
				AtExit:   true,
			})
		}
		d := ""
		if len(v) > 0 {
			d = fmt.Sprintf("under {%s} the path from %s to the return at %s does not pass any of %v", strings.Join(H, " && "), c.P.InstrPos(t), c.P.InstrPos(v[0].At), disch)
		}
		c.R.Ob(c.siteKey(t, what), c.P.InstrPos(t), len(v) == 0, d)
	}
	return len(trigs)
}

var reCache = map[string]*regexp.Regexp{}

func regexpCache(re string) *regexp.Regexp {
	if r, ok := reCache[re]; ok {
		return r
	}
	r := regexp.MustCompile(re)
	reCache[re] = r
	return r
}

func (c *Ctx) stdLabels(in ssa.Instruction) []string {
	ev, _ := c.Std()
	return ev.Label(in)
}

// obNeverH: after the trigger, under assumption H (with one-step path
// sensitivity), no instruction that may produce a forbidden label executes.
func (c *Ctx) obNeverH(what string, f *ssa.Function, trig func(ssa.Instruction) bool, forbid []string, H ...string) {
	var trigs []ssa.Instruction
	allInstrs(f, func(in ssa.Instruction) {
		if trig(in) {
			trigs = append(trigs, in)
		}
	})
	_, s := c.Std()
	for _, t := range trigs {
		t := t
		v := RunPend(f, PendRule{
			Trig: func(in ssa.Instruction) bool { return in == t },
			Forbid: func(in ssa.Instruction) bool {
				if _, ok := in.(*ssa.Defer); ok {
					return false
				}
				return hasAny(s.InstrMay(in), forbid...)
			},
			SkipEdge: c.F.SkipUnder(H...),
			PhiOK:    c.F.PhiFeasible(H...),
		})
		// the trigger itself carries a forbidden label when it is e.g. the Rcpt call: ignore self-hits at the moment of triggering
		var real []PathViolation
		for _, x := range v {
			if x.At != t || x.From != t {
				real = append(real, x)
			}
		}
		d := ""
		if len(real) > 0 {
			d = fmt.Sprintf("under {%s} after %s the path reaches %s", strings.Join(H, " && "), c.P.InstrPos(t), c.P.InstrPos(real[0].At))
		}
		c.R.Ob(c.siteKey(t, what), c.P.InstrPos(t), len(real) == 0, d)
	}
}

// mayForbidFirst: can executing in produce a forbidden label BEFORE it has
// produced a discharging one? For calls into the package the callee is
// analysed with the rule pending at its entry, so a helper that discharges
// first and only then performs the event (e.g. drain(): limited=false; copy)
// does not alarm.
func (c *Ctx) mayForbidFirst(in ssa.Instruction, forbid, disch []string, depth int) bool {
	ev, s := c.Std()
	for _, l := range ev.Label(in) {
		for _, f := range forbid {
			if l == f || strings.HasSuffix(f, ":") && strings.HasPrefix(l, f) {
				return true
			}
		}
	}
	if _, isGo := in.(*ssa.Go); isGo {
		return false
	}
	cc := callCommon(in)
	if cc == nil {
		return false
	}
	g := staticCallee(cc)
	if g == nil || !inSmtp(g) || g.Blocks == nil {
		return false
	}
	if !hasAny(s.May(g), forbid...) {
		// prefix labels such as "go:" need a scan
		pref := false
		for _, f := range forbid {
			if strings.HasSuffix(f, ":") {
				for l := range s.May(g) {
					if strings.HasPrefix(l, f) {
						pref = true
					}
				}
			}
		}
		if !pref {
			return false
		}
	}
	if depth > 3 || len(disch) == 0 {
		return true
	}
	v := RunPend(g, PendRule{
		StartPending: true,
		Trig:         func(ssa.Instruction) bool { return false },
		Disch:        c.mustDo(disch...),
		Forbid: func(x ssa.Instruction) bool {
			if _, ok := x.(*ssa.Defer); ok {
				return false
			}
			return c.mayForbidFirst(x, forbid, disch, depth+1)
		},
	})
	return len(v) > 0
}

// seenBeforeLifted: one of the labels has certainly occurred before site, in
// its own function or - when the function is a helper - before every call of
// that helper (recursively).
func (c *Ctx) seenBeforeLifted(site ssa.Instruction, depth int, labels ...string) bool {
	_, s := c.Std()
	if hasAny(s.SeenBefore(site), labels...) {
		return true
	}
	f := site.Parent()
	if depth > 3 || (f.Parent() == nil && isExported(f)) {
		return false
	}
	callers := c.callersOf(f)
	if len(callers) == 0 {
		return false
	}
	for _, cs := range callers {
		if !c.seenBeforeLifted(cs, depth+1, labels...) {
			return false
		}
	}
	return true
}

// obAccompanied: on every path through f that executes the trigger, one of the labels is produced as well —
// either before the trigger on all paths reaching it, or on every path from it to the function exit. The order
// of the two is left open (a reply and the state change it reports may be swapped without changing behaviour).
func (c *Ctx) obAccompanied(what string, f *ssa.Function, trig func(ssa.Instruction) bool, labels []string, explain string) int {
	_, s := c.Std()
	n := 0
	allInstrs(f, func(t ssa.Instruction) {
		if !trig(t) {
			return
		}
		n++
		seen := s.SeenBefore(t)
		ok := hasAny(seen, labels...)
		where := ""
		if !ok && !c.mustDo(labels...)(t) {
			v := RunPend(f, PendRule{
				Trig:   func(in ssa.Instruction) bool { return in == t },
				Disch:  c.mustDo(labels...),
				DeferD: c.deferMustDo(labels...),
				AtExit: true,
			})
			ok = len(v) == 0
			if !ok {
				where = c.P.InstrPos(v[0].At)
			}
		} else {
			ok = true
		}
		d := ""
		if !ok {
			d = fmt.Sprintf("%s: none of %v happens before %s on every path, and the path to the return at %s does not pass one either", explain, labels, c.P.InstrPos(t), where)
		}
		c.R.Ob(c.siteKey(t, what), c.P.InstrPos(t), ok, d)
	})
	return n
}

// obWriters: who may write a connection field. The allowed writers are the functions that write it on the tree the
// rules were written against, each with a role in the property concerned; a write anywhere else changes the life
// cycle the other rules reason about (cooperating edits in two functions are the usual way such state leaks).
func (c *Ctx) obWriters(field string, why string, allowed ...string) {
	n := 0
	for _, site := range c.SitesPrefix("st:" + field) {
		if !labelHas(c.stdLabels(site), "st:"+field) {
			continue
		}
		n++
		top := site.Parent()
		for top.Parent() != nil {
			top = top.Parent()
		}
		ok := c.onlyCalledFrom(top, allowed, 0)
		c.R.Ob(c.siteKey(site, field+" written only by its owners"), c.P.InstrPos(site), ok, fmt.Sprintf("%s is written in %s; its writers are %v (%s)", field, funcName(top), allowed, why))
	}
	c.R.Ob(field+"/has writers", "-", n >= 1, "no write of "+field+" found")
}

// onlyCalledFrom: f is one of the named functions, or an unexported helper all of whose call sites lie in such
// functions (transitively): a write moved into a helper that only its owner calls keeps the same life cycle.
func (c *Ctx) onlyCalledFrom(f *ssa.Function, allowed []string, depth int) bool {
	for _, a := range allowed {
		if funcName(f) == a {
			return true
		}
	}
	if depth > 3 || isExported(f) {
		return false
	}
	callers := c.callersOf(f)
	if len(callers) == 0 {
		return false
	}
	for _, cs := range callers {
		top := cs.Parent()
		for top.Parent() != nil {
			top = top.Parent()
		}
		if !c.onlyCalledFrom(top, allowed, depth+1) {
			return false
		}
	}
	return true
}

// withHelpers: f and the unexported package functions it calls statically (two levels), so that code moved from a
// handler into a helper of its own stays in the scope of the handler's rules. The connection-wide primitives are
// not helpers of a particular handler.
func (c *Ctx) withHelpers(f *ssa.Function) []*ssa.Function {
	shared := map[string]bool{"(*Conn).writeResponse": true, "(*Conn).writeError": true, "(*Conn).reset": true, "(*Conn).Close": true,
		"(*Conn).protocolError": true, "(*Conn).readLine": true, "(*Conn).Session": true, "(*Conn).setSession": true, "(*Conn).init": true,
		"(*Conn).handlePanic": true, "(*Conn).createStatusCollector": true, "dataErrorToStatus": true, "newDataReader": true}
	out := []*ssa.Function{f}
	seen := map[*ssa.Function]bool{f: true}
	var add func(g *ssa.Function, depth int)
	add = func(g *ssa.Function, depth int) {
		allInstrs(g, func(in ssa.Instruction) {
			cc := callCommon(in)
			if cc == nil {
				return
			}
			h := staticCallee(cc)
			if h == nil || !inSmtp(h) || h.Blocks == nil || seen[h] || isExported(h) || shared[funcName(h)] || h.Parent() != nil {
				return
			}
			if !strings.HasPrefix(funcName(h), "(*Conn).") {
				return
			}
			if strings.HasPrefix(funcName(h), "(*Conn).handle") {
				return // another command handler, not a helper
			}
			seen[h] = true
			out = append(out, h)
			if depth < 2 {
				add(h, depth+1)
			}
		})
	}
	add(f, 1)
	return out
}

// argsAtCallSites: v is a parameter of an unexported, non-closure package helper; returns the values passed for it
// at every call site of the helper (nil if v is not such a parameter or the helper has no callers).
func (c *Ctx) argsAtCallSites(v ssa.Value) []ssa.Value {
	p, ok := stripConv(v).(*ssa.Parameter)
	if !ok {
		return nil
	}
	f := p.Parent()
	if f == nil || f.Parent() != nil || isExported(f) || !inSmtp(f) {
		return nil
	}
	idx := -1
	for i, q := range f.Params {
		if q == p {
			idx = i
		}
	}
	if idx < 0 {
		return nil
	}
	var out []ssa.Value
	for _, cs := range c.callersOf(f) {
		cc := callCommon(cs)
		if cc == nil || idx >= len(cc.Args) {
			return nil
		}
		out = append(out, cc.Args[idx])
	}
	return out
}

// helperDoesUnder: in calls an unexported helper that, under the hypothesis H re-expressed in the helper's own
// parameters (each argument's description replaced by the parameter it is bound to; atoms that still speak about
// the caller's parameters are dropped), certainly performs one of the labels.
func (c *Ctx) helperDoesUnder(in ssa.Instruction, labels []string, H []string) bool {
	cc := callCommon(in)
	if cc == nil {
		return false
	}
	if _, isDefer := in.(*ssa.Defer); isDefer {
		return false
	}
	if _, isGo := in.(*ssa.Go); isGo {
		return false
	}
	g := staticCallee(cc)
	if g == nil || !inSmtp(g) || isExported(g) || g.Blocks == nil || g == in.Parent() {
		return false
	}
	type ad struct {
		d string
		i int
	}
	var args []ad
	for i, a := range cc.Args {
		if _, isK := stripConv(a).(*ssa.Const); isK {
			continue
		}
		args = append(args, ad{describe(a), i})
	}
	sort.Slice(args, func(i, j int) bool { return len(args[i].d) > len(args[j].d) })
	var H2 []string
	for _, h := range H {
		tmp := canonAtom(h)
		for _, a := range args {
			tmp = strings.ReplaceAll(tmp, a.d, fmt.Sprintf("\x00%d\x00", a.i))
		}
		if strings.Contains(tmp, "param") || strings.Contains(tmp, "local:") || strings.Contains(tmp, "alloc:") {
			continue
		}
		for _, a := range args {
			tmp = strings.ReplaceAll(tmp, fmt.Sprintf("\x00%d\x00", a.i), fmt.Sprintf("param%d", a.i))
		}
		H2 = append(H2, tmp)
	}
	_, sm := c.Std()
	gm, gex := sm.MustUnder(g, c.F.SkipUnder(H2...))
	return gex > 0 && hasAny(gm, labels...)
}

// effSite: where a backend callback "happens" for the rules that judge its surroundings: the call itself, or — when
// it sits in an unexported helper that hands the callback's error back to its caller — each call of that helper,
// with the error described in the caller's frame.
type effSite struct {
	site    ssa.Instruction
	errDesc string
	wrapped bool
}

func (c *Ctx) effSites(label, errDescDirect string) []effSite {
	var out []effSite
	for _, site := range c.Sites(label) {
		g := site.Parent()
		if g.Parent() == nil && !isExported(g) && inSmtp(g) {
			if k := returnsErrOrNil(g, errDescDirect); k >= 0 {
				callers := c.callersOf(g)
				okAll := len(callers) > 0
				var wrapped []effSite
				for _, cs := range callers {
					cv, isV := cs.(ssa.Value)
					if !isV {
						okAll = false
						break
					}
					d := describe(cv)
					if g.Signature.Results().Len() > 1 {
						d = fmt.Sprintf("%s#%d", d, k)
					}
					wrapped = append(wrapped, effSite{cs, d, true})
				}
				if okAll {
					out = append(out, wrapped...)
					continue
				}
			}
		}
		out = append(out, effSite{site, errDescDirect, false})
	}
	return out
}

// returnsErrOrNil: index of the result through which every normal return of f hands out either the value described
// by d or nil (and at least one return hands out d); -1 otherwise.
func returnsErrOrNil(f *ssa.Function, d string) int {
	idx := -1
	res := f.Signature.Results()
	for i := 0; i < res.Len(); i++ {
		if res.At(i).Type().String() == "error" {
			idx = i
		}
	}
	if idx < 0 {
		return -1
	}
	ok, hasD, nRet := true, false, 0
	allInstrs(f, func(in ssa.Instruction) {
		r, isR := in.(*ssa.Return)
		if !isR || in.Block() == f.Recover {
			return
		}
		nRet++
		rv := returnedValues(r)
		if idx >= len(rv) {
			ok = false
			return
		}
		for _, l := range leafSources(rv[idx]) {
			switch l {
			case d:
				hasD = true
			case "nil":
			default:
				ok = false
			}
		}
	})
	if !ok || !hasD || nRet == 0 {
		return -1
	}
	return idx
}

// cbErrAtoms: the descriptions under which the error of the callback `label` is known inside f: the direct
// description when f calls the callback itself, the helper call's result when f calls an unexported helper that
// returns the callback's error. Falls back to the direct description.
func (c *Ctx) cbErrAtoms(label, direct string, f *ssa.Function) []string {
	var out []string
	for _, es := range c.effSites(label, direct) {
		if es.site.Parent() == f {
			out = append(out, es.errDesc)
		}
	}
	if len(out) == 0 {
		out = []string{direct}
	}
	return out
}

// cbArgAt: argument i of a callback site as seen from the effective site: the argument itself, or — when it is a
// parameter of a wrapping helper — the value the (single) caller passes for it.
func (c *Ctx) cbArgAt(site ssa.Instruction, i int) ssa.Value {
	cc := callCommon(site)
	if cc == nil || i >= len(cc.Args) {
		return nil
	}
	v := cc.Args[i]
	if as := c.argsAtCallSites(v); len(as) == 1 {
		return as[0]
	}
	return v
}
