package main

import (
	"fmt"
	"regexp"
	"regexp/syntax"
	"sort"
	"strings"
	"unicode"

	"golang.org/x/tools/go/ssa"
)

func init() {
	register(&propDef{
		ID: "C14",
		Explanation: "Round-trip equality over all strings is not structural. Decided, because both sides touch characters only through comparisons with constants: (1) for each of the three encoders the exact set of scalar values written unchanged and the shape of the escape, extracted per class of the rune by an interval-class abstract interpretation of the SSA; " +
			"(2) that pass-through set is disjoint from everything the receiving side treats specially - the decoder's escape introducer and disallowed class (regexp literals parsed from the source constants), the parameter separators of parseArgs, CR/LF; " +
			"(3) for every escaped value of the stated domain the number of hex digits emitted is one the decoder accepts (decoder's per-length ranges extracted the same way); " +
			"(4) client/server pairing of option field, parameter key and extension gate, NOTIFY separator, RRVS layout, unitext chosen iff SMTPUTF8 was advertised.",
		Run: runC14,
	})
}

const maxRune = 0x10FFFF

type encClass struct {
	lo, hi int64
	events []string
	und    string
}

// encoderTable extracts, per class of the rune, what the encoder writes.
func encoderTable(f *ssa.Function) ([]encClass, string) {
	var next *ssa.Next
	allInstrs(f, func(in ssa.Instruction) {
		if n, ok := in.(*ssa.Next); ok && n.IsString {
			next = n
		}
	})
	if next == nil {
		return nil, "no range loop over the input string"
	}
	var ch ssa.Value
	for _, r := range referrers(next) {
		if e, ok := r.(*ssa.Extract); ok && e.Index == 2 {
			ch = e
		}
	}
	if ch == nil {
		return nil, "range loop does not use the rune"
	}
	header := next.Block()
	isSym := func(v ssa.Value) bool { return v == ch }
	var out []encClass
	for _, iv := range classIntervals(f, isSym, 0, maxRune, []int64{0x10, 0x100, 0x1000, 0x10000, 0x100000, 0xD800, 0xE000}) {
		lo, hi := iv[0], iv[1]
		run := &ivRun{env: map[ssa.Value]ivVal{}}
		run.h = ivHooks{
			Value: func(v ssa.Value) (ivVal, bool) {
				if v == ch {
					return ivVal{K: ivSym, Lo: lo, Hi: hi}, true
				}
				if e, ok := v.(*ssa.Extract); ok && e.Tuple == ssa.Value(next) && e.Index == 0 {
					return ivVal{K: ivBool, B: true}, true
				}
				return ivVal{}, false
			},
			Stop: func(b *ssa.BasicBlock) bool { return b == header },
			Call: func(call *ssa.Call, arg func(ssa.Value) ivVal) (ivVal, string) {
				g := staticCallee(&call.Call)
				if g == nil {
					return ivVal{}, ""
				}
				switch qualFuncName(g) {
				case "(*strings.Builder).WriteRune", "(*strings.Builder).WriteByte":
					a := arg(call.Call.Args[1])
					if a.K == ivSym {
						return ivVal{}, "RAW"
					}
					if a.K == ivInt {
						return ivVal{}, fmt.Sprintf("C:%d", a.I)
					}
					return ivVal{}, "?write of " + describe(call.Call.Args[1])
				case "(*strings.Builder).WriteString":
					if s, ok := constString(call.Call.Args[1]); ok {
						return ivVal{}, "S:" + s
					}
					d := describe(call.Call.Args[1])
					if strings.HasPrefix(d, "strings.ToUpper(strconv.FormatInt(") && strings.HasSuffix(d, ",16))") {
						if c2, ok := call.Call.Args[1].(*ssa.Call); ok {
							if c3, ok := c2.Call.Args[0].(*ssa.Call); ok && stripConv(c3.Call.Args[0]) == ch {
								return ivVal{}, "HEX"
							}
						}
					}
					return ivVal{}, "?write of " + d
				case "fmt.Fprintf":
					format, _ := constString(call.Call.Args[1])
					vs := varargValues(call.Call.Args[2])
					if len(vs) == 1 && stripConv(vs[0]) == ch {
						if fprintfHexFormat(format) != nil {
							return ivVal{}, "F:" + format
						}
					}
					return ivVal{}, "?fprintf " + format
				}
				return ivVal{}, ""
			},
		}
		run.Walk(header, nil)
		ec := encClass{lo: lo, hi: hi, events: run.Events, und: run.Und}
		for _, e := range run.Events {
			if strings.HasPrefix(e, "?") {
				ec.und = "unrecognised output: " + e[1:]
			}
		}
		out = append(out, ec)
	}
	return out, ""
}

func (e encClass) raw() bool { return len(e.events) == 1 && e.events[0] == "RAW" }

// escape shape: introducer constants, zero padding, HEX, trailer
// fprintfHexFormat: a constant format made of literal ASCII characters around exactly one upper-case hex verb
// (%X or %02X) is expanded into the primitive events of the same output.
func fprintfHexFormat(format string) []string {
	var ev []string
	verbs := 0
	for i := 0; i < len(format); i++ {
		ch := format[i]
		if ch != '%' {
			if ch >= 0x80 {
				return nil
			}
			ev = append(ev, fmt.Sprintf("C:%d", ch))
			continue
		}
		rest := format[i:]
		switch {
		case strings.HasPrefix(rest, "%%"):
			ev = append(ev, "C:37")
			i++
		case strings.HasPrefix(rest, "%02X"):
			ev = append(ev, "HEX2")
			verbs++
			i += 3
		case strings.HasPrefix(rest, "%X"):
			ev = append(ev, "HEX")
			verbs++
			i++
		default:
			return nil
		}
	}
	if verbs != 1 {
		return nil
	}
	return ev
}

// expanded: the class's events with Fprintf formats replaced by their primitive events.
func (e encClass) expanded() []string {
	var out []string
	for _, x := range e.events {
		if strings.HasPrefix(x, "F:") {
			if ev := fprintfHexFormat(x[2:]); ev != nil {
				out = append(out, ev...)
				continue
			}
		}
		out = append(out, x)
	}
	return out
}

// width: number of hex digits written for v (HEX2 pads to two).
func (e encClass) width(v int64) int {
	_, zeros, hex, _ := e.escape()
	for _, x := range e.expanded() {
		if x == "HEX2" {
			if hexDigits(v) > 2 {
				return hexDigits(v)
			}
			return 2
		}
	}
	w := zeros
	if hex {
		w += hexDigits(v)
	}
	return w
}

func (e encClass) escape() (intro string, zeros int, hex bool, trailer string) {
	e = encClass{lo: e.lo, hi: e.hi, events: e.expanded(), und: e.und}
	i := 0
	var in []string
	for ; i < len(e.events) && strings.HasPrefix(e.events[i], "C:") && e.events[i] != "C:48"; i++ {
		in = append(in, e.events[i][2:])
	}
	for ; i < len(e.events) && e.events[i] == "C:48"; i++ {
		zeros++
	}
	if i < len(e.events) && (e.events[i] == "HEX" || e.events[i] == "HEX2") {
		hex = true
		i++
	}
	var tr []string
	for ; i < len(e.events); i++ {
		tr = append(tr, e.events[i])
	}
	return strings.Join(in, ","), zeros, hex, strings.Join(tr, ",")
}

func hexDigits(v int64) int {
	n := 1
	for v >= 16 {
		v /= 16
		n++
	}
	return n
}

// regexLiteral finds the constant pattern a package-level regexp variable is
// compiled from.
func regexLiteral(c *Ctx, name string) (string, bool) {
	initf := c.P.SPkg.Func("init")
	if initf == nil {
		return "", false
	}
	pat, ok := "", false
	allInstrs(initf, func(in ssa.Instruction) {
		st, isSt := in.(*ssa.Store)
		if !isSt {
			return
		}
		g, isG := st.Addr.(*ssa.Global)
		if !isG || g.Name() != name {
			return
		}
		if call, isC := st.Val.(*ssa.Call); isC {
			if f := staticCallee(&call.Call); f != nil && qualFuncName(f) == "regexp.MustCompile" {
				pat, ok = constString(call.Call.Args[0])
			}
		}
	})
	return pat, ok
}

// regexSpecials: from an alternation of (escape sequence | single-char
// class) returns the introducer runes of literal-led alternatives and the
// ranges of single-character alternatives.
func regexSpecials(pat string) (intro []rune, class []rune, err error) {
	re, err := syntax.Parse(pat, syntax.Perl)
	if err != nil {
		return nil, nil, err
	}
	alts := []*syntax.Regexp{re}
	if re.Op == syntax.OpAlternate {
		alts = re.Sub
	}
	for _, a := range alts {
		switch a.Op {
		case syntax.OpCharClass:
			class = append(class, a.Rune...)
		case syntax.OpLiteral:
			if len(a.Rune) == 1 {
				class = append(class, a.Rune[0], a.Rune[0])
			} else {
				intro = append(intro, a.Rune[0])
			}
		case syntax.OpConcat:
			if len(a.Sub) > 0 && a.Sub[0].Op == syntax.OpLiteral {
				intro = append(intro, a.Sub[0].Rune[0])
			} else if len(a.Sub) > 0 && a.Sub[0].Op == syntax.OpCharClass && len(a.Sub[0].Rune) == 2 && a.Sub[0].Rune[0] == a.Sub[0].Rune[1] {
				intro = append(intro, a.Sub[0].Rune[0])
			} else {
				return nil, nil, fmt.Errorf("alternative %s does not start with a literal", a.String())
			}
		default:
			return nil, nil, fmt.Errorf("unsupported alternative %s", a.String())
		}
	}
	return
}

func inRanges(r rune, ranges []rune) bool {
	for i := 0; i+1 < len(ranges); i += 2 {
		if ranges[i] <= r && r <= ranges[i+1] {
			return true
		}
	}
	return false
}

// firstIn returns the first value of [lo,hi] satisfying pred (scanning at
// most the whole interval for small intervals, otherwise the candidates).
func firstIn(lo, hi int64, cands []int64, pred func(int64) bool) (int64, bool) {
	if hi-lo <= 0x3000 {
		for v := lo; v <= hi; v++ {
			if pred(v) {
				return v, true
			}
		}
		return 0, false
	}
	for _, v := range cands {
		if v >= lo && v <= hi && pred(v) {
			return v, true
		}
	}
	return 0, false
}

// decoderAccepts extracts from decodeUTF8AddrXtext's callback whether an
// embedded \x{HEX} with k hex digits and value v is accepted.
type utf8Decoder struct {
	f       *ssa.Function
	char    ssa.Value
	lenVal  ssa.Value
	matchLn ssa.Value
	classes [][2]int64
}

func newUTF8Decoder(c *Ctx) (*utf8Decoder, string) {
	f := c.A.Func("decodeUTF8AddrXtext$1")
	if f == nil {
		return nil, "decoder callback not found"
	}
	d := &utf8Decoder{f: f}
	allInstrs(f, func(in ssa.Instruction) {
		if call, ok := in.(*ssa.Call); ok {
			if g := staticCallee(&call.Call); g != nil && qualFuncName(g) == "strconv.ParseUint" {
				for _, r := range referrers(call) {
					if e, ok := r.(*ssa.Extract); ok && e.Index == 0 {
						d.char = e
					}
				}
				// len(hexpoint): builtin len of the same argument
				arg := call.Call.Args[0]
				allInstrs(f, func(in2 ssa.Instruction) {
					if c2, ok := in2.(*ssa.Call); ok {
						if b, ok := c2.Call.Value.(*ssa.Builtin); ok && b.Name() == "len" && c2.Call.Args[0] == arg {
							d.lenVal = c2
						}
					}
				})
			}
			if b, ok := call.Call.Value.(*ssa.Builtin); ok && b.Name() == "len" {
				if _, isParam := call.Call.Args[0].(*ssa.Parameter); isParam && d.matchLn == nil {
					d.matchLn = call
				}
			}
		}
	})
	if d.char == nil || d.lenVal == nil {
		return nil, "decoder shape not recognised (ParseUint of the hex point and switch on its length)"
	}
	d.classes = classIntervals(f, func(v ssa.Value) bool { return v == d.char }, 0, 0x1FFFFF, nil)
	return d, ""
}

func (d *utf8Decoder) accepts(k int, v int64) (bool, string) {
	var lo, hi int64 = -1, -1
	for _, iv := range d.classes {
		if iv[0] <= v && v <= iv[1] {
			lo, hi = iv[0], iv[1]
		}
	}
	if lo < 0 {
		return false, "value outside the decoder's 21-bit range"
	}
	run := &ivRun{env: map[ssa.Value]ivVal{}}
	rejected := false
	run.h = ivHooks{
		Value: func(x ssa.Value) (ivVal, bool) {
			switch {
			case x == d.char:
				return ivVal{K: ivSym, Lo: lo, Hi: hi}, true
			case x == d.lenVal:
				return ivVal{K: ivInt, I: int64(k)}, true
			case d.matchLn != nil && x == d.matchLn:
				return ivVal{K: ivInt, I: int64(k) + 4}, true
			}
			if e, ok := x.(*ssa.Extract); ok && e.Index == 1 {
				if call, ok := e.Tuple.(*ssa.Call); ok {
					if g := staticCallee(&call.Call); g != nil && qualFuncName(g) == "strconv.ParseUint" {
						return ivVal{}, false
					}
				}
			}
			return ivVal{}, false
		},
		Store: func(st *ssa.Store, val ivVal) string {
			if _, ok := st.Addr.(*ssa.FreeVar); ok {
				rejected = true
				return "REJECT"
			}
			return ""
		},
	}
	// the ParseUint error is nil for a well-formed hex point: decide that branch
	run.h.Call = func(call *ssa.Call, arg func(ssa.Value) ivVal) (ivVal, string) { return ivVal{}, "" }
	// pre-seed: err == nil comparison
	allInstrs(d.f, func(in ssa.Instruction) {
		if bo, ok := in.(*ssa.BinOp); ok {
			if e, ok := bo.X.(*ssa.Extract); ok && e.Index == 1 && isNilConst(bo.Y) {
				run.env[bo] = ivVal{K: ivBool, B: bo.Op.String() == "=="}
			}
		}
	})
	run.Walk(d.f.Blocks[0], nil)
	if run.Und != "" {
		return false, "undecided: " + run.Und
	}
	return !rejected, ""
}

// ruleEncRawSet extracts the per-class table of each encoder (shared by C14 and C15).
func ruleEncRawSet(c *Ctx) (map[string][]encClass, map[string][][2]int64) {
	R := c.R
	encoders := []string{"encodeXtext", "encodeUTF8AddrXtext", "encodeUTF8AddrUnitext"}
	tables := map[string][]encClass{}
	R.Rule("R-enc-raw-set", "E5 interval-class extraction", "for each encoder every class of the rune is decided: written unchanged, or escaped as introducer + upper-case hex (+ trailer)", 20)
	rawSets := map[string][][2]int64{}
	for _, en := range encoders {
		f := c.A.Func(en)
		if f == nil {
			continue
		}
		tb, err := encoderTable(f)
		if err != "" {
			R.Und(en+"/table", c.P.Pos(f.Pos()), err)
			continue
		}
		tables[en] = tb
		var rows []string
		for _, ec := range tb {
			key := fmt.Sprintf("%s/class [%#x..%#x]", en, ec.lo, ec.hi)
			rows = append(rows, fmt.Sprintf("[%#x..%#x] -> %v", ec.lo, ec.hi, ec.events))
			if ec.und != "" {
				R.Und(key, c.P.Pos(f.Pos()), ec.und)
				continue
			}
			intro, _, hex, _ := ec.escape()
			ok := ec.raw() || (intro != "" && hex)
			R.Ob(key, c.P.Pos(f.Pos()), ok, fmt.Sprintf("class is neither passed through nor escaped as introducer+hex: %v", ec.events))
			if ec.raw() {
				rawSets[en] = append(rawSets[en], [2]int64{ec.lo, ec.hi})
			}
		}
		R.Extra["table_"+en] = rows
	}

	// every exit of an encoder returns the builder filled by the loop: no path hands back the raw input
	for _, en := range encoders {
		f := c.A.Func(en)
		if f == nil {
			continue
		}
		var header *ssa.BasicBlock
		allInstrs(f, func(in ssa.Instruction) {
			if n, ok := in.(*ssa.Next); ok && n.IsString {
				header = n.Block()
			}
		})
		allInstrs(f, func(in ssa.Instruction) {
			r, ok := in.(*ssa.Return)
			if !ok || in.Block() == f.Recover {
				return
			}
			d := describe(returnedValues(r)[0])
			okRet := strings.HasPrefix(d, "(*strings.Builder).String(") && header != nil && header.Dominates(in.Block())
			R.Ob(c.siteKey(in, "returns the encoded builder"), c.P.InstrPos(in), okRet, en+" can return "+d+" without running every character through the encoding loop")
		})
	}
	return tables, rawSets
}

func runC14(c *Ctx) {
	R := c.R
	_, s := c.Std()

	encoders := []string{"encodeXtext", "encodeUTF8AddrXtext", "encodeUTF8AddrUnitext"}
	tables, rawSets := ruleEncRawSet(c)

	R.Rule("R-enc-dec-disjoint", "E8 table agreement", "no character an encoder passes through is special to the receiving side: decoder escape introducer / disallowed class, '=' and the separators parseArgs splits on, CR, LF, and (for the ASCII forms) anything outside printable ASCII", 9)
	hexPat, ok1 := regexLiteral(c, "hexcharRe")
	utfPat, ok2 := regexLiteral(c, "eUOrDCharRe")
	R.Ob("decoders/regexp literals found", "-", ok1 && ok2, "hexcharRe / eUOrDCharRe are no longer compiled from constant patterns")
	// separators of parseArgs
	sepDesc := "unknown"
	var isSep func(r rune) bool
	if f := c.A.Func("parseArgs"); f != nil {
		switch {
		case len(s.Find(f, "call:strings.Fields")) > 0:
			sepDesc = "strings.Fields (unicode.IsSpace)"
			isSep = unicode.IsSpace
		case len(s.Find(f, "call:strings.FieldsFunc")) > 0:
			// separator predicate: closure comparing the rune with constants
			var ks []int64
			for _, g := range withClosures(f) {
				if g == f {
					continue
				}
				allInstrs(g, func(in ssa.Instruction) {
					if bo, ok := in.(*ssa.BinOp); ok && bo.Op.String() == "==" {
						if k, ok := constInt(bo.Y); ok {
							ks = append(ks, k)
						}
					}
				})
			}
			sepDesc = fmt.Sprintf("strings.FieldsFunc on %v", ks)
			isSep = func(r rune) bool {
				for _, k := range ks {
					if int64(r) == k {
						return true
					}
				}
				return false
			}
			if len(ks) == 0 {
				isSep = nil
			}
		}
		eq := false
		allInstrs(f, func(in ssa.Instruction) {
			if isStaticCall(in, "strings.Split") || isStaticCall(in, "strings.SplitN") || isStaticCall(in, "strings.Cut") {
				if k, ok := constString(callCommon(in).Args[1]); ok && k == "=" {
					eq = true
				}
			}
		})
		R.Ob("parseArgs/key=value split on '='", c.P.Pos(f.Pos()), eq, "parseArgs no longer splits key and value on '='")
	}
	R.Ob("parseArgs/separator set recognised", "-", isSep != nil, "parseArgs splits parameters with "+sepDesc+": the rule cannot derive the separator set")
	R.Extra["parseArgs_separators"] = sepDesc
	spaceCands := []int64{0x85, 0xA0, 0x1680, 0x2000, 0x2001, 0x2002, 0x2003, 0x2004, 0x2005, 0x2006, 0x2007, 0x2008, 0x2009, 0x200A, 0x2028, 0x2029, 0x202F, 0x205F, 0x3000}
	// structural separators inside parameter values: a split at EVERY occurrence makes the separator special
	var valueSeps []rune
	for _, x := range []struct{ fn, sep string }{{"decodeTypedAddress", ";"}} {
		g := c.A.Func(x.fn)
		if g == nil {
			continue
		}
		bounded := false
		found := false
		allInstrs(g, func(in ssa.Instruction) {
			cc := callCommon(in)
			if cc == nil || staticCallee(cc) == nil {
				return
			}
			switch qualFuncName(staticCallee(cc)) {
			case "strings.SplitN":
				if k, ok := constString(cc.Args[1]); ok && k == x.sep {
					found = true
					if n, ok := constInt(cc.Args[2]); ok && n == 2 {
						bounded = true
					}
				}
			case "strings.Cut":
				if k, ok := constString(cc.Args[1]); ok && k == x.sep {
					found, bounded = true, true
				}
			case "strings.Split":
				if k, ok := constString(cc.Args[1]); ok && k == x.sep {
					found = true
				}
			}
		})
		R.Ob(x.fn+"/splits type and address on '"+x.sep+"'", c.P.Pos(g.Pos()), found, "type/address separator not found")
		if found && !bounded {
			valueSeps = append(valueSeps, rune(x.sep[0]))
		}
	}
	checkDisjoint := func(en, what string, pred func(int64) bool) {
		bad := ""
		for _, iv := range rawSets[en] {
			if v, hit := firstIn(iv[0], iv[1], spaceCands, pred); hit {
				bad = fmt.Sprintf("U+%04X is written unchanged by %s but is %s", v, en, what)
				break
			}
		}
		R.Ob(en+"/pass-through set vs "+what, c.P.Pos(c.A.Func(en).Pos()), bad == "", bad)
	}
	for _, en := range encoders {
		if c.A.Func(en) == nil || tables[en] == nil {
			continue
		}
		checkDisjoint(en, "CR or LF", func(v int64) bool { return v == '\r' || v == '\n' })
		checkDisjoint(en, "a separator the ORCPT decoder splits the address at (it must only split off the type)", func(v int64) bool {
			for _, r := range valueSeps {
				if int64(r) == v {
					return true
				}
			}
			return false
		})
		checkDisjoint(en, "the key/value separator '='", func(v int64) bool { return v == '=' })
		if isSep != nil {
			checkDisjoint(en, "a parameter separator of parseArgs ("+sepDesc+")", func(v int64) bool { return isSep(rune(v)) })
		}
		// white space trimmed from the ends of the argument string by the server
		// (the trim set is read from the code: strings.TrimSpace trims every Unicode space, strings.Trim/TrimRight
		// with a constant cutset trims exactly that set; helpers of the three functions are followed one level)
		unicodeTrim, cutset, unknownTrim := false, "", false
		var scan func(g *ssa.Function, depth int)
		scan = func(g *ssa.Function, depth int) {
			allInstrs(g, func(in ssa.Instruction) {
				cc := callCommon(in)
				if cc == nil {
					return
				}
				callee := staticCallee(cc)
				if callee == nil {
					return
				}
				switch qualFuncName(callee) {
				case "strings.TrimSpace":
					unicodeTrim = true
				case "strings.Trim", "strings.TrimRight":
					if k, ok := constString(cc.Args[1]); ok {
						cutset += k
					} else {
						unknownTrim = true
					}
				case "strings.TrimFunc", "strings.TrimRightFunc":
					unknownTrim = true
				default:
					if depth == 0 && inSmtp(callee) && !isExported(callee) && callee.Blocks != nil && callee.Signature.Recv() == nil && len(callee.Params) == 1 {
						scan(callee, 1) // a one-argument string helper such as trimASCIISpace
					}
				}
			})
		}
		for _, fn := range []string{"parseCmd", "(*Conn).handleMail", "(*Conn).handleRcpt"} {
			if g := c.A.Func(fn); g != nil {
				scan(g, 0)
			}
		}
		if unicodeTrim || unknownTrim {
			checkDisjoint(en, "white space the server trims from the end of the line (strings.TrimSpace)", func(v int64) bool { return unicode.IsSpace(rune(v)) })
		}
		if cutset != "" {
			checkDisjoint(en, "the characters the server trims from the end of the line", func(v int64) bool { return v < 0x110000 && strings.ContainsRune(cutset, rune(v)) })
		}
		if en == "encodeXtext" {
			if ok1 {
				intro, class, err := regexSpecials(hexPat)
				R.Ob("hexcharRe/parsed", "-", err == nil, fmt.Sprint(err))
				checkDisjoint(en, "the xtext escape introducer of the decoder", func(v int64) bool {
					for _, r := range intro {
						if int64(r) == v {
							return true
						}
					}
					return inRanges(rune(v), class)
				})
			}
			checkDisjoint(en, "outside printable ASCII (xtext is defined on ASCII)", func(v int64) bool { return v < 0x21 || v > 0x7E })
		} else if ok2 {
			intro, class, err := regexSpecials(utfPat)
			R.Ob("eUOrDCharRe/parsed", "-", err == nil, fmt.Sprint(err))
			checkDisjoint(en, "the escape introducer of decodeUTF8AddrXtext", func(v int64) bool {
				for _, r := range intro {
					if int64(r) == v {
						return true
					}
				}
				return false
			})
			checkDisjoint(en, "in the decoder's disallowed character class", func(v int64) bool { return inRanges(rune(v), class) })
			if en == "encodeUTF8AddrXtext" {
				checkDisjoint(en, "non-ASCII (the xtext form must be pure ASCII)", func(v int64) bool { return v > 0x7E })
			}
		}
	}

	R.Rule("R-enc-dec-width", "E8 + FormatInt model", "every escaped value of the stated domain is written with a number of hex digits the decoder accepts (xtext: exactly two on 7-bit ASCII; \\x{...}: the per-length ranges of the decoder)", 3)
	if tb := tables["encodeXtext"]; tb != nil {
		bad := ""
		for _, ec := range tb {
			if ec.raw() || ec.und != "" {
				continue
			}
			intro, zeros, hex, trailer := ec.escape()
			for v := ec.lo; v <= ec.hi && v <= 0x7F; v++ {
				w := ec.width(v)
				_, _ = zeros, hex
				if intro != "43" || trailer != "" || w != 2 {
					bad = fmt.Sprintf("U+%04X is escaped as %v with %d hex digit(s); decodeXtext accepts only '+' followed by exactly two", v, ec.events, w)
					break
				}
			}
			if bad != "" {
				break
			}
		}
		R.Ob("encodeXtext/two hex digits on all of 7-bit ASCII", c.P.Pos(c.A.Func("encodeXtext").Pos()), bad == "", bad)
	}
	dec, derr := newUTF8Decoder(c)
	if derr != "" {
		R.Und("decodeUTF8AddrXtext/acceptance table", "-", derr)
	} else {
		for _, en := range []string{"encodeUTF8AddrXtext", "encodeUTF8AddrUnitext"} {
			tb := tables[en]
			if tb == nil {
				continue
			}
			bad := ""
			nChecked := 0
			for _, ec := range tb {
				if ec.raw() || ec.und != "" {
					continue
				}
				intro, zeros, hex, trailer := ec.escape()
				// domain: printable ASCII and non-ASCII scalar values (no surrogates)
				lo, hi := ec.lo, ec.hi
				if hi < 0x20 || lo == 0x7F && hi == 0x7F {
					continue // control characters are outside the property's domain
				}
				if lo >= 0xD800 && hi <= 0xDFFF {
					continue
				}
				if lo < 0x20 {
					lo = 0x20
				}
				if intro != "92,120,123" || trailer != "C:125" || !hex {
					bad = fmt.Sprintf("class [%#x..%#x] is escaped as %v, not as \\x{HEX}", ec.lo, ec.hi, ec.events)
					break
				}
				for _, v := range []int64{lo, hi} {
					if v == 0x7F {
						continue
					}
					nChecked++
					k := ec.width(v)
					_ = zeros
					ok, why := dec.accepts(k, v)
					if !ok {
						bad = fmt.Sprintf("U+%04X is escaped with %d hex digits, which decodeUTF8AddrXtext rejects %s", v, k, why)
					}
					// ... and the tokenizer in front of the callback matches an escape of that many digits at all: the
					// repetition of the hex class in eUOrDCharRe ({1,5} cuts off the six-digit code points of plane 16)
					if ok2 {
						if mn, mx, found := hexRepeatBounds(utfPat); !found {
							bad = "the \\x{HEX} alternative of eUOrDCharRe was not recognised"
						} else if k < mn || (mx >= 0 && k > mx) {
							bad = fmt.Sprintf("U+%04X is escaped with %d hex digits, but eUOrDCharRe only matches escapes of %d..%d digits: the backslash is then taken for a disallowed character and the value refused", v, k, mn, mx)
						}
					}
				}
				if bad != "" {
					break
				}
			}
			R.Ob(en+"/escapes accepted by the decoder", c.P.Pos(c.A.Func(en).Pos()), bad == "" && nChecked > 0, bad)
		}
	}

	ruleRenderVerbatim(c)

	ruleOptsPointerFresh(c)
	ruleXtextDecodesEveryPlus(c)
	rulePathBytesPassThrough(c)
	ruleCapsTable(c)    // an enabled extension is advertised under every configuration: the client drops options of unadvertised ones silently
	ruleParserCursor(c) // the parameters that follow the path reach parseArgs as they were sent
	ruleZeroOptions(c)
	ruleSetOptionsRendered(c)
	ruleEhloKeys(c)
	ruleSizeParam(c) // the SIZE the client renders (any non-zero int64 up to the server's parse width) is parsed back unsigned, base 10, without wrapping

	R.Rule("R-field-key", "E8+E4 pairing", "the client renders each option field under the key the server stores it from; NOTIFY separator, RRVS layout and the unitext/xtext choice agree", 10)
	pairs := []struct{ fn, token, source string }{
		{"(*Client).Mail", " SIZE=", `^(MailOptions\.Size|strconv\.(FormatInt\(MailOptions\.Size,10\)|Itoa\(MailOptions\.Size\)))$`},
		{"(*Client).Mail", " RET=", `^MailOptions\.Return$`},
		{"(*Client).Mail", " ENVID=", `^encodeXtext\(MailOptions\.EnvelopeID\)$`},
		{"(*Client).Mail", " AUTH=", `^encodeXtext\(\*MailOptions\.Auth\)$`},
		{"(*Client).Rcpt", " ORCPT=", `^(RcptOptions\.OriginalRecipientType|phi\{encodeUTF8AddrUnitext\(RcptOptions\.OriginalRecipient\)\|encodeUTF8AddrXtext\(RcptOptions\.OriginalRecipient\)\|encodeXtext\(RcptOptions\.OriginalRecipient\)\})$`},
	}
	for _, p := range pairs {
		f := c.A.Func(p.fn)
		if f == nil {
			continue
		}
		found := false
		for _, w := range builderWrites(f) {
			if !strings.HasPrefix(w.konst, p.token) {
				continue
			}
			found = true
			for _, v := range w.dyn {
				d := describe(stripConv(v))
				R.Ob(c.siteKey(w.in, "value of"+p.token), c.P.InstrPos(w.in), regexpMatch(p.source, d), "parameter"+p.token+" is rendered from "+d)
			}
		}
		R.Ob(p.fn+"/renders"+p.token, c.P.Pos(f.Pos()), found, "parameter"+p.token+" is not rendered")
	}
	// the null identity: the server decodes "<>" to the empty string, so the client writes the empty string as "<>"
	// (the xtext encoding of "" is "", and a bare "AUTH=" is refused)
	if f := c.A.Func("(*Client).Mail"); f != nil {
		null, xt := 0, 0
		for _, w := range builderWrites(f) {
			switch {
			case w.konst == " AUTH=<>":
				null++
				c.obHolds("AUTH=<> iff the identity is empty", w.in, `*MailOptions.Auth == ""`)
			case strings.HasPrefix(w.konst, " AUTH="):
				xt++
				c.obHolds("xtext AUTH only for a non-empty identity", w.in, `*MailOptions.Auth != ""`)
			}
		}
		R.Ob("(*Client).Mail/empty AUTH identity is written as <>", c.P.Pos(f.Pos()), null >= 1 && xt >= 1, fmt.Sprintf("%d writes of \" AUTH=<>\", %d xtext writes: an empty identity (documented as AUTH=<>) is sent as a bare \"AUTH=\", which the server refuses", null, xt))
	}
	if f := c.A.Func("(*Conn).handleMail"); f != nil {
		// server side of the pairing: "<>" is the only spelling of the empty identity
		nullCmp := false
		allInstrs(f, func(in ssa.Instruction) {
			if bo, ok := in.(*ssa.BinOp); ok && (bo.Op.String() == "==" || bo.Op.String() == "!=") {
				if k, ok := constString(bo.Y); ok && k == "<>" {
					nullCmp = true
				}
			}
		})
		R.Ob("(*Conn).handleMail/decodes <> to the empty identity", c.P.Pos(f.Pos()), nullCmp, "the server no longer recognises AUTH=<>")
	}
	if f := c.A.Func("(*Client).Rcpt"); f != nil {
		for _, site := range s.Find(f, "call:encodeUTF8AddrUnitext") {
			c.obHolds("unitext only when SMTPUTF8 was advertised", site, `Client.ext["SMTPUTF8"]#1 == true`)
		}
		for _, site := range s.Find(f, "call:encodeUTF8AddrXtext") {
			c.obHolds("xtext form when SMTPUTF8 was not advertised", site, `Client.ext["SMTPUTF8"]#1 == false`)
		}
		for _, site := range s.Find(f, "call:encodeXtext") {
			c.obHolds("RFC822 form is printable ASCII", site, `isPrintableASCII(RcptOptions.OriginalRecipient) == true`)
			c.obHolds("RFC822 form for type rfc822", site, `RcptOptions.OriginalRecipientType == "RFC822"`)
		}
		// NOTIFY joined with ","
		comma := false
		for _, w := range builderWrites(f) {
			if w.konst == "," {
				comma = true
				// ... between elements: written for every element but the first
				idx := 0
				var others []string
				for a := range c.F.Analyze(f).At(w.in) {
					if !strings.Contains(a, "loopvar:rangeindex") || strings.Contains(a, "< builtin:len(") {
						continue
					}
					if regexp.MustCompile(`^\(loopvar:rangeindex@[^ ]+ \+ 1\) (!= 0|> 0)$`).MatchString(a) {
						idx++
					} else {
						others = append(others, a)
					}
				}
				R.Ob(c.siteKey(w.in, "NOTIFY separator written for every element but the first"), c.P.InstrPos(w.in), idx == 1 && len(others) == 0, fmt.Sprintf("the ',' between NOTIFY elements is guarded by %v instead of index != 0: two elements run together or a list starts with ','", others))
			}
		}
		srvSplit := false
		if g := c.A.Func("(*Conn).handleRcpt"); g != nil {
			allInstrs(g, func(in ssa.Instruction) {
				if isStaticCall(in, "strings.Split") {
					if k, ok := constString(callCommon(in).Args[1]); ok && k == "," {
						srvSplit = true
					}
				}
			})
		}
		R.Ob("NOTIFY/client joins and server splits on ','", c.P.Pos(f.Pos()), comma && srvSplit, "NOTIFY separator disagrees between client and server")
		// RRVS layout
		var cl, sl string
		allInstrs(f, func(in ssa.Instruction) {
			if isStaticCall(in, "(time.Time).Format") {
				cl, _ = constString(callCommon(in).Args[1])
				// what is formatted is the option's own value: Format already drops the fraction by truncation, which
				// is "to the second"; Round(time.Second) sends the NEXT second for .5 and above, Add/Truncate with
				// another unit or a zone-less copy change the instant
				recv := describe(callCommon(in).Args[0])
				okRecv := recv == "RcptOptions.RequireRecipientValidSince" || recv == "(time.Time).UTC(RcptOptions.RequireRecipientValidSince)" || recv == "(time.Time).Truncate(RcptOptions.RequireRecipientValidSince,1000000000)"
				R.Ob(c.siteKey(in, "RRVS formats the option's own instant"), c.P.InstrPos(in), okRecv, "the timestamp rendered is "+recv+", not the RequireRecipientValidSince given by the caller: the backend observes another second")
			}
		})
		if g := c.A.Func("(*Conn).handleRcpt"); g != nil {
			allInstrs(g, func(in ssa.Instruction) {
				if isStaticCall(in, "time.Parse") {
					sl, _ = constString(callCommon(in).Args[0])
				}
			})
		}
		R.Ob("RRVS/same time layout on both sides", c.P.Pos(f.Pos()), cl != "" && cl == sl, fmt.Sprintf("client formats with %q, server parses with %q", cl, sl))
		// ... and the layout keeps the instant to the second: date, time of day, and a numeric zone element
		// (a literal 'Z' labels the caller's wall clock as UTC without converting it), unless the client
		// converts to UTC first
		lossless := true
		missing := ""
		for _, el := range []string{"2006", "01", "02", "15", "04", "05"} {
			if !strings.Contains(cl, el) {
				lossless = false
				missing += " " + el
			}
		}
		zone := false
		for _, z := range []string{"Z07:00", "-07:00", "Z0700", "-0700", "Z07:00:00", "-07:00:00"} {
			if strings.Contains(cl, z) {
				zone = true
			}
		}
		utcFirst := false
		allInstrs(f, func(in ssa.Instruction) {
			if isStaticCall(in, "(time.Time).Format") {
				if strings.HasPrefix(describe(callCommon(in).Args[0]), "(time.Time).UTC(") {
					utcFirst = true
				}
			}
		})
		if !zone && !utcFirst {
			lossless = false
			missing += " numeric-zone"
		}
		R.Ob("RRVS/layout keeps the instant to the second", c.P.Pos(f.Pos()), lossless, fmt.Sprintf("layout %q lacks%s: a timestamp with a non-UTC location is shifted by its zone offset (or truncated) on the way to the backend", cl, missing))
	}
	if f := c.A.Func("(*Client).Mail"); f != nil {
		for _, w := range builderWrites(f) {
			switch w.konst {
			case " SMTPUTF8":
				c.obHolds("SMTPUTF8 token iff opts.UTF8", w.in, `MailOptions.UTF8 == true`)
			case " REQUIRETLS":
				c.obHolds("REQUIRETLS token iff opts.RequireTLS", w.in, `MailOptions.RequireTLS == true`)
			}
		}
		for _, site := range s.Find(f, "call:encodeXtext") {
			if strings.Contains(describe(site.(ssa.Value)), "EnvelopeID") {
				c.obHolds("ENVID is printable ASCII", site, `isPrintableASCII(MailOptions.EnvelopeID) == true`)
			}
		}
	}
	var _ = sort.Strings
}

// ruleRenderVerbatim (C14, C16): the MAIL/RCPT line the client has rendered reaches the wire unchanged.
func ruleRenderVerbatim(c *Ctx) {
	R := c.R
	_, s := c.Std()
	R.Rule("R-render-verbatim", "E4", "the rendered MAIL/RCPT line reaches the wire verbatim: it is an operand of a constant \"%s\" format, never the format itself", 2)
	for _, fn := range []string{"(*Client).Mail", "(*Client).Rcpt"} {
		f := c.A.Func(fn)
		if f == nil {
			continue
		}
		for _, site := range s.Find(f, "ccmd") {
			fv, format, isConst, args, okP := cmdParts(site)
			ok := okP && isConst && format == "%s" && len(args) == 1 && strings.HasPrefix(describe(args[0]), "(*strings.Builder).String(")
			fd := "?"
			if fv != nil {
				fd = describe(fv)
			}
			R.Ob(c.siteKey(site, "line sent as operand of \"%s\""), c.P.InstrPos(site), ok, "the command line is sent with format "+fd+": characters such as '%' in values are not transmitted unchanged")
		}
	}
}

// ruleZeroOptions (C14, C15): an option left at its zero value is "not given": it adds no parameter to the command
// and cannot make the call fail, whatever the server advertised.
func ruleZeroOptions(c *Ctx) {
	R := c.R
	R.Rule("R-zero-options", "E3 edge-feasibility", "with every option field at its zero value Mail/Rcpt return no locally generated error and write no parameter besides the address (and BODY=8BITMIME)", 8)
	for _, x := range []struct {
		fn   string
		H    []string
		base []string
	}{
		{"(*Client).Mail", []string{`MailOptions.RequireTLS == false`, `MailOptions.UTF8 == false`, `MailOptions.Return == ""`, `MailOptions.EnvelopeID == ""`, `MailOptions.Size == 0`, `MailOptions.Auth == nil`}, []string{"MAIL FROM:<%s>", " BODY=8BITMIME"}},
		{"(*Client).Rcpt", []string{`builtin:len(RcptOptions.Notify) == 0`, `RcptOptions.OriginalRecipient == ""`, `(time.Time).IsZero(RcptOptions.RequireRecipientValidSince) == true`}, []string{"RCPT TO:<%s>"}},
	} {
		f := c.A.Func(x.fn)
		if f == nil {
			continue
		}
		n := 0
		allInstrs(f, func(in ssa.Instruction) {
			if isStaticCall(in, "errors.New") || isStaticCall(in, "fmt.Errorf") {
				n++
				c.obUnreach("locally generated error", in, x.H...)
			}
		})
		for _, w := range builderWrites(f) {
			isBase := false
			for _, b := range x.base {
				if w.konst == b {
					isBase = true
				}
			}
			if isBase {
				continue
			}
			n++
			c.obUnreach("parameter "+strings.TrimSpace(w.konst), w.in, x.H...)
		}
		R.Ob(x.fn+"/option sites found", c.P.Pos(f.Pos()), n >= 5, fmt.Sprintf("%d sites", n))
	}
}

// ruleSetOptionsRendered (C14): the converse of R-ext-gate/R-zero-options. An option that is set, valid and whose
// extension the server offers is written to the command on every path that reaches the send, whatever the other
// options are (every subset of options survives, not only each option alone).
func ruleSetOptionsRendered(c *Ctx) {
	R := c.R
	R.Rule("R-set-options-rendered", "E2 must-pass-through under hypothesis", "for each option: set + offered => its parameter is written before the command is sent, on every path (independent of the other options)", 10)
	type row struct {
		fn, key string
		H       []string
	}
	n := 0
	for _, x := range []row{
		{"(*Client).Mail", " BODY=8BITMIME", []string{`Client.ext["8BITMIME"]#1 == true`}},
		{"(*Client).Mail", " SIZE=", []string{`param2 != nil`, `MailOptions.Size > 0`, `Client.ext["SIZE"]#1 == true`}},
		{"(*Client).Mail", " REQUIRETLS", []string{`param2 != nil`, `MailOptions.RequireTLS == true`, `Client.ext["REQUIRETLS"]#1 == true`}},
		{"(*Client).Mail", " SMTPUTF8", []string{`param2 != nil`, `MailOptions.UTF8 == true`, `Client.ext["SMTPUTF8"]#1 == true`}},
		{"(*Client).Mail", " RET=", []string{`param2 != nil`, `MailOptions.Return == "FULL"`, `Client.ext["DSN"]#1 == true`}},
		{"(*Client).Mail", " RET=", []string{`param2 != nil`, `MailOptions.Return == "HDRS"`, `Client.ext["DSN"]#1 == true`}},
		{"(*Client).Mail", " ENVID=", []string{`param2 != nil`, `MailOptions.EnvelopeID != ""`, `isPrintableASCII(MailOptions.EnvelopeID) == true`, `Client.ext["DSN"]#1 == true`}},
		{"(*Client).Mail", " AUTH=", []string{`param2 != nil`, `MailOptions.Auth != nil`, `Client.ext["AUTH"]#1 == true`}},
		{"(*Client).Rcpt", " NOTIFY=", []string{`param2 != nil`, `RcptOptions.Notify != nil`, `builtin:len(RcptOptions.Notify) != 0`, `checkNotifySet(RcptOptions.Notify) == nil`, `Client.ext["DSN"]#1 == true`}},
		{"(*Client).Rcpt", " ORCPT=", []string{`param2 != nil`, `RcptOptions.OriginalRecipient != ""`, `RcptOptions.OriginalRecipientType == "RFC822"`, `isPrintableASCII(RcptOptions.OriginalRecipient) == true`, `Client.ext["DSN"]#1 == true`}},
		{"(*Client).Rcpt", " ORCPT=", []string{`param2 != nil`, `RcptOptions.OriginalRecipient != ""`, `RcptOptions.OriginalRecipientType == "UTF-8"`, `Client.ext["DSN"]#1 == true`}},
		{"(*Client).Rcpt", " RRVS=", []string{`param2 != nil`, `(time.Time).IsZero(RcptOptions.RequireRecipientValidSince) == false`, `Client.ext["RRVS"]#1 == true`}},
	} {
		f := c.A.Func(x.fn)
		if f == nil {
			continue
		}
		writes := map[ssa.Instruction]bool{}
		for _, w := range builderWrites(f) {
			if strings.HasPrefix(w.konst, x.key) {
				writes[w.in] = true
			}
			for _, d := range w.dyn {
				if strings.Contains(describe(d), strings.TrimSpace(x.key)) {
					writes[w.in] = true
				}
			}
		}
		v := RunPend(f, PendRule{
			StartPending: true,
			Disch:        func(in ssa.Instruction) bool { return writes[in] },
			Forbid:       func(in ssa.Instruction) bool { return isStaticCall(in, "(*Client).cmd") },
			SkipEdge:     c.F.SkipUnder(x.H...),
			PhiOK:        c.F.PhiFeasible(x.H...),
		})
		n++
		d := ""
		if len(v) > 0 {
			d = fmt.Sprintf("with {%s} a path reaches the send at %s without having written%s: the option is silently dropped when it is combined with others", strings.Join(x.H, " && "), c.P.InstrPos(v[0].At), x.key)
		}
		R.Ob(x.fn+"/"+strings.TrimSpace(x.key)+" written when "+strings.Join(x.H, "&&"), c.P.Pos(f.Pos()), len(v) == 0 && len(writes) > 0, d)
	}
	R.Ob("option rows/checked", "-", n >= 10, fmt.Sprintf("%d rows", n))
}

// hexRepeatBounds: the repetition bounds (max -1 = unbounded) of the hex-digit class inside the "\x{" HEX "}"
// alternative of the pattern.
func hexRepeatBounds(pat string) (min, max int, found bool) {
	re, err := syntax.Parse(pat, syntax.Perl)
	if err != nil {
		return 0, 0, false
	}
	var walk func(r *syntax.Regexp)
	walk = func(r *syntax.Regexp) {
		if found {
			return
		}
		if r.Op == syntax.OpConcat {
			sawIntro := false
			for _, sub := range r.Sub {
				if sub.Op == syntax.OpLiteral && strings.HasSuffix(string(sub.Rune), "x{") || sub.Op == syntax.OpLiteral && strings.HasSuffix(string(sub.Rune), "x") {
					sawIntro = true
					continue
				}
				if !sawIntro {
					continue
				}
				switch sub.Op {
				case syntax.OpPlus:
					if sub.Sub[0].Op == syntax.OpCharClass {
						min, max, found = 1, -1, true
					}
				case syntax.OpStar:
					if sub.Sub[0].Op == syntax.OpCharClass {
						min, max, found = 0, -1, true
					}
				case syntax.OpRepeat:
					if sub.Sub[0].Op == syntax.OpCharClass {
						min, max, found = sub.Min, sub.Max, true
					}
				case syntax.OpQuest:
					if sub.Sub[0].Op == syntax.OpCharClass {
						min, max, found = 0, 1, true
					}
				}
				if found {
					return
				}
			}
		}
		for _, sub := range r.Sub {
			walk(sub)
		}
	}
	walk(re)
	return
}
