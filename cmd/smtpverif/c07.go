package main

import (
	"fmt"
	"regexp"

	"golang.org/x/tools/go/ssa"
)

func init() {
	register(&propDef{
		ID: "C07",
		Explanation: "Incomplete messages are never presented as complete, decided structurally: from the extracted automaton table the DATA reader returns io.EOF only in the end state (entered only by the end marker) and maps every error of the underlying read to a non-nil, non-EOF error; " +
			"the BDAT pipe is closed cleanly only on the LAST edge after a complete chunk (copy error nil AND copied count equal to the declared size), every other close carries a non-nil error; " +
			"reset() and Conn.Close certainly abort an open pipe and handleConn registers Conn.Close for every exit.",
		Run: runC07,
	})
}

func ruleEOFOnlyAtEnd(c *Ctx) {
	R := c.R
	R.Rule("R-eof-only-at-end", "E5 table", "dataReader.Read returns io.EOF only in the end state without consuming; a read error or network EOF mid-message is returned as a non-nil non-EOF error; nil is returned only when the caller's buffer is full", 12)
	t := buildDotTable(c)
	if t.err != nil {
		R.Und("(*dataReader).Read/table", "-", t.err.Error())
		return
	}
	f := t.m.f
	nEnd := 0
	for _, s := range t.m.states {
		if t.end[s] {
			nEnd++
		}
		for ei, ev := range t.evs {
			o := t.cells[[2]int64{s, int64(ei)}]
			key := fmt.Sprintf("(*dataReader).Read/result(state=%d,%s)", s, t.evName(ei))
			if o.Und != "" {
				R.Und(key, c.P.Pos(o.UndPos), o.Und)
				continue
			}
			if o.Back {
				continue // a normal iteration: no return value
			}
			// the error handed back by ReadByte on a network EOF IS io.EOF
			isEOF := o.RetErr.K == avErrGlobal && o.RetErr.S == "EOF" || o.RetErr.K == avErrIn && ev.Kind == "eof"
			isNil := o.RetErr.K == avErrNil
			ok, why := true, ""
			switch {
			case isEOF && !(t.end[s] && !o.Consumed):
				ok, why = false, "io.EOF returned outside the end state: an incomplete message looks complete"
			case t.end[s] && !isEOF:
				ok, why = false, "end state does not report io.EOF"
			case ev.Kind == "eof" && !t.end[s] && (isNil || isEOF):
				ok, why = false, "network EOF mid-message is not turned into a non-EOF error"
			case ev.Kind == "err" && !t.end[s] && (isNil || isEOF):
				ok, why = false, "read error mid-message is swallowed or reported as EOF"
			case isNil && ev.Kind != "full":
				ok, why = false, "nil error returned although the buffer is not full"
			case o.RetErr.K == avUnknown || o.RetErr.K == avSym:
				ok, why = false, "returned error value is not understood by the table language: "+o.RetErr.String()
			}
			R.Ob(key, c.P.Pos(f.Pos()), ok, why+" ("+t.cellString(s, ei)+")")
		}
	}
	R.Ob("(*dataReader).Read/exactly one end state", c.P.Pos(f.Pos()), nEnd == 1, fmt.Sprintf("%d end states found", nEnd))
	// returns before the loop must carry a non-EOF, known non-nil error
	allInstrs(f, func(in ssa.Instruction) {
		r, ok := in.(*ssa.Return)
		if !ok || len(r.Results) != 2 {
			return
		}
		if reachableFrom(t.m.header, nil)[in.Block()] {
			return
		}
		ok = knownNonNilErr(r.Results[1]) && describe(r.Results[1]) != "EOF"
		R.Ob(c.siteKey(in, "early return is an error"), c.P.InstrPos(in), ok, "Read returns "+describe(r.Results[1])+" before reading")
	})
}

func rulePipeClose(c *Ctx) {
	R := c.R
	_, s := c.Std()
	R.Rule("R-pipe-clean-close", "E3+E4", "the BDAT pipe writer is closed cleanly only on the LAST edge, after a chunk copy that returned no error AND delivered the declared number of octets; every other close of the writer carries a known non-nil error", 4)
	clean := c.Sites("pipe-close-clean")
	for _, site := range clean {
		c.obFactMatch("clean close only for LAST", site, `^(strings\.EqualFold\(strings\.Fields\(param1\)\[1\],"LAST"\) == true|strings\.ToUpper\(strings\.Fields\(param1\)\[1\]\) == "LAST"|strings\.Fields\(param1\)\[1\] == "LAST")$`, "pipe closed cleanly on a path where the LAST token was not seen: the backend sees end-of-message after a non-final chunk")
		c.obFactMatch("clean close only after successful copy", site, `^io\.Copy(N)?\(Conn\.bdatPipe,.*\)#1 == nil$`, "pipe closed cleanly although the chunk copy may have failed")
		okN, _ := c.factMatch(site, `^io\.Copy\(Conn\.bdatPipe,.*\)#0 (==|>=) strconv\.ParseUint\(.*\)#0$`)
		okCopyN, _ := c.factMatch(site, `^io\.CopyN\(Conn\.bdatPipe,.*\)#1 == nil$`)
		R.Ob(c.siteKey(site, "clean close only after a complete chunk"), c.P.InstrPos(site), okN || okCopyN,
			"io.Copy returns a nil error when its source ends early (connection closed inside the chunk): the copied count is never compared with the declared size, so a truncated LAST chunk is delivered as a complete message and answered 250")
	}
	if len(clean) == 0 {
		R.Ob("pipe/clean close exists", "-", false, "no clean close of the BDAT pipe found: a complete message could never end")
	}
	for _, site := range c.Sites("pipe-close-dyn") {
		R.Ob(c.siteKey(site, "writer closed with unknown error"), c.P.InstrPos(site), false, "CloseWithError on the pipe writer with a value that may be nil (nil means clean end-of-message)")
	}
	nAbort := len(c.Sites("pipe-abort"))
	R.Ob("pipe/abort sites", "-", nAbort >= 1, fmt.Sprintf("%d abort sites", nAbort))

	R.Rule("R-abort-on-every-exit", "E1/E2", "reset() and Conn.Close certainly abort an open pipe with a non-nil error; handleConn runs Conn.Close on every exit", 3)
	for _, fn := range []string{"(*Conn).reset", "(*Conn).Close"} {
		if f := c.A.Func(fn); f != nil {
			c.obMustUnder("abort pipe", f, []string{"pipe-abort"}, aPipeOpen)
		}
	}
	// ... and do so before calling into the backend: a Session.Reset/Logout that waits for the running Data call
	// (the two run on different goroutines during BDAT) would otherwise never see its reader fail
	for _, fn := range []string{"(*Conn).reset", "(*Conn).Close"} {
		f := c.A.Func(fn)
		if f == nil {
			continue
		}
		v := RunPend(f, PendRule{
			StartPending: true,
			Disch: func(in ssa.Instruction) bool {
				if c.mustDo("pipe-abort")(in) {
					return true
				}
				// an unexported helper that tests the pipe itself and certainly aborts an open one
				cc := callCommon(in)
				if cc == nil {
					return false
				}
				if _, isDefer := in.(*ssa.Defer); isDefer {
					return false
				}
				g := staticCallee(cc)
				if g == nil || !inSmtp(g) || isExported(g) || g.Blocks == nil {
					return false
				}
				gm, gex := s.MustUnder(g, c.F.SkipUnder(aPipeOpen))
				return gex > 0 && gm["pipe-abort"]
			},
			Forbid: func(in ssa.Instruction) bool {
				if _, ok := in.(*ssa.Defer); ok {
					return false
				}
				return hasAny(s.InstrMay(in), lSessReset, lLogout)
			},
			SkipEdge: c.F.SkipUnder(aPipeOpen),
			PhiOK:    c.F.PhiFeasible(aPipeOpen),
		})
		d := ""
		if len(v) > 0 {
			d = fmt.Sprintf("with a transfer in progress the backend is called at %s before the pipe has been aborted: a Reset/Logout that synchronises with the running Data call blocks forever and the abandoned message's reader never fails", c.P.InstrPos(v[0].At))
		}
		R.Ob(fn+"/abort precedes the backend callback", c.P.Pos(f.Pos()), len(v) == 0, d)
	}
	// the abandoning commands reach those two functions
	ruleAbandonResets(c)
	if f := c.A.Func("(*Server).handleConn"); f != nil {
		R.Ob("(*Server).handleConn/Conn.Close on every exit", c.P.Pos(f.Pos()), s.Must(f)[lClose], "some return path of handleConn does not run Conn.Close: an open transfer is never aborted")
		// the defer must be registered before anything that can return
		ok := true
		where := ""
		allInstrs(f, func(in ssa.Instruction) {
			if r, isR := in.(*ssa.Return); isR {
				_ = r
				in2 := s.mustFlow(f)[in.Block()]
				if in2.top {
					return
				}
				st := mustState{seen: in2.seen.clone(), pend: in2.pend.clone()}
				for _, x := range in.Block().Instrs {
					if x == in {
						break
					}
					s.mustStep(x, &st)
				}
				if !st.seen[lClose] {
					ok = false
					where = c.P.InstrPos(in)
				}
			}
		})
		R.Ob("(*Server).handleConn/Close registered before first return", c.P.Pos(f.Pos()), ok, "return at "+where+" is not covered by the deferred Conn.Close")
	}
}

// ruleNoPositiveAfterShortCopy: a reply that can be positive, sent after a chunk was copied into the BDAT pipe,
// needs the same two facts as the clean close: the copy returned no error and delivered the declared size.
func ruleNoPositiveAfterShortCopy(c *Ctx) {
	R := c.R
	R.Rule("R-no-positive-after-short-copy", "E3+E4", "after the chunk copy, a reply that may be positive (a 2xx constant, or a computed status whose error operand is not known to be non-nil) is sent only where the copy returned no error and delivered the declared number of octets", 3)
	for _, cp := range c.Sites("copy-to:Conn.bdatPipe") {
		f := cp.Parent()
		reach := reachableFrom(cp.Block(), nil)
		after := func(in ssa.Instruction) bool {
			if in.Block() == cp.Block() {
				seenCp := false
				for _, x := range in.Block().Instrs {
					if x == cp {
						seenCp = true
					}
					if x == in {
						return seenCp || loopsBack(cp.Block())
					}
				}
			}
			return reach[in.Block()]
		}
		// reply sites after the copy: in the handler itself, and in helpers of the handler called after the copy
		var sites []ssa.Instruction
		paramSites := map[ssa.Instruction]*ssa.Parameter{} // call in f -> the helper parameter that decides the reply
		helperSet := map[*ssa.Function]bool{}
		for _, h := range c.withHelpers(f) {
			helperSet[h] = true
		}
		allInstrs(f, func(in ssa.Instruction) {
			if !after(in) {
				return
			}
			if labelHas(c.stdLabels(in), "reply") && isStaticCall(in, "(*Conn).writeResponse") {
				sites = append(sites, in)
				return
			}
			if cc := callCommon(in); cc != nil {
				if h := staticCallee(cc); h != nil && h != f && helperSet[h] {
					for _, g := range c.withHelpers(h) {
						allInstrs(g, func(x ssa.Instruction) {
							if labelHas(c.stdLabels(x), "reply") && isStaticCall(x, "(*Conn).writeResponse") {
								// a reply computed from the helper's own parameter is judged at this call (the helper
								// may be shared with a path that has no chunk copy)
								if hx, ok := stripConv(callCommon(x).Args[1]).(*ssa.Extract); ok {
									if hc, ok := hx.Tuple.(*ssa.Call); ok && len(hc.Call.Args) == 1 {
										if _, isP := stripConv(hc.Call.Args[0]).(*ssa.Parameter); isP && g == h {
											paramSites[in] = hc.Call.Args[0].(*ssa.Parameter)
											sites = append(sites, in)
											return
										}
									}
								}
								sites = append(sites, x)
							}
						})
					}
				}
			}
		})
		for _, in := range sites {
			ls := c.stdLabels(in)
			positive, why := false, ""
			if p, isHelperCall := paramSites[in]; isHelperCall {
				// the operand is this call's argument for p
				cc := callCommon(in)
				var v ssa.Value
				for i, q := range p.Parent().Params {
					if q == p && i < len(cc.Args) {
						v = cc.Args[i]
					}
				}
				positive, why = true, "a status computed by "+funcName(p.Parent())+" from "+describe(v)+", which may be nil (nil maps to 250)"
				if v != nil && valueKnownNonNil(v) {
					positive = false
				} else if v != nil {
					if ok, _ := c.factMatch(in, "^"+regexp.QuoteMeta(describe(v))+" != nil$"); ok {
						positive = false
					}
				}
				ls = nil
			}
			switch {
			case ls == nil:
			case labelHas(ls, "reply:2xx"):
				positive, why = true, "a 2xx constant"
			case labelHas(ls, "reply:dyn"):
				positive, why = true, "a computed status"
				cc := callCommon(in)
				if len(cc.Args) >= 2 {
					if ex, ok := stripConv(cc.Args[1]).(*ssa.Extract); ok {
						if call, ok := ex.Tuple.(*ssa.Call); ok && len(call.Call.Args) == 1 {
							v := call.Call.Args[0]
							why = "computed from " + describe(v) + ", which may be nil (nil maps to 250)"
							if valueKnownNonNil(v) {
								positive = false
							} else if ok, _ := c.factMatch(in, "^"+regexp.QuoteMeta(describe(v))+" != nil$"); ok {
								positive = false
							}
						}
					}
				}
			}
			if !positive {
				c.R.Ob(c.siteKey(in, "reply after the copy cannot be positive"), c.P.InstrPos(in), true, "")
				continue
			}
			okE, _ := c.factMatch(in, `^io\.Copy(N)?\(Conn\.bdatPipe,.*\)#1 == nil`)
			okN, _ := c.factMatch(in, `^io\.Copy\(Conn\.bdatPipe,.*\)#0 (==|>=) strconv\.ParseUint\(.*\)#0`)
			okCopyN, _ := c.factMatch(in, `^io\.CopyN\(Conn\.bdatPipe,.*\)#1 == nil`)
			R.Ob(c.siteKey(in, "possibly positive reply only after a complete chunk"), c.P.InstrPos(in), okE && (okN || okCopyN),
				"reply ("+why+") is sent on a path where the chunk copy may have failed or delivered fewer octets than declared: a truncated transfer is answered positively")
		}
	}
}

// loopsBack: the block can reach itself.
func loopsBack(b *ssa.BasicBlock) bool {
	for _, s := range b.Succs {
		if reachableFrom(s, nil)[b] {
			return true
		}
	}
	return false
}

func runC07(c *Ctx) {
	ruleEOFOnlyAtEnd(c)
	ruleDotTable(c)     // the end state is entered by <CRLF>.<CRLF> and by nothing shorter or other: a table that reaches it early reports a clean end-of-file for a message still being sent
	ruleDotStructure(c) // error exits keep the automaton state: a reader that has failed does not report end-of-file next time
	rulePipeClose(c)
	ruleNoPositiveAfterShortCopy(c)
	c.R.Rule("R-bdat-size-decimal", "E4", "the chunk size the short-chunk test compares with is the decimal value of the command's first argument", 1)
	if bi := bdatAnchors(c); bi != nil && bi.parse != nil {
		pc := callCommon(bi.parse)
		b, ok := constInt(pc.Args[1])
		c.R.Ob("(*Conn).handleBdat/size base 10", c.P.InstrPos(bi.parse), ok && b == 10, "the chunk size is not parsed as a decimal number: \"BDAT 010 LAST\" announces ten octets, an octal reading takes eight for the complete chunk and closes the message cleanly")
	}
	rulePipeCreatedOnce(c)
	ruleWriteDeadlineOwner(c)     // a client that stalls in mid-message times out: no reply disarms (or re-arms) the read deadline
	ruleNoCommandWhileDataOpen(c) // the client never completes a body it failed to copy: textproto ends an open dot-writer on the next command
	// a chunk the server threw away for exceeding the size limit ends the transfer: otherwise a later "BDAT 0 LAST"
	// closes the pipe cleanly and the backend reads a message with a chunk missing up to a clean end-of-file
	// a chunk copy that failed (connection lost, read timeout, backend gone) ends the transfer: on every path to the
	// handler's return the pipe is aborted (reset() or Close()), so a later "BDAT 0 LAST" cannot complete the truncated
	// message with a clean end-of-file
	// what the backend reads for a chunked message IS the reading end of the pipe: nothing in between (a LimitReader,
	// a buffering wrapper) can turn "no more octets for now" or "limit reached" into a clean end-of-file
	c.R.Rule("R-bdat-reader-is-the-pipe", "E4 value flow", "the reader handed to Session.Data/LMTPData for a BDAT message is io.Pipe()'s reading end itself", 2)
	ruleBdatReaderIsPipe(c)
	c.R.Rule("R-failed-chunk-aborts", "E2 must-pass-through under hypothesis", "after io.Copy into the BDAT pipe returned an error every path through handleBdat passes through reset() or Close()", 1)
	if f := c.A.Func("(*Conn).handleBdat"); f != nil {
		_, s2 := c.Std()
		nCp := 0
		for _, cp := range s2.Find(f, "copy-to:Conn.bdatPipe") {
			cp := cp
			nCp++
			errAtom := describe(cp.(ssa.Value)) + "#1 != nil"
			c.obFollowH("failed chunk copy aborts the transfer", f, func(in ssa.Instruction) bool { return in == cp }, []string{lReset, lClose}, errAtom)
		}
		c.R.Ob("(*Conn).handleBdat/chunk copies found", c.P.Pos(f.Pos()), nCp >= 1, "no copy into the BDAT pipe")
	}
	c.R.Rule("R-oversize-chunk-aborts", "E2 must-pass-through", "after the 552 refusal of a chunk every path through handleBdat passes through reset() (which aborts the pipe with ErrDataReset)", 1)
	if f := c.A.Func("(*Conn).handleBdat"); f != nil {
		c.obFollow("552 then reset", f, c.direct("reply:552"), []string{lReset}, nil, nil)
	}
}

// ruleBdatReaderIsPipe (C07, C05).
func ruleBdatReaderIsPipe(c *Ctx) {
	R := c.R
	f := c.A.Func("(*Conn).handleBdat")
	if f == nil {
		return
	}
	n := 0
	for _, g := range withClosures(f) {
		allInstrs(g, func(in ssa.Instruction) {
			ls := c.stdLabels(in)
			if !labelHas(ls, lData) && !labelHas(ls, lLMTPData) {
				return
			}
			cc := callCommon(in)
			if cc == nil || len(cc.Args) == 0 {
				return
			}
			n++
			ok := true
			var got []string
			for _, l := range leafSources(cc.Args[0]) {
				got = append(got, l)
				if l != "io.Pipe()#0" {
					ok = false
				}
			}
			R.Ob(c.siteKey(in, "backend reads the pipe itself"), c.P.InstrPos(in), ok && len(got) > 0, fmt.Sprintf("the backend is handed %v: a wrapper around the pipe can report a clean end-of-file although no LAST chunk was received (io.LimitReader at exactly the limit), or hide the abort error", got))
		})
	}
	R.Ob("(*Conn).handleBdat/delivery calls found", c.P.Pos(f.Pos()), n >= 2, fmt.Sprintf("%d Data/LMTPData calls in the BDAT delivery", n))
}

// rulePipeCreatedOnce (C07; the same obligations are part of C05's R-bdat-one-call): the pipe and the delivery
// goroutine are created only while no transfer is open. A second pipe for the same message replaces the field that
// reset()/Close() abort: the first reader is orphaned and never reports that the transfer was abandoned.
func rulePipeCreatedOnce(c *Ctx) {
	R := c.R
	R.Rule("R-pipe-created-once", "E3 edge-feasibility", "io.Pipe and the go statement of handleBdat are unreachable while Conn.bdatPipe != nil", 2)
	for _, site := range c.Sites(lPipe) {
		c.obUnreach("io.Pipe", site, aPipeOpen)
	}
	if f := c.A.Func("(*Conn).handleBdat"); f != nil {
		allInstrs(f, func(in ssa.Instruction) {
			if _, ok := in.(*ssa.Go); ok {
				c.obUnreach("go delivery", in, aPipeOpen)
			}
		})
	}
}
