package main

import (
	"fmt"
	"go/types"
	"regexp"
	"strings"

	"golang.org/x/tools/go/ssa"
)

func init() {
	register(&propDef{
		ID: "C18",
		Explanation: "LMTP client transaction bookkeeping decided structurally: the recipient list grows only by appending the accepted address on Rcpt's success edge and is re-initialised at every transaction boundary (in Mail or at the end of Close), so a later transaction cannot see earlier recipients; " +
			"the reply loop starts at len(rcpts), decreases by one per iteration, reads exactly one reply per iteration, indexes rcpts by len-remaining, and invokes the callback at most once per iteration; " +
			"a per-recipient SMTPError reaches either the callback or, without callback, Close's return value.",
		Run: runC18,
	})
}

func runC18(c *Ctx) {
	R := c.R
	_, s := c.Std()

	R.Rule("R-rcpts-lifecycle", "E1/E2", "Client.rcpts is appended only with the accepted recipient on Rcpt's success edge, and cleared on every path that starts a transaction (Mail) or completes one (dataCloser.Close)", 3)
	ruleRcptsRecorded(c)
	// the status callback belongs to the writer it was supplied for: it is stored into the dataCloser only from
	// LMTPData's own parameter, never kept on the client
	nCb := 0
	for _, st := range c.Sites("st:dataCloser.statusCb") {
		_, _, v := storedField(st)
		nCb++
		fn := funcName(st.Parent())
		R.Ob(c.siteKey(st, "callback comes from this LMTPData call"), c.P.InstrPos(st), fn == "(*Client).LMTPData" && describe(v) == "param1" || isNilConst(v), "dataCloser.statusCb is set to "+describe(v)+" in "+fn+": a callback that outlives its LMTPData call fires for later transactions and hides their refusals from Close")
	}
	R.Ob("dataCloser.statusCb/stored by LMTPData", "-", nCb >= 1, "no store of the status callback found")
	if cl := c.A.Named("Client"); cl != nil {
		if stt, ok := cl.Underlying().(*types.Struct); ok {
			kept := ""
			for i := 0; i < stt.NumFields(); i++ {
				if sig, ok := stt.Field(i).Type().Underlying().(*types.Signature); ok && sig.Params().Len() == 2 {
					if p1, ok := sig.Params().At(1).Type().(*types.Pointer); ok && typeShort(p1) == "*SMTPError" {
						kept = stt.Field(i).Name()
					}
				}
			}
			R.Ob("Client/keeps no status callback", "-", kept == "", "Client has a field "+kept+" holding a per-recipient status callback: it survives the transaction it was given for")
		}
	}

	okMail, okClose := false, false
	whereMail := ""
	if f := c.A.Func("(*Client).Mail"); f != nil {
		okMail = true
		cmds := s.Find(f, "ccmd")
		if len(cmds) == 0 {
			okMail = false
		}
		for _, site := range cmds {
			seen := s.SeenBefore(site)
			if seen["st:Client.rcpts=nil"] {
				continue
			}
			site := site
			v := RunPend(f, PendRule{Trig: func(in ssa.Instruction) bool { return in == site }, Disch: c.mustDo("st:Client.rcpts=nil"), AtExit: true,
				SkipEdge: c.F.SkipUnder(describe(site.(ssa.Value)) + "#2 == nil"), PhiOK: c.F.PhiFeasible(describe(site.(ssa.Value)) + "#2 == nil")})
			if len(v) > 0 {
				okMail = false
				whereMail = c.P.InstrPos(site)
			}
		}
	}
	if f := c.A.Func("(*dataCloser).Close"); f != nil {
		// every normally completing path (return nil or LMTP verdict) clears rcpts
		okClose = true
		any := false
		allInstrs(f, func(in ssa.Instruction) {
			r, ok := in.(*ssa.Return)
			if !ok {
				return
			}
			if !reachableFrom(f.Blocks[0], nil)[in.Block()] {
				return
			}
			seenRead := false
			for l := range s.SeenBefore(in) {
				if replyReadLabels(c)[l] {
					seenRead = true
				}
			}
			if !seenRead {
				return // did not get as far as the replies
			}
			_ = r
			any = true
			if !s.SeenBefore(in)["st:Client.rcpts=nil"] {
				okClose = false
			}
		})
		// LMTP loop paths do not "certainly" read a response (zero recipients): use the closed=true... fall back to Must under success
		if !any {
			okClose = false
		}
	}
	R.Ob("Client/recipient list cleared at a transaction boundary", "-", okMail || okClose,
		"neither Mail (before/after the MAIL command at "+whereMail+") nor dataCloser.Close clears Client.rcpts on every path: the second LMTP transaction on a connection expects the first transaction's recipients again (callbacks fire for stale recipients and Close waits for replies that never come)")
	if f := c.A.Func("(*Client).Reset"); f != nil {
		R.Ob("(*Client).Reset/clears rcpts", c.P.Pos(f.Pos()), len(s.FindMay(f, "st:Client.rcpts=nil")) >= 1, "Reset no longer clears the recipient list")
	}

	R.Rule("R-client-parse", "E4 + who-may-call", "every per-recipient reply that does not match the expected code reaches Close as an *SMTPError (whatever its class), so Close can attribute it and go on to the next recipient", 4)
	ruleClientParse(c)
	R.Rule("R-lmtp-loop", "E4+E6", "the LMTP reply loop counts down from len(rcpts) by one, reads one reply per iteration, attributes it to rcpts[len-remaining] and calls the callback at most once per iteration", 5)
	// which end-of-data exchange runs is decided by the client's protocol (Client.lmtp), whoever created the writer
	if f0 := c.A.Func("(*dataCloser).Close"); f0 != nil {
		nRd := 0
		for _, f := range c18CloseScope(c) {
			loops := findLoops(f)
			allInstrs(f, func(in ssa.Instruction) {
				if !isReplyRead(in) {
					return
				}
				nRd++
				inLoop := false
				for _, li := range loops {
					if li.blocks[in.Block()] {
						inLoop = true
					}
				}
				if inLoop {
					c.obUnreach("per-recipient replies read although the client speaks SMTP", in, `Client.lmtp == false`)
				} else {
					// (the length hypothesis is trivially true; it lets a redundant "count >= 0" guard be decided)
					c.obUnreach("single reply read although the client speaks LMTP", in, `Client.lmtp == true`, `builtin:len(Client.rcpts) >= 0`)
				}
			})
		}
		R.Ob("(*dataCloser).Close/reads replies", c.P.Pos(f0.Pos()), nRd >= 2, "expected a reply loop and a single read")
	}

	if f := c18ReplyLoopFunc(c); f != nil {
		var loop *loopInfo
		for _, li := range findLoops(f) {
			for b := range li.blocks {
				for _, in := range b.Instrs {
					if isReplyRead(in) {
						loop = li
					}
				}
			}
		}
		if loop == nil {
			R.Ob("(*dataCloser).Close/LMTP reply loop", c.P.Pos(f.Pos()), false, "no loop reading replies found")
		} else {
			// two accepted shapes: a countdown from len(rcpts), or a range over rcpts
			rangeShape := loop.overRcShape("Client.rcpts")
			var ctr *ssa.Phi
			for _, in := range loop.header.Instrs {
				if phi, ok := in.(*ssa.Phi); ok && isIntType(phi.Type()) {
					ctr = phi
				}
			}
			okInit, okStep, okCond := false, false, false
			if rangeShape {
				okInit, okStep, okCond = true, true, true // go/ssa's rangeindex loop: -1, +1, < len(rcpts) by construction
			} else if ctr != nil {
				okStep = true
				for i, e := range ctr.Edges {
					if loop.blocks[loop.header.Preds[i]] {
						bo, ok := e.(*ssa.BinOp)
						k, _ := constInt(bo.Y)
						if !ok || bo.Op.String() != "-" || bo.X != ssa.Value(ctr) || k != 1 {
							okStep = false
						}
					} else {
						okInit = describe(e) == "builtin:len(Client.rcpts)"
					}
				}
				if iff, ok := loop.header.Instrs[len(loop.header.Instrs)-1].(*ssa.If); ok {
					if bo, ok := iff.Cond.(*ssa.BinOp); ok && bo.X == ssa.Value(ctr) && bo.Op.String() == ">" {
						k, isK := constInt(bo.Y)
						okCond = isK && k == 0 && loop.header.Succs[0] == loop.body
					}
				}
			}
			R.Ob("(*dataCloser).Close/loop starts at len(rcpts)", c.P.InstrPos(loop.header.Instrs[0]), okInit, "the number of expected replies is not len(Client.rcpts)")
			R.Ob("(*dataCloser).Close/loop decrements by one on every iteration", c.P.InstrPos(loop.header.Instrs[0]), okStep, "the remaining-reply counter is not decremented by exactly one on every continuing path")
			R.Ob("(*dataCloser).Close/loop runs while remaining > 0", c.P.InstrPos(loop.header.Instrs[0]), okCond, "loop condition is not remaining > 0")
			res := CountPathsOpt(f, CountOpts{Start: loop.body, ExitEdge: func(from, to *ssa.BasicBlock) bool { return to == loop.header }, NoReturn: true,
				Count: func(in ssa.Instruction) (int, int) {
					if isReplyRead(in) {
						return 1, 1
					}
					return 0, 0
				}})
			R.Ob("(*dataCloser).Close/one reply read per iteration", c.P.InstrPos(loop.header.Instrs[0]), res.Min == 1 && res.Max == 1, fmt.Sprintf("%d..%d replies read per iteration", res.Min, res.Max))
			cb := CountPathsOpt(f, CountOpts{Start: loop.body, ExitEdge: func(from, to *ssa.BasicBlock) bool { return to == loop.header }, NoReturn: true,
				Count: func(in ssa.Instruction) (int, int) {
					if labelHas(c.stdLabels(in), "dyncall") {
						return 1, 1
					}
					return 0, 0
				}})
			R.Ob("(*dataCloser).Close/callback at most once per iteration", c.P.InstrPos(loop.header.Instrs[0]), cb.Max <= 1, fmt.Sprintf("callback can fire %d times per iteration", cb.Max))
			cbH := CountPathsOpt(f, CountOpts{Start: loop.body, ExitEdge: func(from, to *ssa.BasicBlock) bool { return to == loop.header }, NoReturn: true, SkipEdge: c.F.SkipUnder(`dataCloser.statusCb != nil`),
				Count: func(in ssa.Instruction) (int, int) {
					if labelHas(c.stdLabels(in), "dyncall") {
						return 1, 1
					}
					return 0, 0
				}})
			R.Ob("(*dataCloser).Close/callback exactly once per iteration when supplied", c.P.InstrPos(loop.header.Instrs[0]), cbH.Min == 1 && cbH.Max == 1, fmt.Sprintf("with a callback it fires %d..%d times per iteration", cbH.Min, cbH.Max))
			// attribution
			errAtoms := replyErrAtomsIn(f, loop.blocks)
			assertAtoms := map[string]bool{}
			for _, a := range errAtoms {
				assertAtoms["assert[*SMTPError]("+a+")#0"] = true
			}
			idxRe := regexp.MustCompile(`^Client\.rcpts\[\(builtin:len\(Client\.rcpts\) - loopvar:int@for\.loop#\d+\)\]$`)
			if rangeShape {
				idxRe = regexp.MustCompile(`^Client\.rcpts\[\(loopvar:rangeindex@rangeindex\.loop#\d+ \+ 1\)\]$`)
			}
			for b := range loop.blocks {
				for _, in := range b.Instrs {
					if !labelHas(c.stdLabels(in), "dyncall") {
						continue
					}
					cc := callCommon(in)
					R.Ob(c.siteKey(in, "callback names rcpts[len-remaining]"), c.P.InstrPos(in), describe(cc.Value) == "dataCloser.statusCb" && idxRe.MatchString(describe(cc.Args[0])), "callback invoked as "+describe(cc.Value)+"("+describe(cc.Args[0])+", ...)")
					st := describe(cc.Args[1])
					R.Ob(c.siteKey(in, "callback status is this iteration's reply"), c.P.InstrPos(in), st == "nil" || assertAtoms[st], "callback status is "+st)
					if st == "nil" {
						c.obFactMatch("nil status only for a positive reply", in, "^("+strings.Join(quoteAll(errAtoms), "|")+") == nil$", "positive status reported although the reply was not read successfully")
					}
				}
			}
		}
	}

	ruleLMTPLoopComplete(c)
	ruleLMTPFlag(c)
	ruleStreamLayersReadOnly(c)  // replies delivered together with the transport's error (server hangs up right after them) are not dropped
	ruleLineLimitCounting(c)     // the client's reply reader sits on the same limiter: every LF resets the count, wherever the network cuts the replies
	ruleClientDeadlinesPaired(c) // every per-recipient reply is waited for under the submission timeout

	R.Rule("R-lmtp-error-not-lost", "E4", "a per-recipient SMTPError flows to the callback or, when no callback was supplied, to Close's return value; any other read error is returned", 2)
	if f := c18ReplyLoopFunc(c); f != nil {
		viaReturn, nonSMTP := false, false
		allInstrs(f, func(in ssa.Instruction) {
			r, ok := in.(*ssa.Return)
			if !ok {
				return
			}
			for _, l := range leafSources(returnedValues(r)[0]) {
				for _, a := range replyErrAtoms(f) {
					if strings.Contains(l, "assert[*SMTPError]("+a+")#0") {
						viaReturn = true
					}
					if l == a {
						nonSMTP = true
					}
				}
			}
		})
		R.Ob("(*dataCloser).Close/LMTP refusal without callback is returned", c.P.Pos(f.Pos()), viaReturn, "in LMTP mode a refused recipient's SMTPError can only reach the status callback; with a nil callback (Client.Data) it is dropped and Close returns nil although the message was not delivered")
		R.Ob("(*dataCloser).Close/other read errors are returned", c.P.Pos(f.Pos()), nonSMTP, "a failed read of a reply is not returned")
	}
}

// ruleLMTPLoopComplete: a per-recipient SMTP refusal must not end the reply
// loop: Close has to read one reply per accepted recipient, otherwise the
// unread replies are taken for the answers to the next commands.
func ruleLMTPLoopComplete(c *Ctx) {
	R := c.R
	R.Rule("R-lmtp-loop-complete", "E3 edge-feasibility", "inside the LMTP reply loop only a non-SMTP (I/O) error may return; an SMTPError reply continues with the next recipient", 1)
	f := c18ReplyLoopFunc(c)
	if f == nil {
		return
	}
	n := 0
	for _, li := range findLoops(f) {
		reads := false
		for b := range li.blocks {
			for _, in := range b.Instrs {
				if isReplyRead(in) {
					reads = true
				}
			}
		}
		if !reads {
			continue
		}
		// returns reachable from the loop body without passing the header's exit edge
		region := reachableFrom(li.body, func(from, to *ssa.BasicBlock) bool { return to == li.header })
		for b := range region {
			for _, in := range b.Instrs {
				if _, ok := in.(*ssa.Return); ok {
					n++
					var H []string
					for _, a := range replyErrAtomsIn(f, li.blocks) {
						H = append(H, "assert[*SMTPError]("+a+")#1 == true")
					}
					if len(H) == 1 {
						c.obUnreach("return from inside the reply loop", in, H...)
						// ... and what it returns is that failed read's error, not a verdict kept from an
						// earlier recipient (nil when every earlier recipient was accepted): the caller must
						// learn that replies are missing
						a := replyErrAtomsIn(f, li.blocks)[0]
						good, leaves := true, leafSources(returnedValues(in.(*ssa.Return))[0])
						for _, l := range leaves {
							if !strings.Contains(l, a) || strings.Contains(l, "assert[") {
								good = false
							}
						}
						R.Ob(c.siteKey(in, "return from inside the reply loop hands out the read error"), c.P.InstrPos(in), good && len(leaves) > 0, fmt.Sprintf("the return inside the reply loop yields %v, not the error of the failed read (%s)", leaves, a))
					} else {
						R.Ob(c.siteKey(in, "return from inside the reply loop"), c.P.InstrPos(in), false, fmt.Sprintf("%d reply reads in the loop function: which reply the return belongs to is not decided", len(H)))
					}
				}
			}
		}
	}
	if n == 0 {
		R.Ob("(*dataCloser).Close/loop has an I/O-error return", c.P.Pos(f.Pos()), true, "")
	}
}

// ruleRcptsRecorded (C18 R-rcpts-lifecycle, C16 R-recipients-as-accepted): the client's list of recipients — the
// number of LMTP replies Close waits for, and the names it attributes them to — holds exactly the recipients the
// server accepted: appended on the success edge of the RCPT command only, and on every such edge.
func ruleRcptsRecorded(c *Ctx) {
	R := c.R
	_, s := c.Std()
	closeScope := map[string]bool{}
	for _, g := range c18CloseScope(c) {
		closeScope[funcName(g)] = true
	}
	for _, st := range c.Sites("st:Client.rcpts") {
		_, _, v := storedField(st)
		if isNilConst(v) {
			// the list is dropped only where the server's transaction ends or begins too: MAIL, a successful RSET,
			// the end-of-data exchange. A refused DATA (or anything else) leaves the transaction — and the accepted
			// recipients — in place on the server; DATA may be retried and is then answered once per recipient
			fn := funcName(st.Parent())
			boundary := func(n string) bool { return n == "(*Client).Mail" || n == "(*Client).Reset" || closeScope[n] }
			okPlace := boundary(fn)
			if g := st.Parent(); !okPlace && !isExported(g) && g.Parent() == nil {
				// an unexported helper (forgetRecipients): judged by who calls it
				callers := c.callersOf(g)
				okPlace = len(callers) > 0
				for _, cs := range callers {
					if !boundary(funcName(cs.Parent())) {
						okPlace = false
						fn = funcName(cs.Parent()) + " (through " + funcName(g) + ")"
					}
				}
			}
			R.Ob(c.siteKey(st, "recipients dropped only at a transaction boundary"), c.P.InstrPos(st), okPlace, fn+" clears Client.rcpts although the server's transaction (and its accepted recipients) is still open: a later DATA in the same transaction is answered once per recipient, but Close waits for none — the statuses are lost and the unread replies are taken for the answers to the next commands")
			if funcName(st.Parent()) == "(*Client).Reset" {
				c.obFactMatch("recipients dropped by Reset only after the server agreed", st, `^\(\*Client\)\.cmd\(param0,250,"RSET",.*\)#2 == nil$`, "Reset drops the recipients although RSET was not accepted")
			}
			continue
		}
		fn := funcName(st.Parent())
		d := describe(v)
		accepted := `^\(\*Client\)\.cmd\(param0,25,"%s",.*\)#2 == nil$`
		if g := st.Parent(); fn != "(*Client).Rcpt" && !isExported(g) && g.Parent() == nil && d == "builtin:append(Client.rcpts,slice(alloc:varargs))" {
			// an unexported helper that records its parameter: judged at its call sites
			arg := describeVarargs(v.(*ssa.Call).Call.Args[1])
			idx := -1
			for i := range g.Params {
				if arg == fmt.Sprintf("param%d", i) {
					idx = i
				}
			}
			callers := c.callersOf(g)
			R.Ob(c.siteKey(st, "rcpts = append(rcpts, <helper parameter>)"), c.P.InstrPos(st), idx >= 0 && len(callers) > 0, "helper "+fn+" appends "+arg)
			for _, cs := range callers {
				cc := callCommon(cs)
				okArg := cc != nil && idx >= 0 && idx < len(cc.Args) && describe(cc.Args[idx]) == "param1" && funcName(cs.Parent()) == "(*Client).Rcpt"
				R.Ob(c.siteKey(cs, "helper records the accepted recipient"), c.P.InstrPos(cs), okArg, "recording helper called from "+funcName(cs.Parent())+" with a value that is not Rcpt's recipient")
				c.obFactMatch("append only after the server accepted", cs, accepted, "recipient recorded although RCPT was not accepted")
			}
			continue
		}
		R.Ob(c.siteKey(st, "rcpts = append(rcpts, to)"), c.P.InstrPos(st), fn == "(*Client).Rcpt" && d == "builtin:append(Client.rcpts,slice(alloc:varargs))" && describeVarargs(v.(*ssa.Call).Call.Args[1]) == "param1", "rcpts becomes "+d+" in "+fn)
		c.obFactMatch("append only after the server accepted", st, accepted, "recipient recorded although RCPT was not accepted")
	}
	if f := c.A.Func("(*Client).Rcpt"); f != nil {
		// ... and EVERY accepted RCPT is recorded (the server answers once per accepted RCPT command, repeated addresses included)
		for _, site := range s.Find(f, "ccmd") {
			site := site
			c.obFollowH("every accepted RCPT is recorded", f, func(in ssa.Instruction) bool { return in == site }, []string{"st:Client.rcpts"}, describe(site.(ssa.Value))+"#2 == nil")
		}
	}
}

// c18CloseScope: (*dataCloser).Close and the unexported helpers it calls (one level): the end-of-data exchange may be
// split into helpers (readLMTPReplies).
func c18CloseScope(c *Ctx) []*ssa.Function {
	f := c.A.Func("(*dataCloser).Close")
	if f == nil {
		return nil
	}
	out := []*ssa.Function{f}
	seen := map[*ssa.Function]bool{f: true}
	allInstrs(f, func(in ssa.Instruction) {
		cc := callCommon(in)
		if cc == nil {
			return
		}
		g := staticCallee(cc)
		if g == nil || seen[g] || !inSmtp(g) || isExported(g) || g.Blocks == nil || g.Parent() != nil {
			return
		}
		n := funcName(g)
		if strings.HasPrefix(n, "(*dataCloser).") {
			seen[g] = true
			out = append(out, g)
		}
	})
	return out
}

// c18ReplyLoopFunc: the function of the Close scope that holds the per-recipient reply loop (Close itself on the tree
// as it is).
func c18ReplyLoopFunc(c *Ctx) *ssa.Function {
	for _, f := range c18CloseScope(c) {
		for _, li := range findLoops(f) {
			for b := range li.blocks {
				for _, in := range b.Instrs {
					if isReplyRead(in) {
						return f
					}
				}
			}
		}
	}
	return c.A.Func("(*dataCloser).Close")
}

// A "reply read" is a call of (*Client).readResponse, or of a thin unexported wrapper of it: a package function whose
// only call is readResponse, with the expected code 250 (constant, or a parameter bound to 250), and whose error
// result is readResponse's error on every return (readRcptStatus() error { _, _, err := c.readResponse(250); return err }).
func replyReadErrAtom(in ssa.Instruction) (string, bool) {
	v, isV := in.(ssa.Value)
	cc := callCommon(in)
	if !isV || cc == nil {
		return "", false
	}
	if _, isCall := in.(*ssa.Call); !isCall {
		return "", false
	}
	g := staticCallee(cc)
	if g == nil {
		return "", false
	}
	if funcName(g) == "(*Client).readResponse" {
		return describe(v) + "#2", true
	}
	if !inSmtp(g) || isExported(g) || g.Parent() != nil || g.Blocks == nil {
		return "", false
	}
	var inner *ssa.Call
	nCalls := 0
	allInstrs(g, func(i2 ssa.Instruction) {
		if c2 := callCommon(i2); c2 != nil {
			if _, isB := c2.Value.(*ssa.Builtin); isB {
				return
			}
			nCalls++
			if h := staticCallee(c2); h != nil && funcName(h) == "(*Client).readResponse" {
				inner, _ = i2.(*ssa.Call)
			}
		}
	})
	if inner == nil || nCalls != 1 {
		return "", false
	}
	// expected code
	code := describe(inner.Call.Args[1])
	for i, p := range g.Params {
		if inner.Call.Args[1] == ssa.Value(p) && i < len(cc.Args) {
			code = describe(cc.Args[i])
		}
	}
	if code != "250" {
		return "", false
	}
	k := returnsValueDescribed(g, describe(inner)+"#2")
	if k < 0 {
		return "", false
	}
	if g.Signature.Results().Len() == 1 {
		return describe(v), true
	}
	return fmt.Sprintf("%s#%d", describe(v), k), true
}

func isReplyRead(in ssa.Instruction) bool {
	_, ok := replyReadErrAtom(in)
	return ok
}

func replyErrAtoms(f *ssa.Function) []string { return replyErrAtomsIn(f, nil) }

func replyErrAtomsIn(f *ssa.Function, blocks map[*ssa.BasicBlock]bool) []string {
	var out []string
	allInstrs(f, func(in ssa.Instruction) {
		if blocks != nil && !blocks[in.Block()] {
			return
		}
		if a, ok := replyReadErrAtom(in); ok {
			out = append(out, a)
		}
	})
	return dedup(out)
}

// replyReadLabels: the event labels of reply reads in the Close scope (readResponse and its thin wrappers).
func replyReadLabels(c *Ctx) map[string]bool {
	out := map[string]bool{"call:(*Client).readResponse": true}
	for _, f := range c18CloseScope(c) {
		allInstrs(f, func(in ssa.Instruction) {
			if isReplyRead(in) {
				if g := staticCallee(callCommon(in)); g != nil {
					out["call:"+funcName(g)] = true
				}
			}
		})
	}
	return out
}

func quoteAll(ss []string) []string {
	var out []string
	for _, x := range ss {
		out = append(out, regexp.QuoteMeta(x))
	}
	return out
}

// ruleLMTPFlag (C18, C16): Close reads one reply per recipient only when Client.lmtp is set, and only NewClientLMTP
// sets it — on every path, before the client is handed out. Without the flag an LMTP exchange is read as SMTP: one
// reply is taken for the whole message and the others are left in the stream for the next commands.
func ruleLMTPFlag(c *Ctx) {
	R := c.R
	_, s := c.Std()
	R.Rule("R-lmtp-flag", "E1 must + who-may-write", "NewClientLMTP certainly sets Client.lmtp = true; nothing else writes the flag", 2)
	if f := c.A.Func("NewClientLMTP"); f != nil {
		R.Ob("NewClientLMTP/sets the LMTP flag", c.P.Pos(f.Pos()), s.Must(f)["st:Client.lmtp=true"], "NewClientLMTP does not certainly store Client.lmtp = true; events: "+fmt.Sprint(s.Must(f).list()))
	}
	c.obWriters("Client.lmtp", "the protocol flavour is fixed when the client is created", "NewClientLMTP")
}
