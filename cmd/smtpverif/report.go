package main

import (
	"bufio"
	"crypto/sha1"
	"encoding/hex"
	"encoding/json"
	"fmt"
	"os"
	"path/filepath"
	"sort"
	"strings"
	"time"
)

type Status int

const (
	OK Status = iota
	Violated
	Undecided
)

func (s Status) String() string {
	switch s {
	case OK:
		return "ok"
	case Violated:
		return "VIOLATED"
	}
	return "UNDECIDED"
}

// Obligation is one rule instance: rule / function / construct descriptor.
// Keys never contain line numbers.
type Obligation struct {
	Rule   string `json:"rule"`
	Key    string `json:"key"` // rule/function/construct
	Pos    string `json:"pos"`
	Status string `json:"status"`
	Detail string `json:"detail,omitempty"`
	Known  bool   `json:"known_finding,omitempty"`
	st     Status
}

type RuleInfo struct {
	ID       string `json:"id"`
	Text     string `json:"text"`
	Engine   string `json:"engine"`
	MinInst  int    `json:"min_instances"` // instances confirmed by reading; fewer => vacuous
	Count    int    `json:"instances"`
	Property string `json:"-"`
}

type Reporter struct {
	Property string
	Tier     string
	prog     *Program
	Rules    []*RuleInfo
	cur      *RuleInfo
	Obls     []*Obligation
	keys     map[string]bool
	Notes    []string
	Extra    map[string]interface{}
}

func NewReporter(prop, tier string, p *Program) *Reporter {
	return &Reporter{Property: prop, Tier: tier, prog: p, keys: map[string]bool{}, Extra: map[string]interface{}{}}
}

// Rule starts a rule; obligations recorded afterwards belong to it.
func (r *Reporter) Rule(id, engine, text string, minInst int) {
	r.closeRule()
	r.cur = &RuleInfo{ID: id, Text: text, Engine: engine, MinInst: minInst, Property: r.Property}
	r.Rules = append(r.Rules, r.cur)
}

func (r *Reporter) closeRule() {
	if r.cur == nil {
		return
	}
	if r.cur.Count < r.cur.MinInst {
		ru := r.cur
		r.cur = nil
		r.add(ru, "vacuous", "-", Violated, fmt.Sprintf("rule matched %d instances, fewer than the %d confirmed by reading: the construct the rule protects has disappeared or the rule no longer recognises it", ru.Count, ru.MinInst))
	}
	r.cur = nil
}

func (r *Reporter) add(ru *RuleInfo, construct, pos string, st Status, detail string) *Obligation {
	key := ru.ID + "/" + construct
	base := key
	for i := 2; r.keys[key]; i++ {
		key = fmt.Sprintf("%s#%d", base, i)
	}
	r.keys[key] = true
	o := &Obligation{Rule: ru.ID, Key: key, Pos: pos, Status: st.String(), Detail: detail, st: st}
	r.Obls = append(r.Obls, o)
	return o
}

// Ob records an obligation for the current rule. construct is
// "function/descriptor".
func (r *Reporter) Ob(construct, pos string, ok bool, detail string) {
	st := OK
	if !ok {
		st = Violated
	} else {
		detail = ""
	}
	r.cur.Count++
	r.add(r.cur, construct, pos, st, detail)
}

func (r *Reporter) Und(construct, pos string, detail string) {
	r.cur.Count++
	r.add(r.cur, construct, pos, Undecided, detail)
}

// Count bumps the instance counter without recording an obligation.
func (r *Reporter) Note(format string, a ...interface{}) {
	r.Notes = append(r.Notes, fmt.Sprintf(format, a...))
}

// ---------- known findings ----------

type knownFinding struct {
	Property string
	Key      string
	What     string
}

func loadKnown(path string) ([]knownFinding, error) {
	f, err := os.Open(path)
	if err != nil {
		if os.IsNotExist(err) {
			return nil, nil
		}
		return nil, err
	}
	defer f.Close()
	var out []knownFinding
	sc := bufio.NewScanner(f)
	sc.Buffer(make([]byte, 1<<20), 1<<20)
	for sc.Scan() {
		line := strings.TrimSpace(sc.Text())
		if line == "" || strings.HasPrefix(line, "#") {
			continue
		}
		// finding: property=C20 key=<key> <what fails>
		if !strings.HasPrefix(line, "finding:") {
			continue // "fixed:" lines suppress nothing
		}
		rest := strings.TrimSpace(strings.TrimPrefix(line, "finding:"))
		var kf knownFinding
		// finding: property=<id> key="<obligation key>" <what fails>
		if !strings.HasPrefix(rest, "property=") {
			return nil, fmt.Errorf("known_findings: malformed line %q", line)
		}
		sp := strings.IndexByte(rest, ' ')
		if sp < 0 {
			return nil, fmt.Errorf("known_findings: malformed line %q", line)
		}
		kf.Property = strings.TrimPrefix(rest[:sp], "property=")
		rest2 := strings.TrimSpace(rest[sp+1:])
		switch {
		case strings.HasPrefix(rest2, `key="`):
			end := strings.Index(rest2[5:], `" `)
			if end < 0 {
				return nil, fmt.Errorf("known_findings: unterminated key in %q", line)
			}
			kf.Key = rest2[5 : 5+end]
			kf.What = strings.TrimSpace(rest2[5+end+2:])
		case strings.HasPrefix(rest2, "key="):
			fs := strings.SplitN(rest2, " ", 2)
			if len(fs) < 2 {
				return nil, fmt.Errorf("known_findings: malformed line %q", line)
			}
			kf.Key = strings.TrimPrefix(fs[0], "key=")
			kf.What = fs[1]
		default:
			return nil, fmt.Errorf("known_findings: malformed line %q", line)
		}
		out = append(out, kf)
	}
	return out, sc.Err()
}

// ---------- finish: print, evidence, replay ----------

type evidence struct {
	PropertyID  string                 `json:"property_id"`
	Tier        string                 `json:"tier"`
	Seed        int                    `json:"seed"`
	Level       string                 `json:"level"`
	Coverage    map[string]interface{} `json:"coverage"`
	Assumptions []string               `json:"assumptions"`
	WallS       float64                `json:"wall_s"`
	Violations  int                    `json:"violations"`
}

func verifDir() string {
	if d := os.Getenv("VERIF_DIR"); d != "" {
		return d
	}
	return "/verif"
}

// Finish prints the report, writes evidence and replay files and returns the
// process exit code.
func (r *Reporter) Finish(start time.Time, seed int, explanation string, assumptions []string, onlyKey string) int {
	r.closeRule()
	known, err := loadKnown(filepath.Join(verifDir(), "known_findings.txt"))
	if err != nil {
		fmt.Println("ERROR:", err)
		return 2
	}
	sort.SliceStable(r.Obls, func(i, j int) bool { return r.Obls[i].Key < r.Obls[j].Key })
	var bad []*Obligation
	discharged := 0
	usedKnown := map[string]bool{}
	for _, o := range r.Obls {
		if onlyKey != "" && o.Key != onlyKey {
			continue
		}
		if o.st == OK {
			discharged++
			continue
		}
		isKnown := false
		for _, k := range known {
			if k.Property == r.Property && k.Key == o.Key {
				isKnown = true
				o.Known = true
				usedKnown[k.Key] = true
				fmt.Printf("KNOWN-FINDING: property=%s %s [%s at %s]\n", r.Property, k.What, o.Key, o.Pos)
			}
		}
		if !isKnown {
			bad = append(bad, o)
		}
	}
	// print per-rule summary
	fmt.Printf("== property %s tier=%s: %d packages, %d functions, %d blocks, %d instructions analysed in %s\n",
		r.Property, r.Tier, len(r.prog.Pkgs), r.prog.NFuncs, r.prog.NBlock, r.prog.NInstr, r.prog.Dir)
	for _, ru := range r.Rules {
		n, nok := 0, 0
		for _, o := range r.Obls {
			if o.Rule == ru.ID {
				n++
				if o.st == OK {
					nok++
				}
			}
		}
		fmt.Printf("rule %-28s [%s] instances=%d (min %d) ok=%d  -- %s\n", ru.ID, ru.Engine, ru.Count, ru.MinInst, nok, ru.Text)
	}
	if os.Getenv("VERIF_VERBOSE") != "" || onlyKey != "" {
		for _, o := range r.Obls {
			if onlyKey != "" && o.Key != onlyKey {
				continue
			}
			fmt.Printf("  %-9s %s  (%s) %s\n", o.Status, o.Key, o.Pos, o.Detail)
		}
	}
	for _, n := range r.Notes {
		fmt.Println("note:", n)
	}
	exit := 0
	if len(bad) > 0 {
		exit = 1
		os.MkdirAll(filepath.Join(verifDir(), "replays"), 0o755)
		for _, o := range bad {
			h := sha1.Sum([]byte(o.Key))
			path := filepath.Join(verifDir(), "replays", fmt.Sprintf("%s-%s.json", r.Property, hex.EncodeToString(h[:])[:10]))
			rule := ""
			for _, ru := range r.Rules {
				if ru.ID == o.Rule {
					rule = ru.Text
				}
			}
			b, _ := json.MarshalIndent(map[string]interface{}{
				"property": r.Property, "key": o.Key, "rule": o.Rule, "rule_text": rule,
				"pos": o.Pos, "status": o.Status, "detail": o.Detail, "repo": r.prog.Dir,
			}, "", " ")
			os.WriteFile(path, b, 0o644)
			fmt.Printf("%s %s at %s: %s\n", o.Status, o.Key, o.Pos, o.Detail)
			fmt.Printf("VIOLATION property=%s replay=%s\n", r.Property, path)
		}
	}
	// evidence
	var keys []string
	var samples []interface{}
	perRule := map[string]int{}
	for _, o := range r.Obls {
		keys = append(keys, o.Key+" @"+o.Pos+" "+o.Status)
		if perRule[o.Rule] < 2 || o.st != OK {
			perRule[o.Rule]++
			if len(samples) < 60 {
				samples = append(samples, o)
			}
		}
	}
	cov := map[string]interface{}{
		"explanation":         explanation,
		"obligations":         len(r.Obls),
		"discharged":          discharged,
		"evaluations":         len(r.Obls),
		"distinct_nontrivial": len(r.keys),
		"rule":                "one obligation per rule instance (rule/function/construct, line-independent key); all distinct by key; non-trivial because each names a construct found in the current source",
		"checker_cmd":         fmt.Sprintf("bin/smtpverif -property %s -tier %s", r.Property, r.Tier),
		"trusted_base":        []string{"go/types, go/ssa, go/cfg (golang.org/x/tools v0.29.0)", "library models listed in DESIGN.md §2 (io.Copy, io.Pipe, bufio, textproto, sync.Mutex, channels)", "anchor table: names of the types/fields/functions that carry the mechanism"},
		"rules":               r.Rules,
		"obligation_keys":     keys,
		"samples":             samples,
		"analysed":            map[string]interface{}{"repo": r.prog.Dir, "packages": len(r.prog.Pkgs), "functions": r.prog.NFuncs, "blocks": r.prog.NBlock, "instructions": r.prog.NInstr},
		"exhaustive":          true,
		"notes":               r.Notes,
	}
	for k, v := range r.Extra {
		cov[k] = v
	}
	ev := evidence{
		PropertyID: r.Property, Tier: r.Tier, Seed: seed, Level: "other", Coverage: cov,
		Assumptions: assumptions, WallS: time.Since(start).Seconds(), Violations: len(bad),
	}
	if onlyKey == "" && os.Getenv("VERIF_NO_EVIDENCE") == "" {
		os.MkdirAll(filepath.Join(verifDir(), "evidence"), 0o755)
		b, _ := json.MarshalIndent(ev, "", " ")
		if err := os.WriteFile(filepath.Join(verifDir(), "evidence", r.Property+".json"), b, 0o644); err != nil {
			fmt.Println("ERROR writing evidence:", err)
			return 2
		}
	}
	fmt.Printf("== %s: %d obligations, %d discharged, %d known findings, %d violations (%.1fs)\n",
		r.Property, len(r.Obls), discharged, len(usedKnown), len(bad), time.Since(start).Seconds())
	return exit
}
