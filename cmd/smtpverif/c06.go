package main

import (
	"fmt"
	"go/ast"
	"go/constant"
	"go/token"
	"strings"

	"golang.org/x/tools/go/ssa"
)

func init() {
	register(&propDef{
		ID: "C06",
		Explanation: "MaxMessageBytes enforcement decided structurally: the DATA reader is armed with the limit at construction and disarmed only after the backend returned; inside Read the buffer is cut to the remaining budget, the budget is reduced by the delivered count on every exit and an exhausted budget returns the 552 SMTPError (never EOF); " +
			"the SIZE parameter and the BDAT running total are refused exactly when they exceed the limit (strict >, by edge-feasibility under both polarities) with a 552 and no callback. " +
			"The DATA boundary: the over-limit error is unreachable while the budget is merely exhausted (n >= 0) and the buffer is cut to budget+1, so the end marker of a message of exactly N octets is still seen; that the octet beyond the budget is never handed out is checked on the returned count.",
		Run: runC06,
	})
}

// compositeIntField evaluates an integer field of a package-level composite
// literal variable, e.g. ErrDataTooLarge.Code.
func compositeIntField(c *Ctx, varName, field string) (int64, bool) {
	for _, file := range c.P.Smtp.Syntax {
		for _, d := range file.Decls {
			gd, ok := d.(*ast.GenDecl)
			if !ok || gd.Tok != token.VAR {
				continue
			}
			for _, sp := range gd.Specs {
				vs := sp.(*ast.ValueSpec)
				for i, n := range vs.Names {
					if n.Name != varName || i >= len(vs.Values) {
						continue
					}
					e := vs.Values[i]
					if u, ok := e.(*ast.UnaryExpr); ok {
						e = u.X
					}
					cl, ok := e.(*ast.CompositeLit)
					if !ok {
						return 0, false
					}
					for _, el := range cl.Elts {
						kv, ok := el.(*ast.KeyValueExpr)
						if !ok {
							continue
						}
						if id, ok := kv.Key.(*ast.Ident); ok && id.Name == field {
							if tv, ok := c.P.Smtp.TypesInfo.Types[kv.Value]; ok && tv.Value != nil {
								v, ok := constant.Int64Val(tv.Value)
								return v, ok
							}
						}
					}
				}
			}
		}
	}
	return 0, false
}

func runC06(c *Ctx) {
	c.R.Rule("R-state-writers", "who-may-write", "the running total of a chunked message is written only by handleBdat (after a successful copy) and reset()", 1)
	c.obWriters("Conn.bytesReceived", "grows with accepted chunks, zeroed at every transaction end", "(*Conn).handleBdat", "(*Conn).reset")
	// a message over the limit is answered 552 only if the drain still finds the end marker: the reader keeps its framing
	ruleDotStructure(c)
	// "the transaction is discarded": the delivery goroutine of a message refused with 552 reports through what it
	// captured for that message, never through connection fields the next message has replaced
	ruleGoCapture(c)
	R := c.R
	_, s := c.Std()
	// DATA and BDAT keep separate accounts (the reader's budget, bytesReceived): a DATA reader created while a chunked
	// transfer is open would give one transaction both budgets
	R.Rule("R-data-not-during-bdat", "E3 edge-feasibility", "no DATA reader is created while a chunked transfer is open", 1)
	for _, site := range c.Sites(lNewReader) {
		c.obUnreach("DATA reader", site, aPipeOpen)
	}

	R.Rule("R-limit-armed", "E1+E3", "newDataReader arms the limit (limited=true, n=MaxMessageBytes) whenever a limit is configured; limited=false is stored only after the backend callback returned", 4)
	if f := c.A.Func("newDataReader"); f != nil {
		c.obMustUnder("limited=true", f, []string{"st:dataReader.limited=true"}, `Server.MaxMessageBytes > 0`)
		c.obMustUnder("n stored", f, []string{"st:dataReader.n"}, `Server.MaxMessageBytes > 0`)
		for _, st := range s.Find(f, "st:dataReader.n") {
			_, _, v := storedField(st)
			R.Ob(c.siteKey(st, "n = MaxMessageBytes"), c.P.InstrPos(st), describe(v) == "Server.MaxMessageBytes", "budget initialised from "+describe(v))
		}
	}
	for _, site := range c.Sites("st:dataReader.limited=false") {
		R.Ob(c.siteKey(site, "limit lifted only after the callback"), c.P.InstrPos(site), c.seenBeforeLifted(site, 0, lData, lLMTPData), "limited=false is reachable before the backend consumed the message: the backend could read past the limit")
	}
	for _, site := range c.Sites("st:dataReader.limited") {
		if _, _, v := storedField(site); v != nil {
			if _, ok := constBool(v); !ok {
				R.Ob(c.siteKey(site, "limited=<non-constant>"), c.P.InstrPos(site), false, "limit flag assigned a non-constant value")
			}
		}
	}

	ruleLimitBudget(c)
	R.Rule("R-verdict-flow", "E4 value flow", "the DATA/BDAT verdict is the backend's result and nothing else: the handlers add no size verdict of their own (the limit is enforced by the reader and by the chunk accounting)", 4)
	ruleVerdictSources(c)

	ruleSizeParam(c)

	R.Rule("R-bdat-limit", "E3+E6", "a chunk reaches the pipe only when the running total stays within the limit (strictly greater is refused with 552, chunk consumed, transaction reset); the total counts accepted chunks only", 5)
	if bi := bdatAnchors(c); bi != nil && bi.parse != nil {
		f := bi.f
		sum := "(Conn.bytesReceived + " + bi.sizeDesc + ")"
		for _, site := range s.Find(f, "copy-to:Conn.bdatPipe") {
			c.obUnreach("chunk to pipe", site, `Server.MaxMessageBytes > 0`, sum+` > Server.MaxMessageBytes`)
			c.obUnreach("chunk to pipe", site, `Server.MaxMessageBytes > 0`, sum+` > Server.MaxMessageBytes`)
		}
		n552 := s.Find(f, "reply:552")
		R.Ob("(*Conn).handleBdat/has 552 refusal", c.P.Pos(f.Pos()), len(n552) >= 1, "no 552 reply in handleBdat")
		for _, site := range n552 {
			c.obUnreach("reply 552", site, sum+` <= Server.MaxMessageBytes`)
			c.obUnreach("reply 552", site, `Server.MaxMessageBytes == 0`)
		}
		c.obFollow("552 then reset", f, c.direct("reply:552"), []string{lReset}, nil, nil)
		c.obFollow("552 then chunk discarded", f, c.direct("reply:552"), []string{"drain:io.Reader"}, nil, nil)
	}
	if bi := bdatAnchors(c); bi != nil && bi.parse != nil {
		ruleBdatAccounting(c, bi)
		R.Rule("R-reset-zeroes-total", "E1", "reset() zeroes the running total", 1)
	}
	if f := c.A.Func("(*Conn).reset"); f != nil {
		R.Ob("(*Conn).reset/bytesReceived=0", c.P.Pos(f.Pos()), s.Must(f)["st:Conn.bytesReceived=0"], "reset() does not certainly zero the running total")
	}
}

// ruleSizeParam is shared by C06 and C12 (the advertised SIZE value is honoured by MAIL).
func ruleSizeParam(c *Ctx) {
	R := c.R
	_, s := c.Std()
	R.Rule("R-size-param", "E3+E6", "MAIL SIZE is refused with 552, without consulting the backend, exactly when a limit is set and the declared size exceeds it", 4)
	if f := c.A.Func("(*Conn).handleMail"); f != nil {
		// find the comparison with Server.MaxMessageBytes: the other operand must derive from a
		// strconv.ParseUint of the parameter value (directly or through a helper's success returns)
		var sizeDesc string
		var sizeVal ssa.Value
		allInstrs(f, func(in ssa.Instruction) {
			if bo, ok := in.(*ssa.BinOp); ok {
				l, r := describe(bo.X), describe(bo.Y)
				if r == "Server.MaxMessageBytes" {
					if _, _, ok := parseUintOrigin(bo.X, 0); ok {
						sizeDesc, sizeVal = l, bo.X
					}
				} else if l == "Server.MaxMessageBytes" {
					if _, _, ok := parseUintOrigin(bo.Y, 0); ok {
						sizeDesc, sizeVal = r, bo.Y
					}
				}
			}
		})
		if sizeVal == nil {
			// the comparison may sit in a pure predicate helper (c.overSizeLimit(size)): the operand is then the
			// argument bound to the compared parameter
			allInstrs(f, func(in ssa.Instruction) {
				call, ok := in.(*ssa.Call)
				if !ok || sizeVal != nil {
					return
				}
				g := staticCallee(&call.Call)
				if !c.F.isPurePredicate(g, 0) {
					return
				}
				allInstrs(g, func(gi ssa.Instruction) {
					bo, ok := gi.(*ssa.BinOp)
					if !ok {
						return
					}
					var other ssa.Value
					if describe(bo.Y) == "Server.MaxMessageBytes" {
						other = bo.X
					} else if describe(bo.X) == "Server.MaxMessageBytes" {
						other = bo.Y
					}
					if other == nil {
						return
					}
					if p, isP := stripConv(other).(*ssa.Parameter); isP {
						for i, q := range g.Params {
							if q == p && i < len(call.Call.Args) {
								if _, _, ok := parseUintOrigin(call.Call.Args[i], 0); ok {
									sizeDesc, sizeVal = describe(call.Call.Args[i]), call.Call.Args[i]
								}
							}
						}
					}
				})
			})
		}
		if sizeVal != nil {
			pu, steps, _ := parseUintOrigin(sizeVal, 0)
			base, _ := constInt(pu.Call.Args[1])
			bits, _ := constInt(pu.Call.Args[2])
			R.Ob("(*Conn).handleMail/SIZE parsed in base 10", c.P.InstrPos(pu), base == 10, fmt.Sprintf("SIZE parsed in base %d", base))
			R.Ob("(*Conn).handleMail/SIZE cannot wrap when converted to int64", c.P.InstrPos(pu), bits >= 1 && bits <= 63, fmt.Sprintf("SIZE is parsed as a %d-bit unsigned value and then converted to int64: declared sizes >= 2^63 become negative and pass the limit check", bits))
			src := argInCallerFrame(pu.Call.Args[0], steps)
			R.Ob("(*Conn).handleMail/SIZE parsed from the parameter value", c.P.InstrPos(pu), src == "next#2", "SIZE is parsed from "+src)
		}
		if sizeDesc == "" {
			R.Ob("(*Conn).handleMail/SIZE compared with limit", c.P.Pos(f.Pos()), false, "no comparison of the parsed SIZE value with Server.MaxMessageBytes found")
		} else {
			// the accepting continuation of the SIZE case (where opts.Size is
			// stored) must be unreachable for an over-limit value; the refusing
			// edge returns without callback (R-refusal-no-callback, C03)
			for _, site := range c.Sites("st:MailOptions.Size") {
				c.obUnreach("SIZE accepted", site, `Server.MaxMessageBytes > 0`, sizeDesc+` > Server.MaxMessageBytes`)
			}
			isRefusal := func(in ssa.Instruction) bool { return c.direct("reply:552")(in) }
			c.obNever("552 then no Mail", f, isRefusal, []string{lMail}, nil, nil)
			for _, site := range s.Find(f, "reply:552") {
				c.obUnreach("reply 552", site, sizeDesc+` <= Server.MaxMessageBytes`)
				c.obUnreach("reply 552", site, `Server.MaxMessageBytes <= 0`)
			}
			R.Ob("(*Conn).handleMail/has 552 refusal", c.P.Pos(f.Pos()), len(s.Find(f, "reply:552")) >= 1, "no 552 reply in handleMail")
		}
		for _, st := range c.Sites("st:MailOptions.Size") {
			_, _, v := storedField(st)
			R.Ob(c.siteKey(st, "opts.Size = parsed SIZE"), c.P.InstrPos(st), describe(v) == sizeDesc && sizeDesc != "", "opts.Size stored from "+describe(v))
		}
	}
}

// ruleLimitBudget (C06, C16): the size budget of the DATA reader. C16 needs it for "the message arrives intact and
// Close returns the server's verdict" on a server with a limit: a message of exactly the limit must reach its end marker.
func ruleLimitBudget(c *Ctx) {
	R := c.R
	_, s := c.Std()
	_ = s
	R.Rule("R-limit-budget", "E2+E4", "Read: exhausted budget returns the 552 error before reading; the buffer is cut to the budget; every exit after reading subtracts the delivered count", 6)
	if f := c.A.Func("(*dataReader).Read"); f != nil {
		t := buildDotTable(c)
		var tooLarge []ssa.Instruction
		allInstrs(f, func(in ssa.Instruction) {
			if r, ok := in.(*ssa.Return); ok && len(r.Results) == 2 && describe(r.Results[1]) == "ErrDataTooLarge" {
				tooLarge = append(tooLarge, in)
			}
		})
		R.Ob("(*dataReader).Read/returns ErrDataTooLarge", c.P.Pos(f.Pos()), len(tooLarge) >= 1, "no return of ErrDataTooLarge found: an exhausted budget is not reported")
		for _, r := range tooLarge {
			c.obUnreach("ErrDataTooLarge", r, `dataReader.limited == false`)
			// strictness: a budget that is exhausted but not exceeded is not an error (a message of exactly N octets is accepted)
			c.obUnreach("ErrDataTooLarge", r, `dataReader.n >= 0`)
			res := r.(*ssa.Return).Results[0]
			okCount := false
			if k, isK := constInt(res); isK && k == 0 {
				okCount = true
			} else if bo, isB := res.(*ssa.BinOp); isB && bo.Op == token.SUB {
				if k, isK := constInt(bo.Y); isK && k == 1 {
					okCount = true // n-1: the octet beyond the budget is not handed out
				}
			}
			R.Ob(c.siteKey(r, "ErrDataTooLarge hands out at most the budget"), c.P.InstrPos(r), okCount, "over-limit return reports "+describe(res)+" delivered octets")
		}
		if t.err == nil {
			c.obUnreach("ReadByte", t.m.readCall, `dataReader.limited == true`, `dataReader.n < 0`)
			// buffer cut: the buffer the loop writes to must be a loop-header phi
			// (cut or uncut), not the raw parameter
			cutSeen := false
			allInstrs(f, func(in ssa.Instruction) {
				if sl, ok := in.(*ssa.Slice); ok && describe(sl.X) == "param1" && sl.High != nil && describe(sl.High) == "(dataReader.n + 1)" {
					cutSeen = true
				}
			})
			R.Ob("(*dataReader).Read/buffer cut exists", c.P.Pos(f.Pos()), cutSeen, "Read never cuts the caller's buffer to the remaining budget plus the one probe octet: one call can deliver more than the limit, or an end marker exactly at the limit cannot be recognised")
			for _, in := range t.m.header.Instrs {
				phi, ok := in.(*ssa.Phi)
				if !ok {
					break
				}
				if isIntType(phi.Type()) || strings.Contains(phi.Type().String(), "error") {
					continue
				}
				for i, e := range phi.Edges {
					pred := t.m.header.Preds[i]
					if t.m.header.Dominates(pred) {
						continue
					}
					if describe(e) == "param1" {
						// uncut buffer may enter only when not limited or len(b) <= n
						fb := c.F.feasibleBlocks(f, HSet(`dataReader.limited == true`, `builtin:len(param1) > (dataReader.n + 1)`))
						feasible := fb[pred] && !c.F.infeasible(pred, t.m.header, HSet(`dataReader.limited == true`, `builtin:len(param1) > (dataReader.n + 1)`))
						R.Ob(fmt.Sprintf("(*dataReader).Read/uncut buffer edge from block %s", pred.Comment), c.P.InstrPos(phi), !feasible, "the caller's full buffer reaches the copy loop although it is larger than the remaining budget")
					} else if sl, ok := e.(*ssa.Slice); ok {
						okHigh := sl.High != nil && describe(sl.High) == "(dataReader.n + 1)" && sliceFromZero(sl) && describe(sl.X) == "param1"
						R.Ob("(*dataReader).Read/buffer cut to budget", c.P.InstrPos(sl), okHigh, "buffer is cut to "+describe(sl))
					}
				}
			}
			// budget decrement on every exit after the loop
			c.obFollow("budget reduced after reading", f, func(in ssa.Instruction) bool { return in == ssa.Instruction(t.m.readCall) }, []string{"st:dataReader.n"}, c.F.SkipUnder(`dataReader.limited == true`), nil)
			for _, st := range s.Find(f, "st:dataReader.n") {
				_, _, v := storedField(st)
				ok := false
				if bo, isB := v.(*ssa.BinOp); isB && bo.Op == token.SUB && describe(bo.X) == "dataReader.n" {
					// Y must be the returned count
					allInstrs(f, func(in ssa.Instruction) {
						if r, isR := in.(*ssa.Return); isR && len(r.Results) == 2 && stripConv(bo.Y) == stripConv(r.Results[0]) {
							ok = true
						}
					})
				}
				R.Ob(c.siteKey(st, "n -= delivered"), c.P.InstrPos(st), ok, "budget updated to "+describe(v))
			}
		}
		// after every budget update the overflow (n < 0) is tested before the function can return
		for _, st := range s.Find(f, "st:dataReader.n") {
			st := st
			v := RunPend(f, PendRule{
				Trig: func(in ssa.Instruction) bool { return in == st },
				Disch: func(in ssa.Instruction) bool {
					iff, ok := in.(*ssa.If)
					if !ok {
						return false
					}
					d := describe(iff.Cond)
					return d == "(dataReader.n < 0)" || d == "(dataReader.n >= 0)" || d == "(dataReader.n <= -1)"
				},
				AtExit: true,
			})
			R.Ob(c.siteKey(st, "overflow tested after the budget update"), c.P.InstrPos(st), len(v) == 0, "Read can return after reducing the budget without testing whether it went below zero: the probe octet beyond the limit is handed to the backend")
		}
		nPost := 0
		for _, r := range tooLarge {
			if t.err == nil && reachableFrom(t.m.header, nil)[r.Block()] {
				nPost++
			}
		}
		R.Ob("(*dataReader).Read/overflow after reading is reported", c.P.Pos(f.Pos()), nPost >= 1, "no ErrDataTooLarge return after the copy loop: the octet beyond the limit is delivered")
		// the overflow is detected right after the budget is reduced
		for _, r := range tooLarge {
			if reachableFrom(f.Blocks[0], nil)[r.Block()] && t.err == nil && reachableFrom(t.m.header, nil)[r.Block()] {
				seen := s.SeenBefore(r)
				R.Ob(c.siteKey(r, "overflow tested after the budget was reduced"), c.P.InstrPos(r), seen["st:dataReader.n"], "over-limit return after the loop is not preceded by the budget update")
			}
		}
		code, ok1 := compositeIntField(c, "ErrDataTooLarge", "Code")
		R.Ob("ErrDataTooLarge/code 552", "-", ok1 && code == 552, fmt.Sprintf("ErrDataTooLarge.Code = %d", code))
	}

}
