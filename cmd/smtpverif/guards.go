package main

import (
	"fmt"
	"go/token"
	"go/types"
	"regexp"
	"sort"
	"strconv"
	"strings"

	"golang.org/x/tools/go/ssa"
)

// splitAtom parses "L op R" at the top-level comparison operator.
func splitAtom(a string) (l, op, r string, ok bool) {
	depth := 0
	inStr := false
	for i := 0; i < len(a); i++ {
		ch := a[i]
		if inStr {
			if ch == '\\' {
				i++
			} else if ch == '"' {
				inStr = false
			}
			continue
		}
		switch ch {
		case '"':
			inStr = true
		case '(', '[', '{':
			depth++
		case ')', ']', '}':
			depth--
		case ' ':
			if depth != 0 {
				continue
			}
			for _, o := range []string{" == ", " != ", " <= ", " >= ", " < ", " > "} {
				if strings.HasPrefix(a[i:], o) {
					return a[:i], strings.TrimSpace(o), a[i+len(o):], true
				}
			}
		}
	}
	return a, "", "", false
}

// negAtom flips the top-level comparison operator of an atom "L op R".
func negAtom(a string) string {
	l, op, r, ok := splitAtom(a)
	if !ok {
		return "!(" + a + ")"
	}
	if (r == "true" || r == "false") && (op == "==" || op == "!=") {
		// canonical bool form: X == true / X == false
		if (op == "==") == (r == "true") {
			return l + " == false"
		}
		return l + " == true"
	}
	n := map[string]string{"==": "!=", "!=": "==", "<=": ">", ">=": "<", "<": ">=", ">": "<="}[op]
	return l + " " + n + " " + r
}

func isLiteral(s string) bool {
	if s == "" {
		return false
	}
	if s[0] == '"' || s == "nil" || s == "true" || s == "false" {
		return true
	}
	for _, ch := range s {
		if !(ch >= '0' && ch <= '9' || ch == '-') {
			return false
		}
	}
	return true
}

// contradicts: does edge atom a contradict the assumption set H?
func contradicts(a string, H map[string]bool) bool {
	if H[negAtom(a)] {
		return true
	}
	l, op, r, ok := splitAtom(a)
	if !ok {
		return false
	}
	rel := map[string]int{"<": 1, "<=": 3, "==": 2, "!=": 5, ">=": 6, ">": 4} // bitset over {<:1, =:2, >:4}
	for h := range H {
		hl, hop, hr, ok := splitAtom(h)
		if ok && hl == l && hr == r && rel[hop]&rel[op] == 0 && rel[hop] != 0 && rel[op] != 0 {
			return true
		}
	}
	// linear integer comparisons written differently: (a + b) > c, b > (c - a), c < (b + a) are one constraint
	if key, lop, k, ok := linCanon(l, op, r); ok {
		for h := range H {
			hl, hop, hr, hok := splitAtom(h)
			if !hok {
				continue
			}
			if hkey, hlop, hk, ok2 := linCanon(hl, hop, hr); ok2 && hkey == key && intDisjoint(lop, k, hlop, hk) {
				return true
			}
		}
	}
	if !isLiteral(r) {
		return false
	}
	for h := range H {
		hl, hop, hr, ok := splitAtom(h)
		if !ok || hl != l || !isLiteral(hr) {
			continue
		}
		// H: L == K1 ; edge: L == K2 (K2 != K1)
		if hop == "==" && op == "==" && hr != r {
			return true
		}
		// both integer literals: the two constraints have no common integer solution
		if k1, err1 := strconv.ParseInt(r, 10, 64); err1 == nil {
			if k2, err2 := strconv.ParseInt(hr, 10, 64); err2 == nil && intDisjoint(op, k1, hop, k2) {
				return true
			}
		}
	}
	return false
}

// canonAtom brings user-written atoms to the canonical form used by
// condAtoms (bools as "X == true|false").
func canonAtom(a string) string {
	a = negAtom(negAtom(a))
	// integer comparisons with a literal use only {==, !=, >, <=}: x >= k is x > k-1, x < k is x <= k-1
	l, op, r, ok := splitAtom(a)
	if ok && (op == ">=" || op == "<") && r != "" && r != "-" && isLiteral(r) && r[0] != '"' && r != "nil" && r != "true" && r != "false" {
		if k, err := strconv.ParseInt(r, 10, 64); err == nil {
			if op == ">=" {
				return l + " > " + strconv.FormatInt(k-1, 10)
			}
			return l + " <= " + strconv.FormatInt(k-1, 10)
		}
	}
	return a
}

// edgeAtoms returns the atoms established by traversing pred->succ.
func (fa *Facts) edgeAtoms(pred, succ *ssa.BasicBlock) []string {
	if len(pred.Instrs) == 0 {
		return nil
	}
	iff, ok := pred.Instrs[len(pred.Instrs)-1].(*ssa.If)
	if !ok || len(pred.Succs) != 2 || pred.Succs[0] == pred.Succs[1] {
		return nil
	}
	var out []string
	for _, a := range fa.condAtoms(iff.Cond, pred.Succs[0] == succ, 0) {
		out = append(out, canonAtom(a))
	}
	return out
}

// feasibleBlocks: blocks of f reachable from entry when every edge carrying an
// atom whose negation is assumed (H) is removed. Kills are not modelled: the
// assumption speaks about the state at function entry, and the caller checks
// separately (AssumptionStable) that fields mentioned are not stored before.
func (fa *Facts) feasibleBlocks(f *ssa.Function, H map[string]bool) map[*ssa.BasicBlock]bool {
	if len(f.Blocks) == 0 {
		return nil
	}
	// fixpoint with one step of path sensitivity: an edge out of a block
	// whose branch tests its own phi is feasible only if it is feasible for
	// the phi value arriving from some feasible predecessor.
	var hl []string
	for h := range H {
		hl = append(hl, h)
	}
	phiOK := fa.PhiFeasible(hl...)
	reach := map[*ssa.BasicBlock]bool{f.Blocks[0]: true}
	edgeOK := map[[2]*ssa.BasicBlock]bool{}
	// pf: atoms about immutable values (parameters, pure string functions of them) that hold on every feasible way
	// of reaching the block under H. They let an earlier test of the same value decide a later one ("cmd is not
	// MAIL here, because the MAIL case returned under H").
	pf := map[*ssa.BasicBlock]map[string]bool{f.Blocks[0]: {}}
	withPF := func(b *ssa.BasicBlock) map[string]bool {
		if len(pf[b]) == 0 {
			return H
		}
		m := make(map[string]bool, len(H)+len(pf[b]))
		for h := range H {
			m[h] = true
		}
		for a := range pf[b] {
			m[a] = true
		}
		return m
	}
	for changed := true; changed; {
		changed = false
		for _, b := range f.Blocks {
			if !reach[b] {
				continue
			}
			Hb := withPF(b)
			for _, sc := range b.Succs {
				k := [2]*ssa.BasicBlock{b, sc}
				atoms := fa.edgeAtoms(b, sc)
				if !edgeOK[k] {
					ok := true
					for _, a := range atoms {
						if contradicts(a, Hb) {
							ok = false
						}
					}
					if ok && fa.boolCompareInfeasible(b, sc, Hb) {
						ok = false
					}
					if ok && fa.predicateInfeasible(b, sc, Hb) {
						ok = false
					}
					if ok && isPhiTestBlock(b) && b != f.Blocks[0] {
						ok = false
						for _, p := range b.Preds {
							if reach[p] && edgeOK[[2]*ssa.BasicBlock{p, b}] && phiOK(b, p, sc) {
								ok = true
							}
						}
					}
					if !ok {
						continue
					}
					edgeOK[k] = true
					changed = true
					reach[sc] = true
				}
				// propagate the immutable-value atoms along the feasible edge
				out := map[string]bool{}
				for a := range pf[b] {
					out[a] = true
				}
				for _, a := range atoms {
					if isImmutableAtom(a) {
						out[a] = true
					}
				}
				if sc == f.Blocks[0] {
					out = map[string]bool{}
				}
				if cur, seen := pf[sc]; !seen {
					pf[sc] = out
					changed = true
				} else {
					for a := range cur {
						if !out[a] {
							delete(cur, a)
							changed = true
						}
					}
				}
			}
		}
	}
	return reach
}

var immutableAtomRest = regexp.MustCompile(`^[()=!<> 0-9-]*$`)
var strLit = regexp.MustCompile(`"(?:[^"\\]|\\.)*"`)

// isImmutableAtom: the atom speaks only about parameters, constants and pure string functions of them: it cannot be
// invalidated by a store or a call between the test and a later use.
func isImmutableAtom(a string) bool {
	r := strLit.ReplaceAllString(a, "")
	if !strings.Contains(r, "param") {
		return false
	}
	for _, ok := range []string{"strings.ToUpper", "strings.ToLower", "strings.TrimSpace", "builtin:len"} {
		r = strings.ReplaceAll(r, ok, "")
	}
	r = regexp.MustCompile(`param[0-9]+`).ReplaceAllString(r, "")
	return immutableAtomRest.MatchString(r)
}

func (fa *Facts) infeasible(from, to *ssa.BasicBlock, H map[string]bool) bool {
	for _, a := range fa.edgeAtoms(from, to) {
		if contradicts(a, H) {
			return true
		}
	}
	if fa.boolCompareInfeasible(from, to, H) {
		return true
	}
	if fa.predicateInfeasible(from, to, H) {
		return true
	}
	// branch on a phi: facts implied by every way of taking this edge
	if len(from.Instrs) > 0 {
		if iff, ok := from.Instrs[len(from.Instrs)-1].(*ssa.If); ok && len(from.Succs) == 2 && from.Succs[0] != from.Succs[1] {
			if hasPhiOperand(iff.Cond) {
				ff := fa.Analyze(from.Parent())
				for a := range ff.phiCondFacts(iff.Cond, from.Succs[0] == to) {
					if contradicts(canonAtom(a), H) {
						return true
					}
				}
			}
		}
	}
	return false
}

func hasPhiOperand(v ssa.Value) bool {
	switch x := v.(type) {
	case *ssa.Phi:
		return true
	case *ssa.UnOp:
		return hasPhiOperand(x.X)
	case *ssa.BinOp:
		_, a := x.X.(*ssa.Phi)
		_, b := x.Y.(*ssa.Phi)
		return a || b
	}
	return false
}

// HSet canonicalises a list of assumed atoms.
func HSet(H ...string) map[string]bool {
	hs := map[string]bool{}
	for _, h := range H {
		hs[canonAtom(h)] = true
	}
	return hs
}

// SkipUnder returns an edge filter removing the edges infeasible under H.
func (fa *Facts) SkipUnder(H ...string) func(from, to *ssa.BasicBlock) bool {
	hs := HSet(H...)
	return func(from, to *ssa.BasicBlock) bool { return fa.infeasible(from, to, hs) }
}

// creationSites: instructions in the parent that create closure f, or static
// call sites of f within the smtp package.
func (c *Ctx) callersOf(f *ssa.Function) []ssa.Instruction {
	var out []ssa.Instruction
	for _, g := range c.P.AllFuncs() {
		allInstrs(g, func(in ssa.Instruction) {
			if mc, ok := in.(*ssa.MakeClosure); ok && mc.Fn == f {
				out = append(out, in)
				return
			}
			if cc := callCommon(in); cc != nil {
				if staticCallee(cc) == f {
					if _, ok := cc.Value.(*ssa.MakeClosure); ok {
						return // counted at MakeClosure
					}
					out = append(out, in)
				}
			}
		})
	}
	return out
}

func isExported(f *ssa.Function) bool {
	if f.Parent() != nil {
		return false
	}
	o := f.Object()
	return o != nil && o.Exported()
}

// ReachableUnder: can control reach site when the atoms in H hold (at entry of
// the top-level handler)? Lifts through closures and unexported callees to
// their creation / call sites. Returns a witness description when reachable.
func (c *Ctx) ReachableUnder(site ssa.Instruction, H []string) (bool, string) {
	hs := map[string]bool{}
	for _, h := range H {
		hs[canonAtom(h)] = true
	}
	return c.reachUnder(site, hs, 0)
}

func (c *Ctx) reachUnder(site ssa.Instruction, H map[string]bool, depth int) (bool, string) {
	f := site.Parent()
	fb := c.F.feasibleBlocks(f, H)
	if !fb[site.Block()] {
		return false, ""
	}
	if depth > 8 {
		return true, "call chain too deep"
	}
	if f.Parent() == nil && isExported(f) {
		return true, "reachable in exported " + funcName(f)
	}
	callers := c.callersOf(f)
	if len(callers) == 0 {
		return true, "reachable in " + funcName(f) + " (no callers in package: entry point)"
	}
	for _, cs := range callers {
		// atoms about parameters/locals of f do not translate to the caller,
		// except param0 between methods of the same receiver type called on
		// the caller's own receiver
		sameRecv := false
		if cc := callCommon(cs); cc != nil && f.Signature.Recv() != nil && cs.Parent().Signature.Recv() != nil &&
			types.Identical(f.Signature.Recv().Type(), cs.Parent().Signature.Recv().Type()) && len(cc.Args) > 0 && describe(cc.Args[0]) == "param0" {
			sameRecv = true
		}
		H2 := map[string]bool{}
		for h := range H {
			hh := h
			if sameRecv {
				hh = strings.ReplaceAll(hh, "param0", "")
			}
			if !strings.Contains(hh, "param") && !strings.Contains(hh, "local:") && !strings.Contains(hh, "alloc:") {
				H2[h] = true
			}
		}
		if ok, w := c.reachUnder(cs, H2, depth+1); ok {
			return true, funcName(f) + " <- " + w
		}
	}
	return false, ""
}

// Guarded: facts-based check (with kills) lifted through closures/callees.
func (c *Ctx) Guarded(site ssa.Instruction, alts ...string) bool {
	return c.guarded(site, alts, 0)
}

func (c *Ctx) guarded(site ssa.Instruction, alts []string, depth int) bool {
	f := site.Parent()
	ff := c.F.Analyze(f)
	if ff.Holds(site, alts...) {
		return true
	}
	if depth > 4 || (f.Parent() == nil && isExported(f)) {
		return false
	}
	callers := c.callersOf(f)
	if len(callers) == 0 {
		return false
	}
	for _, cs := range callers {
		if !c.guarded(cs, alts, depth+1) {
			return false
		}
	}
	return true
}

// siteKey gives a line-independent descriptor of an instruction inside its
// function: function name + label-ish description + ordinal among equals.
func (c *Ctx) siteKey(in ssa.Instruction, what string) string {
	f := in.Parent()
	n := 0
	idx := 0
	allInstrs(f, func(x ssa.Instruction) {
		if x == in {
			idx = n
		}
		if sameKind(x, in) {
			n++
		}
	})
	if n > 1 {
		return fmt.Sprintf("%s/%s#%d", funcName(f), what, idx+1)
	}
	return fmt.Sprintf("%s/%s", funcName(f), what)
}

func sameKind(a, b ssa.Instruction) bool {
	ca, cb := callCommon(a), callCommon(b)
	if ca != nil && cb != nil {
		return calleeName(ca) == calleeName(cb)
	}
	fa, _, _ := storedField(a)
	fb, _, _ := storedField(b)
	if fa != nil && fb != nil {
		return fa == fb
	}
	return false
}

// intRange: the set {x : x op k} as an interval [lo, hi] (with != handled by the caller).
func intRange(op string, k int64) (lo, hi int64, ok bool) {
	const inf = int64(1) << 62
	switch op {
	case "==":
		return k, k, true
	case "<":
		return -inf, k - 1, true
	case "<=":
		return -inf, k, true
	case ">":
		return k + 1, inf, true
	case ">=":
		return k, inf, true
	}
	return 0, 0, false
}

// intDisjoint: no integer satisfies both (x op1 k1) and (x op2 k2).
func intDisjoint(op1 string, k1 int64, op2 string, k2 int64) bool {
	if op1 == "!=" && op2 == "!=" {
		return false
	}
	if op1 == "!=" {
		op1, k1, op2, k2 = op2, k2, op1, k1
	}
	lo1, hi1, ok := intRange(op1, k1)
	if !ok {
		return false
	}
	if op2 == "!=" {
		return lo1 == hi1 && lo1 == k2
	}
	lo2, hi2, ok := intRange(op2, k2)
	if !ok {
		return false
	}
	lo, hi := lo1, hi1
	if lo2 > lo {
		lo = lo2
	}
	if hi2 < hi {
		hi = hi2
	}
	return lo > hi
}

// truthUnder: +1 if the boolean value certainly holds under H, -1 if it certainly does not, 0 if unknown.
func (fa *Facts) truthUnder(v ssa.Value, H map[string]bool) int {
	pos := fa.condAtoms(v, true, 0)
	negs := fa.condAtoms(v, false, 0)
	allIn := func(as []string) bool {
		if len(as) == 0 {
			return false
		}
		for _, a := range as {
			ca := canonAtom(a)
			if !H[ca] {
				// implied by a stronger assumption? (only the negation test is available)
				return false
			}
		}
		return true
	}
	anyContradicted := func(as []string) bool {
		for _, a := range as {
			if contradicts(canonAtom(a), H) {
				return true
			}
		}
		return false
	}
	switch {
	case allIn(pos):
		return 1
	case allIn(negs):
		return -1
	case len(pos) == 1 && anyContradicted(pos):
		return -1
	case len(negs) == 1 && anyContradicted(negs):
		return 1
	}
	return 0
}

// boolCompareInfeasible: the edge leaves a branch on the comparison of two boolean conditions
// (c.server.LMTP != lmtp) and H fixes both sides so that the other branch is taken.
func (fa *Facts) boolCompareInfeasible(from, to *ssa.BasicBlock, H map[string]bool) bool {
	if len(from.Instrs) == 0 {
		return false
	}
	iff, ok := from.Instrs[len(from.Instrs)-1].(*ssa.If)
	if !ok || len(from.Succs) != 2 || from.Succs[0] == from.Succs[1] {
		return false
	}
	cond := iff.Cond
	neg := false
	for {
		u, ok := cond.(*ssa.UnOp)
		if !ok || u.Op != token.NOT {
			break
		}
		cond, neg = u.X, !neg
	}
	bo, ok := cond.(*ssa.BinOp)
	if !ok || (bo.Op != token.EQL && bo.Op != token.NEQ) || !isBoolType(bo.X.Type()) {
		return false
	}
	if _, isK := bo.X.(*ssa.Const); isK {
		return false
	}
	if _, isK := bo.Y.(*ssa.Const); isK {
		return false
	}
	x, y := fa.truthUnder(bo.X, H), fa.truthUnder(bo.Y, H)
	if x == 0 || y == 0 {
		return false
	}
	val := (x == y) == (bo.Op == token.EQL)
	if neg {
		val = !val
	}
	return val != (from.Succs[0] == to)
}

// ---------- pure predicate helpers ----------

// isPurePredicate: g is an unexported package function with a single bool result and no effects: no stores, sends,
// go/defer statements, and no calls except builtins and other pure predicates / field accessors.
func (fa *Facts) isPurePredicate(g *ssa.Function, depth int) bool {
	if g == nil || !inSmtp(g) || isExported(g) || g.Parent() != nil || len(g.Blocks) == 0 || depth > 2 {
		return false
	}
	res := g.Signature.Results()
	if res.Len() != 1 || !isBoolType(res.At(0).Type()) {
		return false
	}
	pure := true
	allInstrs(g, func(in ssa.Instruction) {
		switch x := in.(type) {
		case *ssa.Store, *ssa.MapUpdate, *ssa.Send, *ssa.Go, *ssa.Defer, *ssa.Panic:
			pure = false
		case *ssa.Call:
			if _, isB := x.Call.Value.(*ssa.Builtin); isB {
				return
			}
			callee := staticCallee(&x.Call)
			if callee == nil {
				pure = false
				return
			}
			if inSmtp(callee) {
				if len(fa.MayWrite(callee)) > 0 || !(fa.isPurePredicate(callee, depth+1) || len(callee.Blocks) <= 2) {
					pure = false
				}
				return
			}
			switch qualFuncName(callee) {
			case "strings.EqualFold", "strings.HasPrefix", "strings.HasSuffix", "strings.Contains", "strings.ContainsAny", "strings.ToUpper", "strings.ToLower", "strings.TrimSpace":
			default:
				pure = false
			}
		}
	})
	return pure
}

// predicateTruthUnder: what the pure predicate called at `call` returns when H holds at the call site:
// +1 certainly true, -1 certainly false, 0 unknown. H's atoms about fields carry over as they are; atoms about the
// caller's values carry over when the value is an argument (re-expressed in the callee's parameter), others are dropped.
func (fa *Facts) predicateTruthUnder(call *ssa.Call, H map[string]bool) int {
	g := staticCallee(&call.Call)
	if !fa.isPurePredicate(g, 0) {
		return 0
	}
	type ad struct {
		d string
		i int
	}
	var args []ad
	for i, a := range call.Call.Args {
		if _, isK := stripConv(a).(*ssa.Const); isK {
			continue
		}
		args = append(args, ad{describe(a), i})
	}
	sort.Slice(args, func(i, j int) bool { return len(args[i].d) > len(args[j].d) })
	sameRecv := g.Signature.Recv() != nil && call.Parent().Signature.Recv() != nil && len(call.Call.Args) > 0 && describe(call.Call.Args[0]) == "param0" &&
		types.Identical(g.Signature.Recv().Type(), call.Parent().Signature.Recv().Type())
	H2 := map[string]bool{}
	for h := range H {
		tmp := h
		for _, a := range args {
			tmp = strings.ReplaceAll(tmp, a.d, fmt.Sprintf("\x00%d\x00", a.i))
		}
		if strings.Contains(tmp, "param") || strings.Contains(tmp, "local:") || strings.Contains(tmp, "alloc:") || strings.Contains(tmp, "next#") {
			continue
		}
		for _, a := range args {
			tmp = strings.ReplaceAll(tmp, fmt.Sprintf("\x00%d\x00", a.i), fmt.Sprintf("param%d", a.i))
		}
		_ = sameRecv
		H2[canonAtom(tmp)] = true
	}
	fb := fa.feasibleBlocks(g, H2)
	result := 0
	set := func(t int) bool { // false: conflict
		if t == 0 {
			return false
		}
		if result != 0 && result != t {
			return false
		}
		result = t
		return true
	}
	okAll := true
	allInstrs(g, func(in ssa.Instruction) {
		if !okAll {
			return
		}
		r, isR := in.(*ssa.Return)
		if !isR || !fb[in.Block()] || in.Block() == g.Recover {
			return
		}
		v := returnedValues(r)[0]
		if b, isK := constBool(v); isK {
			if !set(map[bool]int{true: 1, false: -1}[b]) {
				okAll = false
			}
			return
		}
		if phi, isPhi := v.(*ssa.Phi); isPhi {
			for i, e := range phi.Edges {
				pred := phi.Block().Preds[i]
				if !fb[pred] || fa.infeasible(pred, phi.Block(), H2) {
					continue
				}
				t := 0
				if b, isK := constBool(e); isK {
					t = map[bool]int{true: 1, false: -1}[b]
				} else {
					t = fa.truthUnder(e, H2)
				}
				if !set(t) {
					okAll = false
					return
				}
			}
			return
		}
		if !set(fa.truthUnder(v, H2)) {
			okAll = false
		}
	})
	if !okAll {
		return 0
	}
	return result
}

// predicateInfeasible: the edge leaves a branch on a pure predicate helper whose result is decided by H.
func (fa *Facts) predicateInfeasible(from, to *ssa.BasicBlock, H map[string]bool) bool {
	if len(from.Instrs) == 0 || len(H) == 0 {
		return false
	}
	iff, ok := from.Instrs[len(from.Instrs)-1].(*ssa.If)
	if !ok || len(from.Succs) != 2 || from.Succs[0] == from.Succs[1] {
		return false
	}
	cond := iff.Cond
	neg := false
	for {
		u, ok := cond.(*ssa.UnOp)
		if !ok || u.Op != token.NOT {
			break
		}
		cond, neg = u.X, !neg
	}
	call, ok := cond.(*ssa.Call)
	if !ok {
		return false
	}
	if predDepth > 2 {
		return false
	}
	predDepth++
	t := fa.predicateTruthUnder(call, H)
	predDepth--
	if t == 0 {
		return false
	}
	val := t > 0
	if neg {
		val = !val
	}
	return val != (from.Succs[0] == to)
}

var predDepth int

// linCanon: the comparison "l op r" over sums and differences of opaque integer terms, as "key op' k": key is the
// sign-normalised, sorted linear combination of the terms of l - r, k the constant moved to the right. ok only when a
// side is a sum or difference (otherwise the ordinary atom comparison applies). Arithmetic is over the mathematical
// integers: the quantities compared in the package (octet counts, lengths) are far from the int64 range.
func linCanon(l, op, r string) (key, cop string, k int64, ok bool) {
	switch op {
	case "<", "<=", ">", ">=", "==", "!=":
	default:
		return "", "", 0, false
	}
	terms := map[string]int64{}
	var konst int64
	compound := false
	var add func(e string, sign int64) bool
	add = func(e string, sign int64) bool {
		e = strings.TrimSpace(e)
		if a, o, b, isSum := splitSum(e); isSum {
			compound = true
			if !add(a, sign) {
				return false
			}
			if o == "-" {
				return add(b, -sign)
			}
			return add(b, sign)
		}
		if n, err := strconv.ParseInt(e, 10, 64); err == nil {
			konst += sign * n
			return true
		}
		if e == "" || e == "nil" || e == "true" || e == "false" || e[0] == '"' {
			return false
		}
		terms[e] += sign
		return true
	}
	if !add(l, 1) || !add(r, -1) || !compound {
		return "", "", 0, false
	}
	var names []string
	for t, c := range terms {
		if c != 0 {
			names = append(names, t)
		}
	}
	if len(names) == 0 {
		return "", "", 0, false
	}
	sort.Strings(names)
	flip := terms[names[0]] < 0
	var sb strings.Builder
	for _, t := range names {
		c := terms[t]
		if flip {
			c = -c
		}
		fmt.Fprintf(&sb, "%+d*%s ", c, t)
	}
	k = -konst
	if flip {
		k = -k
		switch op {
		case "<":
			op = ">"
		case "<=":
			op = ">="
		case ">":
			op = "<"
		case ">=":
			op = "<="
		}
	}
	return sb.String(), op, k, true
}

// splitSum: "(A + B)" or "(A - B)" with the operator at parenthesis depth 1 (describe's form of a binary operation).
func splitSum(e string) (a, op, b string, ok bool) {
	if len(e) < 5 || e[0] != '(' || e[len(e)-1] != ')' {
		return "", "", "", false
	}
	depth := 0
	inStr := false
	for i := 0; i < len(e); i++ {
		ch := e[i]
		if inStr {
			if ch == '\\' {
				i++
			} else if ch == '"' {
				inStr = false
			}
			continue
		}
		switch ch {
		case '"':
			inStr = true
		case '(', '[', '{':
			depth++
		case ')', ']', '}':
			depth--
			if depth == 0 && i != len(e)-1 {
				return "", "", "", false // "(A) ... (B)": the outer parentheses do not match each other
			}
		case ' ':
			if depth == 1 {
				for _, o := range []string{" + ", " - "} {
					if strings.HasPrefix(e[i:], o) {
						return e[1:i], strings.TrimSpace(o), e[i+3 : len(e)-1], true
					}
				}
			}
		}
	}
	return "", "", "", false
}
