package main

import (
	"fmt"
	"go/ast"
	"go/constant"
	"go/token"
	"go/types"
	"regexp"
	"sort"
	"strings"

	"golang.org/x/tools/go/ssa"
)

func init() {
	register(&propDef{
		ID: "C04",
		Explanation: "One reply per command decided by path counting on the SSA graph with callee summaries: on every entry-to-exit path of the dispatcher and of each handler the number of final-reply events is exactly 1 " +
			"(354/334 are intermediate; per-recipient LMTP loops must emit exactly one reply per iteration of a range over the recipients; the closing 500 only on the error-threshold edge; paths after a failed read/handshake are exempt). " +
			"All constant reply codes/enhanced codes are checked for range and class agreement; writeResponse's line format is checked by value flow; the DATA/BDAT verdict flows only from this transaction's backend result; " +
			"the BDAT delivery goroutine may not re-read transaction-scoped connection fields (that is how a stale verdict reaches the next message). RFC validity of echoed text is not decided.",
		Run: runC04,
	})
}

var ioFailEdge = regexp.MustCompile(`^(\(\*Conn\)\.readLine\(.*\)#1 != nil|\(\*tls\.Conn\)\.Handshake\(.*\) != nil)$`)

type replyCounter struct {
	c    *Ctx
	memo map[*ssa.Function]*CountResult
	// helpers that reply and report through a constant bool result whether they did: per helper the reply counts of
	// its true-returns and false-returns; per call site the branch that tests the result
	bh   map[*ssa.Function]*boolHelper
	corr map[*ssa.Function]map[*ssa.BasicBlock]*corrBranch
}

type boolHelper struct {
	idx             int // index of the bool result
	onTrue, onFalse CountResult
	ok              bool
}

type corrBranch struct { // the If in this block tests a bool helper's result
	h       *boolHelper
	negated bool
	call    ssa.Instruction
}

// boolHelperOf: g is an unexported package function all of whose returns give a constant bool at one result index;
// the number of final replies on the paths to its true-returns and to its false-returns is computed separately.
func (rc *replyCounter) boolHelperOf(g *ssa.Function) *boolHelper {
	if rc.bh == nil {
		rc.bh = map[*ssa.Function]*boolHelper{}
	}
	if h, ok := rc.bh[g]; ok {
		return h
	}
	h := &boolHelper{idx: -1}
	rc.bh[g] = h
	if isExported(g) || g.Parent() != nil || len(g.Blocks) == 0 {
		return h
	}
	res := g.Signature.Results()
	for i := 0; i < res.Len(); i++ {
		if isBoolType(res.At(i).Type()) {
			h.idx = i
		}
	}
	if h.idx < 0 {
		return h
	}
	val := map[ssa.Instruction]bool{}
	allConst := true
	allInstrs(g, func(in ssa.Instruction) {
		r, ok := in.(*ssa.Return)
		if !ok || in.Block() == g.Recover {
			return
		}
		rv := returnedValues(r)
		if h.idx >= len(rv) {
			allConst = false
			return
		}
		b, isK := constBool(rv[h.idx])
		if !isK {
			allConst = false
			return
		}
		val[in] = b
	})
	if !allConst || len(val) == 0 {
		return h
	}
	cnt := func(want bool) CountResult {
		return CountPathsOpt(g, CountOpts{SkipEdge: rc.skip, Count: rc.replies, ExitOK: func(ret ssa.Instruction) bool { return val[ret] != want }})
	}
	h.onTrue, h.onFalse = cnt(true), cnt(false)
	h.ok = h.onTrue.Max >= 0 && h.onFalse.Max >= 0
	return h
}

// corrBranches: call sites in f of bool helpers whose bool result is used by exactly one If (possibly negated).
func (rc *replyCounter) corrBranches(f *ssa.Function) map[*ssa.BasicBlock]*corrBranch {
	if rc.corr == nil {
		rc.corr = map[*ssa.Function]map[*ssa.BasicBlock]*corrBranch{}
	}
	if m, ok := rc.corr[f]; ok {
		return m
	}
	m := map[*ssa.BasicBlock]*corrBranch{}
	rc.corr[f] = m
	allInstrs(f, func(in ssa.Instruction) {
		call, ok := in.(*ssa.Call)
		if !ok {
			return
		}
		g := staticCallee(&call.Call)
		if g == nil || !inSmtp(g) || g == f {
			return
		}
		h := rc.boolHelperOf(g)
		if !h.ok {
			return
		}
		// the bool result: the call value itself (single result) or its extract
		var bv ssa.Value
		if g.Signature.Results().Len() == 1 {
			bv = call
		} else {
			for _, ref := range *call.Referrers() {
				if ex, ok := ref.(*ssa.Extract); ok && ex.Index == h.idx {
					if bv != nil {
						return
					}
					bv = ex
				}
			}
		}
		if bv == nil {
			return
		}
		neg := false
		refs := *bv.Referrers()
		if len(refs) != 1 {
			return
		}
		if u, ok := refs[0].(*ssa.UnOp); ok && u.Op == token.NOT {
			neg = true
			refs = *u.Referrers()
			if len(refs) != 1 {
				return
			}
		}
		iff, ok := refs[0].(*ssa.If)
		if !ok || len(iff.Block().Succs) != 2 {
			return
		}
		m[iff.Block()] = &corrBranch{h: h, negated: neg, call: in}
	})
	return m
}

// edgeAdd: the replies a correlated bool helper has emitted, accounted on the branch that tests its result.
func (rc *replyCounter) edgeAdd(f *ssa.Function) func(from, to *ssa.BasicBlock) (int, int) {
	m := rc.corrBranches(f)
	return func(from, to *ssa.BasicBlock) (int, int) {
		cb := m[from]
		if cb == nil {
			return 0, 0
		}
		truth := from.Succs[0] == to
		if cb.negated {
			truth = !truth
		}
		if truth {
			return cb.h.onTrue.Min, cb.h.onTrue.Max
		}
		return cb.h.onFalse.Min, cb.h.onFalse.Max
	}
}

// correlated: the call's replies are accounted on the branch edges (edgeAdd), not at the call.
func (rc *replyCounter) correlated(in ssa.Instruction) bool {
	for _, cb := range rc.corrBranches(in.Parent()) {
		if cb.call == in {
			return true
		}
	}
	return false
}

func isIntermediateCode(code int64) bool { return code == 354 || code == 334 }

func (rc *replyCounter) isFinal(in ssa.Instruction) bool {
	cc := callCommon(in)
	if cc == nil {
		return false
	}
	g := staticCallee(cc)
	if g == nil || qualFuncName(g) != "(*Conn).writeResponse" {
		return false
	}
	if code, ok := constInt(cc.Args[1]); ok && isIntermediateCode(code) {
		return false
	}
	return true
}

// replies: how many final replies the instruction emits — a direct writeResponse, or a package helper that replies.
func (rc *replyCounter) replies(in ssa.Instruction) (int, int) {
	if rc.isFinal(in) {
		return 1, 1
	}
	switch in.(type) {
	case *ssa.Go, *ssa.Defer:
		return 0, 0
	}
	if cc := callCommon(in); cc != nil {
		if g := staticCallee(cc); g != nil && inSmtp(g) && qualFuncName(g) != "(*Conn).writeResponse" && g.Blocks != nil {
			if qualFuncName(g) == "(*Conn).protocolError" {
				return 1, 1
			}
			if rc.correlated(in) {
				return 0, 0
			}
			r := rc.count(g)
			return r.Min, r.Max
		}
	}
	return 0, 0
}

type loopInfo struct {
	header *ssa.BasicBlock
	blocks map[*ssa.BasicBlock]bool
	done   *ssa.BasicBlock
	body   *ssa.BasicBlock
	overRc bool // ranges over Conn.recipients
}

// overRcShape: the loop is a go/ssa rangeindex loop over the slice described by what.
func (li *loopInfo) overRcShape(what string) bool {
	if len(li.header.Instrs) == 0 || li.header.Comment != "rangeindex.loop" {
		return false
	}
	iff, ok := li.header.Instrs[len(li.header.Instrs)-1].(*ssa.If)
	if !ok {
		return false
	}
	bo, ok := iff.Cond.(*ssa.BinOp)
	return ok && bo.Op.String() == "<" && describe(bo.Y) == "builtin:len("+what+")" && strings.HasPrefix(describe(bo.X), "(loopvar:rangeindex")
}

func findLoops(f *ssa.Function) []*loopInfo {
	var out []*loopInfo
	for _, h := range f.Blocks {
		back := false
		for _, p := range h.Preds {
			if h.Dominates(p) {
				back = true
			}
		}
		if !back {
			continue
		}
		li := &loopInfo{header: h, blocks: map[*ssa.BasicBlock]bool{}}
		for _, b := range f.Blocks {
			if h.Dominates(b) && reachableFrom(b, nil)[h] {
				li.blocks[b] = true
			}
		}
		if len(h.Instrs) > 0 {
			if iff, ok := h.Instrs[len(h.Instrs)-1].(*ssa.If); ok && len(h.Succs) == 2 {
				for _, sc := range h.Succs {
					if li.blocks[sc] {
						li.body = sc
					} else {
						li.done = sc
					}
				}
				if bo, ok := iff.Cond.(*ssa.BinOp); ok {
					if describe(bo.Y) == "builtin:len(Conn.recipients)" || describe(bo.X) == "builtin:len(Conn.recipients)" {
						li.overRc = true
					}
				}
			}
		}
		out = append(out, li)
	}
	return out
}

func (rc *replyCounter) skip(from, to *ssa.BasicBlock) bool {
	for _, a := range rc.c.F.edgeAtoms(from, to) {
		if ioFailEdge.MatchString(a) {
			return true
		}
	}
	return false
}

func (rc *replyCounter) count(f *ssa.Function) CountResult {
	if r, ok := rc.memo[f]; ok {
		if r == nil {
			return CountResult{}
		}
		return *r
	}
	rc.memo[f] = nil
	loops := findLoops(f)
	inRcLoop := map[*ssa.BasicBlock]*loopInfo{}
	bonus := map[ssa.Instruction]bool{}
	for _, li := range loops {
		if !li.overRc || li.done == nil {
			continue
		}
		has := false
		for b := range li.blocks {
			inRcLoop[b] = li
			for _, in := range b.Instrs {
				if _, hi := rc.replies(in); hi != 0 {
					has = true
				}
			}
		}
		if has {
			// the whole loop counts as one final reply group, accounted on
			// the edges entering the loop from outside
			for _, p := range li.header.Preds {
				if !li.blocks[p] && len(p.Instrs) > 0 {
					bonus[p.Instrs[len(p.Instrs)-1]] = true
				}
			}
		}
	}
	res := CountPathsOpt(f, CountOpts{
		SkipEdge: rc.skip,
		EdgeAdd:  rc.edgeAdd(f),
		Count: func(in ssa.Instruction) (int, int) {
			lo, hi := 0, 0
			if bonus[in] {
				lo, hi = 1, 1
			}
			if inRcLoop[in.Block()] != nil {
				return lo, hi // per-iteration replies are checked separately
			}
			if rc.isFinal(in) {
				lo, hi = lo+1, hi+1
			}
			switch in.(type) {
			case *ssa.Go, *ssa.Defer:
				return lo, hi
			}
			if cc := callCommon(in); cc != nil {
				if g := staticCallee(cc); g != nil && inSmtp(g) && qualFuncName(g) != "(*Conn).writeResponse" {
					if qualFuncName(g) == "(*Conn).protocolError" {
						return lo + 1, hi + 1 // the closing 500 is checked by R-closing-500
					}
					if rc.correlated(in) {
						return lo, hi
					}
					r := rc.count(g)
					lo += r.Min
					if r.Max < 0 {
						hi = inf
					} else {
						hi += r.Max
					}
				}
			}
			return lo, hi
		},
	})
	rc.memo[f] = &res
	return res
}

// acyclicPaths counts entry→return paths ignoring back edges (for evidence).
func acyclicPaths(f *ssa.Function) int {
	memo := map[*ssa.BasicBlock]int{}
	var rec func(b *ssa.BasicBlock) int
	rec = func(b *ssa.BasicBlock) int {
		if v, ok := memo[b]; ok {
			return v
		}
		memo[b] = 0
		n := 0
		if len(b.Succs) == 0 {
			n = 1
		}
		for _, s := range b.Succs {
			if s.Dominates(b) {
				continue
			}
			n += rec(s)
			if n > 1<<40 {
				n = 1 << 40
			}
		}
		memo[b] = n
		return n
	}
	if len(f.Blocks) == 0 {
		return 0
	}
	return rec(f.Blocks[0])
}

// enhancedArg classifies an EnhancedCode argument.
func enhancedArg(v ssa.Value) (kind string, class int64) {
	v = stripConv(v)
	u, ok := v.(*ssa.UnOp)
	if !ok {
		return "dyn", 0
	}
	if g, ok := u.X.(*ssa.Global); ok {
		switch g.Name() {
		case "NoEnhancedCode":
			return "none", 0
		case "EnhancedCodeNotSet":
			return "notset", 0
		}
		return "dyn", 0
	}
	a, ok := u.X.(*ssa.Alloc)
	if !ok {
		return "dyn", 0
	}
	// composite literal: stores through IndexAddr with constant index
	vals := map[int64]int64{}
	for _, r := range referrers(a) {
		ia, ok := r.(*ssa.IndexAddr)
		if !ok {
			continue
		}
		idx, ok := constInt(ia.Index)
		if !ok {
			return "dyn", 0
		}
		for _, r2 := range referrers(ia) {
			if st, ok := r2.(*ssa.Store); ok && st.Addr == ia {
				k, ok := constInt(st.Val)
				if !ok {
					return "dyn", 0
				}
				vals[idx] = k
			}
		}
	}
	if len(vals) == 0 {
		return "dyn", 0
	}
	return "const", vals[0]
}

func runC04(c *Ctx) {
	R := c.R
	_, s := c.Std()

	// "one reply per command" presupposes that message octets are never parsed as commands: the
	// framing rules of C02 (end-of-data table, drains) are necessary conditions of this property too
	ruleDotTable(c)
	ruleDrains(c)
	ruleDrainFailureCloses(c)
	// the reply to the command after a chunk depends on that command only: octets of a binary chunk
	// (limit lifted) must leave no count behind that refuses the next command line
	ruleLimiterBypass(c)
	ruleResultOnEveryExit(c) // the command loop waits for the delivery's result: a goroutine exit (also the recovered panic) that does not send it leaves every later command unanswered
	ruleNoReplyAfterClose(c) // "one reply per command": a reply written to a closed socket is no reply

	// ---------- R-reply-count ----------
	R.Rule("R-reply-count", "E2 path counting with callee summaries", "exactly one final reply on every entry-to-exit path of the dispatcher and of each command handler (intermediate 354/334 excluded; I/O-failure paths exempt)", 9)
	ruleReplyCountFor(c, []string{"(*Conn).handle", "(*Conn).handleGreet", "(*Conn).handleMail", "(*Conn).handleRcpt", "(*Conn).handleData", "(*Conn).handleDataLMTP", "(*Conn).handleBdat", "(*Conn).handleAuth", "(*Conn).handleStartTLS"})

	R.Rule("R-rcpt-loop-reply", "E2", "per-recipient reply loops range over the recipients and emit exactly one reply per iteration", 2)
	rc := &replyCounter{c: c, memo: map[*ssa.Function]*CountResult{}}
	for _, f := range c.P.AllFuncs() {
		if !strings.HasPrefix(funcName(f), "(*Conn).") {
			continue
		}
		for _, li := range findLoops(f) {
			has := false
			for b := range li.blocks {
				for _, in := range b.Instrs {
					if _, hi := rc.replies(in); hi != 0 || (callCommon(in) != nil && staticCallee(callCommon(in)) != nil && inSmtp(staticCallee(callCommon(in))) && s.InstrMay(in)["reply"]) {
						if _, isDefer := in.(*ssa.Defer); !isDefer {
							has = true
						}
					}
				}
			}
			if !has {
				continue
			}
			key := funcName(f) + "/loop at " + li.header.Comment
			if !li.overRc {
				// the AUTH challenge loop only emits intermediate 334 replies and refusals that return
				res := CountPathsOpt(f, CountOpts{Start: li.body, NoReturn: true, SkipEdge: rc.skip, EdgeAdd: rc.edgeAdd(f),
					ExitEdge: func(from, to *ssa.BasicBlock) bool { return to == li.header },
					Count: func(in ssa.Instruction) (int, int) {
						return rc.replies(in)
					}})
				R.Ob(key+" emits no final reply per iteration", c.P.InstrPos(li.header.Instrs[0]), li.body != nil && res.Max == 0, fmt.Sprintf("a loop that does not range over the recipients emits up to %d final replies per iteration", res.Max))
				continue
			}
			res := CountPathsOpt(f, CountOpts{Start: li.body, NoReturn: true, SkipEdge: rc.skip, EdgeAdd: rc.edgeAdd(f),
				ExitEdge: func(from, to *ssa.BasicBlock) bool { return to == li.header },
				Count: func(in ssa.Instruction) (int, int) {
					if lo, hi := rc.replies(in); hi != 0 {
						return lo, hi
					}
					return 0, 0
				}})
			R.Ob(key+" one reply per recipient", c.P.InstrPos(li.header.Instrs[0]), res.Min == 1 && res.Max == 1, fmt.Sprintf("an iteration emits between %d and %d replies", res.Min, res.Max))
		}
	}

	R.Rule("R-closing-500", "E2+E3", "protocolError emits its closing notice only on the error-threshold edge and then closes the connection", 3)
	if f := c.A.Func("(*Conn).protocolError"); f != nil {
		var thr func(from, to *ssa.BasicBlock) bool = func(from, to *ssa.BasicBlock) bool {
			for _, a := range c.F.edgeAtoms(from, to) {
				if strings.HasPrefix(a, "(Conn.errCount + 1) > ") || strings.HasPrefix(a, "Conn.errCount > ") || strings.HasPrefix(a, "Conn.errCount >= ") || strings.HasPrefix(a, "(Conn.errCount + 1) >= ") {
					return true
				}
			}
			return false
		}
		res := CountPathsOpt(f, CountOpts{SkipEdge: thr, Count: func(in ssa.Instruction) (int, int) {
			if rc.isFinal(in) {
				return 1, 1
			}
			return 0, 0
		}})
		R.Ob("(*Conn).protocolError/one reply below the threshold", c.P.Pos(f.Pos()), res.Min == 1 && res.Max == 1, fmt.Sprintf("below the threshold protocolError emits %d..%d replies", res.Min, res.Max))
		all := CountPathsOpt(f, CountOpts{Count: func(in ssa.Instruction) (int, int) {
			if rc.isFinal(in) {
				return 1, 1
			}
			return 0, 0
		}})
		R.Ob("(*Conn).protocolError/at most one closing notice", c.P.Pos(f.Pos()), all.Max == 2 || all.Max == 1, fmt.Sprintf("protocolError can emit %d replies", all.Max))
		// every reply after the first is followed by Close
		first := true
		allInstrs(f, func(in ssa.Instruction) {
			if !rc.isFinal(in) {
				return
			}
			if first && in.Block() == f.Blocks[0] {
				first = false
				return
			}
			site := in
			c.obFollow("closing notice then Close", f, func(x ssa.Instruction) bool { return x == site }, []string{lClose}, nil, nil)
		})
	}
	// the closing notice is a second reply: tolerated only where the line was not a command at all
	ruleProtocolErrorSites(c)

	// ---------- R-reply-const ----------
	R.Rule("R-reply-const", "E8 constant table", "every constant reply code is in 200..599 and its constant enhanced code has the class of the reply code; replies without enhanced code only for greeting, EHLO list, 334, 354", 60)
	inGreetScope := map[*ssa.Function]bool{}
	if g0 := c.A.Func("(*Conn).handleGreet"); g0 != nil {
		for _, g := range c.withHelpers(g0) {
			inGreetScope[g] = true
		}
	}
	for _, f := range c.P.AllFuncs() {
		allInstrs(f, func(in ssa.Instruction) {
			fn, code, isConst, ok := replyCall(in)
			if !ok {
				return
			}
			ea := replyEnhArg(in)
			if ea == nil {
				return // the forwarder supplies the enhanced code itself; its own call is checked
			}
			kind, class := enhancedArg(ea)
			key := c.siteKey(in, "reply constants")
			if !isConst {
				if kind == "const" || kind == "none" {
					R.Ob(key, c.P.InstrPos(in), false, "dynamic reply code with a constant enhanced code: classes cannot be shown to agree")
				}
				return
			}
			switch {
			case code < 200 || code > 599:
				R.Ob(key, c.P.InstrPos(in), false, fmt.Sprintf("reply code %d outside 200..599", code))
			case kind == "const":
				R.Ob(key, c.P.InstrPos(in), class == code/100, fmt.Sprintf("reply %d carries enhanced code class %d", code, class))
			case kind == "none":
				okNone := code == 220 && funcName(f) == "(*Conn).greet" || code == 334 || code == 354 || (code == 250 && inGreetScope[f])
				R.Ob(key, c.P.InstrPos(in), okNone && fn == "(*Conn).writeResponse", fmt.Sprintf("reply %d in %s is sent without an enhanced status code", code, funcName(f)))
			case kind == "notset":
				R.Ob(key, c.P.InstrPos(in), code/100 == 2 || code/100 == 4 || code/100 == 5, fmt.Sprintf("reply %d relies on enhanced-code defaulting, which exists only for classes 2, 4, 5", code))
			default:
				R.Ob(key, c.P.InstrPos(in), false, fmt.Sprintf("constant reply %d with a computed enhanced code", code))
			}
		})
	}
	// SMTPError literals
	for _, file := range c.P.Smtp.Syntax {
		ast.Inspect(file, func(n ast.Node) bool {
			cl, ok := n.(*ast.CompositeLit)
			if !ok {
				return true
			}
			tv, ok := c.P.Smtp.TypesInfo.Types[cl]
			if !ok || typeShort(tv.Type) != "SMTPError" {
				return true
			}
			var code, class int64 = -1, -1
			for _, el := range cl.Elts {
				kv, ok := el.(*ast.KeyValueExpr)
				if !ok {
					continue
				}
				id, _ := kv.Key.(*ast.Ident)
				if id == nil {
					continue
				}
				switch id.Name {
				case "Code":
					if v := c.P.Smtp.TypesInfo.Types[kv.Value].Value; v != nil {
						code, _ = constant.Int64Val(v)
					}
				case "EnhancedCode":
					if ecl, ok := kv.Value.(*ast.CompositeLit); ok && len(ecl.Elts) == 3 {
						if v := c.P.Smtp.TypesInfo.Types[ecl.Elts[0]].Value; v != nil {
							class, _ = constant.Int64Val(v)
						}
					}
				}
			}
			if code >= 0 && class >= 0 {
				R.Ob(fmt.Sprintf("SMTPError literal %d", code), c.P.Pos(cl.Pos()), code >= 400 && code <= 599 && class == code/100, fmt.Sprintf("SMTPError{Code:%d} has enhanced class %d", code, class))
			}
			return true
		})
	}

	// replies built from backend errors: code and enhanced code travel together (class agreement for computed replies)
	ruleErrPassthrough(c)

	// ---------- R-reply-format ----------
	ruleReplyFormat(c)
	ruleEnhDefault(c)

	// ---------- R-verdict-flow ----------
	R.Rule("R-verdict-flow", "E4 value flow", "every reply with a computed code takes code, enhanced code and text from dataErrorToStatus applied to THIS transaction's backend result; dataErrorToStatus is positive only for a nil error", 6)
	ruleVerdictSources(c)
	ruleDataErrorToStatus(c)
	// the BDAT result channel read by the LAST branch is the one created with the pipe
	for _, site := range c.Sites("st:Conn.dataResult") {
		_, _, v := storedField(site)
		c.obUnreach("dataResult created with the pipe", site, aPipeOpen)
		R.Ob(c.siteKey(site, "dataResult is a fresh buffered channel"), c.P.InstrPos(site), describe(v) == "makechan(1)", "dataResult assigned "+describe(v))
	}

	ruleAuthReadFailureEnds(c) // a failed read inside AUTH is answered once, by the command loop: a reply from the handler as well makes two
	ruleNoPartialLine(c)       // one reply per command LINE: the buffered beginning of an over-long line is never dispatched (it would be answered, and the line again with the closing 500)
	rulePositiveAfterCallback(c)
	R.Rule("R-bdat-chunk-never-commands", "E2 path counting", "a BDAT command gets its one reply and nothing else: every path through handleBdat that knows the size consumes the chunk, so its octets are never answered as commands of their own", 1)
	if bi := bdatAnchors(c); bi != nil && bi.parse != nil {
		obBdatConsumes(c, bi)
	}
	R.Rule("R-binarymime-per-mail", "E2 never-before", "the BINARYMIME refusal of DATA reports this transaction's MAIL: handleMail clears the flag before it can be set and before the backend is asked", 1)
	ruleBinarymimePerMail(c)
	ruleWriteDeadlineOwner(c)
	R.Rule("R-sasl-decode", "E4", "a zero-length SASL response is handed to the mechanism as an empty (non-nil) slice: otherwise a spurious 334 is sent and the following command is swallowed as SASL data", 2)
	ruleSASLDecode(c)
	R.Rule("R-status-fill-shape", "E1", "in LMTP every accepted recipient occurrence gets a reply: fillRemaining loops a non-blocking send over every recipient channel until it is full", 2)
	ruleFillShape(c)
	ruleFillValue(c)
	R.Rule("R-replies-for-accepted-only", "E3+E1", "the recipient list that drives the per-recipient final replies (and the 'no recipients' refusal of DATA/BDAT) grows only on the nil-error edge of Session.Rcpt", 2)
	for _, site := range c.Sites("st:Conn.recipients") {
		if _, _, v := storedField(site); isNilConst(v) {
			continue
		}
		for _, ea := range c.cbErrAtoms(lRcpt, "invoke:Session.Rcpt", site.Parent()) {
			c.obUnreach("recipients=append", site, ea+` != nil`)
		}
		R.Ob(c.siteKey(site, "recipients append after Session.Rcpt"), c.P.InstrPos(site), s.SeenBefore(site)[lRcpt], "a recipient is recorded before the backend was asked: a refused recipient still gets a final reply (250 for a refused mailbox, every later reply shifted)")
	}
	ruleResetEffects(c)
	R.Rule("R-state-writers", "who-may-write", "the delivery result channel is installed only together with the pipe in handleBdat", 1)
	c.obWriters("Conn.dataResult", "one result channel per chunked message", "(*Conn).handleBdat")

	// ---------- R-go-capture ----------
	ruleGoCapture(c)

	// ---------- R-loop-one-dispatch ----------
	R.Rule("R-loop-one-dispatch", "E2", "each successfully read command line leads to exactly one dispatch (handle or protocolError) before the next line is read", 1)
	if f := c.A.Func("(*Server).handleConn"); f != nil {
		var rl ssa.Instruction
		for _, in := range s.Find(f, lReadLine) {
			rl = in
		}
		if rl == nil {
			R.Ob("(*Server).handleConn/reads lines", c.P.Pos(f.Pos()), false, "no readLine call in the command loop")
		} else {
			okEdge := func(from, to *ssa.BasicBlock) bool { // skip the read-failure edge
				for _, a := range c.F.edgeAtoms(from, to) {
					if strings.HasSuffix(a, "#1 != nil") && strings.Contains(a, "readLine") {
						return true
					}
				}
				return false
			}
			res := CountPathsOpt(f, CountOpts{Start: rl.Block(), NoReturn: false, SkipEdge: okEdge,
				ExitEdge: func(from, to *ssa.BasicBlock) bool { return to == rl.Block() },
				Count: func(in ssa.Instruction) (int, int) {
					if isStaticCall(in, "(*Conn).handle") || isStaticCall(in, "(*Conn).protocolError") {
						return 1, 1
					}
					return 0, 0
				}})
			R.Ob("(*Server).handleConn/one dispatch per line", c.P.InstrPos(rl), res.Min == 1 && res.Max == 1, fmt.Sprintf("a successfully read line leads to %d..%d dispatches", res.Min, res.Max))
		}
	}
}

func describeVarargs(v ssa.Value) string {
	// varargs slice: collect stores into the backing array
	sl, ok := v.(*ssa.Slice)
	if !ok {
		return describe(v)
	}
	a, ok := sl.X.(*ssa.Alloc)
	if !ok {
		return describe(v)
	}
	var parts []string
	for _, r := range referrers(a) {
		if ia, ok := r.(*ssa.IndexAddr); ok {
			for _, r2 := range referrers(ia) {
				if st, ok := r2.(*ssa.Store); ok {
					parts = append(parts, describe(st.Val))
				}
			}
		}
	}
	sort.Strings(parts)
	return strings.Join(parts, " | ")
}

func ruleReplyFormat(c *Ctx) {
	R := c.R
	R.Rule("R-reply-format", "E4 value flow", "writeResponse prints every line as '<code>-' (continuation) or '<code> ' (last) with the same code, splits the text on LF, and prints exactly one last line", 4)
	f := c.A.Func("(*Conn).writeResponse")
	if f == nil {
		return
	}
	// the number of lines is the length of the SPLIT text: every "len(x) - 1" in the function (last-line index, loop
	// bound) is taken of the strings.Split result that is printed, not of the variadic argument (one element for every
	// backend error, however many lines its message has: all but the first line would be dropped)
	nLen := 0
	allInstrs(f, func(in ssa.Instruction) {
		bo, ok := in.(*ssa.BinOp)
		if !ok || bo.Op != token.SUB {
			return
		}
		call, isCall := stripConv(bo.X).(*ssa.Call)
		if !isCall {
			return
		}
		if bi, isB := call.Call.Value.(*ssa.Builtin); !isB || bi.Name() != "len" {
			return
		}
		nLen++
		d := describe(call.Call.Args[0])
		R.Ob(c.siteKey(in, "line count is taken of the split text"), c.P.InstrPos(in), strings.Contains(d, "strings.Split("), "the last-line index is computed from len("+d+"), not from the text split into lines: a multi-line message passed as one argument is cut after its first line")
	})
	R.Ob("(*Conn).writeResponse/line count found", c.P.Pos(f.Pos()), nLen >= 1, "no len(…)-1 computation found in writeResponse")
	loops := findLoops(f)
	inLoop := func(b *ssa.BasicBlock) bool {
		for _, li := range loops {
			if li.blocks[b] {
				return true
			}
		}
		return false
	}
	nLast := 0
	allInstrs(f, func(in ssa.Instruction) {
		if !isStaticCall(in, "(*textproto.Writer).PrintfLine") {
			return
		}
		cc := callCommon(in)
		format, ok := constString(cc.Args[1])
		args := describeVarargs(cc.Args[2])
		codeOK := strings.Contains(args, "param1")
		key := c.siteKey(in, "PrintfLine")
		switch {
		case !ok:
			R.Ob(key, c.P.InstrPos(in), false, "non-constant reply line format")
		case strings.HasPrefix(format, "%d-"):
			R.Ob(key, c.P.InstrPos(in), inLoop(in.Block()) && codeOK, "continuation line format "+format+" outside the line loop or not fed by the reply code")
		case strings.HasPrefix(format, "%d "):
			nLast++
			R.Ob(key, c.P.InstrPos(in), !inLoop(in.Block()) && codeOK, "last-line format "+format+" inside the line loop or not fed by the reply code")
		default:
			R.Ob(key, c.P.InstrPos(in), false, "reply line format "+format+" does not start with the code followed by '-' or ' '")
		}
		// printed text must index the LF-split text
		lfSplit := strings.Contains(args, `strings.Split(strings.Join(param3,"\n"),"\n")[`)
		if !lfSplit {
			// any container built only from strings.Split(_, "\n") results (append loops, phis, re-slicing)
			vs := varargValues(cc.Args[2])
			if len(vs) > 0 {
				if cont := indexedContainer(vs[len(vs)-1]); cont != nil {
					lfSplit = builtFromLFSplits(cont, map[ssa.Value]bool{}, 0)
				}
			}
		}
		R.Ob(c.siteKey(in, "PrintfLine text is LF-split"), c.P.InstrPos(in), lfSplit, "printed text is "+args)
		// the element itself is printed, not a function of it (trimmed, truncated, re-cased, ...)
		if vs := varargValues(cc.Args[2]); len(vs) > 0 {
			tv := stripConv(vs[len(vs)-1])
			_, isCall := tv.(*ssa.Call)
			_, isBin := tv.(*ssa.BinOp)
			R.Ob(c.siteKey(in, "PrintfLine prints the line itself"), c.P.InstrPos(in), !isCall && !isBin, "the printed text is "+describe(tv)+", a function of the reply line: the backend's message text does not reach the peer intact")
		}
	})
	// ... and printed as they are: no element of a string slice is rewritten between the split and the print
	nElemStores := 0
	allInstrs(f, func(in ssa.Instruction) {
		st, ok := in.(*ssa.Store)
		if !ok {
			return
		}
		ia, ok := st.Addr.(*ssa.IndexAddr)
		if !ok {
			return
		}
		if strings.Contains(ia.X.Type().String(), "string") {
			nElemStores++
			R.Ob(c.siteKey(in, "reply text lines are not rewritten"), c.P.InstrPos(in), false, "a line of the reply text is replaced by "+describe(st.Val)+" before it is printed: the backend's message text does not reach the peer intact")
		}
	})
	R.Ob("(*Conn).writeResponse/text lines printed unmodified", c.P.Pos(f.Pos()), nElemStores == 0, fmt.Sprintf("%d stores into the text lines", nElemStores))
	res := CountPathsOpt(f, CountOpts{Count: func(in ssa.Instruction) (int, int) {
		if isStaticCall(in, "(*textproto.Writer).PrintfLine") {
			if format, ok := constString(callCommon(in).Args[1]); ok && strings.HasPrefix(format, "%d ") {
				return 1, 1
			}
		}
		return 0, 0
	}})
	R.Ob("(*Conn).writeResponse/exactly one last line", c.P.Pos(f.Pos()), res.Min == 1 && res.Max == 1 && nLast >= 1, fmt.Sprintf("a reply ends with %d..%d last lines", res.Min, res.Max))
}

// transaction-scoped Conn fields a delivery goroutine must not re-read.
var txnFields = []string{"recipients", "bdatStatus", "dataResult", "session", "fromReceived", "bytesReceived", "bdatPipe", "helo", "didAuth", "binarymime"}

func ruleGoCapture(c *Ctx) {
	R := c.R
	R.Rule("R-go-capture", "E7 capture rule", "delivery goroutines use values captured before the go statement: they never load transaction-scoped Conn fields (directly or through Session()), which the command loop rewrites for the next transaction", 2)
	txn := map[*types.Var]bool{}
	for _, n := range txnFields {
		if v := c.A.Field("Conn", n); v != nil {
			txn[v] = true
		}
	}
	mayRead := map[*ssa.Function]map[*types.Var]ssa.Instruction{}
	var reads func(f *ssa.Function) map[*types.Var]ssa.Instruction
	reads = func(f *ssa.Function) map[*types.Var]ssa.Instruction {
		if m, ok := mayRead[f]; ok {
			return m
		}
		m := map[*types.Var]ssa.Instruction{}
		mayRead[f] = m
		allInstrs(f, func(in ssa.Instruction) {
			if v, ok := in.(ssa.Value); ok {
				if fld, _ := loadedField(v); fld != nil && txn[fld] {
					if _, dup := m[fld]; !dup {
						m[fld] = in
					}
				}
			}
			if cc := callCommon(in); cc != nil {
				if g := staticCallee(cc); g != nil && inSmtp(g) {
					for k := range reads(g) {
						if _, dup := m[k]; !dup {
							m[k] = in
						}
					}
				}
			}
		})
		return m
	}
	for _, f := range c.P.AllFuncs() {
		if !strings.HasPrefix(funcName(f), "(*Conn).") {
			continue
		}
		allInstrs(f, func(in ssa.Instruction) {
			g, ok := in.(*ssa.Go)
			if !ok {
				return
			}
			body := staticCallee(&g.Call)
			if body == nil {
				R.Ob(c.siteKey(in, "go statement"), c.P.InstrPos(in), false, "goroutine body is not statically known")
				return
			}
			m := reads(body)
			var flds []string
			where := ""
			for k, at := range m {
				flds = append(flds, "Conn."+k.Name())
				where = c.P.InstrPos(at)
			}
			sort.Strings(flds)
			R.Ob(funcName(body)+"/no transaction-scoped field reads", c.P.InstrPos(in), len(flds) == 0,
				fmt.Sprintf("goroutine re-reads %v (e.g. at %s) when the backend finishes: after RSET/abort and a new transaction these hold the NEXT message's channel/recipients/status, so a stale verdict is delivered to the wrong message (and the access races with the command loop)", flds, where))
		})
	}
}

// ruleDataErrorToStatus is shared by C04 (verdict) and C17 (error fidelity for the data phase).
func ruleDataErrorToStatus(c *Ctx) {
	R := c.R
	if f := c.A.Func("dataErrorToStatus"); f != nil {
		allInstrs(f, func(in ssa.Instruction) {
			r, ok := in.(*ssa.Return)
			if !ok || len(r.Results) != 3 {
				return
			}
			if code, ok := constInt(r.Results[0]); ok {
				if code/100 == 2 {
					c.obUnreach("positive status", in, `param0 != nil`)
				} else {
					c.obUnreach("negative status", in, `param0 == nil`)
					R.Ob(c.siteKey(in, "generic data error is 554"), c.P.InstrPos(in), code == 554, fmt.Sprintf("generic data error code %d", code))
					kind, class := enhancedArg(r.Results[1])
					R.Ob(c.siteKey(in, "generic data error has class 5 enhanced code"), c.P.InstrPos(in), kind == "const" && class == 5 || kind == "notset", fmt.Sprintf("generic data error enhanced code is %s/%d", kind, class))
					R.Ob(c.siteKey(in, "generic data error carries the error text"), c.P.InstrPos(in), strings.Contains(describe(r.Results[2]), "invoke:error.Error"), "generic data error text is "+describe(r.Results[2])+": the backend's error text is lost")
				}
			} else {
				c.obUnreach("backend status", in, `param0 == nil`)
				R.Ob(c.siteKey(in, "SMTPError fields passed through"), c.P.InstrPos(in),
					describe(r.Results[0]) == "SMTPError.Code" && describe(r.Results[1]) == "SMTPError.EnhancedCode" && describe(r.Results[2]) == "SMTPError.Message",
					"returns "+describe(r.Results[0])+", "+describe(r.Results[1])+", "+describe(r.Results[2]))
			}
		})
	}
}

// ruleReplyCountFor: exactly one final reply on every path through each of the named handlers (shared by C04 and,
// for handleBdat, by C05).
func ruleReplyCountFor(c *Ctx, fns []string) {
	R := c.R
	rc := &replyCounter{c: c, memo: map[*ssa.Function]*CountResult{}}
	totalPaths := 0
	for _, fn := range fns {
		f := c.A.Func(fn)
		if f == nil {
			continue
		}
		res := rc.count(f)
		totalPaths += acyclicPaths(f)
		d := ""
		ok := res.Min == 1 && res.Max == 1
		if !ok {
			mx := fmt.Sprint(res.Max)
			if res.Max < 0 {
				mx = "unbounded"
			}
			d = fmt.Sprintf("paths through %s emit between %d and %s final replies (fewest: return at %s; most: return at %s)", fn, res.Min, mx, c.P.InstrPos(res.MinExit), c.P.InstrPos(res.MaxExit))
		}
		R.Ob(fn+"/final replies per path", c.P.Pos(f.Pos()), ok, d)
	}
	R.Extra["acyclic_paths_enumerated"] = totalPaths
}

// indexedContainer: for a value loaded as container[i] returns the container.
func indexedContainer(v ssa.Value) ssa.Value {
	v = stripConv(v)
	switch x := v.(type) {
	case *ssa.UnOp:
		if ia, ok := x.X.(*ssa.IndexAddr); ok {
			return ia.X
		}
	case *ssa.Index:
		return x.X
	case *ssa.MakeInterface:
		return indexedContainer(x.X)
	case *ssa.Extract:
		// range over a slice yields next#.. only for maps/strings; slices use IndexAddr
	}
	return nil
}

// builtFromLFSplits: every element of the slice value comes from a strings.Split(_, "\n") result.
func builtFromLFSplits(v ssa.Value, seen map[ssa.Value]bool, depth int) bool {
	if depth > 12 {
		return false
	}
	v = stripConv(v)
	if seen[v] {
		return true // a cycle through a loop phi adds nothing new
	}
	seen[v] = true
	switch x := v.(type) {
	case *ssa.Const:
		return x.Value == nil // nil slice
	case *ssa.Call:
		if g := staticCallee(&x.Call); g != nil && qualFuncName(g) == "strings.Split" {
			k, ok := constString(x.Call.Args[1])
			return ok && k == "\n"
		}
		if b, ok := x.Call.Value.(*ssa.Builtin); ok && b.Name() == "append" && len(x.Call.Args) == 2 {
			return builtFromLFSplits(x.Call.Args[0], seen, depth+1) && builtFromLFSplits(x.Call.Args[1], seen, depth+1)
		}
	case *ssa.Phi:
		for _, e := range x.Edges {
			if !builtFromLFSplits(e, seen, depth+1) {
				return false
			}
		}
		return true
	case *ssa.Slice:
		return builtFromLFSplits(x.X, seen, depth+1)
	case *ssa.UnOp:
		if a, ok := x.X.(*ssa.Alloc); ok {
			ok2 := false
			for _, r := range referrers(a) {
				if st, isSt := r.(*ssa.Store); isSt && st.Addr == a {
					if !builtFromLFSplits(st.Val, seen, depth+1) {
						return false
					}
					ok2 = true
				}
			}
			return ok2
		}
	}
	return false
}

// ruleVerdictSources (C04 R-verdict-flow, C06): a computed reply takes code, enhanced code and text from
// dataErrorToStatus applied to the backend's own result for this transaction, nothing else is mixed in. For C06 it
// is the reason why a message within the limit is answered exactly as without a limit: the size check lives in the
// reader, the handler adds no verdict of its own.
func ruleVerdictSources(c *Ctx) {
	R := c.R
	allowedInner := regexp.MustCompile(`^(invoke:Session\.Data|<-statusCollector\.status\[.*\]|<-Conn\.dataResult|<-makechan\(1\)|phi\{.*io\.Copy\(Conn\.bdatPipe.*\}|io\.Copy\(Conn\.bdatPipe.*\)#1)$`)
	for _, site := range c.Sites("reply:dyn") {
		fn := funcName(site.Parent())
		if fn == "(*Conn).writeError" || fn == "(*Conn).protocolError" {
			continue // pass-through helpers: writeError is checked by C17 R-err-passthrough, protocolError's callers by R-reply-const
		}
		cc := callCommon(site)
		if _, isParam := cc.Args[1].(*ssa.Parameter); isParam && replyForwarder(site.Parent()) != nil {
			continue // reply helper forwarding its caller's code: the call sites are checked by R-reply-const
		}
		d := describe(cc.Args[1])
		m := regexp.MustCompile(`^dataErrorToStatus\((.*)\)#0$`).FindStringSubmatch(d)
		ok := m != nil && allowedInner.MatchString(m[1])
		if m != nil && !ok {
			// a helper that formats the reply for the error it is given: the sources are what its callers pass
			if ex, isE := stripConv(cc.Args[1]).(*ssa.Extract); isE {
				if call, isC := ex.Tuple.(*ssa.Call); isC && len(call.Call.Args) == 1 {
					if as := c.argsAtCallSites(call.Call.Args[0]); len(as) > 0 {
						ok = true
						for _, a := range as {
							if !allowedInner.MatchString(describe(a)) {
								ok = false
							}
						}
					}
				}
			}
		}
		why := "reply code computed from " + d
		if ok {
			// enhanced code and text must come from the same call
			base := strings.TrimSuffix(d, "#0")
			ok = describe(cc.Args[2]) == base+"#1" && strings.Contains(describeVarargs(cc.Args[3]), base+"#2")
			why = "enhanced code / text do not come from the same dataErrorToStatus result: " + describe(cc.Args[2]) + " / " + describeVarargs(cc.Args[3])
		}
		R.Ob(c.siteKey(site, "verdict source"), c.P.InstrPos(site), ok, why)
	}
}

// ruleWriteDeadlineOwner (C04, C13, C17): on the server side only writeResponse arms a write deadline, and only when
// WriteTimeout is set; nothing arms both directions at once. A read deadline that also covers writes silently loses
// every reply written later than ReadTimeout after the command line was read: the verdict of a slow delivery, the
// later per-recipient LMTP replies.
func ruleWriteDeadlineOwner(c *Ctx) {
	R := c.R
	R.Rule("R-write-deadline-owner", "who-may-call + E3 guard facts", "the server arms a write deadline on the connection only where WriteTimeout is set (writeResponse re-arms it for every reply); nothing arms both deadlines at once: a read deadline must never expire a reply", 3)
	nDl := 0
	for _, f := range c.P.AllFuncs() {
		if !inSmtp(f) || !(strings.HasPrefix(funcName(f), "(*Conn).") || strings.HasPrefix(funcName(f), "(*Server).")) {
			continue
		}
		ff := c.F.Analyze(f)
		allInstrs(f, func(in ssa.Instruction) {
			for _, l := range c.stdLabels(in) {
				switch l {
				case "icall:iface:(net.Conn).SetDeadline":
					nDl++
					R.Ob(c.siteKey(in, "no combined deadline on the server side"), c.P.InstrPos(in), false, "SetDeadline also arms the write deadline: with WriteTimeout unset no reply re-arms it, so a reply written later than the read timeout (slow backend, idle client) is silently lost and so is every reply after it")
				case "icall:iface:(net.Conn).SetWriteDeadline":
					nDl++
					ok := false
					for a := range ff.At(in) {
						if strings.Contains(a, "WriteTimeout != 0") || strings.Contains(a, "WriteTimeout > 0") {
							ok = true
						}
					}
					if cc := callCommon(in); cc != nil && len(cc.Args) == 1 {
						d := describe(cc.Args[0])
						R.Ob(c.siteKey(in, "write deadline derives from WriteTimeout"), c.P.InstrPos(in), strings.Contains(d, "Server.WriteTimeout") && !strings.Contains(d, "ReadTimeout"), "write deadline armed with "+d+": not the configured WriteTimeout")
					}
					R.Ob(c.siteKey(in, "write deadline only where WriteTimeout is set"), c.P.InstrPos(in), ok, fmt.Sprintf("write deadline armed without a WriteTimeout != 0 guard (facts: %v)", ff.At(in).list()))
				case "icall:iface:(net.Conn).SetReadDeadline":
					nDl++
					// a read deadline is the read timeout (a message body read against the WRITE timeout — zero when
					// unset: "now" — is cut off at once or at the first slow segment)
					if cc := callCommon(in); cc != nil && len(cc.Args) == 1 {
						d := describe(cc.Args[0])
						R.Ob(c.siteKey(in, "read deadline derives from ReadTimeout"), c.P.InstrPos(in), strings.Contains(d, "Server.ReadTimeout") && !strings.Contains(d, "WriteTimeout"), "read deadline armed with "+d+": not the configured ReadTimeout")
					}
				}
			}
		})
	}
	R.Ob("deadline calls/found", "-", nDl >= 3, fmt.Sprintf("%d deadline calls on the server side", nDl))
}
