package main

import (
	"fmt"
	"go/token"
	"strings"

	"golang.org/x/tools/go/ssa"
)

func init() {
	register(&propDef{
		ID: "C17",
		Explanation: "Error pass-through decided structurally: writeError and dataErrorToStatus hand an *SMTPError's Code, EnhancedCode and Message to the reply unmodified and otherwise use the documented generic code with err.Error(); the four callbacks' errors reach exactly these two functions with 451/4.0.0 (envelope) and 554 (data); " +
			"writeResponse defaults an unset enhanced code to X.0.0 for classes 2/4/5; sibling agreement between the server's line writer and the client's parser: the client takes the enhanced code from the first line and strips it from every further line, so every line the server prints for a reply with an enhanced code must carry it; " +
			"every textproto.Error from ReadResponse passes through toSMTPErr, which copies the code and splits the enhanced code off the text. Value-level round trips of unusual message shapes are not decided.",
		Run: runC17,
	})
}

func runC17(c *Ctx) {
	R := c.R
	_, s := c.Std()

	ruleErrPassthrough(c)
	ruleNoSMTPErrorMutation(c)
	ruleNoReplyAfterClose(c)
	ruleHelloErrorNotMasked(c)
	ruleGoCapture(c)             // the reply to BDAT LAST carries the error THIS message's Data returned: the goroutine reports through the channel it captured
	ruleClientDeadlinesPaired(c) // the client waits for the Data verdict under the submission timeout, not the command timeout
	ruleWriteDeadlineOwner(c)    // a verdict that takes the backend longer than ReadTimeout is still written
	// the client hands each per-recipient verdict to the recipient it belongs to: Close reads one LMTP reply per recorded
	// recipient, so a recipient recorded without having been accepted shifts every later verdict by one
	R.Rule("R-recipients-as-accepted", "E1/E2", "the client records a recipient exactly when the server accepted its RCPT: Close waits for one LMTP reply per recorded recipient and returns their verdicts", 2)
	ruleRcptsRecorded(c)
	// the error reported for a failed chunk is the one the pipe copy returned — the backend's own error comes back that
	// way (r.CloseWithError) — and "unexpected EOF" stands in only when the copy returned none
	R.Rule("R-chunk-error-kept", "E3 guard facts", "handleBdat replaces the chunk copy's error by io.ErrUnexpectedEOF only where that error is nil", 1)
	if f := c.A.Func("(*Conn).handleBdat"); f != nil {
		nSub := 0
		allInstrs(f, func(in ssa.Instruction) {
			u, ok := in.(*ssa.UnOp)
			if !ok || u.Op != token.MUL {
				return
			}
			g, ok := u.X.(*ssa.Global)
			if !ok || g.Name() != "ErrUnexpectedEOF" {
				return
			}
			nSub++
			c.obFactMatch("substitute error only for a nil copy error", in, `^io\.Copy(N)?\(Conn\.bdatPipe,.*\)#1 == nil$`, "io.ErrUnexpectedEOF replaces the chunk copy's error although that error may be set: a backend's plain error (returned through the pipe) is reported as \"unexpected EOF\"")
		})
		R.Ob("(*Conn).handleBdat/short-copy substitution found", c.P.Pos(f.Pos()), nSub >= 1, "no use of io.ErrUnexpectedEOF in handleBdat")
	}
	R.Rule("R-verdict-flow", "E4 value flow", "the reply to DATA/BDAT LAST is computed by dataErrorToStatus from the backend's own result: no handler replaces the backend's error on the way", 4)
	ruleVerdictSources(c)

	ruleEnhDefault(c)

	// multi-line texts are split into one reply line per LF (shared with C04)
	ruleReplyFormat(c)

	R.Rule("R-multiline-agree", "E8 sibling agreement", "every line printed for a reply that has an enhanced code carries that code (the client strips it from every line after taking it from the first)", 2)
	if f := c.A.Func("(*Conn).writeResponse"); f != nil {
		allInstrs(f, func(in ssa.Instruction) {
			if !isStaticCall(in, "(*textproto.Writer).PrintfLine") {
				return
			}
			cc := callCommon(in)
			format, _ := constString(cc.Args[1])
			hasEnh := strings.Count(format, "%v.%v.%v") == 1
			if hasEnh {
				R.Ob(c.siteKey(in, "line carries the enhanced code"), c.P.InstrPos(in), true, "")
				return
			}
			// a line without enhanced code must be unreachable when one is set
			ff := c.F.Analyze(f)
			guarded := false
			for a := range ff.At(in) {
				if strings.HasSuffix(a, " == NoEnhancedCode") {
					guarded = true
				}
			}
			R.Ob(c.siteKey(in, "line without enhanced code only when none is set"), c.P.InstrPos(in), guarded,
				"the line format "+format+" is printed for replies that do have an enhanced code: a multi-line SMTPError{550,{5,1,1},\"a\\nb\"} is sent as \"550-a / 550 5.1.1 b\" and the client reads it back as EnhancedCode{0,0,0} with message \"a\\n5.1.1 b\"")
		})
	}

	R.Rule("R-enhcode-parse", "E3", "parseEnhancedCode accepts a token only if it has exactly three dot-separated parts, each of them an integer", 3)
	if f := c.A.Func("parseEnhancedCode"); f != nil {
		nOK := 0
		allInstrs(f, func(in ssa.Instruction) {
			r, ok := in.(*ssa.Return)
			if !ok || len(r.Results) != 2 || !isNilConst(r.Results[1]) {
				return
			}
			nOK++
			c.obUnreach("accepted code", in, `builtin:len(strings.Split(param0,".")) != 3`)
			c.obUnreach("accepted code", in, `builtin:len(strings.Split(param0,".")) > 3`)
			c.obUnreach("accepted code", in, `builtin:len(strings.Split(param0,".")) < 3`)
		})
		R.Ob("parseEnhancedCode/has an accepting return", c.P.Pos(f.Pos()), nOK >= 1, "no nil-error return")
		for _, at := range s.Find(f, "call:strconv.Atoi") {
			at := at
			v := RunPend(f, PendRule{
				Trig: func(in ssa.Instruction) bool { return in == at },
				Disch: func(in ssa.Instruction) bool {
					iff, ok := in.(*ssa.If)
					return ok && strings.Contains(describe(iff.Cond), "strconv.Atoi(") && strings.Contains(describe(iff.Cond), "#1")
				},
				Forbid: func(in ssa.Instruction) bool {
					st, ok := in.(*ssa.Store)
					return ok && strings.Contains(describe(st.Val), "strconv.Atoi(")
				},
			})
			R.Ob(c.siteKey(at, "part must be an integer"), c.P.InstrPos(at), len(v) == 0, "a part of the code is used without testing Atoi's error")
		}
	}

	R.Rule("R-data-generic", "E3+E4", "dataErrorToStatus passes an SMTPError's three fields through and maps any other error to 554 / 5.x.x with the error's text", 3)
	ruleDataErrorToStatus(c)

	R.Rule("R-client-parse", "E4 + who-may-call", "every reply read by the client goes through readResponse, which converts textproto.Error with toSMTPErr; toSMTPErr copies the code and separates enhanced code and text", 4)
	ruleClientParse(c)
}

// assertedBase: for a load of x.f returns describe(x).
func assertedBase(v ssa.Value) string {
	_, base := loadedField(stripConv(v))
	if base == nil {
		return ""
	}
	return describe(base)
}

// ruleErrPassthrough is shared by C17 and C04 (a reply built from a backend SMTPError must keep code and
// enhanced code together, otherwise their classes can disagree).
func ruleErrPassthrough(c *Ctx) {
	R := c.R
	_, s := c.Std()
	R.Rule("R-err-passthrough", "E4 value flow", "writeError passes an *SMTPError's three fields to the reply unmodified, any other error with the caller's generic code and err.Error(); callback errors reach writeError with 451/4.0.0", 7)
	if f := c.A.Func("(*Conn).writeError"); f != nil {
		n := 0
		for _, site := range s.Find(f, "reply") {
			cc := callCommon(site)
			n++
			ff := c.F.Analyze(f)
			if ff.At(site)["assert[*SMTPError](param3)#1 == true"] {
				ok := describe(cc.Args[1]) == "SMTPError.Code" && describe(cc.Args[2]) == "SMTPError.EnhancedCode" && describeVarargs(cc.Args[3]) == "SMTPError.Message"
				// the struct read must be the asserted error
				ok = ok && assertedBase(cc.Args[1]) == "assert[*SMTPError](param3)#0"
				R.Ob(c.siteKey(site, "SMTPError fields passed through"), c.P.InstrPos(site), ok, "reply built from "+describe(cc.Args[1])+", "+describe(cc.Args[2])+", "+describeVarargs(cc.Args[3]))
			} else {
				ok := describe(cc.Args[1]) == "param1" && describe(cc.Args[2]) == "param2" && describeVarargs(cc.Args[3]) == "invoke:error.Error"
				R.Ob(c.siteKey(site, "generic code with the error text"), c.P.InstrPos(site), ok, "reply built from "+describe(cc.Args[1])+", "+describe(cc.Args[2])+", "+describeVarargs(cc.Args[3]))
				c.obUnreach("generic reply", site, `assert[*SMTPError](param3)#1 == true`)
			}
		}
		R.Ob("(*Conn).writeError/two reply shapes", c.P.Pos(f.Pos()), n == 2, fmt.Sprintf("%d replies in writeError", n))
	}
	for _, x := range []struct{ cb, errDesc string }{
		{lNewSession, "invoke:Backend.NewSession#1"}, {lMail, "invoke:Session.Mail"}, {lRcpt, "invoke:Session.Rcpt"},
	} {
		x0 := x
		for _, es := range c.effSites(x0.cb, x0.errDesc) {
			site := es.site
			x := struct{ cb, errDesc string }{x0.cb, es.errDesc}
			f := site.Parent()
			found := false
			for _, we := range s.Find(f, "call:(*Conn).writeError") {
				cc := callCommon(we)
				if describe(cc.Args[3]) != x.errDesc {
					continue
				}
				found = true
				code, _ := constInt(cc.Args[1])
				kind, class := enhancedArg(cc.Args[2])
				R.Ob(c.siteKey(we, "generic envelope error is 451 4.x"), c.P.InstrPos(we), code == 451 && kind == "const" && class == 4, fmt.Sprintf("generic code %d class %d", code, class))
				c.obUnreach("error reply", we, x.errDesc+" == nil")
			}
			R.Ob(c.siteKey(site, "callback error reaches writeError"), c.P.InstrPos(site), found, "the error of "+x.cb+" is not reported through writeError")
			c.obFollowH("callback error is reported", f, func(in ssa.Instruction) bool { return in == site }, []string{"call:(*Conn).writeError"}, x.errDesc+" != nil")
			// the first reply after a failed callback is writeError(451, 4.x.x, <the callback's error itself>): no path
			// answers with a copy, a rewritten error or another code first
			good := func(in ssa.Instruction) bool {
				if !isStaticCall(in, "(*Conn).writeError") {
					return false
				}
				cc := callCommon(in)
				code, _ := constInt(cc.Args[1])
				kind, class := enhancedArg(cc.Args[2])
				return describe(cc.Args[3]) == x.errDesc && code == 451 && kind == "const" && class == 4
			}
			v := RunPend(f, PendRule{
				Trig:  func(in ssa.Instruction) bool { return in == site },
				Disch: good,
				Forbid: func(in ssa.Instruction) bool {
					if _, ok := in.(*ssa.Defer); ok || in == site || good(in) {
						return false
					}
					return s.InstrMay(in)["reply"]
				},
				SkipEdge: c.F.SkipUnder(x.errDesc + " != nil"),
				PhiOK:    c.F.PhiFeasible(x.errDesc + " != nil"),
			})
			d := ""
			if len(v) > 0 {
				d = fmt.Sprintf("after %s fails, the path reaches the reply at %s which is not writeError(451, 4.x.x, %s): the backend's error is replaced, copied or answered with another code", x.cb, c.P.InstrPos(v[0].At), x.errDesc)
			}
			R.Ob(c.siteKey(site, "first reply after a failed callback carries the callback's error"), c.P.InstrPos(site), len(v) == 0, d)
		}
	}

}

// ruleEnhDefault is shared by C17 and C04 (a reply without explicit enhanced code still carries one of its class).
func ruleEnhDefault(c *Ctx) {
	R := c.R
	R.Rule("R-enh-default", "E3+E4", "writeResponse replaces an unset enhanced code by {class,0,0} for classes 2, 4, 5 and by none otherwise", 3)
	if f := c.A.Func("(*Conn).writeResponse"); f != nil {
		hasCmp, hasDiv := false, false
		consts := map[int64]bool{}
		allInstrs(f, func(in ssa.Instruction) {
			if bo, ok := in.(*ssa.BinOp); ok {
				if (describe(bo.X) == "EnhancedCodeNotSet" || describe(bo.Y) == "EnhancedCodeNotSet") && bo.Op.String() == "==" {
					hasCmp = true
				}
				if bo.Op.String() == "/" && describe(bo.X) == "param1" {
					if k, ok := constInt(bo.Y); ok && k == 100 {
						hasDiv = true
					}
				}
				if bo.Op.String() == "==" && strings.HasPrefix(describe(bo.X), "(param1 / 100)") {
					if k, ok := constInt(bo.Y); ok {
						consts[k] = true
					}
				}
			}
		})
		R.Ob("(*Conn).writeResponse/tests EnhancedCodeNotSet", c.P.Pos(f.Pos()), hasCmp, "no comparison with EnhancedCodeNotSet")
		R.Ob("(*Conn).writeResponse/class = code/100", c.P.Pos(f.Pos()), hasDiv, "class not derived as code/100")
		R.Ob("(*Conn).writeResponse/defaults for classes 2,4,5", c.P.Pos(f.Pos()), len(consts) == 3 && consts[2] && consts[4] && consts[5], fmt.Sprintf("defaulting classes %v", consts))
		// the default is decided before the first line is printed: every line of the reply carries the same code
		v := RunPend(f, PendRule{
			StartPending: true,
			Disch: func(in ssa.Instruction) bool {
				iff, ok := in.(*ssa.If)
				return ok && strings.Contains(describe(iff.Cond), "EnhancedCodeNotSet")
			},
			Forbid: func(in ssa.Instruction) bool { return isStaticCall(in, "(*textproto.Writer).PrintfLine") },
		})
		d := ""
		if len(v) > 0 {
			d = fmt.Sprintf("the line at %s is printed before the unset enhanced code has been replaced: a multi-line reply with an unset code goes out as \"550-0.0.0 a / 550 5.0.0 b\" and the client reads EnhancedCode{0,0,0} and a wrong text", c.P.InstrPos(v[0].At))
		}
		R.Ob("(*Conn).writeResponse/default decided before any line is printed", c.P.Pos(f.Pos()), len(v) == 0, d)
	}
}

// ruleNoSMTPErrorMutation (C13, C17): an *SMTPError that comes from the backend (a status, a callback result) is
// shared — the same pointer can stand for several recipients or be reused across messages. The library only ever
// writes the fields of SMTPError values it has just allocated itself.
func ruleNoSMTPErrorMutation(c *Ctx) {
	R := c.R
	R.Rule("R-smtperror-not-mutated", "E4 ownership", "fields of an SMTPError are stored only into objects allocated by the storing function itself (composite literals, toSMTPErr's result): errors handed in by the backend are never modified", 1)
	n := 0
	for _, f := range c.P.AllFuncs() {
		if !inSmtp(f) {
			continue
		}
		allInstrs(f, func(in ssa.Instruction) {
			fld, base, _ := storedField(in)
			if fld == nil || typeShort(base.Type()) != "*SMTPError" {
				return
			}
			n++
			_, fresh := stripConv(base).(*ssa.Alloc)
			R.Ob(c.siteKey(in, "SMTPError."+fld.Name()+" written into a fresh object"), c.P.InstrPos(in), fresh, "SMTPError."+fld.Name()+" is written through "+describe(base)+", which the function did not allocate: a backend error shared by several recipients (or reused across messages) is modified in place")
		})
	}
	R.Ob("SMTPError/field stores found", "-", n >= 3, fmt.Sprintf("%d stores", n))
}

// ruleClientParse (C17 R-client-parse, C16, C18): every reply the client reads becomes either success or an *SMTPError
// carrying the reply's code, enhanced code and text — dataCloser.Close depends on it to tell a per-recipient verdict
// from an I/O error and to return the server's verdict.
func ruleClientParse(c *Ctx) {
	R := c.R
	_, s := c.Std()
	// the client reads replies below a line limiter of its own: a verdict line longer than that limit does not come
	// back as an SMTPError at all. The limit is a constant of the client; it may grow, it must not shrink below what
	// the client has been accepting (2000 octets, the server's own default line limit) or be lost on a reconnect.
	nLim := 0
	for _, st := range c.Sites("st:lineLimitReader.LineLimit") {
		if funcName(st.Parent()) != "(*Client).setConn" {
			continue
		}
		nLim++
		_, _, v := storedField(st)
		k, isK := constInt(v)
		R.Ob(c.siteKey(st, "client reply line limit is at least 2000"), c.P.InstrPos(st), isK && (k == 0 || k >= 2000), "the client refuses reply lines longer than "+describe(v)+" octets: a backend verdict whose text the server sends intact comes back as a bare \"too long a line\" error")
	}
	if f := c.A.Func("(*Client).setConn"); f != nil {
		R.Ob("(*Client).setConn/sets the reply line limit", c.P.Pos(f.Pos()), nLim >= 1, "setConn no longer sets a line limit constant")
	}
	for _, f := range c.P.AllFuncs() {
		if !strings.HasPrefix(funcName(f), "(*Client).") && !strings.HasPrefix(funcName(f), "(*dataCloser).") {
			continue
		}
		allInstrs(f, func(in ssa.Instruction) {
			if isStaticCall(in, "(*textproto.Reader).ReadResponse") || isStaticCall(in, "(*textproto.Reader).ReadCodeLine") {
				R.Ob(c.siteKey(in, "ReadResponse only in readResponse"), c.P.InstrPos(in), funcName(f) == "(*Client).readResponse", "reply read outside readResponse: textproto errors are not converted to SMTPError")
			}
		})
	}
	if f := c.A.Func("(*Client).readResponse"); f != nil {
		conv := s.Find(f, "call:toSMTPErr")
		R.Ob("(*Client).readResponse/converts protocol errors", c.P.Pos(f.Pos()), len(conv) == 1, fmt.Sprintf("%d toSMTPErr calls", len(conv)))
		for _, site := range conv {
			d := describe(callCommon(site).Args[0])
			R.Ob(c.siteKey(site, "converts this reply's error"), c.P.InstrPos(site), strings.HasPrefix(d, "assert[*textproto.Error]((*textproto.Reader).ReadResponse("), "toSMTPErr applied to "+d)
		}
		// returned error is the converted one or the raw one
		allInstrs(f, func(in ssa.Instruction) {
			if r, ok := in.(*ssa.Return); ok && len(r.Results) == 3 {
				ls := leafSources(returnedValues(r)[2])
				good := len(ls) >= 1
				for _, l := range ls {
					if !(strings.HasPrefix(l, "toSMTPErr(") || strings.HasPrefix(l, "(*textproto.Reader).ReadResponse(")) {
						good = false
					}
				}
				R.Ob(c.siteKey(in, "returns the reply's error"), c.P.InstrPos(in), good, "readResponse returns "+strings.Join(ls, " | "))
			}
		})
	}
	if f := c.A.Func("toSMTPErr"); f != nil {
		codeOK, msgOK := false, false
		allInstrs(f, func(in ssa.Instruction) {
			if fld, _, v := storedField(in); fld != nil {
				switch fld.Name() {
				case "Code":
					if describe(v) == "textproto.Error.Code" {
						codeOK = true
					}
				case "Message":
					if describe(v) == "textproto.Error.Msg" {
						msgOK = true
					}
				}
			}
		})
		R.Ob("toSMTPErr/code copied", c.P.Pos(f.Pos()), codeOK, "SMTPError.Code is not the reply code")
		R.Ob("toSMTPErr/message defaults to the reply text", c.P.Pos(f.Pos()), msgOK, "SMTPError.Message is not initialised from the reply text")
		for _, site := range s.Find(f, "st:SMTPError.EnhancedCode") {
			c.obFactMatch("enhanced code only when it parses", site, `^parseEnhancedCode\(.*\)#1 == nil$`, "enhanced code stored although parsing failed")
		}
		// when the enhanced code is split off, the message is what follows it (with the per-line repetitions removed)
		for _, site := range s.Find(f, "st:SMTPError.EnhancedCode") {
			site := site
			c.obAccompanied("message without the enhanced code prefix", f, func(in ssa.Instruction) bool { return in == site }, []string{"st:SMTPError.Message"}, "enhanced code taken from the text but the message keeps it as a prefix")
		}
		nMsg := 0
		for _, site := range s.Find(f, "st:SMTPError.Message") {
			_, _, v := storedField(site)
			d := describe(v)
			if d == "textproto.Error.Msg" {
				continue
			}
			nMsg++
			ok := strings.Contains(d, `strings.SplitN(textproto.Error.Msg," ",2)[1]`) || strings.Contains(d, `strings.Cut(textproto.Error.Msg," ")#1`)
			R.Ob(c.siteKey(site, "message is the text after the enhanced code"), c.P.InstrPos(site), ok, "SMTPError.Message becomes "+d)
			c.obFactMatch("message cut only when the code parses", site, `^parseEnhancedCode\(.*\)#1 == nil$`, "message cut although the first word is not an enhanced code")
		}
		R.Ob("toSMTPErr/message separated from the enhanced code", c.P.Pos(f.Pos()), nMsg >= 1, "no store of the message without its enhanced code prefix")
	}
	if f := c.A.Func("toSMTPErr"); f != nil {
		ok := false
		allInstrs(f, func(in ssa.Instruction) {
			if isStaticCall(in, "strings.ReplaceAll") {
				cc := callCommon(in)
				if strings.Contains(describe(cc.Args[1]), `"\n"`) && describe(cc.Args[2]) == `"\n"` {
					ok = true
				}
			}
		})
		R.Ob("toSMTPErr/strips the code from every further line", c.P.Pos(f.Pos()), ok, "client no longer strips the repeated enhanced code")
	}
}

// ruleNoReplyAfterClose (C04, C17): a reply written after Conn.Close goes to a closed socket — writeResponse ignores
// write errors, so it is lost silently. Every handler that closes the connection itself (failed drain, failed discard,
// backend panic, QUIT, error threshold) must have written what it has to say before: in particular the backend's DATA
// verdict on the path where the rest of the message could not be drained.
func ruleNoReplyAfterClose(c *Ctx) {
	R := c.R
	R.Rule("R-no-reply-after-close", "E2 never-after", "in the command handlers no reply is written after the handler closed the connection (the reply would be lost: write errors are ignored)", 8)
	n := 0
	for _, f := range c.P.AllFuncs() {
		fn := funcName(f)
		if !inSmtp(f) || !strings.HasPrefix(fn, "(*Conn).") || fn == "(*Conn).Close" {
			continue
		}
		n += c.obNever("no reply after Close", f,
			func(in ssa.Instruction) bool {
				if _, isDefer := in.(*ssa.Defer); isDefer {
					return false
				}
				cc := callCommon(in)
				if cc == nil {
					return false
				}
				g := staticCallee(cc)
				return g != nil && funcName(g) == "(*Conn).Close"
			},
			[]string{"reply"}, nil, nil)
	}
	R.Ob("handlers/direct Close calls found", "-", n >= 8, fmt.Sprintf("%d direct calls of Conn.Close found in Conn's methods", n))
}

// ruleHelloErrorNotMasked (C17, C10): Extension, SupportsAuth and MaxMessageSize run the hello exchange themselves and
// report its failure as "not offered". A package function that returns an error and decides by such a query must have
// run hello() itself before — and returned its error — otherwise the server's reply to EHLO (for a go-smtp server: the
// backend's SMTPError from session creation) is replaced by a local "server doesn't support X".
func ruleHelloErrorNotMasked(c *Ctx) {
	R := c.R
	R.Rule("R-hello-error-not-masked", "E3 must-facts", "in package functions that return an error, every capability query (Extension/SupportsAuth/MaxMessageSize) is made where hello() is known to have succeeded: a failed EHLO is returned as it is, not as a missing extension", 2)
	swallow := map[string]bool{"(*Client).Extension": true, "(*Client).SupportsAuth": true, "(*Client).MaxMessageSize": true}
	helloOK := regexpCache(`^\(\*Client\)\.hello\(.*\) == nil$`)
	n := 0
	for _, f := range c.P.AllFuncs() {
		if !inSmtp(f) || f.Signature.Results().Len() == 0 {
			continue
		}
		last := f.Signature.Results().At(f.Signature.Results().Len() - 1).Type()
		if last.String() != "error" {
			continue
		}
		ff := c.F.Analyze(f)
		allInstrs(f, func(in ssa.Instruction) {
			cc := callCommon(in)
			if cc == nil {
				return
			}
			g := staticCallee(cc)
			if g == nil || !swallow[funcName(g)] {
				return
			}
			n++
			ok := false
			for a := range ff.At(in) {
				if helloOK.MatchString(a) {
					ok = true
				}
			}
			R.Ob(c.siteKey(in, "capability query only after a checked hello()"), c.P.InstrPos(in), ok, fmt.Sprintf("%s asks %s without having run hello() and returned its error: when the EHLO is refused the caller gets \"not supported\" instead of the server's SMTPError (facts here: %v)", funcName(f), funcName(g), ff.At(in).list()))
		})
	}
	R.Ob("package/capability queries in error-returning functions", "-", n >= 2, fmt.Sprintf("%d found", n))
}
