package main

import (
	"fmt"
	"regexp"
	"strings"

	"golang.org/x/tools/go/ssa"
)

func init() {
	register(&propDef{
		ID: "C09",
		Explanation: "AUTH gating decided structurally: AuthSession.Auth and every sasl.Server.Next call are unreachable when authAllowed() is false, before a greeting, or after a successful AUTH; authAllowed is true only via 'connection is TLS' or AllowInsecureAuth; " +
			"didAuth is set only after the mechanism reported done with a nil error and the 235 reply, and cleared only by the TLS upgrade; the octets given to the mechanism come only from decodeSASLResponse of the initial response or of the line just read, whose error is tested before use and which is preceded by the '*' test; " +
			"client side: base64.StdEncoding on both directions, mechanism errors and bad challenges are followed by the '*' cancel on every path. SASL mechanism internals and TLS are outside.",
		Run: runC09,
	})
}

func runC09(c *Ctx) {
	R := c.R
	_, s := c.Std()
	aNotAllowed := `(*Conn).authAllowed(param0) == false`

	R.Rule("R-auth-gate", "E3 edge-feasibility", "the backend's AUTH entry points are unreachable on a connection where AUTH is not allowed, before a greeting and after a successful AUTH", 6)
	for _, l := range []string{lAuth, lNext} {
		for _, site := range c.Sites(l) {
			if !strings.HasPrefix(funcName(site.Parent()), "(*Conn).") {
				continue
			}
			c.obUnreach(l, site, aNotAllowed)
			c.obUnreach(l, site, aHeloEmpty)
			c.obUnreach(l, site, `Conn.didAuth == true`)
		}
	}
	if f := c.A.Func("(*Conn).handleAuth"); f != nil {
		c.obMustUnder("523 when not allowed", f, []string{"reply:5xx"}, `Conn.helo != ""`, `Conn.didAuth == false`, `builtin:len(strings.Fields(param1)) != 0`, aNotAllowed)
		c.obMustUnder("503 when already authenticated", f, []string{"reply:503"}, `Conn.helo != ""`, `Conn.didAuth == true`)
		c.obMustUnder("refused before greeting", f, []string{"reply:5xx"}, aHeloEmpty)
	}

	// ... and not advertised either
	if f := capsFunc(c); f != nil {
		caps, _ := extractCaps(c, f)
		nAuth := 0
		for _, ce := range caps {
			if ce.name != "AUTH <mechs>" {
				continue
			}
			nAuth++
			ok := false
			for _, cd := range ce.conds {
				if cd == "(*Conn).authAllowed(param0) == true" {
					ok = true
				}
			}
			R.Ob(fmt.Sprintf("(*Conn).handleGreet/AUTH advertised only where allowed#%d", nAuth), ce.pos, ok, fmt.Sprintf("AUTH is listed under %v: it is advertised on a connection where authentication is not allowed", ce.conds))
		}
		R.Ob("(*Conn).handleGreet/AUTH capability found", c.P.Pos(f.Pos()), nAuth >= 1, "no AUTH capability recognised in handleGreet")
	}

	ruleAuthAllowedDef(c)

	ruleAuthOnce(c)

	ruleTLSSuccessEffects(c)

	ruleAuthReadFailureEnds(c)
	R.Rule("R-auth-challenge", "E4 value flow", "the text of every 334 reply is the base64 of the challenge the mechanism has just returned, or empty: nothing carried over from an earlier step (the client's previous line, an earlier challenge) is sent", 1)
	if f := c.A.Func("(*Conn).handleAuth"); f != nil {
		n334 := 0
		for _, site := range s.Find(f, "reply:334") {
			n334++
			cc := callCommon(site)
			vs := varargValues(cc.Args[3])
			ok := len(vs) == 1
			var bad []string
			if ok {
				okChal := func(l string) bool {
					return l == `""` || strings.HasPrefix(l, "(*base64.Encoding).EncodeToString(StdEncoding,invoke:Server.Next#0")
				}
				// an encoding helper (encodeChallenge(challenge)) is looked through: what it returns, in the caller's terms
				for _, l := range leafSourcesThroughHelpers(vs[0], okChal) {
					if okChal(l) {
						continue
					}
					ok = false
					bad = append(bad, l)
				}
			}
			R.Ob(c.siteKey(site, "challenge text is this step's challenge"), c.P.InstrPos(site), ok, fmt.Sprintf("the 334 reply can carry %v", bad))
		}
		R.Ob("(*Conn).handleAuth/sends challenges", c.P.Pos(f.Pos()), n334 >= 1, "no 334 reply found")
	}
	R.Rule("R-auth-octets", "E4 value flow", "the mechanism receives only the decoded initial response or the decoded line just read; decode errors are tested before use; '*' is tested before decoding; '=' decodes to empty, everything else by base64.StdEncoding", 6)
	okLeaf := regexp.MustCompile(`^(nil|decodeSASLResponse\(strings\.Fields\(param1\)\[1\]\)#0|decodeSASLResponse\(\(\*Conn\)\.readLine\(param0\)#0\)#0)$`)
	for _, site := range c.Sites(lNext) {
		if !strings.HasPrefix(funcName(site.Parent()), "(*Conn).") {
			continue
		}
		for _, l := range leafSourcesThroughHelpers(callCommon(site).Args[0], okLeaf.MatchString) {
			R.Ob(c.siteKey(site, "Next argument source "+l), c.P.InstrPos(site), okLeaf.MatchString(l), "sasl.Server.Next can receive "+l)
		}
	}
	if f := c.A.Func("(*Conn).handleAuth"); f != nil {
		for _, dec := range s.Find(f, "call:decodeSASLResponse") {
			dec := dec
			errDesc := describe(dec.(ssa.Value)) + "#1"
			v := RunPend(f, PendRule{
				Trig: func(in ssa.Instruction) bool { return in == dec },
				Disch: func(in ssa.Instruction) bool {
					iff, ok := in.(*ssa.If)
					return ok && strings.Contains(describe(iff.Cond), errDesc)
				},
				Forbid: c.mayDo(lNext),
			})
			R.Ob(c.siteKey(dec, "decode error tested before use"), c.P.InstrPos(dec), len(v) == 0, "decoded response can reach the mechanism without its error being tested")
			arg := describe(callCommon(dec).Args[0])
			if arg == "(*Conn).readLine(param0)#0" {
				c.obHolds("'*' tested before decoding", dec, `(*Conn).readLine(param0)#0 != "*"`)
				c.obHolds("read error tested before decoding", dec, `(*Conn).readLine(param0)#1 == nil`)
			}
		}
		for _, site := range s.Find(f, "reply:501") {
			c.obHolds("501 cancel", site, `(*Conn).readLine(param0)#0 == "*"`)
		}
	}
	ruleSASLDecode(c)
	R.Rule("R-helo-before-newsession", "E2", "\"AUTH needs a prior greeting\": the greeted flag (Conn.helo) is cleared again when the greeting's NewSession fails", 1)
	obHeloFollowsNewSession(c)
	ruleProtocolErrorSites(c) // a malformed exchange is a refusal of AUTH, not a protocol error: it does not use up the connection's error budget
	ruleTypeAssertGuarded(c)  // AUTH on a backend without AuthSession is a refusal, not a panic

	ruleNoPartialLine(c)

	R.Rule("R-cauth-flow", "E4 value flow", "Client.Auth encodes the mechanism's octets and decodes challenges with base64.StdEncoding; Next receives the decoded challenge; the first command is AUTH <mech> [<initial>]", 4)
	if f := c.A.Func("(*Client).Auth"); f != nil {
		allInstrs(f, func(in ssa.Instruction) {
			cc := callCommon(in)
			if cc == nil {
				return
			}
			g := staticCallee(cc)
			if g == nil {
				return
			}
			switch qualFuncName(g) {
			case "(*base64.Encoding).Encode":
				R.Ob(c.siteKey(in, "encode with StdEncoding"), c.P.InstrPos(in), describe(cc.Args[0]) == "StdEncoding", "encoding is "+describe(cc.Args[0]))
				// the destination is a buffer made for THIS response: make([]byte, EncodedLen(len(src))). A buffer kept
				// from an earlier step (or sized otherwise) is sent whole: a shorter response drags the tail of the
				// previous one along
				exact := false
				if ms, isMS := stripConv(cc.Args[1]).(*ssa.MakeSlice); isMS {
					if lc, isCall := stripConv(ms.Len).(*ssa.Call); isCall {
						if g2 := staticCallee(&lc.Call); g2 != nil && qualFuncName(g2) == "(*base64.Encoding).EncodedLen" && len(lc.Call.Args) == 2 {
							if ln, isLen := stripConv(lc.Call.Args[1]).(*ssa.Call); isLen {
								if bi, isB := ln.Call.Value.(*ssa.Builtin); isB && bi.Name() == "len" && stripConv(ln.Call.Args[0]) == stripConv(cc.Args[2]) {
									exact = true
								}
							}
						}
					}
				}
				R.Ob(c.siteKey(in, "encoded into a buffer of exactly the encoded length"), c.P.InstrPos(in), exact, "the base64 destination is "+describe(cc.Args[1])+", not make([]byte, EncodedLen(len(response))) for this response: what is sent can be longer than the encoding (stale octets of an earlier step follow the response)")
				for _, l := range leafSources(cc.Args[2]) {
					R.Ob(c.siteKey(in, "encoded octets from "+l), c.P.InstrPos(in), l == "invoke:Client.Start#1" || l == "invoke:Client.Next#0" || l == "nil", "octets sent are "+l)
				}
			case "(*base64.Encoding).DecodeString":
				R.Ob(c.siteKey(in, "decode with StdEncoding"), c.P.InstrPos(in), describe(cc.Args[0]) == "StdEncoding", "encoding is "+describe(cc.Args[0]))
				for _, l := range leafSources(cc.Args[1]) {
					R.Ob(c.siteKey(in, "decoded text from "+l), c.P.InstrPos(in), strings.HasPrefix(l, "(*Client).cmd(") && strings.HasSuffix(l, "#1"), "challenge text is "+l)
				}
			}
		})
		for _, site := range s.Find(f, "cb:sasl.Client.Next") {
			for _, l := range leafSources(callCommon(site).Args[0]) {
				ok := l == "nil" || strings.HasPrefix(l, "(*base64.Encoding).DecodeString(StdEncoding,") && strings.HasSuffix(l, "#0") || strings.HasPrefix(l, "(*Client).cmd(") && strings.HasSuffix(l, "#1")
				R.Ob(c.siteKey(site, "Next argument source"), c.P.InstrPos(site), ok, "sasl.Client.Next can receive "+l)
			}
		}
	}

	R.Rule("R-cauth-empty-response", "E4", "inside the exchange loop the client stops only on a nil response; an empty non-nil response is sent (the loop never tests the length of the mechanism's response)", 1)
	if f := c.A.Func("(*Client).Auth"); f != nil {
		nilTest := false
		for _, li := range findLoops(f) {
			for b := range li.blocks {
				if len(b.Instrs) == 0 {
					continue
				}
				iff, ok := b.Instrs[len(b.Instrs)-1].(*ssa.If)
				if !ok {
					continue
				}
				bo, ok := iff.Cond.(*ssa.BinOp)
				if !ok {
					continue
				}
				fromNext := func(v ssa.Value) bool {
					for _, l := range leafSources(v) {
						if l == "invoke:Client.Next#0" {
							return true
						}
					}
					return false
				}
				// len(resp) compared with a constant
				if call, isCall := bo.X.(*ssa.Call); isCall {
					if bi, isB := call.Call.Value.(*ssa.Builtin); isB && bi.Name() == "len" && fromNext(call.Call.Args[0]) {
						R.Ob(c.siteKey(iff, "no length test on the response in the loop"), c.P.InstrPos(iff), false, "the exchange loop tests len(resp): an empty but non-nil response (e.g. a final empty acknowledgement) ends the exchange instead of being sent, and Auth reports success without a 235")
					}
				}
				if isNilConst(bo.Y) && fromNext(bo.X) && (bo.Op.String() == "==" || bo.Op.String() == "!=") {
					nilTest = true
				}
			}
		}
		R.Ob("(*Client).Auth/loop ends on a nil response", c.P.Pos(f.Pos()), nilTest, "no nil test of the mechanism's response inside the exchange loop")
	}

	R.Rule("R-cauth-initial-empty", "E4 + edge facts", "an empty but non-nil initial response from the mechanism is sent as \"=\" with the AUTH command (RFC 4954); only a nil one is left out", 1)
	if f := c.A.Func("(*Client).Auth"); f != nil {
		ff := c.F.Analyze(f)
		found, wrong := false, ""
		pos := c.P.Pos(f.Pos())
		allInstrs(f, func(in ssa.Instruction) {
			phi, ok := in.(*ssa.Phi)
			if !ok || phi.Type().String() != "[]byte" {
				return
			}
			for i, e := range phi.Edges {
				p := phi.Block().Preds[i]
				facts := ff.edgeOut(p, phi.Block())
				if !facts["invoke:Client.Start#1 != nil"] || !(facts["builtin:len(invoke:Client.Start#1) == 0"] || facts["builtin:len(invoke:Client.Start#1) <= 0"]) {
					continue
				}
				// the value on this edge must be the one-octet literal "="
				isEq := false
				if sl, isSl := stripConv(e).(*ssa.Slice); isSl {
					if a, isA := sl.X.(*ssa.Alloc); isA {
						cnt, eq := 0, false
						for _, ref := range *a.Referrers() {
							if ia, isIA := ref.(*ssa.IndexAddr); isIA {
								for _, r2 := range *ia.Referrers() {
									if st, isSt := r2.(*ssa.Store); isSt {
										cnt++
										if k, okK := constInt(st.Val); okK && k == '=' {
											eq = true
										}
									}
								}
							}
						}
						isEq = cnt == 1 && eq
					}
				}
				if k, okS := constString(e); okS && k == "=" {
					isEq = true
				}
				if isEq {
					found = true
					pos = c.P.InstrPos(phi)
				} else {
					wrong = describe(e)
				}
			}
		})
		R.Ob("(*Client).Auth/empty non-nil initial response is sent as \"=\"", pos, found && wrong == "", "no branch for \"the mechanism's initial response is empty but not nil\" puts \"=\" on the AUTH line (it carries "+wrong+"): the server then asks for the response with an empty challenge and the mechanism sees one step too many")
	}

	R.Rule("R-cauth-cancel", "E2", "a mechanism error, an undecodable challenge or an unexpected reply inside the exchange is followed by the '*' cancel command on every path before Auth returns", 2)
	if f := c.A.Func("(*Client).Auth"); f != nil {
		for _, site := range s.Find(f, "cb:sasl.Client.Next") {
			site := site
			c.obFollowH("Next error then '*'", f, func(in ssa.Instruction) bool { return in == site }, []string{"ccmd:*"}, `invoke:Client.Next#1 != nil`)
		}
		for _, site := range s.Find(f, "call:(*base64.Encoding).DecodeString") {
			site := site
			c.obFollowH("bad challenge then '*'", f, func(in ssa.Instruction) bool { return in == site }, []string{"ccmd:*"}, describe(site.(ssa.Value))+"#1 != nil")
		}
		for _, site := range s.Find(f, "call:toSMTPErr") {
			site := site
			c.obFollowH("unexpected reply then '*'", f, func(in ssa.Instruction) bool { return in == site }, []string{"ccmd:*"}, "toSMTPErr(alloc:complit) != nil")
		}
		for _, site := range s.Find(f, "ccmd:*") {
			code, _ := constInt(callCommon(site).Args[1])
			R.Ob(c.siteKey(site, "cancel expects 501"), c.P.InstrPos(site), code == 501, fmt.Sprintf("cancel expects %d", code))
		}
	}
}

func emptyArrayAlloc(v ssa.Value) bool {
	sl, ok := v.(*ssa.Slice)
	if !ok {
		return false
	}
	a, ok := sl.X.(*ssa.Alloc)
	if !ok {
		return false
	}
	return strings.HasPrefix(typeShort(a.Type()), "*[0]")
}

// ruleAuthAllowedDef is shared by C09 and C12 (the capability table treats authAllowed() as an atom).
func ruleAuthAllowedDef(c *Ctx) {
	R := c.R
	R.Rule("R-authallowed-def", "E4", "authAllowed() can be true only because the connection is TLS or AllowInsecureAuth is set", 2)
	if f := c.A.Func("(*Conn).authAllowed"); f != nil {
		ff := c.F.Analyze(f)
		n := 0
		var check func(v ssa.Value, facts FactSet, pos string, depth int)
		check = func(v ssa.Value, facts FactSet, pos string, depth int) {
			if b, ok := constBool(v); ok {
				if !b {
					return
				}
				n++
				R.Ob(fmt.Sprintf("(*Conn).authAllowed/true way %d", n), pos, facts["(*Conn).TLSConnectionState(param0)#1 == true"], "authAllowed returns constant true on a path not guarded by the TLS test; facts: "+fmt.Sprint(facts.list()))
				return
			}
			if phi, ok := v.(*ssa.Phi); ok && depth < 3 {
				for i, e := range phi.Edges {
					check(e, ff.edgeOut(phi.Block().Preds[i], phi.Block()), pos, depth+1)
				}
				return
			}
			n++
			d := describe(v)
			R.Ob(fmt.Sprintf("(*Conn).authAllowed/true way %d", n), pos, d == "Server.AllowInsecureAuth" || d == "(*Conn).TLSConnectionState(param0)#1", "authAllowed can be true because of "+d)
		}
		allInstrs(f, func(in ssa.Instruction) {
			if r, ok := in.(*ssa.Return); ok && len(r.Results) == 1 {
				check(r.Results[0], ff.At(in), c.P.InstrPos(in), 0)
			}
		})
	}
	// the TLS state is read off the dynamic type of Conn.conn: what the accept loop hands to newConn is the listener's
	// connection itself — wrapped in a package type (a close-once guard, a counting conn) an implicit-TLS connection
	// is no longer a *tls.Conn and passes for plaintext (STARTTLS offered inside TLS, AUTH refused with 523)
	nNew := 0
	for _, g := range c.P.AllFuncs() {
		if !inSmtp(g) {
			continue
		}
		allInstrs(g, func(in ssa.Instruction) {
			if !isStaticCall(in, "newConn") {
				return
			}
			nNew++
			leaves := leafSources(callCommon(in).Args[0])
			good := len(leaves) > 0
			for _, l := range leaves {
				if !strings.HasSuffix(l, "Accept#0") {
					good = false
				}
			}
			R.Ob(c.siteKey(in, "connection handed to newConn is the accepted one, unwrapped"), c.P.InstrPos(in), good, fmt.Sprintf("newConn receives %v, not the listener's connection: the *tls.Conn assertion behind TLSConnectionState fails for implicit-TLS connections", leaves))
		})
	}
	R.Ob("Serve/newConn call found", "-", nNew >= 1, "no newConn call found")
	if f := c.A.Func("(*Conn).TLSConnectionState"); f != nil {
		ok := false
		allInstrs(f, func(in ssa.Instruction) {
			if ta, isT := in.(*ssa.TypeAssert); isT && describe(ta.X) == "Conn.conn" && typeShort(ta.AssertedType) == "*tls.Conn" && ta.CommaOk {
				ok = true
			}
		})
		R.Ob("(*Conn).TLSConnectionState/ok iff conn is *tls.Conn", c.P.Pos(f.Pos()), ok, "TLS state no longer derived from a *tls.Conn assertion on the live connection")
		// ... and every value it reports as "ok" IS that assertion's outcome: the comma-ok result itself, or the
		// constant true on the edge where the assertion held, or false
		ff := c.F.Analyze(f)
		okAtom := regexp.MustCompile(`^assert\[\*tls\.Conn\]\(Conn\.conn\)#1 == true$`)
		allInstrs(f, func(in ssa.Instruction) {
			r, isR := in.(*ssa.Return)
			if !isR || in.Block() == f.Recover {
				return
			}
			rv := returnedValues(r)
			if len(rv) != 2 {
				return
			}
			var judge func(v ssa.Value, facts FactSet, depth int) (bool, string)
			judge = func(v ssa.Value, facts FactSet, depth int) (bool, string) {
				if b, isB := constBool(v); isB {
					if !b {
						return true, ""
					}
					for a := range facts {
						if okAtom.MatchString(a) {
							return true, ""
						}
					}
					return false, "constant true where the *tls.Conn assertion is not known to hold"
				}
				if ex, isEx := v.(*ssa.Extract); isEx && ex.Index == 1 {
					if ta, isT := ex.Tuple.(*ssa.TypeAssert); isT && describe(ta.X) == "Conn.conn" && typeShort(ta.AssertedType) == "*tls.Conn" {
						return true, ""
					}
				}
				if phi, isPhi := v.(*ssa.Phi); isPhi && depth < 3 {
					for i, e := range phi.Edges {
						if good, why := judge(e, ff.edgeOut(phi.Block().Preds[i], phi.Block()), depth+1); !good {
							return false, why
						}
					}
					return true, ""
				}
				return false, describe(v)
			}
			good, why := judge(rv[1], ff.At(in), 0)
			R.Ob(c.siteKey(in, "reported TLS flag is the assertion's outcome"), c.P.InstrPos(in), good, "TLSConnectionState can report ok=true because of "+why+": a plaintext connection would pass for TLS (AUTH offered and accepted, STARTTLS refused as already active, REQUIRETLS offered)")
		})
	}

}

// ruleSASLDecode (C09 R-auth-octets, C04): "=" is the zero-length response ([]byte{}, not nil — nil makes the
// mechanism issue another challenge and the next command line is then consumed as SASL data), everything else is
// the base64 decoding of the argument.
func ruleSASLDecode(c *Ctx) {
	R := c.R
	if f := c.A.Func("decodeSASLResponse"); f != nil {
		allInstrs(f, func(in ssa.Instruction) {
			r, ok := in.(*ssa.Return)
			if !ok || len(r.Results) != 2 {
				return
			}
			d0, d1 := describe(r.Results[0]), describe(r.Results[1])
			ff := c.F.Analyze(f)
			if ff.At(in)[`param0 == "="`] {
				R.Ob(c.siteKey(in, "'=' is the empty response"), c.P.InstrPos(in), strings.HasPrefix(d0, "slice(alloc:slicelit") && d1 == "nil" && emptyArrayAlloc(r.Results[0]), "'=' decodes to "+d0+", "+d1)
			} else {
				want := "(*base64.Encoding).DecodeString(StdEncoding,param0)"
				R.Ob(c.siteKey(in, "base64 decode"), c.P.InstrPos(in), d0 == want+"#0" && d1 == want+"#1", "response decoded by "+d0+" / "+d1)
			}
		})
	}
}

// ruleAuthReadFailureEnds (C09, C08): when the line of a SASL exchange cannot be read (connection closed, timeout,
// too long line) handleAuth returns: it neither steps the mechanism again with the previous response nor writes
// or reads again (on a dead connection that loop never ends and the goroutine outlives the connection).
func ruleAuthReadFailureEnds(c *Ctx) {
	R := c.R
	R.Rule("R-auth-read-failure-ends", "E2 never-after under hypothesis", "after a failed read inside the SASL exchange handleAuth performs no further mechanism step, read or reply: the command loop, whose next read fails the same way, gives the one answer (421 on a timeout) and ends the connection", 1)
	f := c.A.Func("(*Conn).handleAuth")
	if f == nil {
		return
	}
	n := 0
	allInstrs(f, func(in ssa.Instruction) {
		if !isStaticCall(in, "(*Conn).readLine") {
			return
		}
		n++
		site := in
		c.obNeverH("no SASL step, reply or read after a failed read", f, func(x ssa.Instruction) bool { return x == site },
			append(append([]string{}, lineReads...), "cb:sasl.Server.Next", "reply", "st:Conn.didAuth=true"), describe(in.(ssa.Value))+"#1 != nil")
	})
	R.Ob("(*Conn).handleAuth/reads continuation lines", c.P.Pos(f.Pos()), n >= 1, fmt.Sprintf("%d reads", n))
}

// ruleAuthOnce (C09; shared with C12: the AUTH line of the EHLO reply is conditional on didAuth, so an unsuccessful
// AUTH that sets it makes a later EHLO omit an extension the configuration still makes available).
func ruleAuthOnce(c *Ctx) {
	R := c.R
	_, s := c.Std()
	R.Rule("R-auth-once", "E3+E2", "didAuth becomes true only after the mechanism reported completion with a nil error and after the 235 reply; it is cleared only by the TLS upgrade", 3)
	for _, site := range c.Sites("st:Conn.didAuth=true") {
		c.obHolds("didAuth=true", site, `invoke:Server.Next#1 == true`)
		c.obHolds("didAuth=true", site, `invoke:Server.Next#2 == nil`)
	}
	for _, site := range c.Sites("st:Conn.didAuth=true") {
		c.obAccompanied("didAuth only with 235", site.Parent(), func(in ssa.Instruction) bool { return in == site }, []string{"reply:235"}, "didAuth set on a path that does not send 235")
	}
	if f := c.A.Func("(*Conn).handleAuth"); f != nil {
		// ... and every success is recorded: otherwise a second AUTH is not answered 503
		c.obAccompanied("235 records the authentication", f, c.direct("reply:235"), []string{"st:Conn.didAuth=true"}, "a successful AUTH does not set didAuth: AUTH can succeed again in the same session")
	}
	for _, site := range c.Sites("reply:235") {
		c.obHolds("reply 235", site, `invoke:Server.Next#1 == true`)
		c.obHolds("reply 235", site, `invoke:Server.Next#2 == nil`)
	}
	for _, site := range c.Sites("st:Conn.didAuth") {
		_, _, v := storedField(site)
		b, isC := constBool(v)
		switch {
		case !isC:
			R.Ob(c.siteKey(site, "didAuth=<non-constant>"), c.P.InstrPos(site), false, "didAuth assigned a computed value")
		case !b:
			seen := s.SeenBefore(site)
			R.Ob(c.siteKey(site, "didAuth cleared only by TLS upgrade"), c.P.InstrPos(site), seen["st:Conn.conn"], "authentication state is cleared outside the STARTTLS upgrade: AUTH could succeed twice in one session")
		}
	}
}
