package main

import (
	"fmt"
	"go/types"

	"golang.org/x/tools/go/ssa"
)

// Standard server/client event labeler (E1). Labels:
//
//	cb:<Iface>.<Method>        backend / mechanism callback invoked
//	call:<qualified name>      static call
//	st:<Type.field>            store to a struct field; also st:<Type.field>=<const>
//	reply, reply:<code>, reply:<class>xx, reply:dyn   call of (*Conn).writeResponse
//	drain:<type>               io.Copy(io.Discard|ioutil.Discard, x)
//	chan-send / chan-recv      channel operations
//	go:<callee>                go statement
type StdEvents struct {
	p         *Program
	callbacks map[*types.Func]string
	cbByName  map[string]string
}

func NewStdEvents(c *Ctx) *StdEvents {
	e := &StdEvents{p: c.P, callbacks: map[*types.Func]string{}, cbByName: map[string]string{}}
	for _, im := range [][2]string{
		{"Backend", "NewSession"},
		{"Session", "Mail"}, {"Session", "Rcpt"}, {"Session", "Data"}, {"Session", "Reset"}, {"Session", "Logout"},
		{"LMTPSession", "LMTPData"},
		{"AuthSession", "AuthMechanisms"}, {"AuthSession", "Auth"},
		{"StatusCollector", "SetStatus"},
	} {
		if m := c.A.Iface(im[0], im[1]); m != nil {
			e.callbacks[m] = "cb:" + im[0] + "." + im[1]
			e.cbByName[im[1]] = "cb:" + im[0] + "." + im[1]
		}
	}
	return e
}

func isDiscard(v ssa.Value) bool {
	v = stripConv(v)
	if u, ok := v.(*ssa.UnOp); ok {
		if g, ok := u.X.(*ssa.Global); ok {
			return g.Name() == "Discard" && (g.Pkg.Pkg.Path() == "io" || g.Pkg.Pkg.Path() == "io/ioutil")
		}
	}
	return false
}

// drainArg: if in is io.Copy(Discard, x) returns x.
func drainArg(in ssa.Instruction) ssa.Value {
	cc := callCommon(in)
	if cc == nil {
		return nil
	}
	f := staticCallee(cc)
	if f == nil || qualFuncName(f) != "io.Copy" || len(cc.Args) != 2 {
		return nil
	}
	if !isDiscard(cc.Args[0]) {
		return nil
	}
	return cc.Args[1]
}

type fwdInfo struct {
	codeIdx, enhIdx int
}

var fwdCache = map[*ssa.Function]*fwdInfo{}

// replyForwarder: g is (*Conn).writeResponse itself or a package function that
// hands one of its own parameters to a reply writer as the reply code (and
// possibly another one as the enhanced code): writeError, protocolError, or a
// helper introduced by a refactoring.
func replyForwarder(g *ssa.Function) *fwdInfo {
	if g == nil || !inSmtp(g) {
		return nil
	}
	if fi, ok := fwdCache[g]; ok {
		return fi
	}
	fwdCache[g] = nil
	if qualFuncName(g) == "(*Conn).writeResponse" {
		fwdCache[g] = &fwdInfo{1, 2}
		return fwdCache[g]
	}
	var res *fwdInfo
	allInstrs(g, func(in ssa.Instruction) {
		cc := callCommon(in)
		if cc == nil {
			return
		}
		callee := staticCallee(cc)
		if callee == nil || callee == g {
			return
		}
		fi := replyForwarder(callee)
		if fi == nil || fi.codeIdx >= len(cc.Args) {
			return
		}
		p, ok := cc.Args[fi.codeIdx].(*ssa.Parameter)
		if !ok {
			return
		}
		r := &fwdInfo{codeIdx: -1, enhIdx: -1}
		for i, q := range g.Params {
			if q == p {
				r.codeIdx = i
			}
			if fi.enhIdx < len(cc.Args) {
				if q2, ok := cc.Args[fi.enhIdx].(*ssa.Parameter); ok && q2 == q {
					r.enhIdx = i
				}
			}
		}
		if r.codeIdx >= 0 && res == nil {
			res = r
		}
	})
	fwdCache[g] = res
	return res
}

// replyCall: if in calls a reply writer/forwarder returns its name, the reply
// code when constant, and the call's enhanced-code argument (nil if the
// forwarder supplies its own).
func replyCall(in ssa.Instruction) (fn string, code int64, isConst bool, ok bool) {
	cc := callCommon(in)
	if cc == nil {
		return
	}
	f := staticCallee(cc)
	fi := replyForwarder(f)
	if fi == nil || fi.codeIdx >= len(cc.Args) {
		return
	}
	code, isConst = constInt(cc.Args[fi.codeIdx])
	return qualFuncName(f), code, isConst, true
}

// replyEnhArg returns the enhanced-code argument of a reply call (nil if none).
func replyEnhArg(in ssa.Instruction) ssa.Value {
	cc := callCommon(in)
	if cc == nil {
		return nil
	}
	fi := replyForwarder(staticCallee(cc))
	if fi == nil || fi.enhIdx < 0 || fi.enhIdx >= len(cc.Args) {
		return nil
	}
	return cc.Args[fi.enhIdx]
}

func (e *StdEvents) Label(in ssa.Instruction) []string {
	var ls []string
	if fld, base, val := storedField(in); fld != nil {
		fd := fieldDesc(fld, base)
		ls = append(ls, "st:"+fd)
		if c, ok := stripConv(val).(*ssa.Const); ok {
			if c.Value == nil {
				ls = append(ls, "st:"+fd+"=nil")
			} else {
				ls = append(ls, "st:"+fd+"="+c.Value.ExactString())
			}
		} else if d := describe(val); len(d) < 60 {
			ls = append(ls, "st:"+fd+"=@"+d)
		}
		return ls
	}
	switch x := in.(type) {
	case *ssa.Send:
		return []string{"chan-send", "chan-send:" + describe(x.Chan)}
	case *ssa.UnOp:
		if x.Op.String() == "<-" {
			return []string{"chan-recv", "chan-recv:" + describe(x.X)}
		}
		return nil
	case *ssa.Select:
		var ls []string
		for _, st := range x.States {
			if st.Dir == types.SendOnly {
				ls = append(ls, "select-send:"+describe(st.Chan))
			} else {
				ls = append(ls, "select-recv:"+describe(st.Chan))
			}
		}
		if !x.Blocking {
			ls = append(ls, "select-nonblocking")
		}
		return ls
	case *ssa.Panic:
		return []string{"panic"}
	}
	cc := callCommon(in)
	if cc == nil {
		return nil
	}
	if _, isGo := in.(*ssa.Go); isGo {
		return []string{"go:" + calleeName(cc)}
	}
	if m := ifaceCallee(cc); m != nil {
		if l, ok := e.callbacks[m]; ok {
			ls = append(ls, l)
		} else if l, ok := e.cbByName[m.Name()]; ok && m.Pkg() != nil && m.Pkg().Path() == smtpPath {
			ls = append(ls, l)
		} else if m.Name() == "Next" && m.Pkg() != nil && m.Pkg().Path() == "github.com/emersion/go-sasl" {
			ls = append(ls, "cb:sasl."+recvName(cc)+".Next")
		} else if m.Pkg() != nil && m.Pkg().Path() == "github.com/emersion/go-sasl" {
			ls = append(ls, "cb:sasl."+recvName(cc)+"."+m.Name())
		} else {
			ls = append(ls, "icall:"+calleeName(cc))
		}
		return ls
	}
	f := staticCallee(cc)
	if f == nil {
		if b, ok := cc.Value.(*ssa.Builtin); ok {
			return []string{"builtin:" + b.Name()}
		}
		return []string{"dyncall"}
	}
	n := qualFuncName(f)
	ls = append(ls, "call:"+n)
	// setter inlining: g(recv, .., const, ..) where g stores that parameter
	// into a field counts as the constant store
	if inSmtp(f) {
		for _, si := range setterInfo(f) {
			if si.param < len(cc.Args) {
				if c, ok := stripConv(cc.Args[si.param]).(*ssa.Const); ok {
					if c.Value == nil {
						ls = append(ls, "st:"+si.field+"=nil")
					} else {
						ls = append(ls, "st:"+si.field+"="+c.Value.ExactString())
					}
				}
			}
		}
	}
	if n == "(*Client).cmd" && len(cc.Args) >= 3 {
		if fm, ok := constString(cc.Args[2]); ok {
			ls = append(ls, "ccmd", "ccmd:"+fm)
		} else {
			ls = append(ls, "ccmd", "ccmd:dyn")
		}
	} else if w := thinCmdWrapper(f); w != nil {
		// a helper that does nothing but send one command built from its own parameters is that command
		ls = append(ls, "ccmd", "ccmd:"+w.format)
	}
	if n == "(*textproto.Conn).Cmd" {
		ls = append(ls, "wire-cmd")
	}
	if fi := replyForwarder(f); fi != nil && fi.codeIdx < len(cc.Args) {
		ls = append(ls, "reply")
		if code, ok := constInt(cc.Args[fi.codeIdx]); ok {
			ls = append(ls, fmt.Sprintf("reply:%d", code), fmt.Sprintf("reply:%dxx", code/100))
		} else if n == "(*Conn).writeResponse" {
			ls = append(ls, "reply:dyn")
		}
	}
	switch n {
	case "(*io.PipeWriter).CloseWithError", "(*io.PipeReader).CloseWithError":
		side := "pipe"
		if n == "(*io.PipeReader).CloseWithError" {
			side = "rpipe"
		}
		if len(cc.Args) == 2 && isNilConst(stripConv(cc.Args[1])) {
			ls = append(ls, side+"-close-clean")
		} else if len(cc.Args) == 2 {
			if _, isConst := stripConv(cc.Args[1]).(*ssa.Const); !isConst && !knownNonNilErr(cc.Args[1]) {
				ls = append(ls, side+"-close-dyn")
			} else {
				ls = append(ls, side+"-abort")
			}
		}
	case "(*io.PipeWriter).Close":
		ls = append(ls, "pipe-close-clean")
	}
	if n == "io.Copy" && len(cc.Args) == 2 {
		ls = append(ls, "copy-to:"+describe(cc.Args[0]))
	}
	if a := drainArg(in); a != nil {
		ls = append(ls, "drain", "drain:"+typeShort(stripConv(a).Type()))
	}
	return ls
}

func recvName(cc *ssa.CallCommon) string {
	t := cc.Value.Type()
	if n, ok := t.(*types.Named); ok {
		return n.Obj().Name()
	}
	return typeShort(t)
}

// knownNonNilErr: the value is a load of a package-level error variable
// initialised to a non-nil value (errors.New / &SMTPError{...}).
func knownNonNilErr(v ssa.Value) bool {
	v = stripConv(v)
	u, ok := v.(*ssa.UnOp)
	if !ok {
		return false
	}
	g, ok := u.X.(*ssa.Global)
	if !ok || g.Pkg == nil {
		return false
	}
	// find the initialiser in the package init function: exactly one store,
	// of a freshly allocated value or the result of errors.New
	initf := g.Pkg.Func("init")
	if initf == nil {
		return false
	}
	n, good := 0, 0
	for _, m := range g.Pkg.Members {
		f, ok := m.(*ssa.Function)
		if !ok {
			continue
		}
		for _, fn := range withClosures(f) {
			allInstrs(fn, func(in ssa.Instruction) {
				st, ok := in.(*ssa.Store)
				if !ok || st.Addr != ssa.Value(g) {
					return
				}
				n++
				val := stripConv(st.Val)
				switch x := val.(type) {
				case *ssa.Alloc:
					good++
				case *ssa.Call:
					if f := staticCallee(&x.Call); f != nil && (qualFuncName(f) == "errors.New" || qualFuncName(f) == "fmt.Errorf") {
						good++
					}
				}
			})
		}
	}
	return n == 1 && good == 1
}

type setter struct {
	field string
	param int
}

var setterCache = map[*ssa.Function][]setter{}

// setterInfo: fields that small function g certainly stores from one of its
// parameters (e.g. setSession).
func setterInfo(g *ssa.Function) []setter {
	if r, ok := setterCache[g]; ok {
		return r
	}
	var out []setter
	n := 0
	allInstrs(g, func(in ssa.Instruction) { n++ })
	if n <= 16 {
		allInstrs(g, func(in ssa.Instruction) {
			if fld, base, val := storedField(in); fld != nil {
				if p, ok := val.(*ssa.Parameter); ok {
					for i, q := range g.Params {
						if q == p {
							out = append(out, setter{fieldDesc(fld, base), i})
						}
					}
				}
			}
		})
	}
	setterCache[g] = out
	return out
}

// thinCmdWrapper: g is an unexported function whose only call into the client is one (*Client).cmd with a constant
// expected code and format, each operand being one of g's own parameters (or a constant), and which makes no other
// package call. A call to g is then "that command" with the operands bound at the call site.
type cmdWrap struct {
	code     int64
	format   string
	operands []int // parameter index per operand, -1 for a constant
	inner    *ssa.Call
}

var cmdWrapMemo = map[*ssa.Function]*cmdWrap{}

func thinCmdWrapper(g *ssa.Function) *cmdWrap {
	if g == nil {
		return nil
	}
	if w, ok := cmdWrapMemo[g]; ok {
		return w
	}
	cmdWrapMemo[g] = nil
	if !inSmtp(g) || isExported(g) || g.Parent() != nil || len(g.Blocks) == 0 || len(g.Blocks) > 4 || qualFuncName(g) == "(*Client).cmd" {
		return nil
	}
	var inner *ssa.Call
	bad := false
	allInstrs(g, func(in ssa.Instruction) {
		call, ok := in.(*ssa.Call)
		if !ok {
			if _, isGo := in.(*ssa.Go); isGo {
				bad = true
			}
			if _, isDefer := in.(*ssa.Defer); isDefer {
				bad = true
			}
			return
		}
		callee := staticCallee(&call.Call)
		if callee == nil {
			bad = true
			return
		}
		if qualFuncName(callee) == "(*Client).cmd" {
			if inner != nil {
				bad = true
			}
			inner = call
			return
		}
		if inSmtp(callee) {
			bad = true
		}
	})
	if bad || inner == nil || len(inner.Call.Args) < 4 {
		return nil
	}
	code, okC := constInt(inner.Call.Args[1])
	format, okF := constString(inner.Call.Args[2])
	if !okC || !okF {
		return nil
	}
	w := &cmdWrap{code: code, format: format, inner: inner}
	for _, v := range varargValues(inner.Call.Args[3]) {
		v = stripConv(v)
		if _, isK := v.(*ssa.Const); isK {
			w.operands = append(w.operands, -1)
			continue
		}
		p, isP := v.(*ssa.Parameter)
		if !isP {
			return nil
		}
		idx := -1
		for i, q := range g.Params {
			if q == p {
				idx = i
			}
		}
		if idx < 0 {
			return nil
		}
		w.operands = append(w.operands, idx)
	}
	cmdWrapMemo[g] = w
	return w
}

// cmdParts: for an instruction labelled "ccmd": the format (value and constant text if constant) and the operands,
// seen from the call site — directly for (*Client).cmd, through the wrapper's parameter binding otherwise.
func cmdParts(in ssa.Instruction) (formatV ssa.Value, format string, fmtConst bool, operands []ssa.Value, ok bool) {
	cc := callCommon(in)
	if cc == nil {
		return nil, "", false, nil, false
	}
	g := staticCallee(cc)
	if g == nil {
		return nil, "", false, nil, false
	}
	if qualFuncName(g) == "(*Client).cmd" && len(cc.Args) >= 4 {
		format, fmtConst = constString(cc.Args[2])
		return cc.Args[2], format, fmtConst, varargValues(cc.Args[3]), true
	}
	if w := thinCmdWrapper(g); w != nil {
		inV := varargValues(w.inner.Call.Args[3])
		for i, idx := range w.operands {
			if idx >= 0 && idx < len(cc.Args) {
				operands = append(operands, cc.Args[idx])
			} else {
				operands = append(operands, inV[i])
			}
		}
		return w.inner.Call.Args[2], w.format, true, operands, true
	}
	return nil, "", false, nil, false
}
