package main

import (
	"fmt"
	"go/token"
	"go/types"
	"sort"
	"strings"

	"golang.org/x/tools/go/ssa"
)

// E5: finite-table extraction of a byte-wise reader loop by abstract
// interpretation of its SSA over a finite domain derived from the code:
//   - the automaton state field holds small integer constants,
//   - the input byte (result of ReadByte) is only compared with constants and
//     copied to the output,
//   - everything else (n, len(b), the limit budget) is an oracle.
// No compiled code runs; an instruction outside the small language below makes
// the cell undecided, which fails the obligation.

type avKind int

const (
	avUnknown   avKind = iota
	avInt              // concrete int
	avBool             // concrete bool
	avByteIn           // the input byte of this iteration (class known to the run)
	avByteConst        // constant byte
	avErrNil           // nil error
	avErrIn            // the error returned by ReadByte in this iteration (non-nil)
	avErrGlobal        // load of a package-level error variable (S = name)
	avSym              // opaque symbol (S = name), with integer offset Off for n
	avAddrField        // &recv.field (S = field name)
	avAddrBuf          // &b[n+Off]
	avTuple            // (byte, err) of ReadByte
	avIface            // make-interface of another value (X)
)

type AV struct {
	K   avKind
	I   int64
	B   bool
	S   string
	Off int
	T   []AV
}

func (a AV) String() string {
	switch a.K {
	case avInt:
		return fmt.Sprintf("%d", a.I)
	case avBool:
		return fmt.Sprintf("%v", a.B)
	case avByteIn:
		return "c"
	case avByteConst:
		return fmt.Sprintf("#%d", a.I)
	case avErrNil:
		return "nil"
	case avErrIn:
		return "readerr"
	case avErrGlobal:
		return a.S
	case avSym:
		if a.Off != 0 {
			return fmt.Sprintf("%s+%d", a.S, a.Off)
		}
		return a.S
	case avAddrField:
		return "&" + a.S
	case avAddrBuf:
		return fmt.Sprintf("&b[n+%d]", a.Off)
	}
	return "?"
}

// input events of one loop iteration
type inEvent struct {
	Kind  string // "byte", "eof", "err", "full"
	Class int    // for "byte": index into classes
}

type tblOutcome struct {
	Back     bool   // control returned to the loop header
	State    int64  // automaton state afterwards
	Out      []AV   // bytes stored to the output, in order
	Unread   bool   // UnreadByte called (input not consumed)
	Consumed bool   // ReadByte was called
	RetVals  []AV   // all returned values (helper calls)
	RetErr   AV     // for returns: error value
	RetN     AV     // for returns: n value
	Und      string // non-empty: undecided, with reason
	UndPos   token.Pos
	Path     []int // block indices visited
}

type tblMachine struct {
	p         *Program
	f         *ssa.Function
	recv      *ssa.Parameter
	stateFld  *types.Var
	header    *ssa.BasicBlock
	readCall  *ssa.Call
	classes   []int64 // special byte constants; class len(classes) == "other"
	states    []int64
	endState  int64
	hasEnd    bool
	oracleFld map[string]bool // receiver fields treated as free booleans / opaque
}

// newTblMachine locates the loop and derives the finite domain.
func newTblMachine(p *Program, f *ssa.Function, stateField string) (*tblMachine, error) {
	m := &tblMachine{p: p, f: f, oracleFld: map[string]bool{}}
	if len(f.Params) == 0 {
		return nil, fmt.Errorf("no receiver")
	}
	m.recv = f.Params[0]
	// ReadByte call
	allInstrs(f, func(in ssa.Instruction) {
		if c, ok := in.(*ssa.Call); ok {
			if g := staticCallee(&c.Call); g != nil && qualFuncName(g) == "(*bufio.Reader).ReadByte" {
				if m.readCall != nil {
					m.readCall = nil
					return
				}
				m.readCall = c
			}
		}
	})
	if m.readCall == nil {
		return nil, fmt.Errorf("expected exactly one (*bufio.Reader).ReadByte call in %s", funcName(f))
	}
	// loop header: the nearest dominator of the ReadByte block that has a
	// back edge (a predecessor it dominates).
	for b := m.readCall.Block(); b != nil; b = b.Idom() {
		for _, pr := range b.Preds {
			if b.Dominates(pr) {
				m.header = b
			}
		}
		if m.header != nil {
			break
		}
	}
	if m.header == nil {
		return nil, fmt.Errorf("ReadByte is not inside a loop")
	}
	// states: every constant stored to the state field, plus 0; classes: every
	// constant the input byte is compared with.
	stSet := map[int64]bool{0: true}
	clSet := map[int64]bool{}
	var byteVal ssa.Value
	for _, r := range referrers(m.readCall) {
		if e, ok := r.(*ssa.Extract); ok && e.Index == 0 {
			byteVal = e
		}
	}
	var bad error
	scan := []*ssa.Function{f}
	seenFn := map[*ssa.Function]bool{f: true}
	for i := 0; i < len(scan); i++ {
		allInstrs(scan[i], func(in ssa.Instruction) {
			if cc := callCommon(in); cc != nil {
				if g := staticCallee(cc); g != nil && inSmtp(g) && !seenFn[g] && g.Blocks != nil {
					seenFn[g] = true
					scan = append(scan, g)
				}
			}
		})
	}
	for _, hf := range scan[1:] {
		allInstrs(hf, func(in ssa.Instruction) {
			if fld, base, val := storedField(in); fld != nil && fld.Name() == stateField && strings.HasPrefix(fieldDesc(fld, base), "dataReader.") {
				m.stateFld = fld
				if k, ok := constInt(val); ok {
					stSet[k] = true
				} else {
					bad = fmt.Errorf("non-constant store to %s at %s", stateField, p.InstrPos(in))
				}
			}
			if bo, ok := in.(*ssa.BinOp); ok {
				for _, pair := range [][2]ssa.Value{{bo.X, bo.Y}, {bo.Y, bo.X}} {
					if bt, isB := pair[0].Type().Underlying().(*types.Basic); isB && (bt.Kind() == types.Byte || bt.Kind() == types.Uint8) {
						if _, isConst := pair[0].(*ssa.Const); !isConst {
							if k, ok := constInt(pair[1]); ok {
								clSet[k] = true
							}
						}
					}
				}
			}
		})
	}
	allInstrs(f, func(in ssa.Instruction) {
		if fld, base, val := storedField(in); fld != nil && fld.Name() == stateField && base == ssa.Value(m.recv) {
			m.stateFld = fld
			if k, ok := constInt(val); ok {
				stSet[k] = true
			} else {
				bad = fmt.Errorf("non-constant store to %s at %s", stateField, p.InstrPos(in))
			}
		}
		if bo, ok := in.(*ssa.BinOp); ok && byteVal != nil {
			for _, pair := range [][2]ssa.Value{{bo.X, bo.Y}, {bo.Y, bo.X}} {
				if pair[0] == byteVal {
					if k, ok := constInt(pair[1]); ok {
						clSet[k] = true
					}
				}
			}
		}
	})
	if bad != nil {
		return nil, bad
	}
	if m.stateFld == nil {
		return nil, fmt.Errorf("no store to field %s", stateField)
	}
	for k := range stSet {
		m.states = append(m.states, k)
	}
	for k := range clSet {
		m.classes = append(m.classes, k)
	}
	sort.Slice(m.states, func(i, j int) bool { return m.states[i] < m.states[j] })
	sort.Slice(m.classes, func(i, j int) bool { return m.classes[i] < m.classes[j] })
	return m, nil
}

func (m *tblMachine) className(i int) string {
	if i >= len(m.classes) {
		return "other"
	}
	switch m.classes[i] {
	case '.':
		return "'.'"
	case '\r':
		return "CR"
	case '\n':
		return "LF"
	}
	return fmt.Sprintf("#%d", m.classes[i])
}

// run interprets from the loop header with the automaton in state st and the
// given input event, until control is back at the header or the function
// returns. oracle decides free booleans (by description); unknown free
// conditions make the outcome undecided.
type tblRun struct {
	noHeader bool // interpreting a helper: no loop header to stop at
	depth    int
	m        *tblMachine
	ev       inEvent
	env      map[ssa.Value]AV
	state    int64
	out      []AV
	unread   bool
	read     bool
	free     map[string]bool // oracle assignments for named free conditions
	path     []int
}

func (m *tblMachine) Run(st int64, ev inEvent, free map[string]bool) tblOutcome {
	r := &tblRun{m: m, ev: ev, env: map[ssa.Value]AV{}, state: st, free: free}
	return r.exec(m.header, nil)
}

func (r *tblRun) und(in ssa.Instruction, why string) tblOutcome {
	return tblOutcome{Und: why + ": " + in.String(), UndPos: in.Pos(), Path: r.path}
}

func (r *tblRun) val(v ssa.Value) AV {
	if a, ok := r.env[v]; ok {
		return a
	}
	switch x := v.(type) {
	case *ssa.Const:
		if x.Value == nil {
			if types.Identical(x.Type(), types.Universe.Lookup("error").Type()) {
				return AV{K: avErrNil}
			}
			return AV{K: avUnknown}
		}
		if k, ok := constInt(x); ok {
			if b, isB := x.Type().Underlying().(*types.Basic); isB && (b.Kind() == types.Byte || b.Kind() == types.Uint8) {
				return AV{K: avByteConst, I: k}
			}
			return AV{K: avInt, I: k}
		}
		if b, ok := constBool(x); ok {
			return AV{K: avBool, B: b}
		}
	case *ssa.Parameter:
		if x == r.m.recv {
			return AV{K: avSym, S: "recv"}
		}
		return AV{K: avSym, S: "param:" + x.Name()}
	case *ssa.Global:
		return AV{K: avSym, S: "global:" + x.Name()}
	}
	return AV{K: avUnknown}
}

func (r *tblRun) exec(b *ssa.BasicBlock, from *ssa.BasicBlock) tblOutcome {
	for steps := 0; steps < 400; steps++ {
		r.path = append(r.path, b.Index)
		// phis first (simultaneous)
		if from != nil {
			idx := -1
			for i, p := range b.Preds {
				if p == from {
					idx = i
				}
			}
			newv := map[ssa.Value]AV{}
			for _, in := range b.Instrs {
				phi, ok := in.(*ssa.Phi)
				if !ok {
					break
				}
				newv[phi] = r.val(phi.Edges[idx])
			}
			for k, v := range newv {
				r.env[k] = v
			}
		} else if !r.noHeader {
			// entering at the header: loop-carried values are symbols
			for _, in := range b.Instrs {
				phi, ok := in.(*ssa.Phi)
				if !ok {
					break
				}
				switch {
				case types.Identical(phi.Type(), types.Universe.Lookup("error").Type()):
					r.env[phi] = AV{K: avErrNil} // invariant checked by R-loop-err-nil
				case isIntType(phi.Type()):
					r.env[phi] = AV{K: avSym, S: "n"}
				default:
					r.env[phi] = AV{K: avSym, S: "b"}
				}
			}
		}
		for _, in := range b.Instrs {
			switch x := in.(type) {
			case *ssa.Phi:
				continue
			case *ssa.DebugRef:
				continue
			case *ssa.FieldAddr:
				if r.val(x.X).K == avSym && r.val(x.X).S == "recv" {
					fld, _ := fieldAddrOf(x)
					r.env[x] = AV{K: avAddrField, S: fld.Name()}
				} else {
					return r.und(in, "field address of a non-receiver value")
				}
			case *ssa.UnOp:
				switch x.Op {
				case token.MUL:
					a := r.val(x.X)
					switch {
					case a.K == avAddrField && a.S == r.m.stateFld.Name():
						r.env[x] = AV{K: avInt, I: r.state}
					case a.K == avAddrField:
						if isBoolType(x.Type()) {
							if v, ok := r.free["field:"+a.S]; ok {
								r.env[x] = AV{K: avBool, B: v}
							} else {
								r.env[x] = AV{K: avSym, S: "field:" + a.S}
							}
						} else {
							r.env[x] = AV{K: avSym, S: "field:" + a.S}
						}
					case a.K == avSym && strings.HasPrefix(a.S, "global:"):
						r.env[x] = AV{K: avErrGlobal, S: strings.TrimPrefix(a.S, "global:")}
					default:
						return r.und(in, "load through an address the table language does not know")
					}
				case token.NOT:
					a := r.val(x.X)
					if a.K != avBool {
						return r.und(in, "negation of a non-constant")
					}
					r.env[x] = AV{K: avBool, B: !a.B}
				default:
					return r.und(in, "unary operator outside the table language")
				}
			case *ssa.BinOp:
				a, c := r.val(x.X), r.val(x.Y)
				res, ok := r.binop(x, a, c)
				if !ok {
					return r.und(in, fmt.Sprintf("comparison/arith outside the table language (%v %s %v)", a, x.Op, c))
				}
				r.env[x] = res
			case *ssa.Convert:
				r.env[x] = r.val(x.X)
			case *ssa.ChangeType:
				r.env[x] = r.val(x.X)
			case *ssa.MakeInterface:
				r.env[x] = r.val(x.X)
			case *ssa.Call:
				if bi, ok := x.Call.Value.(*ssa.Builtin); ok && bi.Name() == "len" {
					r.env[x] = AV{K: avSym, S: "len"}
					continue
				}
				g := staticCallee(&x.Call)
				if g == nil {
					return r.und(in, "dynamic call inside the automaton loop")
				}
				switch qualFuncName(g) {
				case "(*bufio.Reader).ReadByte":
					if r.read && !r.unread {
						return r.und(in, "second ReadByte in one iteration")
					}
					r.read = true
					switch r.ev.Kind {
					case "byte":
						r.env[x] = AV{K: avTuple, T: []AV{{K: avByteIn}, {K: avErrNil}}}
					case "eof", "err":
						r.env[x] = AV{K: avTuple, T: []AV{{K: avByteConst, I: 0}, {K: avErrIn}}}
					default:
						return r.und(in, "ReadByte reached although the output buffer is full")
					}
				case "(*bufio.Reader).UnreadByte":
					r.unread = true
				default:
					if !inSmtp(g) || g.Blocks == nil || r.depth >= 2 {
						return r.und(in, "call outside the table language")
					}
					// helper of the package: interpret its body with the arguments bound
					child := &tblRun{m: r.m, ev: r.ev, env: map[ssa.Value]AV{}, state: r.state, out: r.out, unread: r.unread, read: r.read, free: r.free, noHeader: true, depth: r.depth + 1}
					for i, p := range g.Params {
						if i < len(x.Call.Args) {
							child.env[p] = r.val(x.Call.Args[i])
						}
					}
					o := child.exec(g.Blocks[0], nil)
					if o.Und != "" {
						return tblOutcome{Und: "in helper " + funcName(g) + ": " + o.Und, UndPos: o.UndPos, Path: r.path}
					}
					r.state, r.out, r.unread, r.read = child.state, child.out, child.unread, child.read
					switch len(o.RetVals) {
					case 0:
					case 1:
						r.env[x] = o.RetVals[0]
					default:
						r.env[x] = AV{K: avTuple, T: o.RetVals}
					}
				}
			case *ssa.Extract:
				t := r.val(x.Tuple)
				if t.K != avTuple || x.Index >= len(t.T) {
					return r.und(in, "extract of unknown tuple")
				}
				r.env[x] = t.T[x.Index]
			case *ssa.IndexAddr:
				base, idx := r.val(x.X), r.val(x.Index)
				if base.K == avSym && base.S == "b" && idx.K == avSym && idx.S == "n" {
					r.env[x] = AV{K: avAddrBuf, Off: idx.Off}
				} else {
					return r.und(in, "index address other than b[n+k]")
				}
			case *ssa.Slice:
				r.env[x] = AV{K: avSym, S: "b"}
			case *ssa.Store:
				addr, v := r.val(x.Addr), r.val(x.Val)
				switch {
				case addr.K == avAddrField && addr.S == r.m.stateFld.Name():
					if v.K != avInt {
						return r.und(in, "non-constant state")
					}
					r.state = v.I
				case addr.K == avAddrBuf:
					if addr.Off != len(r.out) {
						return r.und(in, fmt.Sprintf("output written at n+%d after %d bytes", addr.Off, len(r.out)))
					}
					if v.K != avByteIn && v.K != avByteConst {
						return r.und(in, "stored output byte is neither the input byte nor a constant")
					}
					r.out = append(r.out, v)
				case addr.K == avAddrField:
					// other receiver fields (budget): not part of the automaton
				default:
					return r.und(in, "store outside the table language")
				}
			case *ssa.Jump:
				// handled below
			case *ssa.If:
			case *ssa.Return:
				o := tblOutcome{State: r.state, Out: r.out, Unread: r.unread, Consumed: r.read, Path: r.path}
				for _, rv := range x.Results {
					o.RetVals = append(o.RetVals, r.val(rv))
				}
				if len(x.Results) == 2 && !r.noHeader {
					o.RetN, o.RetErr = r.val(x.Results[0]), r.val(x.Results[1])
				}
				return o
			default:
				return r.und(in, "instruction outside the table language")
			}
		}
		last := b.Instrs[len(b.Instrs)-1]
		var next *ssa.BasicBlock
		switch x := last.(type) {
		case *ssa.Jump:
			next = b.Succs[0]
		case *ssa.If:
			c := r.val(x.Cond)
			if c.K != avBool {
				return r.und(last, fmt.Sprintf("branch on a value the table language cannot decide (%v)", c))
			}
			if c.B {
				next = b.Succs[0]
			} else {
				next = b.Succs[1]
			}
		default:
			return r.und(last, "unexpected block terminator")
		}
		if next == r.m.header && !r.noHeader {
			// loop-carried n must equal n + #emitted, err must be nil
			o := tblOutcome{Back: true, State: r.state, Out: r.out, Unread: r.unread, Consumed: r.read, Path: r.path}
			idx := -1
			for i, p := range next.Preds {
				if p == b {
					idx = i
				}
			}
			for _, in := range next.Instrs {
				phi, ok := in.(*ssa.Phi)
				if !ok {
					break
				}
				v := r.val(phi.Edges[idx])
				switch {
				case types.Identical(phi.Type(), types.Universe.Lookup("error").Type()):
					if v.K != avErrNil {
						o.Und = "loop continues with a non-nil error"
					}
				case isIntType(phi.Type()):
					if v.K != avSym || v.S != "n" || v.Off != len(r.out) {
						o.Und = fmt.Sprintf("loop-carried count is %v after %d stored bytes", v, len(r.out))
					}
				default:
					if v.K != avSym || v.S != "b" {
						o.Und = "loop-carried buffer changed"
					}
				}
			}
			return o
		}
		from, b = b, next
	}
	return tblOutcome{Und: "iteration does not terminate within 400 blocks", Path: r.path}
}

func isIntType(t types.Type) bool {
	b, ok := t.Underlying().(*types.Basic)
	return ok && b.Info()&types.IsInteger != 0
}

func isBoolType(t types.Type) bool {
	b, ok := t.Underlying().(*types.Basic)
	return ok && b.Kind() == types.Bool
}

func (r *tblRun) byteEq(a, c AV) (bool, bool) {
	// a is the input byte, c a constant
	if r.ev.Kind != "byte" {
		return false, false
	}
	if r.ev.Class < len(r.m.classes) {
		return r.m.classes[r.ev.Class] == c.I, true
	}
	return false, true // "other" differs from every compared constant
}

func (r *tblRun) binop(x *ssa.BinOp, a, c AV) (AV, bool) {
	eq := func(v bool) (AV, bool) {
		if x.Op == token.NEQ {
			v = !v
		}
		return AV{K: avBool, B: v}, true
	}
	switch x.Op {
	case token.EQL, token.NEQ:
		switch {
		case a.K == avInt && c.K == avInt:
			return eq(a.I == c.I)
		case a.K == avByteIn && c.K == avByteConst:
			v, ok := r.byteEq(a, c)
			if !ok {
				return AV{}, false
			}
			return eq(v)
		case a.K == avByteConst && c.K == avByteIn:
			v, ok := r.byteEq(c, a)
			if !ok {
				return AV{}, false
			}
			return eq(v)
		case a.K == avByteConst && c.K == avByteConst:
			return eq(a.I == c.I)
		case a.K == avErrNil && c.K == avErrNil:
			return eq(true)
		case (a.K == avErrIn || a.K == avErrGlobal) && c.K == avErrNil, a.K == avErrNil && (c.K == avErrIn || c.K == avErrGlobal):
			return eq(false)
		case a.K == avErrIn && c.K == avErrGlobal, a.K == avErrGlobal && c.K == avErrIn:
			g := a
			if c.K == avErrGlobal {
				g = c
			}
			if g.S == "EOF" {
				return eq(r.ev.Kind == "eof")
			}
			return AV{}, false
		case a.K == avErrGlobal && c.K == avErrGlobal:
			return eq(a.S == c.S)
		case a.K == avBool && c.K == avBool:
			return eq(a.B == c.B)
		}
	case token.LSS, token.GTR, token.LEQ, token.GEQ:
		// only the buffer-room test n < len(b) (any orientation) is in the language
		d := describeSym(a) + x.Op.String() + describeSym(c)
		switch d {
		case "n<len", "len>n":
			return AV{K: avBool, B: r.ev.Kind != "full"}, true
		case "n>=len", "len<=n":
			return AV{K: avBool, B: r.ev.Kind == "full"}, true
		}
		if a.K == avInt && c.K == avInt {
			var v bool
			switch x.Op {
			case token.LSS:
				v = a.I < c.I
			case token.GTR:
				v = a.I > c.I
			case token.LEQ:
				v = a.I <= c.I
			case token.GEQ:
				v = a.I >= c.I
			}
			return AV{K: avBool, B: v}, true
		}
		// free condition named by its description
		if v, ok := r.free[d]; ok {
			return AV{K: avBool, B: v}, true
		}
	case token.ADD, token.SUB:
		if a.K == avSym && a.S == "n" && c.K == avInt {
			off := int(c.I)
			if x.Op == token.SUB {
				off = -off
			}
			return AV{K: avSym, S: "n", Off: a.Off + off}, true
		}
		return AV{K: avSym, S: "arith"}, true
	}
	return AV{}, false
}

func describeSym(a AV) string {
	if a.K == avSym && a.Off == 0 {
		return a.S
	}
	return a.String()
}
