package main

import (
	"fmt"
	"go/constant"
	"go/token"
	"go/types"
	"regexp/syntax"
	"strconv"
	"strings"
	"unicode/utf8"

	"golang.org/x/tools/go/ssa"
)

func init() {
	register(&propDef{
		ID: "C19",
		Explanation: "Bounds on hostile input decided structurally: every backend callback (except Logout) is reachable only below a function that defers a recover()-ing closure which replies 421 and closes; every (re)initialisation puts a lineLimitReader over the current connection with LineLimit = MaxLineLength below textproto; " +
			"lineLimitReader.Read counts every octet exactly once, resets only on LF, refuses exactly when the count exceeds the limit (strict >), and is bypassed only for LineLimit == 0, which handleBdat restores on every exit; handleConn answers ErrTooLongLine with 500 and returns without dispatch; " +
			"errThreshold is 3 and protocolError closes exactly when the incremented count exceeds it, and the three kinds of bad command all go through protocolError. Panic-freedom of the standard library and memory of bufio are trusted constants.",
		Run: runC19,
	})
}

func hasRecoverDefer(f *ssa.Function) bool {
	found := false
	allInstrs(f, func(in ssa.Instruction) {
		d, ok := in.(*ssa.Defer)
		if !ok {
			return
		}
		g := staticCallee(&d.Call)
		if g == nil {
			return
		}
		allInstrs(g, func(x ssa.Instruction) {
			if c, ok := x.(*ssa.Call); ok {
				if b, ok := c.Call.Value.(*ssa.Builtin); ok && b.Name() == "recover" {
					found = true
				}
			}
		})
	})
	return found
}

func runC19(c *Ctx) {
	R := c.R
	_, s := c.Std()

	R.Rule("R-recover", "E1 + call graph", "every backend callback call site lies below a function that defers a recover()-ing closure; the handler's recovery replies 421 and closes", 10)
	var covered func(f *ssa.Function, depth int) (bool, string)
	covered = func(f *ssa.Function, depth int) (bool, string) {
		if hasRecoverDefer(f) {
			return true, ""
		}
		if depth > 8 {
			return false, "call chain too deep"
		}
		if f.Parent() == nil && isExported(f) {
			return false, "reachable through exported " + funcName(f) + " without recovery"
		}
		callers := c.callersOf(f)
		if len(callers) == 0 {
			return false, funcName(f) + " has no recovering caller"
		}
		for _, cs := range callers {
			// a closure started with `go` or deferred runs outside its creator's recovery
			host := cs.Parent()
			if mc, ok := cs.(*ssa.MakeClosure); ok {
				asGo := false
				for _, r := range referrers(mc) {
					switch r.(type) {
					case *ssa.Go:
						asGo = true
					}
				}
				if asGo {
					return false, funcName(f) + " runs as a goroutine without its own recovery"
				}
			}
			if ok, why := covered(host, depth+1); !ok {
				return false, why
			}
		}
		return true, ""
	}
	for _, l := range []string{lNewSession, lMail, lRcpt, lData, lLMTPData, lSessReset, lAuth, lNext, "cb:AuthSession.AuthMechanisms"} {
		for _, site := range c.Sites(l) {
			if !strings.HasPrefix(funcName(site.Parent()), "(*Conn).") {
				continue
			}
			ok, why := covered(site.Parent(), 0)
			R.Ob(c.siteKey(site, l+" under recovery"), c.P.InstrPos(site), ok, "a panic in "+l+" is not recovered: "+why)
		}
	}
	if f := c.A.Func("(*Conn).handle$1"); f != nil {
		c.obMustUnder("recovery replies 421", f, []string{"reply:421"}, `builtin:recover() != nil`)
		c.obMustUnder("recovery closes", f, []string{lClose}, `builtin:recover() != nil`)
	}

	ruleLineLimitLayer(c)

	ruleTypeAssertGuarded(c)
	ruleLineLimitCounting(c)
	ruleLimiterBypass(c)
	ruleNoPartialLine(c)

	R.Rule("R-linelimit-restored", "E2 must-pass-through", "whoever lifts the line limit (LineLimit=0) restores it from MaxLineLength on every path before returning", 1)
	nLift := 0
	for _, f := range c.P.AllFuncs() {
		if !strings.HasPrefix(funcName(f), "(*Conn).") {
			continue
		}
		// any store of something other than the configured maximum (0 to lift it, or a raised value) counts
		changed := func(in ssa.Instruction) bool {
			ls := c.stdLabels(in)
			return labelHas(ls, "st:lineLimitReader.LineLimit") && !labelHas(ls, "st:lineLimitReader.LineLimit=@Server.MaxLineLength") && funcName(in.Parent()) != "(*Conn).init"
		}
		nLift += c.obFollow("limit restored after being changed", f, changed, []string{"st:lineLimitReader.LineLimit=@Server.MaxLineLength"}, nil, nil)
	}
	// ... and only the chunk handler (and init) ever touch it
	c.obWriters("lineLimitReader.LineLimit", "armed by init(), lifted for the duration of a chunk by handleBdat", "(*Conn).init", "(*Conn).handleBdat", "(*Client).setConn")
	if nLift == 0 {
		R.Note("no site lifts the line limit")
	}

	R.Rule("R-toolong-close", "E2", "ErrTooLongLine from the command loop's read is answered 500 and the loop returns without dispatching", 2)
	if f := c.A.Func("(*Server).handleConn"); f != nil {
		// the loop may recognise the refusal by identity (err == ErrTooLongLine) or with errors.Is
		tooLong := `(*Conn).readLine(param1)#1 == ErrTooLongLine`
		allInstrs(f, func(in ssa.Instruction) {
			if call, ok := in.(*ssa.Call); ok && describe(call) == `errors.Is((*Conn).readLine(param1)#1,ErrTooLongLine)` {
				tooLong = `errors.Is((*Conn).readLine(param1)#1,ErrTooLongLine) == true`
			}
		})
		for _, rl := range s.Find(f, lReadLine) {
			rl := rl
			c.obFollowH("500 for a too long line", f, func(in ssa.Instruction) bool { return in == rl }, []string{"reply:500"},
				`(*Conn).readLine(param1)#1 != nil`, tooLong, `(*Conn).readLine(param1)#1 != EOF`, `errors.Is((*Conn).readLine(param1)#1,ErrClosed) == false`)
		}
		for _, site := range s.Find(f, "call:(*Conn).handle") {
			c.obUnreach("dispatch", site, `(*Conn).readLine(param1)#1 != nil`)
		}
		// the loop recognises the refusal by IDENTITY (err == ErrTooLongLine): what the read path hands up must then be
		// the sentinel itself. A wrapped or re-created error ("%w (… octets withheld)") falls through to the generic
		// branch: 421 "connection error" instead of the 500 the property asks for
		byIdentity := false
		allInstrs(f, func(in ssa.Instruction) {
			if bo, ok := in.(*ssa.BinOp); ok && (bo.Op == token.EQL || bo.Op == token.NEQ) && (describe(bo.X) == "ErrTooLongLine" || describe(bo.Y) == "ErrTooLongLine") {
				byIdentity = true
			}
		})
		if byIdentity {
			for _, fn := range []string{"(*Conn).readLine", "(*lineLimitReader).Read"} {
				g := c.A.Func(fn)
				if g == nil {
					continue
				}
				allInstrs(g, func(in ssa.Instruction) {
					r, ok := in.(*ssa.Return)
					if !ok || in.Block() == g.Recover {
						return
					}
					rv := returnedValues(r)
					if len(rv) == 0 {
						return
					}
					leaves := leafSources(rv[len(rv)-1])
					for _, l := range leaves {
						if strings.Contains(l, "ErrTooLongLine") && l != "ErrTooLongLine" {
							R.Ob(c.siteKey(in, "too-long-line refusal is the sentinel itself"), c.P.InstrPos(in), false, fn+" returns "+l+": handleConn compares with == ErrTooLongLine, so this refusal is not recognised and is answered 421 (and logged as a connection error) instead of 500")
						}
					}
					// where the limiter is known to have been exceeded, the refusal handed up IS the sentinel
					exceeded := false
					for a := range c.F.Analyze(g).At(in) {
						if strings.Contains(a, "exceeded(") && strings.HasSuffix(a, "== true") {
							exceeded = true
						}
					}
					if exceeded {
						R.Ob(c.siteKey(in, "refusal of a partial over-long line is the sentinel itself"), c.P.InstrPos(in), len(leaves) == 1 && leaves[0] == "ErrTooLongLine", fmt.Sprintf("%s returns %v where the limiter was exceeded: handleConn compares with == ErrTooLongLine, so this refusal is answered 421 instead of 500", fn, leaves))
					}
				})
			}
		}
		R.Ob("(*Server).handleConn/recognises ErrTooLongLine", c.P.Pos(f.Pos()), byIdentity || s.May(f)["call:errors.Is"], "the command loop neither compares the read error with ErrTooLongLine nor uses errors.Is")
		// ... and the loop ends there: the limiter's refusal is sticky, so reading again would answer 500 forever
		c.obNever("no further read after the 500 for a too long line", f, c.direct("reply:500"), lineReads, nil, nil)
	}

	ruleConstIndexGuarded(c)
	ruleProtocolErrorSites(c)

	R.Rule("R-no-dispatch-after-close", "E2+E4+call graph", "after the dispatch that closes the connection for too many errors no further buffered command is dispatched (its handler would run without a session and panic)", 2)
	ruleNoDispatchAfterClose(c)

	R.Rule("R-errcount", "E6+E2", "errThreshold is 3; protocolError increments the count once and closes exactly when it exceeds the threshold; empty, unknown and unparsable commands all use protocolError", 7)
	if o := c.A.Object("errThreshold"); o != nil {
		if k, ok := o.(interface{ Val() constant.Value }); ok {
			v, _ := constant.Int64Val(k.Val())
			R.Ob("errThreshold/is 3", "-", v == 3, fmt.Sprintf("errThreshold = %d", v))
		}
	}
	if f := c.A.Func("(*Conn).protocolError"); f != nil {
		m := s.Must(f)
		R.Ob("(*Conn).protocolError/counts the error", c.P.Pos(f.Pos()), m["st:Conn.errCount=@(Conn.errCount + 1)"], "errCount is not incremented by one on every call")
		for _, cl := range s.Find(f, lClose) {
			c.obFactMatch("close exactly above the threshold", cl, `^Conn\.errCount > 3$`, "connection closed at a different error count than 'more than three'")
			seen := s.SeenBefore(cl)
			R.Ob(c.siteKey(cl, "count incremented before the test"), c.P.InstrPos(cl), seen["st:Conn.errCount=@(Conn.errCount + 1)"], "threshold tested before the error is counted")
		}
		c.obMustUnder("closes above the threshold", f, []string{lClose}, `Conn.errCount > 3`)
	}
	// the count is per connection: nothing but protocolError's increment ever writes it
	for _, site := range c.Sites("st:Conn.errCount") {
		_, _, v := storedField(site)
		R.Ob(c.siteKey(site, "errCount only incremented"), c.P.InstrPos(site), funcName(site.Parent()) == "(*Conn).protocolError" && describe(v) == "(Conn.errCount + 1)",
			"Conn.errCount is written in "+funcName(site.Parent())+" with "+describe(v)+": a client that triggers this write between errors is never disconnected for flooding")
	}
	if f := c.A.Func("(*Conn).handle"); f != nil {
		c.obMustUnder("empty command is a protocol error", f, []string{"call:(*Conn).protocolError"}, `param1 == ""`)
		// default branch
		_, keys := switchTag(c, f)
		var H []string
		for _, k := range keys {
			H = append(H, verbTag(c)+` != "`+k+`"`)
		}
		H = append(H, `param1 != ""`)
		c.obMustUnder("unknown command is a protocol error", f, []string{"call:(*Conn).protocolError"}, H...)
		R.Ob("(*Conn).handle/command table size", c.P.Pos(f.Pos()), len(keys) >= 19, fmt.Sprintf("%d verbs in the dispatch switch", len(keys)))
	}
	if f := c.A.Func("(*Server).handleConn"); f != nil {
		for _, pe := range s.Find(f, "call:(*Conn).protocolError") {
			c.obFactMatch("unparsable line is a protocol error", pe, `^parseCmd\(.*\)#2 != nil$`, "protocolError in the loop not tied to a parse failure")
		}
		nParse := 0
		allInstrs(f, func(in ssa.Instruction) {
			if isStaticCall(in, "parseCmd") {
				nParse++
				site := in
				c.obFollowH("unparsable line counts as a protocol error", f, func(x ssa.Instruction) bool { return x == site }, []string{"call:(*Conn).protocolError"}, describe(site.(ssa.Value))+"#2 != nil")
			}
		})
		R.Ob("(*Server).handleConn/parses each line", c.P.Pos(f.Pos()), nParse >= 1, "no parseCmd call in the command loop")
		for _, site := range s.Find(f, "call:(*Conn).handle") {
			c.obFactMatch("dispatch only for parsed lines", site, `^parseCmd\(.*\)#2 == nil$`, "a line that failed to parse is dispatched")
		}
	}
}

// reachableThroughLoop: is the instruction's block reachable from a loop header?
func reachableThroughLoop(f *ssa.Function, in ssa.Instruction) bool {
	for _, li := range findLoops(f) {
		if reachableFrom(li.header, nil)[in.Block()] {
			return true
		}
	}
	return false
}

// ruleLimiterBypass: while the limit is lifted (LineLimit == 0, during a BDAT
// chunk) octets must not be counted towards the current line; otherwise the
// count left behind by a binary payload refuses the next command line once
// the limit is restored.
func ruleLimiterBypass(c *Ctx) {
	R := c.R
	_, s := c.Std()
	R.Rule("R-linelimit-bypass-uncounted", "E3 edge-feasibility", "with the limit lifted (LineLimit == 0) lineLimitReader.Read neither counts octets nor refuses", 2)
	f := c.A.Func("(*lineLimitReader).Read")
	if f == nil {
		return
	}
	n := 0
	for _, st := range s.Find(f, "st:lineLimitReader.curLineLength") {
		_, _, v := storedField(st)
		if k, ok := constInt(v); ok && k == 0 {
			continue
		}
		n++
		c.obUnreach("count advanced", st, `lineLimitReader.LineLimit == 0`)
	}
	R.Ob("(*lineLimitReader).Read/counts octets", c.P.Pos(f.Pos()), n >= 1, "no increment of the line length found")
	allInstrs(f, func(in ssa.Instruction) {
		if r, ok := in.(*ssa.Return); ok && len(r.Results) == 2 && describe(r.Results[1]) == "ErrTooLongLine" {
			c.obUnreach("refusal", in, `lineLimitReader.LineLimit == 0`)
		}
	})
}

// minLenFromFacts derives the least possible length of the value described by
// d from the length facts holding at a site.
func minLenFromFacts(facts FactSet, d string) int64 {
	lb := int64(0)
	excluded := map[int64]bool{}
	exact := int64(-1)
	pfx := "builtin:len(" + d + ") "
	for a := range facts {
		if !strings.HasPrefix(a, pfx) {
			continue
		}
		_, op, r, ok := splitAtom(a)
		if !ok {
			continue
		}
		var k int64
		if _, err := fmt.Sscanf(r, "%d", &k); err != nil {
			continue
		}
		switch op {
		case ">=":
			if k > lb {
				lb = k
			}
		case ">":
			if k+1 > lb {
				lb = k + 1
			}
		case "!=":
			excluded[k] = true
		case "==":
			exact = k
		}
	}
	if exact >= 0 {
		return exact
	}
	// a string that has a constant prefix/suffix is at least that long
	for _, fn := range []string{"strings.HasPrefix(", "strings.HasSuffix("} {
		p2 := fn + d + ","
		for a := range facts {
			if strings.HasPrefix(a, p2) && strings.HasSuffix(a, ") == true") {
				lit := a[len(p2) : len(a)-len(") == true")]
				if k, err := strconv.Unquote(lit); err == nil && int64(len(k)) > lb {
					lb = int64(len(k))
				}
			}
		}
	}
	for excluded[lb] {
		lb++
	}
	return lb
}

// ruleConstIndexGuarded: every constant index / constant slice bound applied to
// a string or slice on the server's input path is dominated by length guards
// ON THAT SAME VALUE that make it in range. (A guard on the length of a
// different string - e.g. an upper-cased copy, which can be longer - does not
// count; parseCmd runs outside the handler's recover, so an out-of-range index
// there kills the process.)
func ruleConstIndexGuarded(c *Ctx) {
	R := c.R
	R.Rule("R-const-index-guarded", "E3 must-facts + length arithmetic", "constant indexes and slice bounds on strings/slices in the server's parsing and command handling are within the length established by guards on the same value", 12)
	ruleRegexpCallbackShapes(c)
	exempt := map[string]string{
		"(*parser).readByte/parser.s":   "guarded through peekByte's ok result (len(p.s) != 0 inside peekByte)",
		"(*parser).expectByte/parser.s": "guarded by the len(p.s) == 0 test of the same function",
		"decodeUTF8AddrXtext$1/param0":  "the callback only receives matches of eUOrDCharRe: one octet (handled first) or \\x{H+} with at least 5 octets — checked against the pattern by ruleRegexpCallbackShapes",
	}
	for _, f := range c.P.AllFuncs() {
		n := funcName(f)
		isServer := strings.HasPrefix(n, "(*Conn).") || strings.HasPrefix(n, "(*parser).") || strings.HasPrefix(n, "(*Server).") ||
			n == "parseCmd" || n == "parseArgs" || n == "parseHelloArgument" || n == "cutPrefixFold" || strings.HasPrefix(n, "decode") || n == "checkNotifySet"
		if !isServer {
			continue
		}
		ff := c.F.Analyze(f)
		check := func(in ssa.Instruction, x ssa.Value, need int64, what string) {
			switch x.Type().Underlying().(type) {
			case *types.Basic, *types.Slice:
			default:
				return // arrays and pointers to arrays have a static length
			}
			d := describe(x)
			if strings.Contains(d, "alloc:varargs") || strings.Contains(d, "alloc:slicelit") || strings.Contains(d, "alloc:complit") {
				return // literal backing arrays
			}
			if _, ok := exempt[n+"/"+d]; ok {
				R.Ob(c.siteKey(in, what+" of "+d+" (frozen exception)"), c.P.InstrPos(in), true, "")
				return
			}
			got := minLenFromFacts(ff.At(in), d)
			// strings.Split always returns at least one element
			if need == 1 && strings.HasPrefix(d, "strings.Split(") && got < 1 {
				got = 1
			}
			R.Ob(c.siteKey(in, what+" of "+d), c.P.InstrPos(in), got >= need,
				fmt.Sprintf("%s needs len(%s) >= %d but the guards on that value only establish >= %d: an input of that shape panics (parseCmd runs outside the recover of Conn.handle: the whole server goes down)", what, d, need, got))
		}
		allInstrs(f, func(in ssa.Instruction) {
			switch x := in.(type) {
			case *ssa.Index:
				if k, ok := constInt(x.Index); ok {
					check(in, x.X, k+1, fmt.Sprintf("index [%d]", k))
				}
			case *ssa.IndexAddr:
				if k, ok := constInt(x.Index); ok {
					check(in, x.X, k+1, fmt.Sprintf("index [%d]", k))
				}
			case *ssa.Lookup:
				if _, isStr := x.X.Type().Underlying().(*types.Basic); isStr {
					if k, ok := constInt(x.Index); ok {
						check(in, x.X, k+1, fmt.Sprintf("index [%d]", k))
					}
				}
			case *ssa.Slice:
				var need int64 = -1
				if x.Low != nil {
					if k, ok := constInt(x.Low); ok && k > need {
						need = k
					}
				}
				if x.High != nil {
					if k, ok := constInt(x.High); ok && k > need {
						need = k
					}
				}
				if need > 0 {
					check(in, x.X, need, fmt.Sprintf("slice bound %d", need))
				}
			}
		})
	}
}

// regexpAltLens: for the constant pattern compiled into the package-level regexp variable `name`, the minimum and
// maximum match length in octets of every top-level alternative (max < 0 means unbounded).
func regexpAltLens(c *Ctx, name string) (pattern string, alts [][2]int, problem string) {
	var pat string
	found := false
	for _, f := range c.P.AllFuncs() {
		if f.Name() != "init" {
			continue
		}
		allInstrs(f, func(in ssa.Instruction) {
			st, ok := in.(*ssa.Store)
			if !ok {
				return
			}
			g, ok := st.Addr.(*ssa.Global)
			if !ok || g.Name() != name {
				return
			}
			if call, ok := st.Val.(*ssa.Call); ok {
				if callee := staticCallee(&call.Call); callee != nil && qualFuncName(callee) == "regexp.MustCompile" {
					if k, ok := constString(call.Call.Args[0]); ok {
						pat, found = k, true
					}
				}
			}
		})
	}
	if !found {
		return "", nil, "pattern of " + name + " is not a constant compiled in the package initialiser"
	}
	re, err := syntax.Parse(pat, syntax.Perl)
	if err != nil {
		return pat, nil, "pattern does not parse: " + err.Error()
	}
	var lens func(r *syntax.Regexp) (int, int)
	add := func(a, b int) int {
		if a < 0 || b < 0 {
			return -1
		}
		return a + b
	}
	lens = func(r *syntax.Regexp) (int, int) {
		switch r.Op {
		case syntax.OpEmptyMatch, syntax.OpBeginLine, syntax.OpEndLine, syntax.OpBeginText, syntax.OpEndText, syntax.OpWordBoundary, syntax.OpNoWordBoundary:
			return 0, 0
		case syntax.OpLiteral:
			n := 0
			for _, ru := range r.Rune {
				n += utf8.RuneLen(ru)
			}
			return n, n
		case syntax.OpCharClass:
			mn, mx := 4, 0
			for i := 0; i+1 < len(r.Rune); i += 2 {
				lo, hi := utf8.RuneLen(r.Rune[i]), utf8.RuneLen(r.Rune[i+1])
				if lo < mn {
					mn = lo
				}
				if hi > mx {
					mx = hi
				}
			}
			return mn, mx
		case syntax.OpAnyChar, syntax.OpAnyCharNotNL:
			return 1, 4
		case syntax.OpCapture:
			return lens(r.Sub[0])
		case syntax.OpConcat:
			mn, mx := 0, 0
			for _, s := range r.Sub {
				a, b := lens(s)
				mn += a
				mx = add(mx, b)
			}
			return mn, mx
		case syntax.OpAlternate:
			mn, mx := 1<<30, 0
			for _, s := range r.Sub {
				a, b := lens(s)
				if a < mn {
					mn = a
				}
				if b < 0 || mx < 0 {
					mx = -1
				} else if b > mx {
					mx = b
				}
			}
			return mn, mx
		case syntax.OpStar:
			return 0, -1
		case syntax.OpPlus:
			a, _ := lens(r.Sub[0])
			return a, -1
		case syntax.OpQuest:
			_, b := lens(r.Sub[0])
			return 0, b
		case syntax.OpRepeat:
			a, b := lens(r.Sub[0])
			mx := -1
			if r.Max >= 0 && b >= 0 {
				mx = b * r.Max
			}
			return a * r.Min, mx
		}
		return 0, -1
	}
	top := []*syntax.Regexp{re}
	if re.Op == syntax.OpAlternate {
		top = re.Sub
	}
	for _, a := range top {
		mn, mx := lens(a)
		alts = append(alts, [2]int{mn, mx})
	}
	return pat, alts, ""
}

// ruleRegexpCallbackShapes: the replacement callbacks index into the match they are given; what they may assume
// about its length is decided from the pattern itself.
func ruleRegexpCallbackShapes(c *Ctx) {
	R := c.R
	pat, alts, problem := regexpAltLens(c, "eUOrDCharRe")
	if problem != "" {
		R.Und("eUOrDCharRe/pattern", "-", problem)
		return
	}
	// decodeUTF8AddrXtext$1 returns early for len(match) == 1 and then slices match[3:len(match)-1]
	bad := ""
	for i, a := range alts {
		if a[0] == 1 && a[1] == 1 {
			continue
		}
		if a[0] >= 4 {
			continue
		}
		bad = fmt.Sprintf("alternative %d of %q matches between %d and %d octets: the callback treats everything longer than one octet as \\x{...} and slices match[3:len-1], which panics for a %d-octet match (e.g. a two-octet UTF-8 control character)", i+1, pat, a[0], a[1], a[0]+boolInt(a[0] == 1))
		break
	}
	R.Ob("eUOrDCharRe/every alternative is one octet or at least four", "-", bad == "", bad)
}

func boolInt(b bool) int {
	if b {
		return 1
	}
	return 0
}

// ruleLineLimitCounting (C19, C01): how lineLimitReader.Read counts. For C01 it is the reason why the limiter that
// sits under the DATA reader cannot make the delivered octets depend on segmentation.
func ruleLineLimitCounting(c *Ctx) {
	R := c.R
	_, s := c.Std()
	R.Rule("R-linelimit-threshold", "E6 thresholds", "lineLimitReader.Read: +1 per octet, reset to 0 only on LF, refusal exactly when count > LineLimit, bypass only for LineLimit == 0", 7)
	// the count belongs to the limiter: the buffered reader above it reads ahead, so a reset from outside (per
	// command line, say) forgets octets of the next line that have already been counted and buffered
	c.obWriters("lineLimitReader.curLineLength", "counted by Read only; zeroed by construction", "(*lineLimitReader).Read")
	if f := c.A.Func("(*lineLimitReader).Read"); f != nil {
		var loop *loopInfo
		for _, li := range findLoops(f) {
			loop = li
		}
		if loop == nil || loop.body == nil {
			R.Ob("(*lineLimitReader).Read/byte loop", c.P.Pos(f.Pos()), false, "no loop over the octets read")
		} else {
			res := CountPathsOpt(f, CountOpts{Start: loop.body, NoReturn: true, ExitEdge: func(from, to *ssa.BasicBlock) bool { return to == loop.header },
				Count: func(in ssa.Instruction) (int, int) {
					if labelHas(c.stdLabels(in), "st:lineLimitReader.curLineLength=@(lineLimitReader.curLineLength + 1)") {
						return 1, 1
					}
					return 0, 0
				}})
			R.Ob("(*lineLimitReader).Read/every octet counted once", c.P.Pos(f.Pos()), res.Min == 1 && res.Max == 1, fmt.Sprintf("an iteration that continues adds 1 to the count %d..%d times", res.Min, res.Max))
			// the loop ranges over exactly the octets read
			okRange := false
			allInstrs(f, func(in ssa.Instruction) {
				if sl, ok := in.(*ssa.Slice); ok && describe(sl.X) == "param1" && sl.High != nil && describe(sl.High) == "invoke:Reader.Read#0" && sliceFromZero(sl) {
					okRange = true
				}
			})
			if !okRange {
				// index form: for i := 0; i < n; i++ { ... b[i] ... } with n the count returned by the underlying Read
				if iff, ok := loop.header.Instrs[len(loop.header.Instrs)-1].(*ssa.If); ok {
					if bo, ok := iff.Cond.(*ssa.BinOp); ok && bo.Op == token.LSS && describe(bo.Y) == "invoke:Reader.Read#0" {
						if phi, ok := bo.X.(*ssa.Phi); ok && phi.Block() == loop.header {
							zero, step := false, false
							for _, e := range phi.Edges {
								if k, isK := constInt(e); isK && k == 0 {
									zero = true
								} else if add, isAdd := e.(*ssa.BinOp); isAdd && add.Op == token.ADD && add.X == ssa.Value(phi) {
									if k, isK := constInt(add.Y); isK && k == 1 {
										step = true
									}
								}
							}
							indexed := false
							for b := range loop.blocks {
								for _, in := range b.Instrs {
									if ia, ok := in.(*ssa.IndexAddr); ok && describe(ia.X) == "param1" && ia.Index == ssa.Value(phi) {
										indexed = true
									}
								}
							}
							okRange = zero && step && indexed && len(phi.Edges) == 2
						}
					}
				}
			}
			R.Ob("(*lineLimitReader).Read/loop covers b[:n]", c.P.Pos(f.Pos()), okRange, "the counting loop does not range over exactly the octets returned by the underlying Read")
		}
		for _, st := range s.Find(f, "st:lineLimitReader.curLineLength=0") {
			c.obFactMatch("reset only on LF", st, `== 10$`, "line length reset on something other than LF")
		}
		// ... and on EVERY LF, whatever precedes it in this or an earlier segment (the decision may only look at
		// the octet itself: anything else makes the count depend on how the stream is cut into reads)
		if loop != nil && loop.body != nil {
			ff := c.F.Analyze(f)
			elem := ""
			for _, st := range s.Find(f, "st:lineLimitReader.curLineLength=0") {
				for a := range ff.At(st) {
					if strings.HasSuffix(a, " == 10") {
						elem = strings.TrimSuffix(a, " == 10")
					}
				}
			}
			if elem == "" {
				R.Ob("(*lineLimitReader).Read/every LF resets the count", c.P.Pos(f.Pos()), false, "no reset guarded by a comparison of the octet with LF")
			} else {
				res := CountPathsOpt(f, CountOpts{Start: loop.body, NoReturn: true, SkipEdge: c.F.SkipUnder(elem + " == 10"),
					ExitEdge: func(from, to *ssa.BasicBlock) bool { return to == loop.header },
					Count: func(in ssa.Instruction) (int, int) {
						if labelHas(c.stdLabels(in), "st:lineLimitReader.curLineLength=0") {
							return 1, 1
						}
						return 0, 0
					}})
				R.Ob("(*lineLimitReader).Read/every LF resets the count", c.P.Pos(f.Pos()), res.Min >= 1, "an iteration whose octet is LF can continue without resetting the line length: whether a line is refused then depends on something other than its own length (e.g. on where the stream was cut into reads)")
			}
		}
		nErr := 0
		allInstrs(f, func(in ssa.Instruction) {
			r, ok := in.(*ssa.Return)
			if !ok || len(r.Results) != 2 {
				return
			}
			if describe(r.Results[1]) == "ErrTooLongLine" {
				nErr++
				c.obUnreach("ErrTooLongLine", in, `lineLimitReader.curLineLength <= lineLimitReader.LineLimit`)
				c.obFactMatch("refusal is strict >", in, `^lineLimitReader\.curLineLength > lineLimitReader\.LineLimit$`, "refusal not guarded by count > limit")
			} else if isNilConst(r.Results[1]) && !reachableThroughLoop(f, in) {
				c.obUnreach("uncounted return", in, `lineLimitReader.LineLimit != 0`)
			}
		})
		R.Ob("(*lineLimitReader).Read/refuses in the loop and on entry", c.P.Pos(f.Pos()), nErr == 2, fmt.Sprintf("%d refusal sites", nErr))
	}
}

// ruleNoPartialLine (C04, C09, C11, C19): readLine hands out a line only when its terminator was read. The line comes
// from a primitive that reports an error whenever it has not seen the delimiter (bufio's ReadString / ReadBytes /
// ReadSlice with '\n'), and that error is checked before anything is handed out: a fragment left behind by a read
// timeout, by the end of the stream or by the limiter's refusal is never dispatched as a command nor given to the SASL
// mechanism. textproto's ReadLine / bufio's ReadLine hand out such a fragment with a nil error and are reported.
func ruleNoPartialLine(c *Ctx) {
	R := c.R
	R.Rule("R-line-terminated", "E4 value flow + E3 edge-feasibility", "readLine returns a line only from a delimiter-terminated read of the connection's buffered reader (ReadString/ReadBytes/ReadSlice with LF) whose error was checked: an unterminated fragment (timeout, end of stream, limiter refusal) is never handed out", 3)
	f := c.A.Func("(*Conn).readLine")
	if f == nil {
		return
	}
	terminated := map[string]bool{"(*bufio.Reader).ReadString": true, "(*bufio.Reader).ReadBytes": true, "(*bufio.Reader).ReadSlice": true}
	fragmenting := map[string]bool{"(*textproto.Reader).ReadLine": true, "(*textproto.Reader).ReadLineBytes": true, "(*bufio.Reader).ReadLine": true, "(*textproto.Reader).ReadContinuedLine": true}
	var reads []*ssa.Call
	allInstrs(f, func(in ssa.Instruction) {
		call, ok := in.(*ssa.Call)
		if !ok {
			return
		}
		g := staticCallee(&call.Call)
		if g == nil {
			return
		}
		q := qualFuncName(g)
		if fragmenting[q] {
			R.Ob(c.siteKey(in, "no fragment-returning read"), c.P.InstrPos(in), false, "readLine reads with "+q+", which hands out the received part of an unterminated line with a nil error (read timeout in mid-line, end of stream, the limiter's refusal): the fragment is dispatched as a command — \"MAIL FROM:<a@b> SIZE=1\" of a client still sending \"SIZE=1000\" reaches the backend")
		}
		if terminated[q] {
			d, isLF := constInt(call.Call.Args[1])
			R.Ob(c.siteKey(in, "line read up to LF from the connection's reader"), c.P.InstrPos(in), isLF && d == 10 && (describe(call.Call.Args[0]) == "Conn.text.R" || describe(call.Call.Args[0]) == "textproto.Reader.R"), fmt.Sprintf("%s(%s, %s): not a read of Conn.text.R up to '\\n'", q, describe(call.Call.Args[0]), describe(call.Call.Args[1])))
			reads = append(reads, call)
		}
	})
	R.Ob("(*Conn).readLine/reads a terminated line", c.P.Pos(f.Pos()), len(reads) == 1, fmt.Sprintf("%d delimiter-terminated reads found in readLine", len(reads)))
	if len(reads) != 1 {
		return
	}
	rd := reads[0]
	errNonNil := describe(rd) + "#1 != nil"
	// every line read is handed out: the read is not repeated inside readLine (a loop that skips some lines — empty
	// ones, say — swallows the empty response to a SASL challenge and takes the next command for the response)
	again := false
	for _, sc := range rd.Block().Succs {
		if sc == rd.Block() || reachableFrom(sc, nil)[rd.Block()] {
			again = true
		}
	}
	R.Ob("(*Conn).readLine/one read per call, no line skipped", c.P.InstrPos(rd), !again, "the line read of readLine lies in a loop: a line that was read can be dropped and another read in its place (an empty line is the empty SASL response and the command loop's 500; skipping it desynchronises the dialogue)")
	n := 0
	allInstrs(f, func(in ssa.Instruction) {
		r, ok := in.(*ssa.Return)
		if !ok || in.Block() == f.Recover {
			return
		}
		rv := returnedValues(r)
		if len(rv) != 2 {
			return
		}
		if k, isK := constString(rv[0]); isK && k == "" {
			return // hands out nothing
		}
		n++
		derived := false
		for _, l := range leafSources(rv[0]) {
			if strings.Contains(l, describe(rd)+"#0") {
				derived = true
			}
		}
		R.Ob(c.siteKey(in, "the line handed out comes from the terminated read"), c.P.InstrPos(in), derived, "readLine returns "+describe(rv[0])+", which is not derived from the delimiter-terminated read")
		c.obUnreach("line handed out", in, errNonNil)
	})
	R.Ob("(*Conn).readLine/hands out a line", c.P.Pos(f.Pos()), n >= 1, "no return with a line found")
}

// readerChainEndsInLimiter traces the io.Reader textproto is built on, inside init(): through interface conversions,
// the fields of local structs (every value assigned to the field; an assignment that wraps the field's previous value
// is followed to the other assignments), io.TeeReader and package-defined reader types wrapping another reader. Every
// branch must end in the *lineLimitReader that init() stores in Conn.lineLimitReader.
func readerChainEndsInLimiter(f *ssa.Function, v ssa.Value) (bool, string) {
	isLimiterField := func(a ssa.Value) bool {
		fld, base := fieldAddrOf(a)
		return fld != nil && fld.Name() == "lineLimitReader" && describe(base) == "param0"
	}
	seen := map[ssa.Value]bool{}
	var fieldOK func(a *ssa.Alloc, name string) (bool, string)
	var ok func(v ssa.Value) (bool, string)
	fieldOK = func(a *ssa.Alloc, name string) (bool, string) {
		n := 0
		res, why := true, ""
		allInstrs(f, func(in ssa.Instruction) {
			st, isSt := in.(*ssa.Store)
			if !isSt || !res {
				return
			}
			if fa, isFA := st.Addr.(*ssa.FieldAddr); isFA && fa.X == a {
				if stt, isS := derefType(a.Type()).Underlying().(*types.Struct); isS && stt.Field(fa.Field).Name() == name {
					n++
					if o, w := ok(st.Val); !o {
						res, why = false, w
					}
				}
				return
			}
			if st.Addr == a { // whole-struct assignment from another local
				if ld, isLd := st.Val.(*ssa.UnOp); isLd {
					if b, isA := ld.X.(*ssa.Alloc); isA {
						n++
						if o, w := fieldOK(b, name); !o {
							res, why = false, w
						}
					}
				}
			}
		})
		if n == 0 {
			return false, "field " + name + " is never assigned"
		}
		return res, why
	}
	ok = func(v ssa.Value) (bool, string) {
		for {
			switch x := v.(type) {
			case *ssa.MakeInterface:
				v = x.X
				continue
			case *ssa.ChangeInterface:
				v = x.X
				continue
			case *ssa.ChangeType:
				v = x.X
				continue
			}
			break
		}
		if seen[v] {
			return true, ""
		}
		seen[v] = true
		switch x := v.(type) {
		case *ssa.UnOp:
			if isLimiterField(x.X) {
				return true, ""
			}
			if fa, isFA := x.X.(*ssa.FieldAddr); isFA {
				if a, isA := fa.X.(*ssa.Alloc); isA {
					if stt, isS := derefType(a.Type()).Underlying().(*types.Struct); isS {
						return fieldOK(a, stt.Field(fa.Field).Name())
					}
				}
			}
			if a, isA := x.X.(*ssa.Alloc); isA { // the whole local struct: its Reader
				if stt, isS := derefType(a.Type()).Underlying().(*types.Struct); isS {
					for i := 0; i < stt.NumFields(); i++ {
						if stt.Field(i).Name() == "Reader" {
							return fieldOK(a, "Reader")
						}
					}
				}
			}
		case *ssa.Alloc:
			stored := false
			allInstrs(f, func(in ssa.Instruction) {
				if st, isSt := in.(*ssa.Store); isSt && st.Val == x && isLimiterField(st.Addr) {
					stored = true
				}
			})
			if stored {
				return true, ""
			}
			// a package reader type wrapping another reader
			if nt, isN := derefType(x.Type()).(*types.Named); isN && nt.Obj().Pkg() != nil && nt.Obj().Pkg().Path() == smtpPath {
				if stt, isS := nt.Underlying().(*types.Struct); isS {
					n := 0
					for i := 0; i < stt.NumFields(); i++ {
						if it, isI := stt.Field(i).Type().Underlying().(*types.Interface); isI && hasMethod(it, "Read") {
							n++
							if o, w := fieldOK(x, stt.Field(i).Name()); !o {
								return false, nt.Obj().Name() + "." + stt.Field(i).Name() + ": " + w
							}
						}
					}
					if n > 0 {
						return true, ""
					}
				}
			}
		case *ssa.Call:
			if g := staticCallee(&x.Call); g != nil && qualFuncName(g) == "io.TeeReader" {
				return ok(x.Call.Args[0])
			}
		case *ssa.Phi:
			for _, e := range x.Edges {
				if o, w := ok(e); !o {
					return false, w
				}
			}
			return true, ""
		}
		return false, "a layer reads from " + describe(v)
	}
	return ok(v)
}

func hasMethod(it *types.Interface, name string) bool {
	for i := 0; i < it.NumMethods(); i++ {
		if it.Method(i).Name() == name {
			return true
		}
	}
	return false
}

// ruleProtocolErrorSites (C04, C12, C19): protocolError counts towards the connection's error budget and, past the
// threshold, adds a closing notice to its reply and ends the connection. Only lines that are not commands go that
// way: the dispatcher's empty and unknown verb, the command loop's unparsable line. A recognised command that is
// refused (a parameter of a disabled extension, an out-of-order command) is answered by writeResponse: it gets exactly
// one reply however many refusals came before, and the connection stays usable.
func ruleProtocolErrorSites(c *Ctx) {
	R := c.R
	R.Rule("R-protocol-error-sites", "who-may-call + E3 edge-feasibility", "protocolError (error count, closing notice, Close) is called only by the dispatcher for an empty or unrecognised verb and by the command loop for an unparsable line, never while a recognised command is executed", 3)
	pe := c.A.Func("(*Conn).protocolError")
	if pe == nil {
		return
	}
	h := c.A.Func("(*Conn).handle")
	var keys []string
	tag := ""
	if h != nil {
		tag, keys = switchTag(c, h)
	}
	n := 0
	for _, site := range c.callersOf(pe) {
		n++
		fn := funcName(site.Parent())
		switch fn {
		case "(*Conn).handle":
			okAll, bad := true, ""
			for _, k := range keys {
				if reach, _ := c.ReachableUnder(site, []string{tag + ` == "` + k + `"`, `param1 != ""`}); reach {
					okAll, bad = false, k
					break
				}
			}
			R.Ob(c.siteKey(site, "not for a recognised verb"), c.P.InstrPos(site), okAll && len(keys) >= 10, fmt.Sprintf("the dispatcher can count %s (one of the %d recognised verbs) as a protocol error", bad, len(keys)))
		case "(*Server).handleConn":
			c.obFactMatch("only for an unparsable line", site, `^parseCmd\(.*\)#2 != nil$`, "the command loop counts a protocol error for a line that parsed")
		default:
			R.Ob(c.siteKey(site, "protocolError caller"), c.P.InstrPos(site), false, fn+" answers through protocolError: a refused but recognised command counts towards the error threshold, and the fourth such refusal gets a second reply (the closing notice) and ends the connection")
		}
	}
	R.Ob("protocolError/call sites", "-", n >= 3, fmt.Sprintf("%d call sites", n))
}

// ruleLineLimitLayer (C19, C05): the limiter stored in the connection IS the limiter textproto reads through. C19 needs
// it for the bound; C05 needs it because handleBdat lifts the line limit through that field for the duration of a
// chunk — a second limiter in the chain (say, one added around a debug tee) would keep refusing long LF-free runs of
// a binary chunk.
func ruleLineLimitLayer(c *Ctx) {
	R := c.R
	_, s := c.Std()
	R.Rule("R-linelimit-layer", "E4 value flow", "init() builds textproto's reader over a lineLimitReader on the current connection with LineLimit = Server.MaxLineLength", 4)
	if f := c.A.Func("(*Conn).init"); f != nil {
		m := s.Must(f)
		R.Ob("(*Conn).init/limiter over the current conn", c.P.Pos(f.Pos()), m["st:lineLimitReader.R=@Conn.conn"], "lineLimitReader.R is not certainly the current connection; events: "+fmt.Sprint(m.list()))
		R.Ob("(*Conn).init/limit from MaxLineLength", c.P.Pos(f.Pos()), m["st:lineLimitReader.LineLimit=@Server.MaxLineLength"], "LineLimit is not certainly initialised from Server.MaxLineLength")
		R.Ob("(*Conn).init/limiter stored", c.P.Pos(f.Pos()), m["st:Conn.lineLimitReader"], "the limiter is not stored in the connection")
		// the reader handed to textproto reads through the limiter: every layer between textproto and the socket is
		// traced back (struct fields assigned in init, io.TeeReader, package reader types wrapping a reader) and the
		// chain has to end in the limiter stored in the connection
		okReader, whyReader := false, "no textproto.NewConn call in init()"
		for _, nc := range s.Find(f, "call:textproto.NewConn") {
			okReader, whyReader = readerChainEndsInLimiter(f, callCommon(nc).Args[0])
			if !okReader {
				break
			}
		}
		R.Ob("(*Conn).init/textproto reads through the limiter", c.P.Pos(f.Pos()), okReader, "the reader given to textproto.NewConn does not read through the line limiter: "+whyReader)
	}
}

// ruleTypeAssertGuarded (C19, C09): on the server side a value obtained from a type assertion is used (method call,
// field access) only where the assertion is known to have held, and there is no single-result assertion on a value
// that is not known to have that type. An optional interface of the backend's session (AuthSession, LMTPSession) that
// is called without the comma-ok test turns "the backend does not support this" into a nil-interface panic: 421 and
// a closed connection for a command the property wants answered.
func ruleTypeAssertGuarded(c *Ctx) {
	R := c.R
	R.Rule("R-typeassert-guarded", "E3 must-facts", "server code uses the result of a type assertion only on the edge where the assertion held; no panicking (single-result) assertion on connection- or backend-supplied values", 8)
	n := 0
	for _, f := range c.P.AllFuncs() {
		fn := funcName(f)
		if !inSmtp(f) || !(strings.HasPrefix(fn, "(*Conn).") || strings.HasPrefix(fn, "(*Server).") || strings.HasPrefix(fn, "(*statusCollector).") || fn == "dataErrorToStatus") {
			continue
		}
		ff := c.F.Analyze(f)
		allInstrs(f, func(in ssa.Instruction) {
			ta, ok := in.(*ssa.TypeAssert)
			if !ok {
				return
			}
			n++
			if !ta.CommaOk {
				R.Ob(c.siteKey(in, "no panicking type assertion"), c.P.InstrPos(in), false, "single-result assertion "+describe(ta.X)+".("+typeShort(ta.AssertedType)+") panics when the value has another type")
				return
			}
			okAtom := "assert[" + typeShort(ta.AssertedType) + "](" + describe(ta.X) + ")#1 == true"
			for _, ref := range *ta.Referrers() {
				ex, isEx := ref.(*ssa.Extract)
				if !isEx || ex.Index != 0 {
					continue
				}
				for _, use := range *ex.Referrers() {
					deref := false
					if cc := callCommon(use); cc != nil && cc.IsInvoke() && cc.Value == ssa.Value(ex) {
						deref = true
					}
					if cc := callCommon(use); cc != nil && !cc.IsInvoke() && len(cc.Args) > 0 && cc.Args[0] == ssa.Value(ex) && cc.Signature().Recv() != nil {
						deref = true // method call on a concrete pointer type
					}
					if fa, isFA := use.(*ssa.FieldAddr); isFA && fa.X == ssa.Value(ex) {
						deref = true
					}
					if u, isU := use.(*ssa.UnOp); isU && u.Op == token.MUL && u.X == ssa.Value(ex) {
						deref = true
					}
					if !deref {
						continue
					}
					R.Ob(c.siteKey(use, "asserted value used only where the assertion held"), c.P.InstrPos(use), ff.At(use)[okAtom], fmt.Sprintf("%s uses the result of %s.(%s) without the comma-ok test having succeeded (facts: %v): for a value of another type this is a nil dereference — a panic, 421 and a closed connection", fn, describe(ta.X), typeShort(ta.AssertedType), ff.At(use).list()))
				}
			}
		})
	}
	R.Ob("server/type assertions found", "-", n >= 6, fmt.Sprintf("%d type assertions found on the server side", n))
}
