package main

import (
	"fmt"
	"go/ast"
	"go/token"
	"go/types"
	"os"
	"sort"
	"strings"

	"golang.org/x/tools/go/packages"
	"golang.org/x/tools/go/ssa"
	"golang.org/x/tools/go/ssa/ssautil"
)

// Program is the resolved, type-checked view of /repo's current working tree.
type Program struct {
	Dir    string
	Fset   *token.FileSet
	Pkgs   []*packages.Package
	Smtp   *packages.Package // github.com/emersion/go-smtp
	SSA    *ssa.Program
	SPkg   *ssa.Package // ssa package of Smtp
	NFuncs int
	NBlock int
	NInstr int

	funcs map[string]*ssa.Function // by display name, e.g. "(*Conn).handleMail", "newDataReader", "(*Conn).handleBdat$1"
}

const smtpPath = "github.com/emersion/go-smtp"

// Load type-checks ./... under dir with the real build flags and builds SSA.
// Any type error, missing package or load failure is fatal (exit 2: the
// checker is broken on this tree, never "held").
func Load(dir string, tags string, goarch string) (*Program, error) {
	return LoadOverlay(dir, tags, goarch, nil)
}

// LoadOverlay is Load with in-memory replacements of source files (used by the
// rule-liveness bank: no copy of the repository is made on disk).
func LoadOverlay(dir string, tags string, goarch string, overlay map[string][]byte) (*Program, error) {
	env := append(os.Environ(), "GOFLAGS=-mod=mod", "GOPROXY=off", "GOSUMDB=off", "GOTOOLCHAIN=local", "GOWORK=off")
	if goarch != "" {
		env = append(env, "GOARCH="+goarch)
	}
	cfg := &packages.Config{
		Mode:  packages.LoadAllSyntax,
		Dir:   dir,
		Env:   env,
		Tests: false,
	}
	if overlay != nil {
		cfg.Overlay = overlay
	}
	if tags != "" {
		cfg.BuildFlags = []string{"-tags=" + tags}
	}
	pkgs, err := packages.Load(cfg, "./...")
	if err != nil {
		return nil, fmt.Errorf("packages.Load: %v", err)
	}
	if len(pkgs) < 2 {
		return nil, fmt.Errorf("expected >=2 packages under %s, got %d", dir, len(pkgs))
	}
	var errs []string
	packages.Visit(pkgs, nil, func(p *packages.Package) {
		for _, e := range p.Errors {
			errs = append(errs, e.Error())
		}
	})
	if len(errs) > 0 {
		return nil, fmt.Errorf("load/type errors:\n  %s", strings.Join(errs, "\n  "))
	}
	p := &Program{Dir: dir, Pkgs: pkgs, funcs: map[string]*ssa.Function{}}
	for _, pk := range pkgs {
		if pk.PkgPath == smtpPath {
			p.Smtp = pk
		}
	}
	if p.Smtp == nil {
		return nil, fmt.Errorf("package %s not found under %s", smtpPath, dir)
	}
	p.Fset = p.Smtp.Fset
	prog, spkgs := ssautil.AllPackages(pkgs, ssa.InstantiateGenerics)
	prog.Build()
	p.SSA = prog
	for i, pk := range pkgs {
		if pk.PkgPath == smtpPath {
			p.SPkg = spkgs[i]
		}
	}
	if p.SPkg == nil {
		return nil, fmt.Errorf("no SSA package for %s", smtpPath)
	}
	// index functions of the smtp package (methods, funcs, closures)
	var add func(f *ssa.Function)
	add = func(f *ssa.Function) {
		if f == nil || f.Blocks == nil {
			return
		}
		name := funcName(f)
		if _, dup := p.funcs[name]; dup {
			return
		}
		p.funcs[name] = f
		p.NFuncs++
		p.NBlock += len(f.Blocks)
		for _, b := range f.Blocks {
			p.NInstr += len(b.Instrs)
		}
		for _, a := range f.AnonFuncs {
			add(a)
		}
	}
	for _, m := range p.SPkg.Members {
		switch m := m.(type) {
		case *ssa.Function:
			add(m)
		case *ssa.Type:
			for _, t := range []types.Type{m.Type(), types.NewPointer(m.Type())} {
				ms := prog.MethodSets.MethodSet(t)
				for i := 0; i < ms.Len(); i++ {
					f := prog.MethodValue(ms.At(i))
					if f != nil && f.Synthetic == "" {
						add(f)
					}
				}
			}
		}
	}
	return p, nil
}

// funcName gives a stable display name: "(*Conn).handleMail", "newConn",
// closures "(*Conn).handleBdat$1".
func funcName(f *ssa.Function) string {
	if f.Parent() != nil {
		// f.Name() for anon funcs is like "handleBdat$1"
		parent := funcName(f.Parent())
		n := f.Name()
		if i := strings.LastIndex(n, "$"); i >= 0 {
			return parent + n[i:]
		}
		return parent + "$" + n
	}
	if recv := f.Signature.Recv(); recv != nil {
		return "(" + types.TypeString(recv.Type(), func(*types.Package) string { return "" }) + ")." + f.Name()
	}
	return f.Name()
}

// Func returns the named function of the smtp package or nil.
func (p *Program) Func(name string) *ssa.Function { return p.funcs[name] }

// FuncNames returns all indexed function names, sorted.
func (p *Program) FuncNames() []string {
	var out []string
	for n := range p.funcs {
		out = append(out, n)
	}
	sort.Strings(out)
	return out
}

// AllFuncs returns all indexed functions sorted by name.
func (p *Program) AllFuncs() []*ssa.Function {
	var out []*ssa.Function
	for _, n := range p.FuncNames() {
		out = append(out, p.funcs[n])
	}
	return out
}

// Pos renders a position relative to the repo dir.
func (p *Program) Pos(pos token.Pos) string {
	if !pos.IsValid() {
		return "-"
	}
	pp := p.Fset.Position(pos)
	fn := pp.Filename
	if strings.HasPrefix(fn, p.Dir+"/") {
		fn = fn[len(p.Dir)+1:]
	}
	return fmt.Sprintf("%s:%d", fn, pp.Line)
}

// InstrPos finds the best position for an instruction (falls back to the
// nearest positioned instruction in the block, then the function).
func (p *Program) InstrPos(in ssa.Instruction) string {
	if in == nil {
		return "-"
	}
	if in.Pos().IsValid() {
		return p.Pos(in.Pos())
	}
	if v, ok := in.(ssa.Value); ok {
		_ = v
	}
	// operands
	var ops []*ssa.Value
	ops = in.Operands(ops)
	for _, o := range ops {
		if o != nil && *o != nil && (*o).Pos().IsValid() {
			return p.Pos((*o).Pos())
		}
	}
	b := in.Block()
	if b != nil {
		for _, i2 := range b.Instrs {
			if i2.Pos().IsValid() {
				return p.Pos(i2.Pos())
			}
		}
		return p.Pos(b.Parent().Pos())
	}
	return "-"
}

// Named looks up a package-level named type in the smtp package.
func (p *Program) Named(name string) *types.Named {
	o := p.Smtp.Types.Scope().Lookup(name)
	if o == nil {
		return nil
	}
	n, _ := o.Type().(*types.Named)
	return n
}

// Field resolves Type.field to its *types.Var.
func (p *Program) Field(typ, field string) *types.Var {
	n := p.Named(typ)
	if n == nil {
		return nil
	}
	st, ok := n.Underlying().(*types.Struct)
	if !ok {
		return nil
	}
	for i := 0; i < st.NumFields(); i++ {
		if st.Field(i).Name() == field {
			return st.Field(i)
		}
	}
	return nil
}

// Object looks up a package-level object (var, const, func) in smtp.
func (p *Program) Object(name string) types.Object {
	return p.Smtp.Types.Scope().Lookup(name)
}

// IfaceMethod resolves Interface.Method to its *types.Func.
func (p *Program) IfaceMethod(iface, method string) *types.Func {
	n := p.Named(iface)
	if n == nil {
		return nil
	}
	it, ok := n.Underlying().(*types.Interface)
	if !ok {
		return nil
	}
	for i := 0; i < it.NumMethods(); i++ {
		if it.Method(i).Name() == method {
			return it.Method(i)
		}
	}
	return nil
}

// FileOf returns the *ast.File of the smtp package containing pos.
func (p *Program) FileOf(pos token.Pos) *ast.File {
	for _, f := range p.Smtp.Syntax {
		if f.Pos() <= pos && pos <= f.End() {
			return f
		}
	}
	return nil
}

// FuncDecl finds the AST declaration for an SSA function of the smtp package.
func (p *Program) FuncDecl(f *ssa.Function) *ast.FuncDecl {
	if f == nil {
		return nil
	}
	if d, ok := f.Syntax().(*ast.FuncDecl); ok {
		return d
	}
	return nil
}
