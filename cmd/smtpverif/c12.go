package main

import (
	"fmt"
	"go/token"
	"regexp"
	"sort"
	"strings"

	"golang.org/x/tools/go/ssa"
)

func init() {
	register(&propDef{
		ID: "C12",
		Explanation: "The configuration space is finite and handleGreet consults it only through boolean tests, so the capability table is the behaviour: for every capability string appended on the enhanced path the conjunction of branch conditions under which it is appended is extracted from the SSA guard facts and compared, as a truth table over all configurations of the atoms, with the reference table from the property statement. " +
			"The SIZE/RCPTMAX values flow from the Server fields; HELO lists nothing. Parameter gates: each 504 refusal is taken exactly when its extension flag is false and the accepting continuation depends on no other configuration atom.",
		Run: runC12,
	})
}

var cfgAtomRe = regexp.MustCompile(`^(Server\.[A-Za-z0-9]+ |\(\*Conn\)\.TLSConnectionState\(param0\)#1 |\(\*Conn\)\.authAllowed\(param0\) |builtin:len\(\(\*Conn\)\.authMechanisms\(param0\)\) )`)

// cfgFacts: the configuration-dependent atoms holding at site.
func cfgFacts(c *Ctx, site ssa.Instruction) []string {
	ff := c.F.Analyze(site.Parent())
	var out []string
	for a := range ff.At(site) {
		if cfgAtomRe.MatchString(a) {
			out = append(out, a)
		}
	}
	sort.Strings(out)
	return out
}

// allFacts: every must-fact at the site (sorted).
func allFacts(c *Ctx, site ssa.Instruction) []string {
	ff := c.F.Analyze(site.Parent())
	var out []string
	for a := range ff.At(site) {
		out = append(out, a)
	}
	sort.Strings(out)
	return out
}

type capEntry struct {
	name  string
	all   []string // every fact at the site (for the "nothing but configuration" obligation)
	conds []string
	pos   string
	value string // for parametrised capabilities: description of the argument
}

// constStringsOfVarargs returns constant strings / formatted strings stored in
// a varargs or slice-literal backing array.
func storedStrings(v ssa.Value) (consts []string, others []ssa.Value) {
	sl, ok := v.(*ssa.Slice)
	if !ok {
		return nil, []ssa.Value{v}
	}
	a, ok := sl.X.(*ssa.Alloc)
	if !ok {
		return nil, []ssa.Value{v}
	}
	for _, r := range referrers(a) {
		ia, ok := r.(*ssa.IndexAddr)
		if !ok {
			continue
		}
		for _, r2 := range referrers(ia) {
			if st, ok := r2.(*ssa.Store); ok && st.Addr == ia {
				if s, ok := constString(st.Val); ok {
					consts = append(consts, s)
				} else {
					others = append(others, st.Val)
				}
			}
		}
	}
	return
}

func extractCaps(c *Ctx, f *ssa.Function) (caps []capEntry, problems []string) {
	allInstrs(f, func(in ssa.Instruction) {
		// slice literal of capability constants
		if a, ok := in.(*ssa.Alloc); ok && a.Comment == "slicelit" && strings.HasSuffix(typeShort(a.Type()), "]string") {
			for _, r := range referrers(a) {
				ia, ok := r.(*ssa.IndexAddr)
				if !ok {
					continue
				}
				for _, r2 := range referrers(ia) {
					st, ok := r2.(*ssa.Store)
					if !ok || st.Addr != ia {
						continue
					}
					if s, ok := constString(st.Val); ok {
						caps = append(caps, capEntry{name: s, all: allFacts(c, st), conds: cfgFacts(c, st), pos: c.P.InstrPos(st)})
					}
				}
			}
			return
		}
		call, ok := in.(*ssa.Call)
		if !ok {
			return
		}
		b, ok := call.Call.Value.(*ssa.Builtin)
		if !ok || b.Name() != "append" || len(call.Call.Args) != 2 {
			return
		}
		if !strings.HasSuffix(typeShort(call.Type()), "[]string") {
			return
		}
		consts, others := storedStrings(call.Call.Args[1])
		for _, s := range consts {
			caps = append(caps, capEntry{name: s, all: allFacts(c, in), conds: cfgFacts(c, in), pos: c.P.InstrPos(in)})
		}
		for _, o := range others {
			switch x := o.(type) {
			case *ssa.Call:
				if g := staticCallee(&x.Call); g != nil && qualFuncName(g) == "fmt.Sprintf" {
					format, _ := constString(x.Call.Args[0])
					caps = append(caps, capEntry{name: format, all: allFacts(c, in), conds: cfgFacts(c, in), pos: c.P.InstrPos(in), value: describeVarargs(x.Call.Args[1])})
					continue
				}
			}
			ls := leafSources(o)
			isAuth := false
			for _, l := range ls {
				if l == `"AUTH"` {
					isAuth = true
				}
			}
			if isAuth {
				caps = append(caps, capEntry{name: "AUTH <mechs>", all: allFacts(c, in), conds: cfgFacts(c, in), pos: c.P.InstrPos(in), value: strings.Join(ls, " | ")})
			} else if d := describe(o); !strings.HasPrefix(d, "slice(") && !strings.Contains(d, "phi{") {
				problems = append(problems, "unrecognised appended value "+d+" at "+c.P.InstrPos(in))
			}
		}
	})
	return
}

var refCaps = map[string][]string{
	"PIPELINING":          {},
	"8BITMIME":            {},
	"ENHANCEDSTATUSCODES": {},
	"CHUNKING":            {},
	"STARTTLS":            {`(*Conn).TLSConnectionState(param0)#1 == false`, `Server.TLSConfig != nil`},
	"AUTH <mechs>":        {`(*Conn).authAllowed(param0) == true`, `builtin:len((*Conn).authMechanisms(param0)) != 0`},
	"SMTPUTF8":            {`Server.EnableSMTPUTF8 == true`},
	"REQUIRETLS":          {`(*Conn).TLSConnectionState(param0)#1 == true`, `Server.EnableREQUIRETLS == true`},
	"BINARYMIME":          {`Server.EnableBINARYMIME == true`},
	"DSN":                 {`Server.EnableDSN == true`},
	"SIZE %v":             {`Server.MaxMessageBytes > 0`},
	"SIZE":                {`Server.MaxMessageBytes <= 0`},
	"LIMITS RCPTMAX=%v":   {`Server.MaxRecipients > 0`},
	"RRVS":                {`Server.EnableRRVS == true`},
}

var refCapValue = map[string]string{"SIZE %v": "Server.MaxMessageBytes", "LIMITS RCPTMAX=%v": "Server.MaxRecipients"}

// evalConj evaluates a conjunction of atoms under an assignment of the base
// atoms (key = atom in positive canonical form).
func atomBase(a string) (string, bool) {
	// returns a canonical positive atom and polarity
	l, op, r, ok := splitAtom(a)
	if !ok {
		return a, true
	}
	switch {
	case r == "true":
		return l, op == "=="
	case r == "false":
		return l, op != "=="
	case r == "nil":
		return l + " != nil", op == "!="
	case op == ">" && r == "0":
		return l + " > 0", true
	case op == "<=" && r == "0":
		return l + " > 0", false
	case op == "!=" && r == "0":
		return l + " != 0", true
	case op == "==" && r == "0":
		return l + " != 0", false
	}
	return a, true
}

func runC12(c *Ctx) {
	R := c.R
	_, s := c.Std()
	f0 := c.A.Func("(*Conn).handleGreet")
	if f0 == nil {
		return
	}
	ruleCapsTable(c)

	ruleAuthAllowedDef(c) // the table's atom authAllowed() must mean "TLS or AllowInsecureAuth"
	ruleAuthOnce(c)       // ... and its atom didAuth must mean "an AUTH succeeded on this connection", nothing weaker

	R.Rule("R-caps-reply", "E3+E4", "the capability list is sent only for EHLO/LHLO; HELO's reply carries the greeting text only", 2)
	var sites250 []ssa.Instruction
	for _, g := range c.withHelpers(f0) {
		sites250 = append(sites250, s.Find(g, "reply:250")...)
	}
	for _, site := range sites250 {
		cc := callCommon(site)
		kind := "helper"
		if ea := replyEnhArg(site); ea != nil {
			kind, _ = enhancedArg(ea)
		}
		direct := isStaticCall(site, "(*Conn).writeResponse")
		if kind == "none" {
			// the greeting's own parameter decides: for a reply written by a helper the question is asked at the
			// helper's call sites in handleGreet
			if site.Parent() != f0 {
				for _, cs := range c.callersOf(site.Parent()) {
					if cs.Parent() == f0 {
						c.obUnreach("capability reply (helper call)", cs, `param1 == false`)
					}
				}
			} else {
				c.obUnreach("capability reply", site, `param1 == false`)
			}
			if direct {
				d := describe(cc.Args[3])
				R.Ob(c.siteKey(site, "capability reply carries the built list"), c.P.InstrPos(site), strings.HasPrefix(d, "builtin:append("), "EHLO reply text is "+d)
			}
		} else {
			if site.Parent() != f0 {
				// a reply helper (c.ok(text) and the like): judged where handleGreet calls it
				for _, cs := range c.callersOf(site.Parent()) {
					if cs.Parent() == f0 {
						c.obUnreach("HELO reply (helper call)", cs, `param1 == true`)
					}
				}
				continue
			}
			c.obUnreach("HELO reply", site, `param1 == true`)
			if direct {
				d := describeVarargs(cc.Args[3])
				R.Ob(c.siteKey(site, "HELO reply lists no capability"), c.P.InstrPos(site), strings.HasPrefix(d, `fmt.Sprintf("Hello %s"`), "HELO reply text is "+d)
			}
		}
	}
	ruleParamEnable(c)
	ruleVerbCaseInsensitive(c)
	ruleParserCursor(c)       // a parameter is accepted/refused by its own rule only if it reaches the parameter switch: also after the null reverse-path
	ruleProtocolErrorSites(c) // "refused with 504": one reply, however many parameters were refused before, and the connection goes on
	// AUTH / STARTTLS handlers use the same predicates as the advertisement
	ruleSizeParam(c) // the advertised SIZE limit is the one MAIL enforces
	ruleNoSharedMutableGlobals(c)

	// after the TLS upgrade the fresh EHLO advertises AUTH again: it is honoured only if the plaintext authentication state was dropped
	ruleTLSSuccessEffects(c)

	R.Rule("R-cmd-gates-agree", "E8 sibling agreement", "the STARTTLS and AUTH handlers accept under the same predicates that advertise them", 2)
	if g := c.A.Func("(*Conn).handleStartTLS"); g != nil {
		for _, site := range s.Find(g, "reply:220") {
			got := cfgFacts(c, site)
			want := append([]string{}, refCaps["STARTTLS"]...)
			sort.Strings(want)
			R.Ob("(*Conn).handleStartTLS/accept condition equals advertisement", c.P.InstrPos(site), strings.Join(got, "&&") == strings.Join(want, "&&"), fmt.Sprintf("STARTTLS accepted under %v, advertised under %v", got, want))
		}
	}
	if g := c.A.Func("(*Conn).handleAuth"); g != nil {
		for _, site := range s.Find(g, "call:(*Conn).auth") {
			// mechanism names are case-insensitive (RFC 4954): the backend is asked for the upper-cased name it advertised
			md := describe(callCommon(site).Args[1])
			R.Ob(c.siteKey(site, "mechanism name is upper-cased"), c.P.InstrPos(site), strings.HasPrefix(md, "strings.ToUpper("), "the backend is asked for mechanism "+md+": an advertised mechanism spelled in lower case is refused")
			got := cfgFacts(c, site)
			R.Ob("(*Conn).handleAuth/accept condition equals advertisement", c.P.InstrPos(site), strings.Join(got, "&&") == `(*Conn).authAllowed(param0) == true`, fmt.Sprintf("AUTH accepted under %v", got))
		}
	}
	// every advertised mechanism is accepted: the AUTH handler hands the (upper-cased) name to the backend's Auth
	// whenever the session supports authentication — it does not filter it against a list of its own
	if g := c.A.Func("(*Conn).auth"); g != nil {
		c.obMustUnder("mechanism decided by the backend", g, []string{"cb:AuthSession.Auth"}, `assert[AuthSession](Conn.session)#1 == true`)
		for _, site := range s.Find(g, "cb:AuthSession.Auth") {
			a := describe(callCommon(site).Args[0])
			R.Ob(c.siteKey(site, "backend asked for the requested mechanism"), c.P.InstrPos(site), a == "param1", "AuthSession.Auth is called with "+a)
		}
	}
	// the advertised RCPTMAX value is the limit the RCPT handler applies, per transaction: refusal exactly when the
	// transaction's own accepted recipients have reached it
	if f := c.A.Func("(*Conn).handleRcpt"); f != nil {
		n452 := 0
		for _, site := range s.Find(f, "reply:452") {
			n452++
			c.obUnreach("reply 452", site, `builtin:len(Conn.recipients) < Server.MaxRecipients`)
			c.obUnreach("reply 452", site, `Server.MaxRecipients <= 0`)
		}
		for _, site := range c.Sites(lRcpt) {
			c.obUnreach("Session.Rcpt", site, `Server.MaxRecipients > 0`, `builtin:len(Conn.recipients) >= Server.MaxRecipients`)
		}
		R.Ob("(*Conn).handleRcpt/recipient limit refusal found", c.P.Pos(f.Pos()), n452 >= 1, "no 452 reply in handleRcpt")
	}
	// the parameter gates compare the keyword with upper-case constants: every keyword parseArgs stores (with or
	// without a value) is upper-cased, so "smtputf8" meets the same gate as "SMTPUTF8" (250 / 504, not 500)
	if f := c.A.Func("parseArgs"); f != nil {
		n := 0
		allInstrs(f, func(in ssa.Instruction) {
			if mu, ok := in.(*ssa.MapUpdate); ok && strings.HasPrefix(describe(mu.Map), "makemap") {
				n++
				R.Ob(c.siteKey(in, "parameter keyword reaches its gate upper-cased"), c.P.InstrPos(in), strings.HasPrefix(describe(mu.Key), "strings.ToUpper("), "parameter keyword stored as "+describe(mu.Key)+": spelled in lower case an enabled extension's parameter is refused as unknown and a disabled one is answered 500 instead of 504")
			}
		})
		R.Ob("parseArgs/keyword stores found", c.P.Pos(f.Pos()), n >= 2, fmt.Sprintf("%d stores", n))
	}
}

type paramGate struct {
	fn, key, flag string
	extra         string // additional value atom (BODY=BINARYMIME)
}

var paramGates = []paramGate{
	{"(*Conn).handleMail", "SMTPUTF8", "Server.EnableSMTPUTF8", ""},
	{"(*Conn).handleMail", "REQUIRETLS", "Server.EnableREQUIRETLS", ""},
	{"(*Conn).handleMail", "BODY", "Server.EnableBINARYMIME", "BINARYMIME"},
	{"(*Conn).handleMail", "RET", "Server.EnableDSN", ""},
	{"(*Conn).handleMail", "ENVID", "Server.EnableDSN", ""},
	{"(*Conn).handleRcpt", "NOTIFY", "Server.EnableDSN", ""},
	{"(*Conn).handleRcpt", "ORCPT", "Server.EnableDSN", ""},
	{"(*Conn).handleRcpt", "RRVS", "Server.EnableRRVS", ""},
}

var keyFactRe = regexp.MustCompile(`^(.*) == "([A-Z0-9]+)"$`)

// keyOf returns the parameter key whose case the site belongs to (the single
// positive `tag == "KEY"` fact with an upper-case constant).
func keyOf(c *Ctx, site ssa.Instruction, tag string) string {
	ff := c.F.Analyze(site.Parent())
	key := ""
	for a := range ff.At(site) {
		if m := keyFactRe.FindStringSubmatch(a); m != nil && m[1] == tag {
			key = m[2]
		}
	}
	return key
}

// switchTag finds the description of the value the parameter switch of f
// compares with upper-case constants.
func switchTag(c *Ctx, f *ssa.Function) (string, []string) {
	count := map[string]map[string]bool{}
	allInstrs(f, func(in ssa.Instruction) {
		bo, ok := in.(*ssa.BinOp)
		if !ok || bo.Op.String() != "==" {
			return
		}
		if k, ok := constString(bo.Y); ok && k != "" && strings.ToUpper(k) == k && regexp.MustCompile(`^[A-Z0-9]+$`).MatchString(k) {
			d := describe(bo.X)
			if count[d] == nil {
				count[d] = map[string]bool{}
			}
			count[d][k] = true
		}
	})
	best := ""
	for d, ks := range count {
		if best == "" || len(ks) > len(count[best]) {
			best = d
		}
	}
	var keys []string
	for k := range count[best] {
		keys = append(keys, k)
	}
	sort.Strings(keys)
	return best, keys
}

func ruleParamEnable(c *Ctx) {
	R := c.R
	_, s := c.Std()
	R.Rule("R-param-enable", "E3 guard facts + table", "each extension parameter is refused with 504 exactly when its flag is false, and the 504 sites are exactly those of the table", 8)
	for _, fn := range []string{"(*Conn).handleMail", "(*Conn).handleRcpt"} {
		f := c.A.Func(fn)
		if f == nil {
			continue
		}
		tag, _ := switchTag(c, f)
		got := map[string]bool{}
		for _, site := range s.Find(f, "reply:504") {
			key := keyOf(c, site, tag)
			var gate *paramGate
			for i := range paramGates {
				if paramGates[i].fn == fn && paramGates[i].key == key {
					gate = &paramGates[i]
				}
			}
			if gate == nil {
				R.Ob(c.siteKey(site, "504 for key "+key), c.P.InstrPos(site), false, "504 refusal for parameter "+key+" which the property does not gate by a flag")
				continue
			}
			got[key] = true
			cf := cfgFacts(c, site)
			R.Ob(fn+"/504 for "+key+" iff flag off", c.P.InstrPos(site), len(cf) == 1 && cf[0] == gate.flag+" == false", fmt.Sprintf("504 for %s is sent under %v, want {%s == false}", key, cf, gate.flag))
			if gate.extra != "" {
				ok, _ := c.factMatch(site, `== "`+gate.extra+`"$`)
				R.Ob(fn+"/504 for "+key+" only for value "+gate.extra, c.P.InstrPos(site), ok, "504 for "+key+" is not limited to the value "+gate.extra)
			}
		}
		for _, g := range paramGates {
			if g.fn == fn && !got[g.key] {
				R.Ob(fn+"/504 for "+g.key+" iff flag off", c.P.Pos(f.Pos()), false, "parameter "+g.key+" of a disabled extension is not refused with 504")
			}
		}
		// under flag==false and key==K, every path replies 504 (edge feasibility, per gate)
		for _, g := range paramGates {
			if g.fn != fn {
				continue
			}
			for _, site := range s.Find(f, "reply:504") {
				if keyOf(c, site, tag) == g.key {
					c.obUnreach("504 for "+g.key, site, g.flag+" == true")
				}
			}
		}
	}
	R.Rule("R-param-accept-no-other-config", "E3 guard facts", "the accepting continuation of each gated parameter depends on its own flag only", 8)
	type acc struct{ label, flag string }
	for _, a := range []acc{
		{"st:MailOptions.UTF8", "Server.EnableSMTPUTF8"}, {"st:MailOptions.RequireTLS", "Server.EnableREQUIRETLS"},
		{"st:Conn.binarymime=true", "Server.EnableBINARYMIME"}, {"st:MailOptions.Return", "Server.EnableDSN"}, {"st:MailOptions.EnvelopeID", "Server.EnableDSN"},
		{"st:RcptOptions.Notify", "Server.EnableDSN"}, {"st:RcptOptions.OriginalRecipient", "Server.EnableDSN"}, {"st:RcptOptions.RequireRecipientValidSince", "Server.EnableRRVS"},
	} {
		sites := c.Sites(a.label)
		if len(sites) == 0 {
			R.Ob(a.label+"/accept site exists", "-", false, "no store "+a.label+": the advertised parameter is never accepted")
		}
		for _, site := range sites {
			if !strings.HasPrefix(funcName(site.Parent()), "(*Conn).handle") {
				continue
			}
			cf := cfgFacts(c, site)
			R.Ob(c.siteKey(site, a.label+" under its flag only"), c.P.InstrPos(site), len(cf) == 1 && cf[0] == a.flag+" == true", fmt.Sprintf("%s is reached under %v, want {%s == true}", a.label, cf, a.flag))
		}
	}
}

// capsFunc: the function that builds the EHLO capability list — handleGreet itself or a helper of it (the one that
// stores the "PIPELINING" constant).
func capsFunc(c *Ctx) *ssa.Function {
	f0 := c.A.Func("(*Conn).handleGreet")
	if f0 == nil {
		return nil
	}
	for _, g := range c.withHelpers(f0) {
		found := false
		allInstrs(g, func(in ssa.Instruction) {
			if st, ok := in.(*ssa.Store); ok {
				if k, ok := constString(st.Val); ok && k == "PIPELINING" {
					found = true
				}
			}
		})
		if found {
			return g
		}
	}
	return f0
}

// verbTag: how the dispatcher's switch describes the command verb it compares with the upper-case constants —
// `strings.ToUpper(param1)` on the tree as it is; `param1` if the (redundant: parseCmd already upper-cases the verb)
// conversion in handle is dropped.
func verbTag(c *Ctx) string {
	if f := c.A.Func("(*Conn).handle"); f != nil {
		if tag, keys := switchTag(c, f); tag != "" && len(keys) >= 10 {
			if tag == "param1" || tag == "strings.ToUpper(param1)" {
				return tag
			}
		}
	}
	return "strings.ToUpper(param1)"
}

// ruleCapsTable (C12, C14): the capability table of the EHLO reply against the configuration, over all configurations.
// C14 needs it because the client sends an option only for an advertised extension and drops RRVS, DSN, SIZE and AUTH
// parameters silently otherwise: an enabled extension that is not advertised under some configuration loses the
// option on the way to the backend.
func ruleCapsTable(c *Ctx) {
	R := c.R
	f := capsFunc(c)
	R.Rule("R-caps-table", "E8 table agreement + E3 guard facts", "each capability is listed under exactly the configuration condition the property states, on all configurations; parametrised capabilities carry the configured values; nothing else is listed", 14)
	caps, problems := extractCaps(c, f)
	for _, p := range problems {
		R.Und("(*Conn).handleGreet/capability value", "-", p)
	}
	seen := map[string]int{}
	var rows []string
	baseAtoms := map[string]bool{}
	for _, ce := range caps {
		if strings.HasPrefix(ce.name, "Hello ") {
			continue // greeting text line, not a capability
		}
		seen[ce.name]++
		rows = append(rows, fmt.Sprintf("%s <= %v", ce.name, ce.conds))
		want, known := refCaps[ce.name]
		if !known {
			R.Ob("(*Conn).handleGreet/capability "+ce.name, ce.pos, false, "capability "+ce.name+" is not in the property's list")
			continue
		}
		w := append([]string{}, want...)
		sort.Strings(w)
		ok := strings.Join(w, " && ") == strings.Join(ce.conds, " && ")
		R.Ob("(*Conn).handleGreet/capability "+ce.name, ce.pos, ok, fmt.Sprintf("%s is advertised when {%s}; the property requires {%s}", ce.name, strings.Join(ce.conds, " && "), strings.Join(w, " && ")))
		if v, has := refCapValue[ce.name]; has {
			R.Ob("(*Conn).handleGreet/value of "+ce.name, ce.pos, ce.value == v, ce.name+" is rendered from "+ce.value+", want "+v)
		}
		for _, a := range ce.conds {
			b, _ := atomBase(a)
			baseAtoms[b] = true
		}
		for _, a := range want {
			b, _ := atomBase(a)
			baseAtoms[b] = true
		}
	}
	for name := range refCaps {
		if seen[name] != 1 {
			R.Ob("(*Conn).handleGreet/capability "+name+" listed once", c.P.Pos(f.Pos()), false, fmt.Sprintf("capability %s is appended %d times", name, seen[name]))
		}
	}
	// exhaustive truth-table comparison over all assignments of the base atoms
	var atoms []string
	for a := range baseAtoms {
		atoms = append(atoms, a)
	}
	sort.Strings(atoms)
	nCfg, nDis := 0, 0
	firstDis := ""
	if len(atoms) <= 16 {
		for m := 0; m < 1<<len(atoms); m++ {
			asg := map[string]bool{}
			for i, a := range atoms {
				asg[a] = m&(1<<i) != 0
			}
			eval := func(conds []string) bool {
				for _, a := range conds {
					b, pol := atomBase(a)
					if asg[b] != pol {
						return false
					}
				}
				return true
			}
			nCfg++
			for _, ce := range caps {
				want, known := refCaps[ce.name]
				if !known {
					continue
				}
				if eval(ce.conds) != eval(want) {
					nDis++
					if firstDis == "" {
						firstDis = fmt.Sprintf("%s under %v", ce.name, asg)
					}
				}
			}
		}
	}
	// nothing but the configuration decides: besides the configuration atoms, a capability's site may only carry the
	// facts that hold for the whole list (those of the first, unconditional entry: "this is EHLO", "the argument
	// parsed") — an entry that also depends on connection state (already authenticated, a transaction open, …) is
	// advertised under fewer circumstances than the property states
	if len(caps) > 0 {
		base := map[string]bool{}
		for _, a := range caps[0].all {
			base[a] = true
		}
		for _, ce := range caps {
			var extra []string
			for _, a := range ce.all {
				if base[a] || cfgAtomRe.MatchString(a) || strings.Contains(a, "loopvar:") {
					continue
				}
				extra = append(extra, a)
			}
			R.Ob("(*Conn).handleGreet/capability "+ce.name+" depends on the configuration only", ce.pos, len(extra) == 0, fmt.Sprintf("%s is listed only when also %v: the property lets nothing but the configuration and the TLS state decide", ce.name, extra))
		}
	}
	R.Extra["capability_table"] = rows
	R.Extra["configurations_enumerated"] = nCfg
	R.Extra["config_atoms"] = atoms
	R.Ob("(*Conn).handleGreet/truth table over all configurations", c.P.Pos(f.Pos()), nDis == 0 && nCfg > 0, fmt.Sprintf("%d disagreements over %d configurations, first: %s", nDis, nCfg, firstDis))
}

// ruleVerbCaseInsensitive (C12, C04): command verbs are recognised whatever their case — "every advertised extension's
// command is then accepted" includes `starttls`. In parseCmd and in the dispatcher every comparison of input text with
// a constant that contains letters is made on an upper-cased (or lower-cased) copy, or with EqualFold.
func ruleVerbCaseInsensitive(c *Ctx) {
	R := c.R
	R.Rule("R-verb-case-insensitive", "E4 value shape", "parseCmd and the dispatcher compare input text with verb constants only after strings.ToUpper (or by EqualFold): STARTTLS and every other verb are accepted in any case", 10)
	hasLetter := func(k string) bool {
		for _, r := range k {
			if r >= 'A' && r <= 'Z' || r >= 'a' && r <= 'z' {
				return true
			}
		}
		return false
	}
	var folded func(v ssa.Value) bool
	folded = func(v ssa.Value) bool {
		d := describe(v)
		if strings.HasPrefix(d, "strings.ToUpper(") || strings.HasPrefix(d, "strings.ToLower(") {
			return true
		}
		// a parameter that every caller fills with a folded value: the dispatcher's verb comes from parseCmd, whose
		// first result is a constant or strings.ToUpper(...) on every accepting return
		if p, isP := v.(*ssa.Parameter); isP {
			idx := -1
			for i, q := range p.Parent().Params {
				if q == p {
					idx = i
				}
			}
			callers := c.callersOf(p.Parent())
			if idx < 0 || len(callers) == 0 {
				return false
			}
			for _, cs := range callers {
				cc := callCommon(cs)
				if cc == nil || idx >= len(cc.Args) {
					return false
				}
				ex, isEx := stripConv(cc.Args[idx]).(*ssa.Extract)
				if !isEx {
					return false
				}
				call, isCall := ex.Tuple.(*ssa.Call)
				if !isCall {
					return false
				}
				g := staticCallee(&call.Call)
				if g == nil || !inSmtp(g) {
					return false
				}
				okAll := true
				allInstrs(g, func(in ssa.Instruction) {
					r, isR := in.(*ssa.Return)
					if !isR || in.Block() == g.Recover {
						return
					}
					rv := returnedValues(r)
					if ex.Index >= len(rv) {
						okAll = false
						return
					}
					if _, isK := constString(rv[ex.Index]); isK {
						return
					}
					rd := describe(rv[ex.Index])
					if !(strings.HasPrefix(rd, "strings.ToUpper(") || strings.HasPrefix(rd, "strings.ToLower(")) {
						okAll = false
					}
				})
				if !okAll {
					return false
				}
			}
			return true
		}
		return false
	}
	n := 0
	for _, fn := range []string{"parseCmd", "(*Conn).handle"} {
		f := c.A.Func(fn)
		if f == nil {
			continue
		}
		allInstrs(f, func(in ssa.Instruction) {
			var other ssa.Value
			var k string
			switch x := in.(type) {
			case *ssa.BinOp:
				if x.Op != token.EQL && x.Op != token.NEQ {
					return
				}
				if s, ok := constString(x.Y); ok {
					other, k = x.X, s
				} else if s, ok := constString(x.X); ok {
					other, k = x.Y, s
				} else {
					return
				}
			case *ssa.Call:
				g := staticCallee(&x.Call)
				if g == nil || g.Pkg == nil || g.Pkg.Pkg.Path() != "strings" || len(x.Call.Args) != 2 {
					return
				}
				switch g.Name() {
				case "HasPrefix", "HasSuffix", "Contains", "Index", "CutPrefix":
				default:
					return
				}
				s, ok := constString(x.Call.Args[1])
				if !ok {
					return
				}
				other, k = x.Call.Args[0], s
			default:
				return
			}
			if !hasLetter(k) {
				return
			}
			if _, isConst := constString(other); isConst {
				return
			}
			n++
			R.Ob(c.siteKey(in, fmt.Sprintf("comparison with %q is case-insensitive", k)), c.P.InstrPos(in), folded(other), fmt.Sprintf("%s compares %s with %q as it was sent: the verb is recognised in upper case only (a client sending it in lower or mixed case gets a syntax error although the extension is advertised)", fn, describe(other), k))
		})
	}
	R.Ob("verbs/comparisons found", "-", n >= 10, fmt.Sprintf("%d comparisons with verb constants found", n))
}
