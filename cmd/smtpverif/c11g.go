package main

import (
	"fmt"
	"regexp"
	"strings"

	"golang.org/x/tools/go/ssa"
)

// acceptingReturns: returns of f whose last result is a nil error (or the constant true for bool-verdict helpers).
func acceptingReturns(f *ssa.Function) []ssa.Instruction {
	var out []ssa.Instruction
	allInstrs(f, func(in ssa.Instruction) {
		r, ok := in.(*ssa.Return)
		if !ok || in.Block() == f.Recover {
			return
		}
		rv := returnedValues(r)
		if len(rv) == 0 {
			return
		}
		last := rv[len(rv)-1]
		if isNilConst(last) {
			out = append(out, in)
			return
		}
		if b, isB := constBool(last); isB && b {
			out = append(out, in)
		}
	})
	return out
}

// ruleGrammarGuards (C11): the refusing side of the MAIL/RCPT grammar. For every syntactic condition under which
// the property demands a refusal, the accepting exit of the parser / decoder concerned is unreachable. These are
// necessary conditions, one per clause of the grammar as this implementation states it; they do not establish that
// the accepted language equals RFC 5321's.
func ruleGrammarGuards(c *Ctx) {
	R := c.R
	R.Rule("R-grammar-guards", "E3 edge-feasibility", "each malformed shape of a path or parameter value (empty local part or domain, unbalanced '<', special characters in a dot-string, incomplete or out-of-range escapes, empty or unknown address type, non-ASCII rfc822 address, NEVER combined, duplicates, empty AUTH) makes the accepting exit of its parser unreachable", 30)
	type g struct {
		fn   string
		H    []string
		what string
	}
	lp := `(*parser).parseLocalPart(param0)`
	sn := `strings.SplitN(param0,";",2)`
	guards := []g{
		{"(*parser).parseMailbox", []string{lp + `#1 != nil`}, "local part failed"},
		{"(*parser).parseMailbox", []string{lp + `#0 == ""`}, "empty local part"},
		{"(*parser).parseMailbox", []string{`(*parser).expectByte(param0,64) != nil`}, "missing '@'"},
		{"(*parser).parseMailbox", []string{`strings.HasSuffix((*strings.Builder).String(alloc:strings.Builder),"@") == true`}, "empty domain"},
		{"(*parser).parsePath", []string{`(*parser).parseMailbox(param0)#1 != nil`}, "mailbox failed"},
		{"(*parser).parsePath", []string{`(*parser).acceptByte(param0,60) == true`, `(*parser).expectByte(param0,62) != nil`}, "'<' without '>'"},
		{"(*parser).parsePath", []string{`(*parser).acceptByte(param0,64) == true`, `strings.IndexByte(parser.s,58) < 0`}, "source route without ':'"},
		{"decodeXtext$1", []string{`builtin:len(param0) != 3`}, "incomplete hexchar"},
		{"decodeXtext$1", []string{`strconv.ParseInt(param0,16,8)#1 != nil`}, "hexchar out of range"},
		{"decodeTypedAddress", []string{`builtin:len(` + sn + `) != 2`}, "no ';'"},
		{"decodeTypedAddress", []string{sn + `[0] == ""`}, "empty address type"},
		{"decodeTypedAddress", []string{sn + `[1] == ""`}, "empty address"},
		{"decodeTypedAddress", []string{`strings.ToUpper(` + sn + `[0]) == "RFC822"`, `isPrintableASCII(decodeXtext(` + sn + `[1])#0) == false`}, "non-ASCII rfc822 address"},
		{"decodeTypedAddress", []string{`strings.ToUpper(` + sn + `[0]) == "RFC822"`, `decodeXtext(` + sn + `[1])#1 != nil`}, "bad xtext"},
		{"decodeTypedAddress", []string{`strings.ToUpper(` + sn + `[0]) == "UTF-8"`, `strings.ToUpper(` + sn + `[0]) != "RFC822"`, `decodeUTF8AddrXtext(` + sn + `[1])#1 != nil`}, "bad utf-8-addr-xtext"},
		{"checkNotifySet", []string{`builtin:len(param0) == 0`}, "empty NOTIFY"},
		{"checkNotifySet", []string{`makemap["NEVER"]#1 == true`, `builtin:len(makemap) > 1`}, "NEVER combined with other values"},
		{"cutPrefixFold", []string{`builtin:len(param0) < builtin:len(param1)`}, "line shorter than the keyword"},
		{"cutPrefixFold", []string{`strings.EqualFold(slice(param0),param1) == false`}, "keyword mismatch"},
	}
	for _, gd := range guards {
		f := c.A.Func(gd.fn)
		if f == nil {
			continue
		}
		acc := acceptingReturns(f)
		if strings.HasSuffix(gd.fn, "$1") {
			// replacement closures: the accepting exit is the return of a non-constant string
			acc = nil
			allInstrs(f, func(in ssa.Instruction) {
				if r, ok := in.(*ssa.Return); ok && len(r.Results) == 1 {
					if _, isK := r.Results[0].(*ssa.Const); !isK {
						acc = append(acc, in)
					}
				}
			})
		}
		R.Ob(gd.fn+"/has an accepting exit ("+gd.what+")", c.P.Pos(f.Pos()), len(acc) >= 1, "no accepting return found")
		for _, a := range acc {
			c.obUnreach("accepted although "+gd.what, a, gd.H...)
		}
	}
	// duplicates in NOTIFY: the loop continues only for an element not seen before
	if f := c.A.Func("checkNotifySet"); f != nil {
		n := 0
		allInstrs(f, func(in ssa.Instruction) {
			if mu, ok := in.(*ssa.MapUpdate); ok {
				n++
				c.obFactMatch("NOTIFY element recorded only when new", mu, `^makemap\[.*\]#1 == false$`, "a repeated NOTIFY keyword is accepted")
			}
		})
		R.Ob("checkNotifySet/records seen elements", c.P.Pos(f.Pos()), n >= 1, "no set of seen elements")
	}
	// character classes: what the loops let through
	type cls struct {
		fn    string
		scope string // a fact that must hold at the consuming site to select the loop
		want  []int64
		what  string
	}
	for _, cl := range []cls{
		{"(*parser).parseLocalPart", `(*parser).acceptByte(param0,34) == false`, []int64{'@', '(', ')', '<', '>', '[', ']', ':', ';', '\\', ',', '"', ' ', '\t'}, "dot-string"},
		{"(*parser).parseMailbox", `(*parser).expectByte(param0,64) == nil`, []int64{' ', '\t', '>'}, "domain"},
	} {
		f := c.A.Func(cl.fn)
		if f == nil {
			continue
		}
		n := 0
		allInstrs(f, func(in ssa.Instruction) {
			if !isStaticCall(in, "(*parser).readByte") {
				return
			}
			ff := c.F.Analyze(f)
			if !ff.At(in)[canonAtom(cl.scope)] && !ff.At(in)[cl.scope] {
				return
			}
			n++
			for _, k := range cl.want {
				ok, _ := c.factMatch(in, fmt.Sprintf(`^\(\*parser\)\.peekByte\(param0\)#0 != %d$`, k))
				R.Ob(c.siteKey(in, fmt.Sprintf("%s stops at %q", cl.what, rune(k))), c.P.InstrPos(in), ok, fmt.Sprintf("the %s loop consumes %q: a malformed path is accepted", cl.what, rune(k)))
			}
		})
		R.Ob(cl.fn+"/"+cl.what+" loop found", c.P.Pos(f.Pos()), n >= 1, "no consuming site of the "+cl.what+" loop recognised")
	}
	// AUTH=<> / empty: the decoded value must be non-empty
	if f := c.A.Func("(*Conn).handleMail"); f != nil {
		_, s := c.Std()
		// the edge on which the decoded AUTH value is empty leads to a 5xx and never to the store
		nEdge := 0
		ff := c.F.Analyze(f)
		for _, b := range f.Blocks {
			for _, sc := range b.Succs {
				hit := false
				for _, a := range c.F.edgeAtoms(b, sc) {
					if localStringEmpty.MatchString(a) || a == `decodeXtext(next#2)#0 == ""` {
						hit = true
					}
				}
				if !hit || len(b.Instrs) == 0 || !ff.At(b.Instrs[len(b.Instrs)-1])[`next#1 == "AUTH"`] || len(sc.Instrs) == 0 {
					continue
				}
				nEdge++
				first := sc.Instrs[0]
				v := RunPend(f, PendRule{
					Trig:  func(in ssa.Instruction) bool { return in == first },
					Disch: c.mustDo("reply:5xx"),
					Forbid: func(in ssa.Instruction) bool {
						return labelHas(c.stdLabels(in), "st:MailOptions.Auth") || labelHas(c.stdLabels(in), lMail)
					},
					AtExit: true,
				})
				R.Ob(fmt.Sprintf("(*Conn).handleMail/empty AUTH value is refused#%d", nEdge), c.P.InstrPos(first), len(v) == 0, "an AUTH parameter that decodes to the empty string (\"AUTH=\") is not refused with 5xx")
			}
		}
		R.Ob("(*Conn).handleMail/tests the decoded AUTH value for emptiness", c.P.Pos(f.Pos()), nEdge >= 1, "no branch on an empty decoded AUTH value: a bare \"AUTH=\" is accepted")
		_ = s
	}
	// utf-8-addr-xtext: the decoder accepts an embedded \x{HEX} exactly for RFC 6533's HEXPOINT forms
	if dec, derr := newUTF8Decoder(c); derr != "" {
		R.Und("decodeUTF8AddrXtext/acceptance table", "-", derr)
	} else {
		ref := func(k int, v int64) bool {
			switch k {
			case 2:
				return 0x01 <= v && v <= 0x09 || 0x11 <= v && v <= 0x19 || v == 0x10 || v == 0x20 || v == 0x2B || v == 0x3D || v == 0x7F || v == 0x5C || 0x80 <= v && v <= 0xFF
			case 3:
				return 0x100 <= v && v <= 0xFFF
			case 4:
				return 0x1000 <= v && v <= 0xD7FF || 0xE000 <= v && v <= 0xFFFF
			case 5:
				return 0x10000 <= v && v <= 0xFFFFF
			case 6:
				return 0x100000 <= v && v <= 0x10FFFF
			}
			return false
		}
		pts := []int64{0, 1, 9, 0xA, 0xF, 0x10, 0x11, 0x19, 0x1A, 0x1F, 0x20, 0x21, 0x2A, 0x2B, 0x2C, 0x3C, 0x3D, 0x3E, 0x41, 0x5B, 0x5C, 0x5D, 0x7E, 0x7F, 0x80, 0xFF, 0x100, 0xFFF, 0x1000, 0xD7FF, 0xD800, 0xDFFF, 0xE000, 0xFFFF, 0x10000, 0xFFFFF, 0x100000, 0x10FFFF, 0x110000, 0x1FFFFF}
		bad := ""
		n := 0
		for k := 1; k <= 7 && bad == ""; k++ {
			for _, v := range pts {
				// a value needs at least its own number of hex digits
				minDigits := 1
				for x := v; x >= 16; x >>= 4 {
					minDigits++
				}
				if k < minDigits {
					continue
				}
				n++
				got, why := dec.accepts(k, v)
				if strings.HasPrefix(why, "undecided") {
					bad = fmt.Sprintf("\\x{%0*X}: %s", k, v, why)
					break
				}
				if got != ref(k, v) {
					bad = fmt.Sprintf("\\x{%0*X} (%d hex digits) is %s by the decoder but RFC 6533 HEXPOINT says %s", k, v, k, map[bool]string{true: "accepted", false: "refused"}[got], map[bool]string{true: "accept", false: "refuse"}[ref(k, v)])
					break
				}
			}
		}
		R.Ob("decodeUTF8AddrXtext/accepts exactly the HEXPOINT forms", c.P.Pos(dec.f.Pos()), bad == "", bad)
		R.Note("utf-8-addr-xtext acceptance compared with the reference at %d (digits, value) points", n)
	}
	// a source route is skipped up to and including its ':'
	if f := c.A.Func("(*parser).parsePath"); f != nil {
		_, s := c.Std()
		nSkip := 0
		for _, st := range s.Find(f, "st:parser.s") {
			sto := st.(*ssa.Store)
			sl, ok := sto.Val.(*ssa.Slice)
			if !ok {
				continue
			}
			nSkip++
			lowOK := sl.Low != nil && describe(sl.Low) == "(strings.IndexByte(parser.s,58) + 1)" && sl.High == nil
			R.Ob(c.siteKey(st, "source route skipped through ':'"), c.P.InstrPos(st), lowOK, "after '@', the rest of the path starts at "+describe(sl.Low)+": the ':' ending the source route is not skipped and a well-formed path is refused")
		}
		R.Ob("(*parser).parsePath/skips a source route", c.P.Pos(f.Pos()), nSkip >= 1, "no skip of the source route found")
	}
	// what the decoders hand out is what they decoded: no raw pass-through of the wire form
	if f := c.A.Func("decodeUTF8AddrXtext"); f != nil {
		for _, a := range acceptingReturns(f) {
			d := describe(returnedValues(a.(*ssa.Return))[0])
			R.Ob(c.siteKey(a, "result comes from the replacement over the whole value"), c.P.InstrPos(a), strings.Contains(d, "ReplaceAllStringFunc(eUOrDCharRe,param0,"), "decodeUTF8AddrXtext returns "+d)
		}
	}
	// the greeting argument
	if f := c.A.Func("parseHelloArgument"); f != nil {
		for _, a := range acceptingReturns(f) {
			r := a.(*ssa.Return)
			d := describe(returnedValues(r)[0])
			ok, _ := c.factMatch(a, "^"+regexpQuote(d)+` != ""$`)
			R.Ob(c.siteKey(a, "greeting name is not empty"), c.P.InstrPos(a), ok, "parseHelloArgument accepts an empty name ("+d+" not known to be non-empty)")
		}
	}
	// printable ASCII means 0x20..0x7E
	if f := c.A.Func("isPrintableASCII"); f != nil {
		lo, hi := false, false
		for _, b := range f.Blocks {
			for _, sc := range b.Succs {
				for _, a := range c.F.edgeAtoms(b, sc) {
					isLo := a == "next#2 <= 31" || a == "32 > next#2" || a == "31 >= next#2"
					isHi := a == "next#2 > 126" || a == "126 < next#2" || a == "127 <= next#2"
					if !isLo && !isHi {
						continue
					}
					// that edge must end in "return false"
					rejects := false
					if len(sc.Instrs) > 0 {
						if r, ok := sc.Instrs[len(sc.Instrs)-1].(*ssa.Return); ok && len(r.Results) == 1 {
							if bv, isB := constBool(r.Results[0]); isB && !bv {
								rejects = true
							}
						}
					}
					if isLo && rejects {
						lo = true
					}
					if isHi && rejects {
						hi = true
					}
				}
			}
		}
		R.Ob("isPrintableASCII/bounds are 0x20 and 0x7E", c.P.Pos(f.Pos()), lo && hi, "the range test of isPrintableASCII is not (ch < 0x20 || ch > 0x7E)")
	}
	// the command verb is separated from its argument by a space
	if f := c.A.Func("parseCmd"); f != nil {
		for _, a := range acceptingReturns(f) {
			r := a.(*ssa.Return)
			// verbs are case-insensitive: what parseCmd hands to the dispatcher is upper-cased (or a constant)
			vd := describe(returnedValues(r)[0])
			_, isK := returnedValues(r)[0].(*ssa.Const)
			R.Ob(c.siteKey(a, "verb is upper-cased"), c.P.InstrPos(a), isK || strings.HasPrefix(vd, "strings.ToUpper("), "parseCmd returns the verb as "+vd+": a lower-case command (mail from:) is not recognised")
			if k, isK := r.Results[1].(*ssa.Const); isK && k.Value != nil {
				continue // no argument
			}
			c.obUnreach("verb with argument", a, `strings.TrimRight(param0,"\r\n")[4] != 32`)
		}
	}
}

func regexpQuote(s string) string {
	var sb strings.Builder
	for _, ch := range s {
		if strings.ContainsRune(`\.+*?()|[]{}^$`, ch) {
			sb.WriteByte('\\')
		}
		sb.WriteRune(ch)
	}
	return sb.String()
}

// ruleOptsPointerFresh (C11, C14): a pointer handed to the backend inside MailOptions / RcptOptions must point to
// a variable that is created anew in the iteration that stores it. The module's language version is below 1.22, so a
// range variable is one cell shared by all iterations: a pointer to it shows the value of whatever parameter the
// loop visited last.
func ruleOptsPointerFresh(c *Ctx) {
	R := c.R
	R.Rule("R-opts-pointer-fresh", "E4 escape of loop-shared cells", "no pointer field of the options handed to the backend points to a cell that outlives one iteration of the parameter loop", 1)
	n := 0
	for _, fn := range []string{"(*Conn).handleMail", "(*Conn).handleRcpt"} {
		f := c.A.Func(fn)
		if f == nil {
			continue
		}
		loops := findLoops(f)
		allInstrs(f, func(in ssa.Instruction) {
			fld, base, v := storedField(in)
			if fld == nil {
				return
			}
			bt := typeShort(base.Type())
			if bt != "*MailOptions" && bt != "*RcptOptions" {
				return
			}
			a, ok := stripConv(v).(*ssa.Alloc)
			if !ok {
				return
			}
			n++
			shared := ""
			for _, li := range loops {
				if li.blocks[in.Block()] && !li.blocks[a.Block()] {
					shared = c.P.Pos(firstPos(li.header))
				}
			}
			R.Ob(c.siteKey(in, fld.Name()+" points to a per-iteration variable"), c.P.InstrPos(in), shared == "",
				fmt.Sprintf("%s.%s is set to the address of %q, which is allocated outside the loop at %s and therefore shared by all its iterations: parameters visited later overwrite what the backend reads", bt[1:], fld.Name(), a.Comment, shared))
		})
	}
	R.Ob("options/pointer fields found", "-", n >= 1, "no pointer field store recognised")
}

// ruleXtextDecodesEveryPlus (C11, C14): decodeXtext may hand back its input undecoded only when the input contains
// no '+' at all; every other accepting result comes out of the hexchar replacement.
func ruleXtextDecodesEveryPlus(c *Ctx) {
	R := c.R
	R.Rule("R-xtext-decodes-every-plus", "E3+E4", "decodeXtext returns its argument unchanged only when it contains no '+'; otherwise the result is built by the hexchar replacement over the value", 2)
	f := c.A.Func("decodeXtext")
	if f == nil {
		return
	}
	nRaw, nDec := 0, 0
	for _, a := range acceptingReturns(f) {
		r := a.(*ssa.Return)
		d := describe(returnedValues(r)[0])
		if d == "param0" {
			nRaw++
			r1, _ := c.ReachableUnder(a, []string{`strings.Contains(param0,"+") == true`})
			r2, _ := c.ReachableUnder(a, []string{`strings.IndexByte(param0,43) >= 0`})
			R.Ob(c.siteKey(a, "undecoded result only without '+'"), c.P.InstrPos(a), !r1 || !r2,
				"decodeXtext can return its argument as it is although the argument contains a '+' (for example as its first character): the hexchar is neither decoded nor validated and the backend receives the wire form")
			continue
		}
		nDec++
		R.Ob(c.siteKey(a, "decoded result comes from the hexchar replacement"), c.P.InstrPos(a), strings.Contains(d, "ReplaceAllStringFunc(hexcharRe,param0,"), "decodeXtext returns "+d+": the replacement does not run over the whole value")
	}
	R.Ob("decodeXtext/has a decoding result", c.P.Pos(f.Pos()), nDec >= 1, "no accepting return fed by the hexchar replacement")
	_ = nRaw
	// the replacement sees EVERY '+': the pattern matches a bare '+' (shortest match one octet), so an incomplete
	// hexchar reaches the callback, which refuses it; a pattern that only matches complete "+HH" lets "+", "+4",
	// "+tag" through as literal text
	pat, alts, problem := regexpAltLens(c, "hexcharRe")
	okPat := problem == "" && len(alts) == 1 && alts[0][0] == 1 && strings.HasPrefix(pat, `\+`)
	R.Ob("hexcharRe/matches every '+', complete or not", c.P.Pos(f.Pos()), okPat, fmt.Sprintf("pattern %q (match lengths %v, %s): a '+' that is not followed by two hex digits is not matched, so it is copied through instead of being refused", pat, alts, problem))
}

// rulePathBytesPassThrough (C14, C11): the scanning loops of the path parser decide about an octet only by comparing
// it with ASCII constants, and the facts that hold where an octet is consumed are exactly "it is none of the stop
// characters". Everything else — in particular every octet >= 0x80 of a UTF-8 mailbox — is taken over unchanged.
func rulePathBytesPassThrough(c *Ctx) {
	R := c.R
	R.Rule("R-path-bytes-pass-through", "E4 value uses", "in parseMailbox and parseLocalPart the peeked/read octet is only compared with ASCII constants, written to the result or handed to the parser's own byte helpers: no classification function decides about single octets of a UTF-8 string, and the consuming sites exclude exactly the stop characters", 2)
	type want struct {
		fn    string
		scope string
		stops map[int64]bool
	}
	mk := func(xs ...int64) map[int64]bool {
		m := map[int64]bool{}
		for _, x := range xs {
			m[x] = true
		}
		return m
	}
	for _, w := range []want{
		{"(*parser).parseMailbox", `(*parser).expectByte(param0,64) == nil`, mk(' ', '\t', '>')},
		{"(*parser).parseLocalPart", `(*parser).acceptByte(param0,34) == false`, mk('@', '(', ')', '<', '>', '[', ']', ':', ';', '\\', ',', '"', ' ', '\t')},
	} {
		f := c.A.Func(w.fn)
		if f == nil {
			continue
		}
		// 1. uses of the octet values
		nVals := 0
		allInstrs(f, func(in ssa.Instruction) {
			ex, ok := in.(*ssa.Extract)
			if !ok || ex.Index != 0 {
				return
			}
			call, ok := ex.Tuple.(*ssa.Call)
			if !ok {
				return
			}
			g := staticCallee(&call.Call)
			if g == nil || (qualFuncName(g) != "(*parser).peekByte" && qualFuncName(g) != "(*parser).readByte") {
				return
			}
			nVals++
			var visit func(v ssa.Value, depth int)
			visit = func(v ssa.Value, depth int) {
				if depth > 4 {
					return
				}
				for _, r := range referrers(v) {
					switch x := r.(type) {
					case *ssa.BinOp:
						other := x.Y
						if other == v {
							other = x.X
						}
						k, isK := constInt(other)
						R.Ob(c.siteKey(x, "octet compared with an ASCII constant"), c.P.InstrPos(x), isK && k >= 0 && k < 0x80 && (x.Op.String() == "==" || x.Op.String() == "!="), "the octet is used in "+describe(x)+": a comparison other than (in)equality with an ASCII constant classifies UTF-8 continuation octets")
					case *ssa.Phi:
						visit(x, depth+1)
					case *ssa.Convert, *ssa.ChangeType:
						visit(x.(ssa.Value), depth+1)
					case *ssa.Call:
						callee := staticCallee(&x.Call)
						okCall := callee != nil && (qualFuncName(callee) == "(*strings.Builder).WriteByte" || strings.HasPrefix(qualFuncName(callee), "(*parser)."))
						R.Ob(c.siteKey(x, "octet handed only to the builder or the parser's own helpers"), c.P.InstrPos(x), okCall, "the octet is passed to "+describe(x.Call.Value)+": single octets of a UTF-8 string must not be classified by a function working on characters (unicode.IsSpace(rune(ch)) is true for the continuation octets 0x85 and 0xA0)")
					case *ssa.DebugRef, *ssa.Extract, *ssa.If, *ssa.Return, *ssa.Store, *ssa.MakeInterface:
					}
				}
			}
			visit(ex, 0)
		})
		R.Ob(w.fn+"/octet values found", c.P.Pos(f.Pos()), nVals >= 1, "no peekByte/readByte result found")
		// 2. at the consuming site, the excluded values are exactly the stop characters
		allInstrs(f, func(in ssa.Instruction) {
			if !isStaticCall(in, "(*parser).readByte") {
				return
			}
			ff := c.F.Analyze(f)
			if !ff.At(in)[canonAtom(w.scope)] && !ff.At(in)[w.scope] {
				return
			}
			extra := ""
			for a := range ff.At(in) {
				m := regexpCache(`^\(\*parser\)\.peekByte\(param0\)#0 != (\d+)$`).FindStringSubmatch(a)
				if m == nil {
					continue
				}
				var k int64
				fmt.Sscan(m[1], &k)
				if !w.stops[k] {
					extra += fmt.Sprintf(" %q", rune(k))
				}
			}
			R.Ob(c.siteKey(in, "no stop character beyond the grammar's"), c.P.InstrPos(in), extra == "", "the loop also stops at"+extra+": a well-formed mailbox containing it is cut short and refused")
		})
	}
}

// a local string variable compared with "" (variables are named by type and ordinal, see allocName)
var localStringEmpty = regexp.MustCompile(`^local:string(#\d+)? == ""$`)

// ruleParserCursor (C11, C12, C14): the path parser's cursor (parser.s) only ever moves forward by dropping a prefix
// of itself, and the null reverse-path "<>" is recognised as a PREFIX of the argument: what follows it (the ESMTP
// parameters of a bounce) stays in the cursor, untouched, for parseArgs. A cursor trimmed at its far end, replaced by
// something else, or a null path accepted only when nothing follows changes which parameters the backend sees.
func ruleParserCursor(c *Ctx) {
	R := c.R
	R.Rule("R-parser-cursor", "E4 value shape + E3 edge-feasibility", "parser.s is only replaced by a suffix of itself (p.s[k:], TrimPrefix/CutPrefix of p.s); the null reverse-path is taken exactly when the argument starts with \"<>\" and leaves the rest for the parameters", 5)
	n := 0
	for _, f := range c.P.AllFuncs() {
		if !strings.HasPrefix(funcName(f), "(*parser).") {
			continue
		}
		allInstrs(f, func(in ssa.Instruction) {
			fld, _, v := storedField(in)
			if fld == nil || fld.Name() != "s" {
				return
			}
			n++
			ok, why := false, ""
			switch x := stripConv(v).(type) {
			case *ssa.Slice:
				ok = describe(x.X) == "parser.s" && x.High == nil && x.Max == nil
				why = "slice of " + describe(x.X) + " with an upper bound or of another value"
			case *ssa.Call:
				if cal := staticCallee(&x.Call); cal != nil && cal.Pkg != nil && cal.Pkg.Pkg.Path() == "strings" && cal.Name() == "TrimPrefix" {
					_, isConst := constString(x.Call.Args[1])
					ok = describe(x.Call.Args[0]) == "parser.s" && isConst
				}
				why = describe(v)
			case *ssa.Extract:
				if call, isCall := x.Tuple.(*ssa.Call); isCall && x.Index == 0 {
					if cal := staticCallee(&call.Call); cal != nil && cal.Pkg != nil && cal.Pkg.Pkg.Path() == "strings" && cal.Name() == "CutPrefix" {
						ok = describe(call.Call.Args[0]) == "parser.s"
					}
				}
				why = describe(v)
			default:
				why = describe(v)
			}
			R.Ob(c.siteKey(in, "cursor advances to a suffix of itself"), c.P.InstrPos(in), ok, "parser.s is set to "+why+": not the remainder of the cursor after a consumed prefix")
		})
	}
	R.Ob("parser/cursor stores found", "-", n >= 3, fmt.Sprintf("%d stores to parser.s found in the parser's methods", n))

	f := c.A.Func("(*parser).parseReversePath")
	if f == nil {
		return
	}
	H := `strings.HasPrefix(parser.s,"<>") == true`
	hRe := `^strings\.HasPrefix\(parser\.s,"<>"\) == true$`
	hasTest := false
	allInstrs(f, func(in ssa.Instruction) {
		if cc := callCommon(in); cc != nil {
			if cal := staticCallee(cc); cal != nil && cal.Pkg != nil && cal.Pkg.Pkg.Path() == "strings" && (cal.Name() == "HasPrefix" || cal.Name() == "CutPrefix") && len(cc.Args) == 2 && describe(cc.Args[0]) == "parser.s" {
				if k, ok := constString(cc.Args[1]); ok && k == "<>" {
					hasTest = true
					if cal.Name() == "CutPrefix" {
						H = `strings.CutPrefix(parser.s,"<>")#1 == true`
						hRe = `^strings\.CutPrefix\(parser\.s,"<>"\)#1 == true$`
					}
				}
			}
		}
	})
	if !hasTest {
		R.Und("(*parser).parseReversePath/null path recognised as a prefix", c.P.Pos(f.Pos()), "no strings.HasPrefix/CutPrefix(p.s, \"<>\") test found: how the null reverse-path is recognised is not decided (a test for equality refuses \"<> PARAM=...\", the reverse-path of every bounce that carries parameters)")
		return
	}
	nNull := 0
	allInstrs(f, func(in ssa.Instruction) {
		if cc := callCommon(in); cc != nil {
			if cal := staticCallee(cc); cal != nil && funcName(cal) == "(*parser).parsePath" {
				c.obUnreach("ordinary path parser", in, H)
			}
		}
	})
	for _, a := range acceptingReturns(f) {
		r := a.(*ssa.Return)
		if k, ok := constString(returnedValues(r)[0]); ok && k == "" {
			nNull++
			c.obFactMatch("null path only for a \"<>\" prefix", a, hRe, "the null reverse-path is returned although the argument was not seen to start with \"<>\"")
			// on the way to this return the cursor drops exactly that prefix
			dropped := false
			for _, st := range allStoresTo(f, "s") {
				if reachesInstr(st, a) {
					d := describe(st.(*ssa.Store).Val)
					if d == `strings.TrimPrefix(parser.s,"<>")` || d == `strings.CutPrefix(parser.s,"<>")#0` {
						dropped = true
					}
					if sl, isSl := stripConv(st.(*ssa.Store).Val).(*ssa.Slice); isSl && sl.High == nil && describe(sl.X) == "parser.s" {
						if k, ok := constInt(sl.Low); ok && k == 2 {
							dropped = true
						}
					}
				}
			}
			R.Ob(c.siteKey(a, "null path consumes exactly \"<>\""), c.P.InstrPos(a), dropped, "no store on the way to the null-path return drops the two octets \"<>\" from the cursor (TrimPrefix / p.s[2:])")
		}
	}
	R.Ob("(*parser).parseReversePath/has a null-path exit", c.P.Pos(f.Pos()), nNull >= 1, "no accepting return with an empty path")
}

// allStoresTo: stores in f to a struct field of that name.
func allStoresTo(f *ssa.Function, field string) []ssa.Instruction {
	var out []ssa.Instruction
	allInstrs(f, func(in ssa.Instruction) {
		if fld, _, _ := storedField(in); fld != nil && fld.Name() == field {
			out = append(out, in)
		}
	})
	return out
}

// reachesInstr: can control flow from a to b (same function; same block: a before b)?
func reachesInstr(a, b ssa.Instruction) bool {
	if a.Block() == b.Block() {
		for _, x := range a.Block().Instrs {
			if x == a {
				return true
			}
			if x == b {
				break
			}
		}
	}
	for _, s := range a.Block().Succs {
		if s == b.Block() || reachableFrom(s, nil)[b.Block()] {
			return true
		}
	}
	return false
}

// ruleASCIIFold (C11): keywords and enumerated values of MAIL/RCPT parameters are ASCII; folding their case with
// strings.ToUpper/ToLower applies Unicode's simple case mapping, under which U+017F (long s) becomes "S" and U+0131
// (dotless i) becomes "I": "ſIZE=5" is taken for SIZE and "BODY=8BıTMIME" reaches the backend as 8BITMIME — neither
// "as sent" nor refused. Every such fold in the parameter parsing is one obligation. (Today's tree folds with
// strings.ToUpper at five such sites: recorded as known findings, see DESIGN.md §9.3.)
func ruleASCIIFold(c *Ctx) {
	R := c.R
	R.Rule("R-ascii-fold", "E4 call-site rule", "the case of parameter keywords and enumerated values (SIZE…, BODY, RET, NOTIFY, ORCPT type) is folded with an ASCII-only mapping, not with Unicode case mapping", 4)
	n := 0
	// decodeTypedAddress also folds with ToUpper, but neither of its two constants ("RFC822", "UTF-8") contains a letter
	// that a non-ASCII letter upper-cases to (S, I): no input is affected, so it is not an obligation
	for _, fn := range []string{"parseArgs", "(*Conn).handleMail", "(*Conn).handleRcpt"} {
		f := c.A.Func(fn)
		if f == nil {
			continue
		}
		allInstrs(f, func(in ssa.Instruction) {
			call, ok := in.(*ssa.Call)
			if !ok {
				return
			}
			g := staticCallee(&call.Call)
			if g == nil || g.Pkg == nil || g.Pkg.Pkg.Path() != "strings" {
				return
			}
			switch g.Name() {
			case "ToUpper", "ToLower", "ToTitle", "EqualFold":
			default:
				return
			}
			if _, isK := constString(call.Call.Args[0]); isK {
				return
			}
			n++
			R.Ob(c.siteKey(in, "keyword/value case folded with an ASCII-only mapping"), c.P.InstrPos(in), false, fmt.Sprintf("%s folds %s with strings.%s: Unicode case mapping turns U+017F into 'S' and U+0131 into 'I', so a keyword or value that is not the ASCII one is accepted as if it were (\"ſIZE=5\" sets Size, \"BODY=8BıTMIME\" is handed on as 8BITMIME)", fn, describe(call.Call.Args[0]), g.Name()))
		})
	}
	R.Note("R-ascii-fold: %d Unicode case folds found in the parameter parsing", n)
}
