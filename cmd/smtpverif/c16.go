package main

import (
	"fmt"
	"go/types"
	"strings"

	"golang.org/x/tools/go/ssa"
)

func init() {
	register(&propDef{
		ID: "C16",
		Explanation: "Client DATA path decided structurally: Data/LMTPData wrap net/textproto's DotWriter (dot-stuffing, LF->CRLF and the final CRLF.CRLF are the library's; the receiving half is C01's table) obtained only after a 354; " +
			"dataCloser.Close marks the writer closed before it can return from any path that ended the data (so a second Close never repeats the exchange) and its closed test guards everything; in SMTP mode Close returns the error of the single 250 read; " +
			"Client.SendMail passes from, every recipient in order, the body and returns Close's verdict, stopping at the first error. Byte-level equality of stuffing/unstuffing composition is the library's contract plus C01.",
		Run: runC16,
	})
}

func runC16(c *Ctx) {
	R := c.R
	_, s := c.Std()

	// the receiving half of the trip: the server's reader undoes exactly the dot-stuffing textproto's DotWriter applies
	ruleDotTable(c)
	ruleDotStructure(c)
	// ... and the line limiter below it lets every message through whose lines are within the limit, wherever the
	// network cuts the stream: it counts octet by octet and resets on every LF
	ruleLineLimitCounting(c)

	R.Rule("R-envelope-per-message", "E2 must-pass-through", "the server clears sender and recipients after every message it has taken (DATA, BDAT; SMTP and LMTP), so the next message on the connection is delivered with exactly the list given for it and its replies are not preceded by those of earlier recipients", 3)
	obMessageEndResets(c)
	// LMTP: Close waits for one reply per recipient it recorded; the server gives every accepted occurrence the
	// delivery's outcome (shared with C13)
	ruleFillValue(c)
	R.Rule("R-recipients-as-accepted", "E1/E2", "the client records a recipient exactly when the server accepted its RCPT: Close waits for one LMTP reply per recorded recipient and returns their verdicts", 2)
	ruleRcptsRecorded(c)
	rulePositiveAfterCallback(c) // every recipient the client was told "250" for was handed to the backend
	R.Rule("R-client-parse", "E4 + who-may-call", "the verdict Close returns is the server's reply converted by readResponse/toSMTPErr: code, enhanced code and the text with the per-line code repetitions removed", 4)
	ruleClientParse(c)
	ruleWriteDeadlineOwner(c) // "Close returns the server's verdict": the verdict of a slow delivery is still written (no read deadline covers writes)
	ruleClientDeadlinesPaired(c)
	ruleNoCommandWhileDataOpen(c)
	ruleLimitBudget(c)  // on a server with a size limit a message of exactly that size still reaches its end marker (Close returns the verdict, not a 552)
	ruleParserCursor(c) // "exactly the sender given": the client always appends parameters (BODY=8BITMIME), so the null sender of a bounce arrives as "<> BODY=…" and must be taken as a prefix
	ruleEnhDefault(c)   // every line of the verdict carries the same (possibly defaulted) enhanced code

	R.Rule("R-data-writer", "E4 value flow", "Data/LMTPData return a dataCloser around c.text.DotWriter() obtained on the nil-error edge of the DATA command expecting 354", 4)
	for _, fn := range []string{"(*Client).Data", "(*Client).LMTPData"} {
		f := c.A.Func(fn)
		if f == nil {
			continue
		}
		sites := s.Find(f, "st:dataCloser.WriteCloser")
		R.Ob(fn+"/wraps a writer", c.P.Pos(f.Pos()), len(sites) == 1, fmt.Sprintf("%d stores of the embedded writer", len(sites)))
		for _, st := range sites {
			_, _, v := storedField(st)
			d := describe(v)
			R.Ob(c.siteKey(st, "writer is the DotWriter of the text conn"), c.P.InstrPos(st), strings.HasPrefix(d, "(*textproto.Writer).DotWriter(&Client.text") || strings.HasPrefix(d, "(*textproto.Writer).DotWriter("), "embedded writer is "+d)
			c.obFactMatch("writer only after 354", st, `^\(\*Client\)\.cmd\(param0,354,"DATA",nil\)#2 == nil$`, "data writer handed out although DATA was not answered 354")
		}
		for _, st := range s.Find(f, "st:dataCloser.c") {
			_, _, v := storedField(st)
			R.Ob(c.siteKey(st, "closer bound to this client"), c.P.InstrPos(st), describe(v) == "param0", "dataCloser.c is "+describe(v))
		}
	}

	// the message octets reach the DotWriter unfiltered: Write is the promoted method of the embedded writer, the
	// returned type declares no Write of its own (a wrapper that looks at one Write at a time makes the outcome
	// depend on how the message is partitioned)
	if dc := c.A.Named("dataCloser"); dc != nil {
		ms := types.NewMethodSet(types.NewPointer(dc))
		sel := ms.Lookup(dc.Obj().Pkg(), "Write")
		promoted := sel != nil && len(sel.Index()) > 1
		where := "-"
		if sel != nil {
			where = c.P.Pos(sel.Obj().Pos())
		}
		R.Ob("dataCloser/Write is the embedded writer's", where, promoted, "dataCloser declares its own Write method: the message passes through it before the DotWriter, one Write call at a time")
	}

	ruleRenderVerbatim(c) // "exactly the sender and recipient list given"

	R.Rule("R-close-once", "E2", "dataCloser.Close: the closed test guards the end-of-data exchange, and closed=true is stored on every path that performed it before the function can return", 3)
	if f := c.A.Func("(*dataCloser).Close"); f != nil {
		inner := s.Find(f, "icall:iface:(io.WriteCloser).Close")
		R.Ob("(*dataCloser).Close/ends the data", c.P.Pos(f.Pos()), len(inner) == 1, fmt.Sprintf("%d calls of the embedded writer's Close", len(inner)))
		for _, site := range inner {
			site := site
			c.obUnreach("end-of-data exchange", site, `dataCloser.closed == true`)
			seen := s.SeenBefore(site)
			if !seen["st:dataCloser.closed=true"] {
				c.obFollow("closed=true on every path after ending the data", f, func(in ssa.Instruction) bool { return in == site }, []string{"st:dataCloser.closed=true"}, nil, nil)
			} else {
				R.Ob(c.siteKey(site, "closed=true before ending the data"), c.P.InstrPos(site), true, "")
			}
		}
		// the closed==true path returns an error without touching the connection
		c.obMustUnder("second Close is an error", f, []string{"call:fmt.Errorf", "call:errors.New"}, `dataCloser.closed == true`)
		fb := c.F.feasibleBlocks(f, HSet(`dataCloser.closed == true`))
		bad := ""
		for b := range fb {
			for _, in := range b.Instrs {
				if isStaticCall(in, "(*Client).readResponse") || labelHas(c.stdLabels(in), "icall:iface:(io.WriteCloser).Close") {
					bad = c.P.InstrPos(in)
				}
			}
		}
		R.Ob("(*dataCloser).Close/second Close does not talk to the server", c.P.Pos(f.Pos()), bad == "", "a second Close reaches "+bad)
	}

	R.Rule("R-close-verdict", "E4", "in SMTP mode Close reads exactly one reply expecting 250 and returns its error", 3)
	if f := c.A.Func("(*dataCloser).Close"); f != nil {
		skip := c.F.SkipUnder(`Client.lmtp == false`, `dataCloser.closed == false`, `invoke:WriteCloser.Close == nil`)
		res := CountPathsOpt(f, CountOpts{SkipEdge: skip, Count: func(in ssa.Instruction) (int, int) {
			if isStaticCall(in, "(*Client).readResponse") {
				return 1, 1
			}
			return 0, 0
		}})
		R.Ob("(*dataCloser).Close/one reply read in SMTP mode", c.P.Pos(f.Pos()), res.Min == 1 && res.Max == 1, fmt.Sprintf("SMTP-mode Close reads %d..%d replies", res.Min, res.Max))
		for _, rr := range s.Find(f, "call:(*Client).readResponse") {
			code, _ := constInt(callCommon(rr).Args[1])
			R.Ob(c.siteKey(rr, "expects 250"), c.P.InstrPos(rr), code == 250, fmt.Sprintf("expects %d", code))
		}
		// under a failed 250 read in SMTP mode every return yields that error
		H := HSet(`Client.lmtp == false`, `dataCloser.closed == false`, `invoke:WriteCloser.Close == nil`, `(*Client).readResponse(dataCloser.c,250)#2 != nil`)
		fb := c.F.feasibleBlocks(f, H)
		n := 0
		allInstrs(f, func(in ssa.Instruction) {
			r, ok := in.(*ssa.Return)
			if !ok || !fb[in.Block()] {
				return
			}
			n++
			v := returnedValues(r)[0]
			R.Ob(c.siteKey(in, "server verdict returned"), c.P.InstrPos(in), describe(v) == "(*Client).readResponse(dataCloser.c,250)#2", "a rejected message makes Close return "+describe(v))
		})
		R.Ob("(*dataCloser).Close/rejection path exists", c.P.Pos(f.Pos()), n >= 1, "no return reachable for a rejected message")
	}

	ruleLMTPLoopComplete(c)
	ruleLMTPFlag(c)

	R.Rule("R-sendmail-envelope", "E4+E2", "Client.SendMail: from -> Mail, every element of to in slice order -> Rcpt, body copied to the data writer, Close's result returned; an error ends the sequence", 6)
	if f := c.A.Func("(*Client).SendMail"); f != nil {
		for _, site := range s.Find(f, "call:(*Client).Mail") {
			R.Ob(c.siteKey(site, "Mail(from)"), c.P.InstrPos(site), describe(callCommon(site).Args[1]) == "param1", "Mail called with "+describe(callCommon(site).Args[1]))
		}
		nR := 0
		for _, site := range s.Find(f, "call:(*Client).Rcpt") {
			nR++
			d := describe(callCommon(site).Args[1])
			inLoop := false
			for _, li := range findLoops(f) {
				if li.blocks[site.Block()] {
					inLoop = true
				}
			}
			R.Ob(c.siteKey(site, "Rcpt(to[i]) in order"), c.P.InstrPos(site), inLoop && strings.HasPrefix(d, "param2[(loopvar:rangeindex"), "Rcpt called with "+d)
			c.obUnreach("Rcpt", site, `(*Client).Mail(param0,param1,nil) != nil`)
			site := site
			c.obNeverH("failed Rcpt ends the sequence", f, func(in ssa.Instruction) bool { return in == site }, []string{"call:(*Client).Rcpt", "call:(*Client).Data", "call:io.Copy"}, describe(site.(ssa.Value))+" != nil")
		}
		R.Ob("(*Client).SendMail/one Rcpt site", c.P.Pos(f.Pos()), nR == 1, fmt.Sprintf("%d Rcpt call sites", nR))
		for _, site := range s.Find(f, "call:(*Client).Data") {
			c.obUnreach("Data", site, `(*Client).Mail(param0,param1,nil) != nil`)
		}
		for _, site := range s.Find(f, "call:io.Copy") {
			cc := callCommon(site)
			R.Ob(c.siteKey(site, "body copied to the data writer"), c.P.InstrPos(site), describe(cc.Args[0]) == "(*Client).Data(param0)#0" && describe(cc.Args[1]) == "param3", "io.Copy("+describe(cc.Args[0])+", "+describe(cc.Args[1])+")")
			c.obUnreach("body copy", site, `(*Client).Data(param0)#1 != nil`)
		}
		// final return is w.Close()
		last := false
		allInstrs(f, func(in ssa.Instruction) {
			if r, ok := in.(*ssa.Return); ok && describe(returnedValues(r)[0]) == "invoke:WriteCloser.Close" {
				last = true
			}
		})
		R.Ob("(*Client).SendMail/returns Close's verdict", c.P.Pos(f.Pos()), last, "SendMail does not return the result of the data writer's Close")
	}
}

// ruleClientDeadlinesPaired (C16): every deadline the client arms for one exchange is cleared again when that exchange
// is over, in both directions. The message body is written between two exchanges (after the 354, before Close arms
// the submission timeout) with no deadline of its own: a write deadline left behind by the DATA command makes a body
// that takes longer than CommandTimeout fail with a local i/o timeout instead of reaching the server.
func ruleClientDeadlinesPaired(c *Ctx) {
	R := c.R
	R.Rule("R-cdeadline-paired", "E2 pairing (arm / deferred clear)", "in the client every SetDeadline/SetReadDeadline/SetWriteDeadline with a time is paired with a deferred call that clears the same direction(s) with the zero time", 3)
	dir := func(name string) (rd, wr bool) {
		switch name {
		case "SetDeadline":
			return true, true
		case "SetReadDeadline":
			return true, false
		case "SetWriteDeadline":
			return false, true
		}
		return false, false
	}
	n := 0
	for _, f := range c.P.AllFuncs() {
		fn := funcName(f)
		if !inSmtp(f) || !(strings.HasPrefix(fn, "(*Client).") || strings.HasPrefix(fn, "(*dataCloser).")) {
			continue
		}
		type arm struct {
			in     ssa.Instruction
			rd, wr bool
		}
		var arms []arm
		clrR, clrW := false, false
		allInstrs(f, func(in ssa.Instruction) {
			cc := callCommon(in)
			if d, isDefer := in.(*ssa.Defer); isDefer && cc != nil && !cc.IsInvoke() {
				// defer func() { ...SetDeadline(time.Time{})... }()
				if g := staticCallee(&d.Call); g != nil && inSmtp(g) {
					allInstrs(g, func(x ssa.Instruction) {
						xc := callCommon(x)
						if xc == nil || !xc.IsInvoke() || len(xc.Args) != 1 {
							return
						}
						if k, ok := stripConv(xc.Args[0]).(*ssa.Const); ok && k.Value == nil {
							rd, wr := dir(xc.Method.Name())
							clrR, clrW = clrR || rd, clrW || wr
						}
					})
				}
				return
			}
			if cc == nil || !cc.IsInvoke() || len(cc.Args) != 1 {
				return
			}
			rd, wr := dir(cc.Method.Name())
			if !rd && !wr {
				return
			}
			zero := false
			if k, ok := stripConv(cc.Args[0]).(*ssa.Const); ok && k.Value == nil {
				zero = true
			}
			_, deferred := in.(*ssa.Defer)
			switch {
			case zero && deferred:
				clrR, clrW = clrR || rd, clrW || wr
			case zero:
				// an immediate clear arms nothing
			default:
				arms = append(arms, arm{in, rd, wr})
			}
		})
		for _, a := range arms {
			// which timeout: the end-of-data exchange waits for the delivery verdict (SubmissionTimeout), every other
			// exchange for a command reply (CommandTimeout)
			want := "Client.CommandTimeout"
			if strings.HasPrefix(fn, "(*dataCloser).") {
				want = "Client.SubmissionTimeout"
			}
			d := describe(callCommon(a.in).Args[0])
			R.Ob(c.siteKey(a.in, "deadline derived from "+want), c.P.InstrPos(a.in), strings.Contains(d, want), fmt.Sprintf("%s arms %s: the wait for the verdict after the final dot is SubmissionTimeout, command replies CommandTimeout — with the shorter one a slow delivery makes Close return a local i/o timeout instead of the server's verdict", fn, d))
			n++
			ok := (!a.rd || clrR) && (!a.wr || clrW)
			var missing []string
			if a.rd && !clrR {
				missing = append(missing, "read")
			}
			if a.wr && !clrW {
				missing = append(missing, "write")
			}
			R.Ob(c.siteKey(a.in, "armed deadline is cleared by a deferred call"), c.P.InstrPos(a.in), ok,
				fmt.Sprintf("%s arms a deadline but no deferred call clears the %s deadline: it stays in force after the exchange — a message body written later than that (slow producer, large message) fails locally with an i/o timeout", fn, strings.Join(missing, " and ")))
		}
	}
	R.Ob("client/armed deadlines found", "-", n >= 3, fmt.Sprintf("%d armed deadlines found in the client", n))
}

// ruleNoCommandWhileDataOpen (C07, C16): net/textproto closes an open dot-writer implicitly when the next command line
// is printed — and closing it writes the end-of-data marker. A package function that has obtained the DATA writer
// must therefore not send a command before it has closed the writer itself: on the path where copying the message
// failed, a "clean-up" RSET/QUIT would terminate the truncated body with <CRLF>.<CRLF> and the server would deliver
// half a message as complete (while the caller is told the submission failed).
func ruleNoCommandWhileDataOpen(c *Ctx) {
	R := c.R
	R.Rule("R-no-command-while-data-open", "E2 never-after", "after Client.Data/LMTPData returned a writer, no package function sends a command (directly or through a helper) before that writer's Close", 1)
	n := 0
	for _, f := range c.P.AllFuncs() {
		if !inSmtp(f) {
			continue
		}
		for _, dataFn := range []string{"(*Client).Data", "(*Client).LMTPData"} {
			lbl := "call:" + dataFn
			H := dataFn + "(param0)#1 == nil"
			n += c.obNever("no command while the DATA writer is open", f,
				func(in ssa.Instruction) bool { return labelHas(c.stdLabels(in), lbl) },
				[]string{"ccmd"}, []string{"icall:iface:(io.WriteCloser).Close"}, c.F.SkipUnder(H))
		}
	}
	R.Ob("package/users of the DATA writer found", "-", n >= 1, "no package function obtains the DATA writer")
}
