package main

import (
	"fmt"
	"go/token"
	"go/types"
	"regexp"
	"strings"

	"golang.org/x/tools/go/ssa"
)

func init() {
	register(&propDef{
		ID: "C15",
		Explanation: "Client command lines decided by a whitelist taint rule over the resolved program: every dynamic string that can reach textproto's Cmd (directly, via the command builder in Mail/Rcpt, or via Client.localName) must be a validated argument (validateLine(x)==nil holds at the sink), the result of an encoder whose pass-through set excludes CR/LF (C14 table), a value compared equal to a declared constant, or a non-string rendering; anything else is a violation. " +
			"validateLine rejects both CR and LF and its failure edge reaches no write; each method sends at most one command per step; every ESMTP parameter token is written only on the ok edge of the matching c.ext[key] lookup, and REQUIRETLS/SMTPUTF8 requested but not offered return an error before any command.",
		Run: runC15,
	})
}

// builderWrites: calls in f that write to a strings.Builder: returns for
// each the constant part (format or string) and the dynamic values.
type bwrite struct {
	in    ssa.Instruction
	konst string
	dyn   []ssa.Value
	isFmt bool
}

func builderWrites(f *ssa.Function) []bwrite {
	var out []bwrite
	allInstrs(f, func(in ssa.Instruction) {
		cc := callCommon(in)
		if cc == nil {
			return
		}
		g := staticCallee(cc)
		if g == nil {
			return
		}
		switch qualFuncName(g) {
		case "fmt.Fprintf":
			if !strings.Contains(typeShort(stripConv(cc.Args[0]).Type()), "strings.Builder") {
				return
			}
			w := bwrite{in: in, isFmt: true}
			w.konst, _ = constString(cc.Args[1])
			w.dyn = varargValues(cc.Args[2])
			out = append(out, w)
		case "(*strings.Builder).WriteString":
			w := bwrite{in: in}
			if k, ok := constString(cc.Args[1]); ok {
				w.konst = k
			} else {
				// "constant" + value (+ value ...): the leading constant is the token, the rest the operands
				parts := concatParts(cc.Args[1])
				if k, ok := constString(parts[0]); ok && len(parts) > 1 {
					w.konst = k
					w.dyn = parts[1:]
				} else {
					w.dyn = []ssa.Value{cc.Args[1]}
				}
			}
			out = append(out, w)
		case "(*strings.Builder).WriteByte", "(*strings.Builder).WriteRune", "(*strings.Builder).Write":
			w := bwrite{in: in}
			if k, ok := stripConv(cc.Args[1]).(*ssa.Const); !ok {
				w.dyn = []ssa.Value{cc.Args[1]}
			} else if n, isInt := constInt(k); isInt && n > 0 && n < 0x110000 {
				w.konst = string(rune(n)) // WriteByte(',') / WriteRune(',') write that one character
			}
			out = append(out, w)
		}
	})
	return out
}

// varargValues returns the values stored into a varargs backing array.
func varargValues(v ssa.Value) []ssa.Value {
	sl, ok := v.(*ssa.Slice)
	if !ok {
		if isNilConst(v) {
			return nil
		}
		return []ssa.Value{v}
	}
	a, ok := sl.X.(*ssa.Alloc)
	if !ok {
		return []ssa.Value{v}
	}
	var out []ssa.Value
	for _, r := range referrers(a) {
		if ia, ok := r.(*ssa.IndexAddr); ok {
			for _, r2 := range referrers(ia) {
				if st, ok := r2.(*ssa.Store); ok && st.Addr == ssa.Value(ia) {
					out = append(out, st.Val)
				}
			}
		}
	}
	return out
}

func isStringLike(t types.Type) bool {
	switch u := t.Underlying().(type) {
	case *types.Basic:
		return u.Info()&types.IsString != 0
	case *types.Slice:
		if b, ok := u.Elem().Underlying().(*types.Basic); ok {
			return b.Kind() == types.Byte || b.Kind() == types.Uint8
		}
	case *types.Interface:
		return true
	}
	return false
}

var encoderRe = regexp.MustCompile(`^(encodeXtext|encodeUTF8AddrXtext|encodeUTF8AddrUnitext)\(`)

// sanitised decides whether dynamic value v written at site is safe; returns
// a reason when not.
func (c *Ctx) sanitised(site ssa.Instruction, v ssa.Value) (bool, string) {
	inner := stripConv(v)
	if !isStringLike(inner.Type()) {
		return true, "" // integers, times rendered by fmt: cannot contain CR/LF
	}
	ff := c.F.Analyze(site.Parent())
	facts := ff.At(site)
	for _, l := range leafSources(inner) {
		switch {
		case l == "nil":
		case regexp.MustCompile(`^param[0-9]+$`).MatchString(l):
			if !facts["validateLine("+l+") == nil"] {
				return false, "argument " + l + " reaches the command line without a successful validateLine"
			}
		case l == "Client.localName":
			// validated where it is stored (R-localname)
		case encoderRe.MatchString(l):
		case strings.HasPrefix(l, `"`): // constant
		case l == "MailOptions.Return":
			if r, _ := c.ReachableUnder(site, []string{`MailOptions.Return != "FULL"`, `MailOptions.Return != "HDRS"`}); r {
				return false, "RET value written without being equal to a declared constant"
			}
		case l == "RcptOptions.OriginalRecipientType":
			if r, _ := c.ReachableUnder(site, []string{`RcptOptions.OriginalRecipientType != "RFC822"`, `RcptOptions.OriginalRecipientType != "UTF-8"`}); r {
				return false, "ORCPT address type written without being equal to a declared constant"
			}
		case strings.HasPrefix(l, "RcptOptions.Notify["):
			if !facts["checkNotifySet(RcptOptions.Notify) == nil"] {
				return false, "NOTIFY element written without a successful checkNotifySet"
			}
		case strings.HasPrefix(l, "strconv.FormatInt("), strings.HasPrefix(l, "strconv.FormatUint("), strings.HasPrefix(l, "strconv.Itoa("):
			// decimal rendering of an integer
		case strings.HasPrefix(l, "(time.Time).Format("):
		case strings.HasPrefix(l, `fmt.Sprintf(" RRVS=%s"`):
		case strings.HasPrefix(l, "(*strings.Builder).String("):
			// builder content is checked write by write
		case strings.HasPrefix(l, "makeslice"), strings.HasPrefix(l, "slice(alloc:slicelit"):
			// base64 output buffers / the literal "="
		case strings.HasPrefix(l, "builtin:string(makeslice"), strings.HasPrefix(l, "strings.TrimSpace(fmt.Sprintf(\"AUTH %s %s\""):
		case l == "invoke:Client.Start#0":
			// SASL mechanism name: not an API argument of go-smtp (documented as not covered)
		default:
			return false, "value " + l + " reaches the command line and is not in the sanitiser table"
		}
	}
	return true, ""
}

func runC15(c *Ctx) {
	R := c.R
	_, s := c.Std()

	R.Rule("R-line-taint", "E4 whitelist taint", "every dynamic string reaching a client command line is a validated argument, an encoder result, a whitelisted constant-compared value or a non-string rendering", 14)
	nSinks := 0
	for _, f := range c.P.AllFuncs() {
		n := funcName(f)
		if !strings.HasPrefix(n, "(*Client).") && n != "sendMail" {
			continue
		}
		for _, w := range builderWrites(f) {
			for _, v := range w.dyn {
				nSinks++
				ok, why := c.sanitised(w.in, v)
				R.Ob(c.siteKey(w.in, "builder write "+strings.TrimSpace(w.konst)+" <- "+describe(v)), c.P.InstrPos(w.in), ok, why)
			}
		}
		for _, site := range s.Find(f, "ccmd") {
			if n == "(*Client).cmd" || thinCmdWrapper(f) != nil {
				continue // a wrapper's operands are its parameters: judged where the wrapper is called
			}
			fmtV, _, fmtIsConst, operands, okP := cmdParts(site)
			if !okP {
				R.Ob(c.siteKey(site, "command parts resolved"), c.P.InstrPos(site), false, "cannot resolve format and operands of this command")
				continue
			}
			if !fmtIsConst {
				// a computed FORMAT string is interpreted by fmt: only values that cannot contain '%' may be used
				// (base64 output, the AUTH line built from the mechanism name and base64)
				for _, v := range []ssa.Value{fmtV} {
					nSinks++
					okFmt := true
					why := ""
					for _, l := range leafSources(stripConv(v)) {
						if !(strings.HasPrefix(l, "makeslice") || strings.HasPrefix(l, "builtin:string(makeslice") || strings.HasPrefix(l, "strings.TrimSpace(fmt.Sprintf(\"AUTH %s %s\"")) {
							okFmt = false
							why = "the rendered text " + l + " is passed as the printf FORMAT of the command: a '%' in an address or option value is interpreted by fmt and corrupts the line"
						}
					}
					R.Ob(c.siteKey(site, "command format <- "+describe(v)), c.P.InstrPos(site), okFmt, why)
				}
			}
			for _, v := range operands {
				nSinks++
				ok, why := c.sanitised(site, v)
				R.Ob(c.siteKey(site, "command argument <- "+describe(v)), c.P.InstrPos(site), ok, why)
			}
		}
	}
	// the wire sink itself is only reached through cmd
	for _, f := range c.P.AllFuncs() {
		allInstrs(f, func(in ssa.Instruction) {
			if isStaticCall(in, "(*textproto.Conn).Cmd") || isStaticCall(in, "(*textproto.Writer).PrintfLine") && strings.HasPrefix(funcName(f), "(*Client)") {
				R.Ob(c.siteKey(in, "wire command only in Client.cmd"), c.P.InstrPos(in), funcName(f) == "(*Client).cmd", "command written to the wire outside Client.cmd: its arguments are not covered by the taint table")
			}
		})
	}
	// localName: stored only from a constant or a validated argument
	for _, st := range c.Sites("st:Client.localName") {
		_, _, v := storedField(st)
		if _, ok := constString(v); ok {
			continue
		}
		ff := c.F.Analyze(st.Parent())
		d := describe(v)
		R.Ob(c.siteKey(st, "localName validated"), c.P.InstrPos(st), ff.At(st)["validateLine("+d+") == nil"], "Client.localName set from "+d+" without validateLine")
	}

	// the encoders are sanitisers of this rule: their tables (no raw CR/LF, no bypass of the loop) must hold
	_, rawSets := ruleEncRawSet(c)
	R.Rule("R-encoders-keep-one-line", "E5 table", "no encoder passes CR or LF through", 3)
	for en, sets := range rawSets {
		bad := ""
		for _, iv := range sets {
			if iv[0] <= '\n' && '\n' <= iv[1] || iv[0] <= '\r' && '\r' <= iv[1] {
				bad = fmt.Sprintf("%s passes [%#x..%#x] through unchanged", en, iv[0], iv[1])
			}
		}
		R.Ob(en+"/CR and LF are escaped", "-", bad == "", bad)
	}

	R.Rule("R-notify-checker-exact", "E4", "checkNotifySet compares each element itself with the four keywords", 4)
	ruleNotifyCheckerExact(c)
	R.Rule("R-validate-first", "E2+E3", "validateLine rejects CR and LF; in every method that validates an argument the failure edge reaches neither hello() nor any command nor a dial", 6)
	if f := c.A.Func("validateLine"); f != nil {
		ok := false
		found := "" // the atom that says "a CR or LF was found"
		allInstrs(f, func(in ssa.Instruction) {
			isAny, isIdx := isStaticCall(in, "strings.ContainsAny"), isStaticCall(in, "strings.IndexAny")
			if isAny || isIdx {
				if k, isK := constString(callCommon(in).Args[1]); isK && strings.Contains(k, "\r") && strings.Contains(k, "\n") && describe(callCommon(in).Args[0]) == "param0" {
					ok = true
					if isAny {
						found = describe(in.(ssa.Value)) + " == true"
					} else {
						found = describe(in.(ssa.Value)) + " >= 0"
					}
				}
			}
		})
		R.Ob("validateLine/rejects CR and LF", c.P.Pos(f.Pos()), ok, "validateLine does not test its argument for both CR and LF")
		allInstrs(f, func(in ssa.Instruction) {
			if r, isR := in.(*ssa.Return); isR && isNilConst(r.Results[0]) && found != "" {
				c.obUnreach("nil result although CR or LF was found", in, found)
			}
		})
	}
	for _, f := range c.P.AllFuncs() {
		n := funcName(f)
		if !strings.HasPrefix(n, "(*Client).") && n != "sendMail" {
			continue
		}
		for _, vl := range s.Find(f, "call:validateLine") {
			arg := describe(callCommon(vl).Args[0])
			fail := "validateLine(" + arg + ") != nil"
			for _, l := range []string{"ccmd", "call:(*Client).hello", "call:DialTLS", "call:DialStartTLS", "call:Dial"} {
				for _, site := range s.Find(f, l) {
					if strings.Contains(arg, "loopvar") {
						// validated inside a loop over recipients: the failure edge must return
						vl := vl
						c.obNeverH("invalid recipient ends the call", f, func(in ssa.Instruction) bool { return in == vl }, []string{"ccmd", "call:DialTLS", "call:DialStartTLS", "call:(*Client).SendMail"}, fail)
						continue
					}
					c.obUnreach(l, site, fail)
				}
			}
		}
	}

	R.Rule("R-one-cmd-per-step", "E2 path count", "every Client method sends at most one command itself on any path (Auth: at most one per loop iteration plus the cancel)", 10)
	for _, f := range c.P.AllFuncs() {
		n := funcName(f)
		if !strings.HasPrefix(n, "(*Client).") || n == "(*Client).cmd" {
			continue
		}
		if len(s.Find(f, "ccmd")) == 0 {
			continue
		}
		if n == "(*Client).Auth" {
			for _, li := range findLoops(f) {
				res := CountPathsOpt(f, CountOpts{Start: li.body, NoReturn: true, ExitEdge: func(from, to *ssa.BasicBlock) bool { return to == li.header },
					Count: func(in ssa.Instruction) (int, int) {
						if labelHas(c.stdLabels(in), "ccmd") {
							return 1, 1
						}
						return 0, 0
					}})
				R.Ob(n+"/one command per exchange step", c.P.Pos(f.Pos()), res.Max == 1, fmt.Sprintf("up to %d commands per AUTH step", res.Max))
			}
			continue
		}
		res := CountPathsOpt(f, CountOpts{Count: func(in ssa.Instruction) (int, int) {
			if labelHas(c.stdLabels(in), "ccmd") {
				return 1, 1
			}
			return 0, 0
		}})
		R.Ob(n+"/at most one command", c.P.Pos(f.Pos()), res.Max >= 0 && res.Max <= 1, fmt.Sprintf("up to %d commands on one path", res.Max))
	}

	R.Rule("R-ext-latest-ehlo", "E2+E3", "the extension map the gates consult is replaced by a fresh one on every successful EHLO and cleared by the HELO fallback: it never keeps entries of an earlier greeting", 3)
	ruleEhloReplacesExt(c)
	ruleStickyHandshake(c) // "the most recent EHLO reply": a failed renegotiation must keep failing
	ruleEhloKeys(c)

	R.Rule("R-ext-gate", "E3 edge-feasibility", "each ESMTP parameter token is written only on the ok edge of the matching extension lookup; REQUIRETLS/SMTPUTF8 requested but not offered return an error and send nothing", 12)
	gates := []struct{ fn, token, key string }{
		{"(*Client).Mail", " BODY=8BITMIME", "8BITMIME"}, {"(*Client).Mail", " SIZE=", "SIZE"}, {"(*Client).Mail", " REQUIRETLS", "REQUIRETLS"},
		{"(*Client).Mail", " SMTPUTF8", "SMTPUTF8"}, {"(*Client).Mail", " RET=", "DSN"}, {"(*Client).Mail", " ENVID=", "DSN"}, {"(*Client).Mail", " AUTH=", "AUTH"},
		{"(*Client).Rcpt", " NOTIFY=", "DSN"}, {"(*Client).Rcpt", " ORCPT=", "DSN"}, {"(*Client).Rcpt", " RRVS=", "RRVS"},
	}
	for _, fn := range []string{"(*Client).Mail", "(*Client).Rcpt"} {
		f := c.A.Func(fn)
		if f == nil {
			continue
		}
		for _, w := range builderWrites(f) {
			k := w.konst
			if k == "" {
				for _, v := range w.dyn {
					if call, ok := v.(*ssa.Call); ok {
						if g := staticCallee(&call.Call); g != nil && qualFuncName(g) == "fmt.Sprintf" {
							k, _ = constString(call.Call.Args[0])
						}
					}
				}
			}
			if !strings.HasPrefix(k, " ") {
				continue // the command verb and path, separators
			}
			matched := false
			for _, g := range gates {
				if g.fn == fn && strings.HasPrefix(k, g.token) {
					matched = true
					c.obUnreach("parameter"+g.token, w.in, `Client.ext["`+g.key+`"]#1 == false`)
				}
			}
			if !matched {
				R.Ob(c.siteKey(w.in, "parameter token "+k), c.P.InstrPos(w.in), false, "parameter token "+k+" has no extension gate in the table")
			}
		}
		for _, g := range gates {
			if g.fn != fn {
				continue
			}
			found := false
			for _, w := range builderWrites(f) {
				k := w.konst
				for _, v := range w.dyn {
					if call, ok := v.(*ssa.Call); ok {
						if gg := staticCallee(&call.Call); gg != nil && qualFuncName(gg) == "fmt.Sprintf" {
							k, _ = constString(call.Call.Args[0])
						}
					}
				}
				if strings.HasPrefix(k, g.token) {
					found = true
				}
			}
			R.Ob(fn+"/writes"+g.token, c.P.Pos(f.Pos()), found, "parameter"+g.token+" is never written")
		}
	}
	if f := c.A.Func("(*Client).Mail"); f != nil {
		for _, x := range []struct{ flag, key string }{{"MailOptions.RequireTLS", "REQUIRETLS"}, {"MailOptions.UTF8", "SMTPUTF8"}} {
			H := []string{`param2 != nil`, x.flag + ` == true`, `Client.ext["` + x.key + `"]#1 == false`}
			for _, site := range s.Find(f, "ccmd") {
				c.obUnreach("MAIL command", site, H...)
			}
			fb := c.F.feasibleBlocks(f, HSet(append(H, `validateLine(param1) == nil`, `(*Client).hello(param0) == nil`)...))
			allInstrs(f, func(in ssa.Instruction) {
				if r, ok := in.(*ssa.Return); ok && fb[in.Block()] {
					R.Ob(c.siteKey(in, x.key+" not offered => error"), c.P.InstrPos(in), !isNilConst(returnedValues(r)[0]) && valueKnownNonNil(returnedValues(r)[0]), "Mail returns "+describe(returnedValues(r)[0])+" although "+x.key+" was requested and not offered")
				}
			})
		}
	}
}

// ruleEhloKeys (C15, C14): the extension map is keyed by the keyword of each reply line after the first (the first
// line names the server, it is not an extension), spelled as the lookups spell it (verbatim or upper-cased).
func ruleEhloKeys(c *Ctx) {
	R := c.R
	R.Rule("R-ehlo-keys", "E4 value flow", "ehlo keys Client.ext by the first word of every reply line but the first, verbatim or upper-cased", 2)
	f := c.A.Func("(*Client).ehlo")
	if f == nil {
		return
	}
	n := 0
	// every re-slicing of the reply's line list starts at index 1
	fromSecond := true
	allInstrs(f, func(in ssa.Instruction) {
		if sl, ok := in.(*ssa.Slice); ok && strings.HasPrefix(describe(sl.X), "strings.Split(") {
			if k, isK := constInt(sl.Low); sl.Low == nil || !isK || k != 1 {
				fromSecond = false
			}
		}
	})
	allInstrs(f, func(in ssa.Instruction) {
		mu, ok := in.(*ssa.MapUpdate)
		if !ok || describe(mu.Map) != "makemap" {
			return
		}
		n++
		k := describe(mu.Key)
		inner := strings.TrimSuffix(strings.TrimPrefix(k, "strings.ToUpper("), ")")
		if !strings.HasPrefix(k, "strings.ToUpper(") {
			inner = k
		}
		okKey := strings.HasPrefix(inner, "strings.SplitN(") && strings.HasSuffix(inner, `," ",2)[0]`) || strings.HasPrefix(inner, "strings.Cut(") && strings.HasSuffix(inner, `," ")#0`)
		R.Ob(c.siteKey(in, "extension keyed by the line's keyword"), c.P.InstrPos(in), okKey, "extension stored under "+k+": the lookups c.ext[\"SIZE\"], c.ext[\"DSN\"], ... no longer find what the server advertised (options silently dropped) or find what it did not")
		R.Ob(c.siteKey(in, "first reply line is not an extension"), c.P.InstrPos(in), strings.Contains(k, "slice(strings.Split(") && fromSecond, "extension lines are taken from "+k+": the greeting line (server name) is parsed as a keyword")
	})
	R.Ob("(*Client).ehlo/extension stores found", c.P.Pos(f.Pos()), n >= 1, fmt.Sprintf("%d stores", n))
}

// concatParts flattens a left-nested string concatenation a + b + c into its operands.
func concatParts(v ssa.Value) []ssa.Value {
	if bo, ok := v.(*ssa.BinOp); ok && bo.Op == token.ADD && isStringLike(bo.Type()) {
		return append(concatParts(bo.X), concatParts(bo.Y)...)
	}
	return []ssa.Value{v}
}

// ruleNotifyCheckerExact (C15, C11): checkNotifySet is the sanitiser of the NOTIFY elements the client writes raw and
// of what the server stores: what it compares with the four keywords is the element itself, not a normalised copy
// (trimmed, re-cased) — otherwise "NEVER\r\n" passes the check and reaches the wire or the backend as it is.
func ruleNotifyCheckerExact(c *Ctx) {
	R := c.R
	f := c.A.Func("checkNotifySet")
	if f == nil {
		return
	}
	n := 0
	allInstrs(f, func(in ssa.Instruction) {
		bo, ok := in.(*ssa.BinOp)
		if !ok || bo.Op != token.EQL {
			return
		}
		k, isK := constString(bo.Y)
		if !isK || !(k == "NEVER" || k == "DELAY" || k == "FAILURE" || k == "SUCCESS") {
			return
		}
		n++
		d := describe(bo.X)
		R.Ob(c.siteKey(in, "keyword test applies to the element itself ("+k+")"), c.P.InstrPos(in), strings.HasPrefix(d, "param0[") && strings.HasSuffix(d, "]"), "checkNotifySet compares "+d+" with "+k+": a value that only equals a keyword after normalisation passes the check and is then used raw")
	})
	R.Ob("checkNotifySet/keyword tests found", c.P.Pos(f.Pos()), n >= 4, fmt.Sprintf("%d keyword comparisons", n))
}
