package main

import (
	"go/token"
	"go/types"
	"sort"
	"strings"

	"golang.org/x/tools/go/ssa"
)

// E3: guard facts. A forward must-dataflow over the SSA block graph whose
// facts are normalised atoms derived from branch conditions, e.g.
//   `Conn.helo != ""`, `Conn.bdatPipe == nil`, `len(Conn.recipients) != 0`,
//   `(*Conn).authAllowed(param0) == true`.
// A fact holds at an instruction iff every path from the function entry to it
// traverses a branch edge establishing it and no later store (direct, or
// through a callee that may write the field) to a field it mentions.

type FactSet map[string]bool // nil == TOP (unvisited)

func (s FactSet) clone() FactSet {
	if s == nil {
		return nil
	}
	o := make(FactSet, len(s))
	for k := range s {
		o[k] = true
	}
	return o
}

func intersect(a, b FactSet) FactSet {
	if a == nil {
		return b.clone()
	}
	if b == nil {
		return a.clone()
	}
	o := FactSet{}
	for k := range a {
		if b[k] {
			o[k] = true
		}
	}
	return o
}

func equalSet(a, b FactSet) bool {
	if (a == nil) != (b == nil) {
		return false
	}
	if len(a) != len(b) {
		return false
	}
	for k := range a {
		if !b[k] {
			return false
		}
	}
	return true
}

func (s FactSet) list() []string {
	var o []string
	for k := range s {
		o = append(o, k)
	}
	sort.Strings(o)
	return o
}

type Facts struct {
	p        *Program
	mayWrite map[*ssa.Function]map[*types.Var]bool
	implied  map[impliedKey]FactSet
	cache    map[*ssa.Function]*FuncFacts
	mentions map[string][]*types.Var
	mayRead  map[*ssa.Function]map[*types.Var]bool
}

type impliedKey struct {
	f     *ssa.Function
	truth bool
}

func NewFacts(p *Program) *Facts {
	return &Facts{p: p, mayWrite: map[*ssa.Function]map[*types.Var]bool{}, implied: map[impliedKey]FactSet{}, cache: map[*ssa.Function]*FuncFacts{}, mentions: map[string][]*types.Var{}}
}

// MayWrite: fields the function may store to, transitively over static
// callees (incl. closures it calls, defers, go statements).
func (fa *Facts) MayWrite(f *ssa.Function) map[*types.Var]bool {
	if w, ok := fa.mayWrite[f]; ok {
		return w
	}
	w := map[*types.Var]bool{}
	fa.mayWrite[f] = w // cut recursion
	if f.Blocks == nil {
		return w
	}
	allInstrs(f, func(in ssa.Instruction) {
		if fld, _, _ := storedField(in); fld != nil {
			w[fld] = true
		}
		if cc := callCommon(in); cc != nil {
			if g := staticCallee(cc); g != nil && g.Pkg != nil && g.Pkg.Pkg.Path() == smtpPath {
				for k := range fa.MayWrite(g) {
					w[k] = true
				}
			}
		}
	})
	return w
}

// MayRead: fields the function may load, transitively over static callees.
func (fa *Facts) MayRead(f *ssa.Function) map[*types.Var]bool {
	if fa.mayRead == nil {
		fa.mayRead = map[*ssa.Function]map[*types.Var]bool{}
	}
	if w, ok := fa.mayRead[f]; ok {
		return w
	}
	w := map[*types.Var]bool{}
	fa.mayRead[f] = w
	if f.Blocks == nil {
		return w
	}
	allInstrs(f, func(in ssa.Instruction) {
		if v, ok := in.(ssa.Value); ok {
			if fld, _ := loadedField(v); fld != nil {
				w[fld] = true
			}
		}
		if cc := callCommon(in); cc != nil {
			if g := staticCallee(cc); g != nil && inSmtp(g) {
				for k := range fa.MayRead(g) {
					w[k] = true
				}
			}
		}
	})
	return w
}

func negOp(op token.Token) token.Token {
	switch op {
	case token.EQL:
		return token.NEQ
	case token.NEQ:
		return token.EQL
	case token.LSS:
		return token.GEQ
	case token.GEQ:
		return token.LSS
	case token.GTR:
		return token.LEQ
	case token.LEQ:
		return token.GTR
	}
	return op
}

func swapOp(op token.Token) token.Token {
	switch op {
	case token.LSS:
		return token.GTR
	case token.GTR:
		return token.LSS
	case token.LEQ:
		return token.GEQ
	case token.GEQ:
		return token.LEQ
	}
	return op
}

// collectFields gathers the struct fields a value's description depends on.
func collectFields(v ssa.Value, out *[]*types.Var, depth int) {
	if v == nil || depth > 6 {
		return
	}
	if f, base := loadedField(v); f != nil {
		*out = append(*out, f)
		collectFields(base, out, depth+1)
		return
	}
	switch x := v.(type) {
	case *ssa.ChangeType:
		collectFields(x.X, out, depth)
	case *ssa.Convert:
		collectFields(x.X, out, depth)
	case *ssa.MakeInterface:
		collectFields(x.X, out, depth)
	case *ssa.UnOp:
		collectFields(x.X, out, depth+1)
	case *ssa.BinOp:
		collectFields(x.X, out, depth+1)
		collectFields(x.Y, out, depth+1)
	case *ssa.Call:
		if b, ok := x.Call.Value.(*ssa.Builtin); ok && (b.Name() == "len" || b.Name() == "cap") {
			for _, a := range x.Call.Args {
				collectFields(a, out, depth+1)
			}
		}
	case *ssa.Extract:
		collectFields(x.Tuple, out, depth+1)
	case *ssa.TypeAssert:
		collectFields(x.X, out, depth+1)
	}
}

// condAtoms normalises a boolean SSA value under a polarity into atoms.
func (fa *Facts) condAtoms(cond ssa.Value, truth bool, depth int) []string {
	var atoms []string
	add := func(s string, vals ...ssa.Value) {
		atoms = append(atoms, s)
		if _, ok := fa.mentions[s]; !ok {
			var fs []*types.Var
			for _, v := range vals {
				collectFields(v, &fs, 0)
			}
			fa.mentions[s] = fs
		}
	}
	switch x := cond.(type) {
	case *ssa.UnOp:
		if x.Op == token.NOT {
			return fa.condAtoms(x.X, !truth, depth)
		}
	case *ssa.BinOp:
		op := x.Op
		switch op {
		case token.EQL, token.NEQ, token.LSS, token.LEQ, token.GTR, token.GEQ:
			l, r := x.X, x.Y
			if _, lc := stripConv(l).(*ssa.Const); lc {
				if _, rc := stripConv(r).(*ssa.Const); !rc {
					l, r = r, l
					op = swapOp(op)
				}
			}
			if !truth {
				op = negOp(op)
			}
			ld, rd := describe(l), describe(r)
			// canonical forms for length tests against 0/1
			if strings.HasPrefix(ld, "builtin:len(") {
				if n, ok := constInt(r); ok {
					switch {
					case n == 0 && (op == token.GTR || op == token.NEQ), n == 1 && op == token.GEQ:
						op, rd = token.NEQ, "0"
					case n == 0 && (op == token.LEQ || op == token.EQL), n == 1 && op == token.LSS:
						op, rd = token.EQL, "0"
					}
				}
			}
			add(ld+" "+op.String()+" "+rd, l, r)
			// bool compare against const: also emit the plain form
			return atoms
		}
	case *ssa.Call:
		// predicate helper: the call atom itself plus what its result implies
		s := describe(x)
		if truth {
			add(s+" == true", x)
		} else {
			add(s+" == false", x)
		}
		if g := staticCallee(&x.Call); g != nil && depth < 2 && g.Pkg != nil && g.Pkg.Pkg.Path() == smtpPath {
			for a := range fa.Implied(g, truth, depth+1) {
				atoms = append(atoms, a)
			}
		}
		return atoms
	}
	s := describe(cond)
	if truth {
		add(s+" == true", cond)
	} else {
		add(s+" == false", cond)
	}
	return atoms
}

// Implied computes the facts that hold whenever bool-returning g returns the
// given truth value: intersection over g's return sites whose value can equal
// truth, of (facts at the site ∪ atoms(value==truth)).
func (fa *Facts) Implied(g *ssa.Function, truth bool, depth int) FactSet {
	k := impliedKey{g, truth}
	if s, ok := fa.implied[k]; ok {
		return s
	}
	fa.implied[k] = FactSet{} // cut recursion
	res := g.Signature.Results()
	if res.Len() != 1 || g.Blocks == nil {
		return FactSet{}
	}
	if b, ok := res.At(0).Type().Underlying().(*types.Basic); !ok || b.Kind() != types.Bool {
		return FactSet{}
	}
	ff := fa.analyze(g, depth)
	var acc FactSet // TOP
	any := false
	var handle func(v ssa.Value, at FactSet, d int)
	handle = func(v ssa.Value, at FactSet, d int) {
		if c, ok := constBool(v); ok {
			if c != truth {
				return // cannot return truth here
			}
			acc = intersect(acc, at)
			any = true
			return
		}
		if phi, ok := v.(*ssa.Phi); ok && d < 3 {
			for i, e := range phi.Edges {
				pred := phi.Block().Preds[i]
				st := ff.edgeOut(pred, phi.Block())
				handle(e, st, d+1)
			}
			return
		}
		st := at.clone()
		if st == nil {
			st = FactSet{}
		}
		for _, a := range fa.condAtoms(v, truth, depth) {
			st[a] = true
		}
		acc = intersect(acc, st)
		any = true
	}
	for _, b := range g.Blocks {
		if len(b.Instrs) == 0 {
			continue
		}
		if ret, ok := b.Instrs[len(b.Instrs)-1].(*ssa.Return); ok && len(ret.Results) == 1 {
			handle(ret.Results[0], ff.At(ret), 0)
		}
	}
	if !any || acc == nil {
		acc = FactSet{}
	}
	fa.implied[k] = acc
	return acc
}

// FuncFacts is the result for one function.
type FuncFacts struct {
	fa  *Facts
	f   *ssa.Function
	in  map[*ssa.BasicBlock]FactSet
	out map[*ssa.BasicBlock]FactSet
	dep int
}

func (fa *Facts) Analyze(f *ssa.Function) *FuncFacts { return fa.analyze(f, 0) }

func (fa *Facts) analyze(f *ssa.Function, depth int) *FuncFacts {
	if r, ok := fa.cache[f]; ok {
		return r
	}
	ff := &FuncFacts{fa: fa, f: f, in: map[*ssa.BasicBlock]FactSet{}, out: map[*ssa.BasicBlock]FactSet{}, dep: depth}
	fa.cache[f] = ff
	if len(f.Blocks) == 0 {
		return ff
	}
	ff.in[f.Blocks[0]] = FactSet{}
	work := []*ssa.BasicBlock{f.Blocks[0]}
	inWork := map[*ssa.BasicBlock]bool{f.Blocks[0]: true}
	first := map[*ssa.BasicBlock]bool{}
	for len(work) > 0 {
		b := work[0]
		work = work[1:]
		inWork[b] = false
		st := ff.in[b].clone()
		if st == nil {
			continue
		}
		for _, in := range b.Instrs {
			ff.transfer(in, st)
		}
		if first[b] && equalSet(st, ff.out[b]) {
			continue
		}
		first[b] = true
		ff.out[b] = st
		for _, s := range b.Succs {
			var nin FactSet
			if s == f.Blocks[0] {
				nin = FactSet{}
			}
			for _, pr := range s.Preds {
				if ff.out[pr] == nil {
					continue
				}
				nin = intersect(nin, ff.edgeOut(pr, s))
			}
			if !equalSet(nin, ff.in[s]) || !first[s] {
				ff.in[s] = nin
				if !inWork[s] {
					work = append(work, s)
					inWork[s] = true
				}
			}
		}
	}
	return ff
}

// edgeOut: facts at the end of pred plus the atoms of its branch condition
// for the edge pred->succ.
func (ff *FuncFacts) edgeOut(pred, succ *ssa.BasicBlock) FactSet {
	st := ff.out[pred].clone()
	if st == nil {
		return nil
	}
	if len(pred.Instrs) == 0 {
		return st
	}
	if iff, ok := pred.Instrs[len(pred.Instrs)-1].(*ssa.If); ok && len(pred.Succs) == 2 && pred.Succs[0] != pred.Succs[1] {
		truth := pred.Succs[0] == succ
		for _, a := range ff.fa.condAtoms(iff.Cond, truth, ff.dep) {
			st[a] = true
		}
		for a := range ff.phiCondFacts(iff.Cond, truth) {
			st[a] = true
		}
	}
	return st
}

// phiCondFacts: when the branch condition tests a phi (directly, negated, or
// compared with a constant), the facts implied by the outcome are the
// intersection, over the incoming edges whose value can produce that outcome,
// of the facts at the end of that edge plus the atoms of the substituted
// condition. Edges whose fact set is contradictory are infeasible and skipped.
func (ff *FuncFacts) phiCondFacts(cond ssa.Value, truth bool) FactSet {
	for {
		u, ok := cond.(*ssa.UnOp)
		if !ok || u.Op != token.NOT {
			break
		}
		cond, truth = u.X, !truth
	}
	var phi *ssa.Phi
	var mk func(e ssa.Value) (atoms []string, decided, val bool)
	switch x := cond.(type) {
	case *ssa.Phi:
		phi = x
		mk = func(e ssa.Value) ([]string, bool, bool) {
			if b, ok := constBool(e); ok {
				return nil, true, b
			}
			return ff.fa.condAtoms(e, truth, ff.dep), false, false
		}
	case *ssa.BinOp:
		if x.Op != token.EQL && x.Op != token.NEQ {
			return nil
		}
		var other ssa.Value
		if p, ok := x.X.(*ssa.Phi); ok {
			phi, other = p, x.Y
		} else if p, ok := x.Y.(*ssa.Phi); ok {
			phi, other = p, x.X
		}
		if phi == nil {
			return nil
		}
		oc, isConst := stripConv(other).(*ssa.Const)
		if !isConst {
			return nil
		}
		mk = func(e ssa.Value) ([]string, bool, bool) {
			ev := stripConv(e)
			if ec, ok := ev.(*ssa.Const); ok {
				same := (ec.Value == nil && oc.Value == nil) || (ec.Value != nil && oc.Value != nil && ec.Value.ExactString() == oc.Value.ExactString())
				return nil, true, same == (x.Op == token.EQL)
			}
			if oc.Value == nil && valueKnownNonNil(e) {
				return nil, true, x.Op == token.NEQ
			}
			op := x.Op
			if !truth {
				op = negOp(op)
			}
			a := describe(e) + " " + op.String() + " " + describe(oc)
			if _, ok := ff.fa.mentions[a]; !ok {
				var fs []*types.Var
				collectFields(e, &fs, 0)
				ff.fa.mentions[a] = fs
			}
			return []string{a}, false, false
		}
	default:
		return nil
	}
	var acc FactSet
	any := false
	for i, e := range phi.Edges {
		atoms, decided, val := mk(e)
		if decided && val != truth {
			continue
		}
		p := phi.Block().Preds[i]
		es := ff.edgeOutBasic(p, phi.Block())
		if es == nil {
			continue // not yet visited: TOP
		}
		for _, a := range atoms {
			es[a] = true
		}
		contradictory := false
		for a := range es {
			if es[negAtom(a)] {
				contradictory = true
				break
			}
		}
		if contradictory {
			continue
		}
		acc = intersect(acc, es)
		any = true
	}
	if !any {
		return nil
	}
	return acc
}

// substPhiCond evaluates a branch condition that tests a phi (directly,
// negated, or compared with a constant) for the value arriving from
// predecessor index i: either decided statically, or a list of atoms that
// must hold for the branch outcome `truth`.
func (fa *Facts) substPhiCond(cond ssa.Value, truth bool, phiBlock *ssa.BasicBlock, i int) (atoms []string, decided, val, applicable bool) {
	for {
		u, ok := cond.(*ssa.UnOp)
		if !ok || u.Op != token.NOT {
			break
		}
		cond, truth = u.X, !truth
	}
	switch x := cond.(type) {
	case *ssa.Phi:
		if x.Block() != phiBlock {
			return nil, false, false, false
		}
		e := x.Edges[i]
		if b, ok := constBool(e); ok {
			return nil, true, b == truth, true
		}
		return fa.condAtoms(e, truth, 0), false, false, true
	case *ssa.BinOp:
		if x.Op != token.EQL && x.Op != token.NEQ {
			return nil, false, false, false
		}
		var phi *ssa.Phi
		var other ssa.Value
		if p, ok := x.X.(*ssa.Phi); ok {
			phi, other = p, x.Y
		} else if p, ok := x.Y.(*ssa.Phi); ok {
			phi, other = p, x.X
		}
		if phi == nil || phi.Block() != phiBlock {
			return nil, false, false, false
		}
		oc, isConst := stripConv(other).(*ssa.Const)
		if !isConst {
			return nil, false, false, false
		}
		e := phi.Edges[i]
		if ec, ok := stripConv(e).(*ssa.Const); ok {
			same := (ec.Value == nil && oc.Value == nil) || (ec.Value != nil && oc.Value != nil && ec.Value.ExactString() == oc.Value.ExactString())
			return nil, true, (same == (x.Op == token.EQL)) == truth, true
		}
		if oc.Value == nil && valueKnownNonNil(e) {
			return nil, true, (x.Op == token.NEQ) == truth, true
		}
		op := x.Op
		if !truth {
			op = negOp(op)
		}
		a := describe(e) + " " + op.String() + " " + describe(oc)
		if _, ok := fa.mentions[a]; !ok {
			var fs []*types.Var
			collectFields(e, &fs, 0)
			fa.mentions[a] = fs
		}
		return []string{a}, false, false, true
	}
	return nil, false, false, false
}

// PhiFeasible returns, for assumption set H, a predicate telling whether the
// path pred -> phiBlock -> succ is feasible when phiBlock's branch tests a phi
// whose value is determined by the incoming edge.
func (fa *Facts) PhiFeasible(H ...string) func(phiBlock, pred, succ *ssa.BasicBlock) bool {
	hs := HSet(H...)
	return func(pb, pred, succ *ssa.BasicBlock) bool {
		if len(pb.Instrs) == 0 {
			return true
		}
		iff, ok := pb.Instrs[len(pb.Instrs)-1].(*ssa.If)
		if !ok || len(pb.Succs) != 2 || pb.Succs[0] == pb.Succs[1] {
			return true
		}
		idx := -1
		for i, p := range pb.Preds {
			if p == pred {
				idx = i
			}
		}
		if idx < 0 {
			return true
		}
		atoms, decided, val, app := fa.substPhiCond(iff.Cond, pb.Succs[0] == succ, pb, idx)
		if !app {
			return true
		}
		if decided {
			return val
		}
		// what the edge pred->phiBlock itself establishes also counts
		local := hs
		if ea := fa.edgeAtoms(pred, pb); len(ea) > 0 {
			local = map[string]bool{}
			for k := range hs {
				local[k] = true
			}
			for _, a := range ea {
				local[a] = true
			}
		}
		for _, a := range atoms {
			if contradicts(canonAtom(a), local) {
				return false
			}
		}
		return true
	}
}

// isPhiTestBlock: the block's branch tests a phi defined in the block itself.
func isPhiTestBlock(b *ssa.BasicBlock) bool {
	if len(b.Instrs) == 0 {
		return false
	}
	iff, ok := b.Instrs[len(b.Instrs)-1].(*ssa.If)
	if !ok {
		return false
	}
	cond := iff.Cond
	for {
		u, ok := cond.(*ssa.UnOp)
		if !ok || u.Op != token.NOT {
			break
		}
		cond = u.X
	}
	switch x := cond.(type) {
	case *ssa.Phi:
		return x.Block() == b
	case *ssa.BinOp:
		if p, ok := x.X.(*ssa.Phi); ok && p.Block() == b {
			return true
		}
		if p, ok := x.Y.(*ssa.Phi); ok && p.Block() == b {
			return true
		}
	}
	return false
}

// edgeOutBasic: like edgeOut but without phi refinement (no recursion).
func (ff *FuncFacts) edgeOutBasic(pred, succ *ssa.BasicBlock) FactSet {
	st := ff.out[pred].clone()
	if st == nil {
		return nil
	}
	if len(pred.Instrs) == 0 {
		return st
	}
	if iff, ok := pred.Instrs[len(pred.Instrs)-1].(*ssa.If); ok && len(pred.Succs) == 2 && pred.Succs[0] != pred.Succs[1] {
		for _, a := range ff.fa.condAtoms(iff.Cond, pred.Succs[0] == succ, ff.dep) {
			st[a] = true
		}
	}
	return st
}

func (ff *FuncFacts) kill(st FactSet, fld *types.Var) {
	for a := range st {
		for _, m := range ff.fa.mentions[a] {
			if m == fld {
				delete(st, a)
				break
			}
		}
	}
}

// killCell removes the facts that speak about the current content of a local cell (a variable whose address is
// taken or that is captured): a store into the cell invalidates them.
func killCell(st FactSet, a *ssa.Alloc) {
	if a.Comment == "" {
		return
	}
	for _, tok := range []string{"local:" + a.Comment, "*alloc:" + a.Comment} {
		for f := range st {
			if i := strings.Index(f, tok); i >= 0 {
				end := i + len(tok)
				if end == len(f) || !isIdentByte(f[end]) {
					delete(st, f)
				}
			}
		}
	}
}

func isIdentByte(b byte) bool {
	return b == '_' || b >= '0' && b <= '9' || b >= 'a' && b <= 'z' || b >= 'A' && b <= 'Z'
}

func (ff *FuncFacts) transfer(in ssa.Instruction, st FactSet) {
	if fld, _, _ := storedField(in); fld != nil {
		ff.kill(st, fld)
		return
	}
	if sto, ok := in.(*ssa.Store); ok {
		if a, ok := sto.Addr.(*ssa.Alloc); ok {
			killCell(st, a)
			return
		}
	}
	// a call of a closure that captures a cell may write it
	if cc := callCommon(in); cc != nil {
		if mc, ok := cc.Value.(*ssa.MakeClosure); ok {
			for _, b := range mc.Bindings {
				if a, ok := b.(*ssa.Alloc); ok {
					killCell(st, a)
				}
			}
		}
	}
	switch in.(type) {
	case *ssa.Call, *ssa.Defer, *ssa.Go:
		cc := callCommon(in)
		if g := staticCallee(cc); g != nil && g.Pkg != nil && g.Pkg.Pkg.Path() == smtpPath {
			if _, isDefer := in.(*ssa.Defer); isDefer {
				return // runs at exit
			}
			for fld := range ff.fa.MayWrite(g) {
				ff.kill(st, fld)
			}
		}
	}
}

// At returns the facts that hold immediately before in executes.
func (ff *FuncFacts) At(in ssa.Instruction) FactSet {
	b := in.Block()
	st := ff.in[b].clone()
	if st == nil {
		return FactSet{} // unreachable code: nothing is claimed
	}
	for _, x := range b.Instrs {
		if x == in {
			break
		}
		ff.transfer(x, st)
	}
	return st
}

// Holds: does any of the alternative atoms hold before in?
func (ff *FuncFacts) Holds(in ssa.Instruction, alts ...string) bool {
	st := ff.At(in)
	for _, a := range alts {
		if st[a] {
			return true
		}
	}
	return false
}

// valueKnownNonNil: freshly allocated objects, results of errors.New /
// fmt.Errorf and package-level error variables initialised that way.
func valueKnownNonNil(v ssa.Value) bool {
	v = stripConv(v)
	switch x := v.(type) {
	case *ssa.Alloc:
		return true
	case *ssa.Call:
		if g := staticCallee(&x.Call); g != nil {
			n := qualFuncName(g)
			return n == "errors.New" || n == "fmt.Errorf"
		}
	}
	return knownNonNilErr(v)
}

// mentionsOf: the fields an atom speaks about (recorded when the atom was created; canonical and raw spellings).
func (fa *Facts) mentionsOf(a string) []*types.Var {
	if m, ok := fa.mentions[a]; ok {
		return m
	}
	for k, m := range fa.mentions {
		if canonAtom(k) == a {
			return m
		}
	}
	return nil
}
