package main

import (
	"sort"
	"strings"

	"golang.org/x/tools/go/ssa"
)

// E1/E2: events, must/may summaries and path rules on the SSA block graph.
//
// An event label is attached to an instruction by a Labeler (direct labels).
// Calls to static callees inside the smtp package contribute the callee's
// must-summary (events on ALL paths to a normal return) to must-queries and
// its may-summary (events on SOME path, flow-insensitively) to may-queries.
// `defer g()` contributes g's events at every RunDefers reached after the
// Defer executed. `go g()` contributes nothing to the spawning path (the
// goroutine body is analysed as its own function).

type Labeler func(in ssa.Instruction) []string

type LSet map[string]bool

func (s LSet) clone() LSet {
	o := make(LSet, len(s))
	for k := range s {
		o[k] = true
	}
	return o
}

func (s LSet) list() []string {
	var o []string
	for k := range s {
		o = append(o, k)
	}
	sort.Strings(o)
	return o
}

type Summ struct {
	p    *Program
	lab  Labeler
	must map[*ssa.Function]LSet
	may  map[*ssa.Function]LSet
	busy map[*ssa.Function]bool
}

func NewSumm(p *Program, lab Labeler) *Summ {
	return &Summ{p: p, lab: lab, must: map[*ssa.Function]LSet{}, may: map[*ssa.Function]LSet{}, busy: map[*ssa.Function]bool{}}
}

func inSmtp(f *ssa.Function) bool {
	for f != nil && f.Parent() != nil {
		f = f.Parent()
	}
	return f != nil && f.Pkg != nil && f.Pkg.Pkg.Path() == smtpPath
}

// May: labels that may occur during a call of f (any instruction, any static
// callee, including deferred calls; goroutines excluded).
func (s *Summ) May(f *ssa.Function) LSet {
	if m, ok := s.may[f]; ok {
		return m
	}
	m := LSet{}
	s.may[f] = m
	if f.Blocks == nil {
		return m
	}
	allInstrs(f, func(in ssa.Instruction) {
		for _, l := range s.lab(in) {
			m[l] = true
		}
		if _, isGo := in.(*ssa.Go); isGo {
			return
		}
		if cc := callCommon(in); cc != nil {
			if g := staticCallee(cc); g != nil && inSmtp(g) {
				for l := range s.May(g) {
					m[l] = true
				}
			}
		}
	})
	return m
}

// InstrMay: labels that may occur when in executes.
func (s *Summ) InstrMay(in ssa.Instruction) LSet {
	m := LSet{}
	for _, l := range s.lab(in) {
		m[l] = true
	}
	if _, isGo := in.(*ssa.Go); isGo {
		return m
	}
	if _, isDefer := in.(*ssa.Defer); isDefer {
		return m // accounted at RunDefers
	}
	if cc := callCommon(in); cc != nil {
		if g := staticCallee(cc); g != nil && inSmtp(g) {
			for l := range s.May(g) {
				m[l] = true
			}
		}
	}
	return m
}

// InstrMust: labels that certainly occur when in executes and returns.
func (s *Summ) InstrMust(in ssa.Instruction) LSet {
	m := LSet{}
	for _, l := range s.lab(in) {
		m[l] = true
	}
	switch in.(type) {
	case *ssa.Go, *ssa.Defer:
		return m
	}
	if cc := callCommon(in); cc != nil {
		if g := staticCallee(cc); g != nil && inSmtp(g) {
			for l := range s.Must(g) {
				m[l] = true
			}
		}
	}
	return m
}

// deferLabels: labels certainly produced when the deferred call runs.
func (s *Summ) deferMust(d *ssa.Defer) LSet {
	m := LSet{}
	for _, l := range s.lab(d) {
		m[l] = true
	}
	if g := staticCallee(&d.Call); g != nil && inSmtp(g) {
		for l := range s.Must(g) {
			m[l] = true
		}
	}
	return m
}

func (s *Summ) deferMay(d *ssa.Defer) LSet {
	m := LSet{}
	for _, l := range s.lab(d) {
		m[l] = true
	}
	if g := staticCallee(&d.Call); g != nil && inSmtp(g) {
		for l := range s.May(g) {
			m[l] = true
		}
	}
	return m
}

// mustState: labels seen on all paths + deferred labels pending on all paths.
type mustState struct {
	seen, pend LSet
	top        bool
}

func (a mustState) meet(b mustState) mustState {
	if a.top {
		return mustState{seen: b.seen.clone(), pend: b.pend.clone(), top: b.top}
	}
	if b.top {
		return mustState{seen: a.seen.clone(), pend: a.pend.clone()}
	}
	o := mustState{seen: LSet{}, pend: LSet{}}
	for k := range a.seen {
		if b.seen[k] {
			o.seen[k] = true
		}
	}
	for k := range a.pend {
		if b.pend[k] {
			o.pend[k] = true
		}
	}
	return o
}

func eqL(a, b LSet) bool {
	if len(a) != len(b) {
		return false
	}
	for k := range a {
		if !b[k] {
			return false
		}
	}
	return true
}

func (a mustState) eq(b mustState) bool {
	return a.top == b.top && eqL(a.seen, b.seen) && eqL(a.pend, b.pend)
}

// MustIn computes, for each block, the labels seen on all paths from entry.
// edgeKill, if non-nil, can veto an edge (treated as absent).
func (s *Summ) mustFlow(f *ssa.Function) (in map[*ssa.BasicBlock]mustState) {
	return s.mustFlowSkip(f, nil)
}

func (s *Summ) mustFlowSkip(f *ssa.Function, skip func(from, to *ssa.BasicBlock) bool) (in map[*ssa.BasicBlock]mustState) {
	in = map[*ssa.BasicBlock]mustState{}
	out := map[*ssa.BasicBlock]mustState{}
	for _, b := range f.Blocks {
		in[b] = mustState{top: true}
		out[b] = mustState{top: true}
	}
	if len(f.Blocks) == 0 {
		return
	}
	in[f.Blocks[0]] = mustState{seen: LSet{}, pend: LSet{}}
	changed := true
	for changed {
		changed = false
		for _, b := range f.Blocks {
			if b != f.Blocks[0] {
				st := mustState{top: true}
				for _, p := range b.Preds {
					if skip != nil && skip(p, b) {
						continue
					}
					st = st.meet(out[p])
				}
				in[b] = st
			}
			st := in[b]
			if st.top {
				continue
			}
			st = mustState{seen: st.seen.clone(), pend: st.pend.clone()}
			for _, ins := range b.Instrs {
				s.mustStep(ins, &st)
			}
			if !st.eq(out[b]) {
				out[b] = st
				changed = true
			}
		}
	}
	return in
}

func (s *Summ) mustStep(ins ssa.Instruction, st *mustState) {
	switch x := ins.(type) {
	case *ssa.Defer:
		for l := range s.deferMust(x) {
			st.pend[l] = true
		}
	case *ssa.RunDefers:
		for l := range st.pend {
			st.seen[l] = true
		}
	default:
		for l := range s.InstrMust(ins) {
			st.seen[l] = true
		}
	}
}

// Must: labels occurring on every path from entry to a normal return of f.
func (s *Summ) Must(f *ssa.Function) LSet {
	if m, ok := s.must[f]; ok {
		return m
	}
	if s.busy[f] || f.Blocks == nil {
		return LSet{}
	}
	s.busy[f] = true
	defer delete(s.busy, f)
	in := s.mustFlow(f)
	var acc LSet
	for _, b := range f.Blocks {
		if len(b.Instrs) == 0 {
			continue
		}
		if _, ok := b.Instrs[len(b.Instrs)-1].(*ssa.Return); !ok {
			continue
		}
		st := in[b]
		if st.top {
			continue // unreachable
		}
		st = mustState{seen: st.seen.clone(), pend: st.pend.clone()}
		for _, ins := range b.Instrs {
			s.mustStep(ins, &st)
		}
		if acc == nil {
			acc = st.seen
		} else {
			for k := range acc {
				if !st.seen[k] {
					delete(acc, k)
				}
			}
		}
	}
	if acc == nil {
		acc = LSet{}
	}
	s.must[f] = acc
	return acc
}

// MustUnder: labels on every entry→return path that avoids skipped edges.
func (s *Summ) MustUnder(f *ssa.Function, skip func(from, to *ssa.BasicBlock) bool) (LSet, int) {
	in := s.mustFlowSkip(f, skip)
	var acc LSet
	exits := 0
	for _, b := range f.Blocks {
		if len(b.Instrs) == 0 {
			continue
		}
		if _, ok := b.Instrs[len(b.Instrs)-1].(*ssa.Return); !ok {
			continue
		}
		st := in[b]
		if st.top {
			continue
		}
		exits++
		st = mustState{seen: st.seen.clone(), pend: st.pend.clone()}
		for _, ins := range b.Instrs {
			s.mustStep(ins, &st)
		}
		if acc == nil {
			acc = st.seen
		} else {
			for k := range acc {
				if !st.seen[k] {
					delete(acc, k)
				}
			}
		}
	}
	if acc == nil {
		acc = LSet{}
	}
	return acc, exits
}

// SeenBefore returns the labels certainly seen on every path from entry to
// just before ins.
func (s *Summ) SeenBefore(ins ssa.Instruction) LSet {
	f := ins.Parent()
	in := s.mustFlow(f)
	st := in[ins.Block()]
	if st.top {
		return nil // unreachable
	}
	st = mustState{seen: st.seen.clone(), pend: st.pend.clone()}
	for _, x := range ins.Block().Instrs {
		if x == ins {
			break
		}
		s.mustStep(x, &st)
	}
	return st.seen
}

// Find returns the instructions of f directly carrying label l.
func (s *Summ) Find(f *ssa.Function, l string) []ssa.Instruction {
	var out []ssa.Instruction
	allInstrs(f, func(in ssa.Instruction) {
		for _, x := range s.lab(in) {
			if x == l {
				out = append(out, in)
			}
		}
	})
	return out
}

// FindMay returns the instructions of f that may produce label l, directly
// or through a callee.
func (s *Summ) FindMay(f *ssa.Function, l string) []ssa.Instruction {
	var out []ssa.Instruction
	allInstrs(f, func(in ssa.Instruction) {
		if d, ok := in.(*ssa.Defer); ok {
			if s.deferMay(d)[l] {
				out = append(out, in)
			}
			return
		}
		if s.InstrMay(in)[l] {
			out = append(out, in)
		}
	})
	return out
}

// PathViolation describes an offending path of a path rule.
type PathViolation struct {
	From ssa.Instruction // the triggering instruction (nil: function entry)
	At   ssa.Instruction // where the rule fails (exit or forbidden event)
	Why  string
}

// pendingFlow is the core of MustFollow / NeverFollow: a forward may-analysis
// of "trigger happened and has not been discharged yet".
// trig(in)   -> in starts the pending state (evaluated AFTER discharge on the same instr)
// disch(in)  -> in certainly discharges it
// The state also carries whether a deferred discharger is registered on the
// path (must) — pendDefer — to model `defer c.reset()`.
type pendState struct {
	reach   bool
	pending map[ssa.Instruction]bool // triggers outstanding (may)
	deferD  bool                     // a deferred discharger is certainly registered
}

func (a pendState) join(b pendState) pendState {
	if !a.reach {
		return b.copy()
	}
	if !b.reach {
		return a.copy()
	}
	o := pendState{reach: true, pending: map[ssa.Instruction]bool{}, deferD: a.deferD && b.deferD}
	for k := range a.pending {
		o.pending[k] = true
	}
	for k := range b.pending {
		o.pending[k] = true
	}
	return o
}

func (a pendState) copy() pendState {
	o := pendState{reach: a.reach, pending: map[ssa.Instruction]bool{}, deferD: a.deferD}
	for k := range a.pending {
		o.pending[k] = true
	}
	return o
}

func (a pendState) eq(b pendState) bool {
	if a.reach != b.reach || a.deferD != b.deferD || len(a.pending) != len(b.pending) {
		return false
	}
	for k := range a.pending {
		if !b.pending[k] {
			return false
		}
	}
	return true
}

type PendRule struct {
	Trig         func(in ssa.Instruction) bool
	Disch        func(in ssa.Instruction) bool                   // certainly discharges (non-defer instr)
	DeferD       func(d *ssa.Defer) bool                         // deferred call certainly discharges when run
	Forbid       func(in ssa.Instruction) bool                   // must not execute while pending (may be nil)
	SkipEdge     func(from, to *ssa.BasicBlock) bool             // edges exempted from the rule (may be nil)
	ExitOK       func(ret ssa.Instruction) bool                  // exits that need no discharge (may be nil)
	PhiOK        func(phiBlock, pred, succ *ssa.BasicBlock) bool // path-sensitive feasibility through phi-testing blocks (may be nil)
	StartPending bool                                            // the rule is pending at function entry (used for callee summaries)
	AtExit       bool                                            // require discharge before every normal return
	OnPanic      bool                                            // also require at Panic exits
}

// RunPend evaluates a pending-rule on f and returns violations.
func RunPend(f *ssa.Function, r PendRule) []PathViolation {
	in := map[*ssa.BasicBlock]pendState{}
	out := map[*ssa.BasicBlock]pendState{}
	if len(f.Blocks) == 0 {
		return nil
	}
	in[f.Blocks[0]] = pendState{reach: true, pending: map[ssa.Instruction]bool{}}
	if r.StartPending && len(f.Blocks[0].Instrs) > 0 {
		in[f.Blocks[0]].pending[f.Blocks[0].Instrs[0]] = true
	}
	var viol []PathViolation
	step := func(ins ssa.Instruction, st *pendState, report bool) {
		if len(st.pending) > 0 && r.Forbid != nil && r.Forbid(ins) {
			if report {
				for t := range st.pending {
					viol = append(viol, PathViolation{From: t, At: ins, Why: "forbidden event while pending"})
				}
			}
		}
		switch x := ins.(type) {
		case *ssa.Defer:
			if r.DeferD != nil && r.DeferD(x) {
				st.deferD = true
			}
		case *ssa.RunDefers:
			if st.deferD {
				st.pending = map[ssa.Instruction]bool{}
			}
		case *ssa.Return:
			if r.AtExit && len(st.pending) > 0 && report && (r.ExitOK == nil || !r.ExitOK(ins)) {
				for t := range st.pending {
					viol = append(viol, PathViolation{From: t, At: ins, Why: "reaches return without the required event"})
				}
			}
		case *ssa.Panic:
			if r.OnPanic && r.AtExit && len(st.pending) > 0 && report {
				for t := range st.pending {
					viol = append(viol, PathViolation{From: t, At: ins, Why: "reaches panic without the required event"})
				}
			}
		}
		if r.Disch != nil && r.Disch(ins) {
			st.pending = map[ssa.Instruction]bool{}
		}
		if r.Trig != nil && r.Trig(ins) {
			st.pending[ins] = true
		}
	}
	// For blocks whose branch tests a phi defined in the block, the out-state is
	// kept per successor, joining only the predecessors from which that
	// successor is feasible (one step of path sensitivity).
	type edgeKey struct{ from, to *ssa.BasicBlock }
	outEdge := map[edgeKey]pendState{}
	hasEdge := map[*ssa.BasicBlock]bool{}
	inFrom := func(p, b *ssa.BasicBlock) pendState {
		if hasEdge[p] {
			return outEdge[edgeKey{p, b}]
		}
		return out[p]
	}
	changed := true
	for iter := 0; changed && iter < 1000; iter++ {
		changed = false
		for _, b := range f.Blocks {
			if b != f.Blocks[0] {
				st := pendState{}
				for _, p := range b.Preds {
					if r.SkipEdge != nil && r.SkipEdge(p, b) {
						continue
					}
					st = st.join(inFrom(p, b))
				}
				in[b] = st
			}
			st := in[b].copy()
			if st.reach {
				for _, ins := range b.Instrs {
					step(ins, &st, false)
				}
				if !st.eq(out[b]) {
					out[b] = st
					changed = true
				}
			}
			if r.PhiOK != nil && isPhiTestBlock(b) && b != f.Blocks[0] {
				hasEdge[b] = true
				for _, sc := range b.Succs {
					acc := pendState{}
					for _, p := range b.Preds {
						if r.SkipEdge != nil && r.SkipEdge(p, b) {
							continue
						}
						if !r.PhiOK(b, p, sc) {
							continue
						}
						ps := inFrom(p, b).copy()
						if !ps.reach {
							continue
						}
						for _, ins := range b.Instrs {
							step(ins, &ps, false)
						}
						acc = acc.join(ps)
					}
					k := edgeKey{b, sc}
					if !acc.eq(outEdge[k]) {
						outEdge[k] = acc
						changed = true
					}
				}
			}
		}
	}
	for _, b := range f.Blocks {
		st := in[b].copy()
		if !st.reach {
			continue
		}
		for _, ins := range b.Instrs {
			step(ins, &st, true)
		}
	}
	return viol
}

// ---------- counting ----------

// CountRange computes min and max number of count(in) over all entry→normal
// return paths of f. A cycle containing a positive count gives max = inf (-1).
// deferCount is added at RunDefers for defers certainly/possibly registered:
// handled by caller through count() on RunDefers if needed.
type CountResult struct {
	Min, Max int // Max == -1: unbounded
	// MinExit/MaxExit: the return instructions realising the extremes
	MinExit, MaxExit ssa.Instruction
}

const inf = 1 << 30

func CountPaths(f *ssa.Function, count func(in ssa.Instruction) (lo, hi int), skipEdge func(from, to *ssa.BasicBlock) bool, exitOK func(ret ssa.Instruction) bool) CountResult {
	return CountPathsOpt(f, CountOpts{Count: count, SkipEdge: skipEdge, ExitOK: exitOK})
}

type CountOpts struct {
	Start    *ssa.BasicBlock // default: entry
	Count    func(in ssa.Instruction) (lo, hi int)
	SkipEdge func(from, to *ssa.BasicBlock) bool         // edge absent
	ExitEdge func(from, to *ssa.BasicBlock) bool         // edge ends the path (counts as an exit), not followed
	ExitOK   func(ret ssa.Instruction) bool              // returns not considered
	NoReturn bool                                        // returns are not exits (only ExitEdge)
	EdgeAdd  func(from, to *ssa.BasicBlock) (lo, hi int) // extra count carried by an edge (may be nil)
}

func CountPathsOpt(f *ssa.Function, o CountOpts) CountResult {
	type st struct {
		lo, hi int
		reach  bool
	}
	in := map[*ssa.BasicBlock]st{}
	out := map[*ssa.BasicBlock]st{}
	if len(f.Blocks) == 0 {
		return CountResult{}
	}
	start := o.Start
	if start == nil {
		start = f.Blocks[0]
	}
	res := CountResult{Min: inf, Max: 0}
	in[start] = st{0, 0, true}
	for iter := 0; iter < 4*len(f.Blocks)+8; iter++ {
		changed := false
		for _, b := range f.Blocks {
			if b != start {
				s := st{}
				for _, p := range b.Preds {
					if o.SkipEdge != nil && o.SkipEdge(p, b) {
						continue
					}
					if o.ExitEdge != nil && o.ExitEdge(p, b) {
						continue
					}
					po := out[p]
					if !po.reach {
						continue
					}
					if o.EdgeAdd != nil {
						elo, ehi := o.EdgeAdd(p, b)
						po.lo += elo
						po.hi += ehi
						if po.hi > inf/2 {
							po.hi = inf
						}
					}
					if !s.reach {
						s = po
					} else {
						if po.lo < s.lo {
							s.lo = po.lo
						}
						if po.hi > s.hi {
							s.hi = po.hi
						}
					}
				}
				in[b] = s
			}
			s := in[b]
			if !s.reach {
				continue
			}
			for _, ins := range b.Instrs {
				lo, hi := o.Count(ins)
				s.lo += lo
				s.hi += hi
				if s.hi > inf/2 {
					s.hi = inf
				}
			}
			if s != out[b] {
				// widening: a growing hi inside a loop is unbounded
				if po := out[b]; po.reach && s.hi > po.hi && iter > len(f.Blocks)+2 {
					s.hi = inf
				}
				out[b] = s
				changed = true
			}
		}
		if !changed {
			break
		}
	}
	note := func(s st, at ssa.Instruction) {
		if s.lo < res.Min {
			res.Min, res.MinExit = s.lo, at
		}
		if s.hi > res.Max {
			res.Max, res.MaxExit = s.hi, at
		}
	}
	for _, b := range f.Blocks {
		if len(b.Instrs) == 0 || !out[b].reach {
			continue
		}
		last := b.Instrs[len(b.Instrs)-1]
		if ret, ok := last.(*ssa.Return); ok && !o.NoReturn {
			if o.ExitOK == nil || !o.ExitOK(ret) {
				note(out[b], ret)
			}
		}
		if o.ExitEdge != nil {
			for _, sc := range b.Succs {
				if o.SkipEdge != nil && o.SkipEdge(b, sc) {
					continue
				}
				if o.ExitEdge(b, sc) {
					x := out[b]
					if o.EdgeAdd != nil {
						elo, ehi := o.EdgeAdd(b, sc)
						x.lo += elo
						x.hi += ehi
					}
					note(x, last)
				}
			}
		}
	}
	if res.Max >= inf/2 {
		res.Max = -1
	}
	if res.Min == inf {
		res.Min = 0
	}
	return res
}

// labelHas is a small helper for labelers.
func labelHas(ls []string, l string) bool {
	for _, x := range ls {
		if x == l {
			return true
		}
	}
	return false
}

func joinLabels(ls []string) string { return strings.Join(ls, ",") }
