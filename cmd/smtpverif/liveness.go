package main

import (
	"encoding/json"
	"fmt"
	"os"
	"os/exec"
	"path/filepath"
	"sort"
	"strings"
	"sync"
)

// Rule-liveness bank: for every rule a seeded single-edit variant of the real
// source is type-checked through packages.Config.Overlay (in memory) in a
// child process, and the rule must fire on it. This shows on every thorough
// run that the rules are not vacuous on the CURRENT tree.

type bankEntry struct {
	ID       string `json:"id"`
	Property string `json:"property"`
	Rule     string `json:"rule"` // expected rule id (prefix match)
	File     string `json:"file"`
	Old      string `json:"old"`
	New      string `json:"new"`
	Note     string `json:"note"`
	// More: further (old, new) replacements in the same file, applied after the first one.
	More [][2]string `json:"more,omitempty"`
}

type benignEntry struct {
	ID    string `json:"id"`
	Edits []struct {
		File string `json:"file"`
		Old  string `json:"old"`
		New  string `json:"new"`
	} `json:"edits"`
}

func loadBenign() ([]benignEntry, error) {
	b, err := os.ReadFile(filepath.Join(verifDir(), "liveness", "benign.json"))
	if err != nil {
		return nil, err
	}
	var es []benignEntry
	if err := json.Unmarshal(b, &es); err != nil {
		return nil, err
	}
	return es, nil
}

// runBenignVariant: exit 0 = the property's rules are silent on the behaviour-preserving
// variant, 3 = false alarm, 4 = skipped (edit text missing), 5 = does not type-check.
func runBenignVariant(dir, id, prop string) int {
	es, err := loadBenign()
	if err != nil {
		fmt.Println("ERROR:", err)
		return 2
	}
	var e *benignEntry
	for i := range es {
		if es[i].ID == id {
			e = &es[i]
		}
	}
	if e == nil {
		fmt.Println("ERROR: no benign entry", id)
		return 2
	}
	overlay := map[string][]byte{}
	for _, ed := range e.Edits {
		path := filepath.Join(dir, ed.File)
		src, ok := overlay[path]
		if !ok {
			b, err := os.ReadFile(path)
			if err != nil {
				fmt.Println("SKIPPED: cannot read", path)
				return 4
			}
			src = b
		}
		if strings.Count(string(src), ed.Old) != 1 {
			fmt.Printf("SKIPPED: edit text occurs %d times in %s\n", strings.Count(string(src), ed.Old), ed.File)
			return 4
		}
		overlay[path] = []byte(strings.Replace(string(src), ed.Old, ed.New, 1))
	}
	p, err := LoadOverlay(dir, "", "", overlay)
	if err != nil {
		fmt.Println("NOCOMPILE:", err)
		return 5
	}
	pd := props[prop]
	r := NewReporter(prop, "quick", p)
	ctx := &Ctx{P: p, R: r, Tier: "quick", A: ResolveAnchors(p), F: NewFacts(p)}
	func() {
		defer func() {
			if x := recover(); x != nil {
				r.Rule("checker-panic", "-", "crash", 0)
				r.Und("checker/panic", "-", fmt.Sprint(x))
			}
		}()
		pd.Run(ctx)
	}()
	ctx.emitAnchors()
	r.closeRule()
	known, _ := loadKnown(filepath.Join(verifDir(), "known_findings.txt"))
	var alarms []string
	for _, o := range r.Obls {
		if o.st == OK {
			continue
		}
		isKnown := false
		for _, k := range known {
			if k.Property == prop && k.Key == o.Key {
				isKnown = true
			}
		}
		if !isKnown {
			alarms = append(alarms, o.Key)
		}
	}
	if len(alarms) > 0 {
		fmt.Printf("FALSE-ALARM: %s on benign variant %s: %v\n", prop, id, alarms)
		return 3
	}
	fmt.Printf("QUIET: %s on %s\n", prop, id)
	return 0
}

func loadBank() ([]bankEntry, error) {
	b, err := os.ReadFile(filepath.Join(verifDir(), "liveness", "bank.json"))
	if err != nil {
		return nil, err
	}
	var es []bankEntry
	if err := json.Unmarshal(b, &es); err != nil {
		return nil, err
	}
	return es, nil
}

// exit codes of a variant child: 0 fired, 3 silent, 4 skipped (anchor text
// missing), 5 variant does not type-check, 2 other error.
func runVariant(dir, id string) int {
	es, err := loadBank()
	if err != nil {
		fmt.Println("ERROR:", err)
		return 2
	}
	var e *bankEntry
	for i := range es {
		if es[i].ID == id {
			e = &es[i]
		}
	}
	if e == nil {
		fmt.Println("ERROR: no bank entry", id)
		return 2
	}
	path := filepath.Join(dir, e.File)
	src, err := os.ReadFile(path)
	if err != nil {
		fmt.Println("SKIPPED: cannot read", path)
		return 4
	}
	if strings.Count(string(src), e.Old) != 1 {
		fmt.Printf("SKIPPED: seed text occurs %d times in %s\n", strings.Count(string(src), e.Old), e.File)
		return 4
	}
	mod := strings.Replace(string(src), e.Old, e.New, 1)
	for _, m := range e.More {
		if strings.Count(mod, m[0]) != 1 {
			fmt.Printf("SKIPPED: additional seed text occurs %d times in %s\n", strings.Count(mod, m[0]), e.File)
			return 4
		}
		mod = strings.Replace(mod, m[0], m[1], 1)
	}
	p, err := LoadOverlay(dir, "", "", map[string][]byte{path: []byte(mod)})
	if err != nil {
		fmt.Println("NOCOMPILE:", err)
		return 5
	}
	pd := props[e.Property]
	if pd == nil {
		fmt.Println("ERROR: unknown property", e.Property)
		return 2
	}
	r := NewReporter(e.Property, "quick", p)
	ctx := &Ctx{P: p, R: r, Tier: "quick", A: ResolveAnchors(p), F: NewFacts(p)}
	func() {
		defer func() {
			if x := recover(); x != nil {
				r.Rule("checker-panic", "-", "crash", 0)
				r.Und("checker/panic", "-", fmt.Sprint(x))
			}
		}()
		pd.Run(ctx)
	}()
	ctx.emitAnchors()
	r.closeRule()
	var fired []string
	knownKeys := map[string]bool{}
	if ks, err := loadKnown(filepath.Join(verifDir(), "known_findings.txt")); err == nil {
		for _, k := range ks {
			if k.Property == e.Property {
				knownKeys[k.Key] = true
			}
		}
	}
	for _, o := range r.Obls {
		if o.st != OK && strings.HasPrefix(o.Rule, e.Rule) && !knownKeys[o.Key] {
			fired = append(fired, o.Key+" @"+o.Pos)
		}
	}
	if len(fired) == 0 {
		var other []string
		for _, o := range r.Obls {
			if o.st != OK {
				other = append(other, o.Key)
			}
		}
		fmt.Printf("SILENT: rule %s did not fire on seed %s (other failed obligations: %v)\n", e.Rule, e.ID, other)
		return 3
	}
	fmt.Printf("LIVE: %s fired: %s\n", e.Rule, fired[0])
	return 0
}

func runLivenessBank(dir, prop string, r *Reporter) {
	es, err := loadBank()
	if err != nil {
		r.Note("liveness bank not available: %v", err)
		return
	}
	var mine []bankEntry
	for _, e := range es {
		if e.Property == prop {
			mine = append(mine, e)
		}
	}
	self, _ := os.Executable()
	type res struct {
		e    bankEntry
		code int
		out  string
	}
	results := make([]res, len(mine))
	sem := make(chan struct{}, 8)
	var wg sync.WaitGroup
	for i, e := range mine {
		wg.Add(1)
		go func(i int, e bankEntry) {
			defer wg.Done()
			sem <- struct{}{}
			defer func() { <-sem }()
			cmd := exec.Command(self, "-repo", dir, "-variant", e.ID)
			cmd.Env = append(os.Environ(), "VERIF_NO_EVIDENCE=1")
			out, err := cmd.CombinedOutput()
			code := 0
			if err != nil {
				if ee, ok := err.(*exec.ExitError); ok {
					code = ee.ExitCode()
				} else {
					code = 2
				}
			}
			lines := strings.Split(strings.TrimSpace(string(out)), "\n")
			results[i] = res{e, code, lines[len(lines)-1]}
		}(i, e)
	}
	wg.Wait()
	// precision side: behaviour-preserving variants must stay silent
	if bs, err := loadBenign(); err == nil {
		type bres struct {
			id   string
			code int
			out  string
		}
		bresults := make([]bres, len(bs))
		var wg2 sync.WaitGroup
		for i, b := range bs {
			wg2.Add(1)
			go func(i int, id string) {
				defer wg2.Done()
				sem <- struct{}{}
				defer func() { <-sem }()
				cmd := exec.Command(self, "-repo", dir, "-benign", id, "-property", prop)
				cmd.Env = append(os.Environ(), "VERIF_NO_EVIDENCE=1")
				out, err := cmd.CombinedOutput()
				code := 0
				if err != nil {
					if ee, ok := err.(*exec.ExitError); ok {
						code = ee.ExitCode()
					} else {
						code = 2
					}
				}
				lines := strings.Split(strings.TrimSpace(string(out)), "\n")
				bresults[i] = bres{id, code, lines[len(lines)-1]}
			}(i, b.ID)
		}
		wg2.Wait()
		quiet, bskipped := 0, 0
		var alarms []string
		for _, x := range bresults {
			switch x.code {
			case 0:
				quiet++
			case 4, 5:
				bskipped++
			default:
				alarms = append(alarms, x.out)
			}
		}
		r.Extra["benign_variants"] = map[string]interface{}{"variants": len(bs), "quiet": quiet, "skipped": bskipped, "false_alarms": alarms}
		fmt.Printf("benign variants for %s: %d variants, %d quiet, %d skipped, %d false alarms\n", prop, len(bs), quiet, bskipped, len(alarms))
		for _, a := range alarms {
			fmt.Println("BENIGN-ALARM:", a)
		}
	}
	fired, skipped, nocompile := 0, 0, 0
	var silent []string
	var detail []string
	for _, x := range results {
		switch x.code {
		case 0:
			fired++
		case 4:
			skipped++
		case 5:
			nocompile++
		default:
			silent = append(silent, x.e.ID+" ("+x.e.Rule+")")
		}
		detail = append(detail, fmt.Sprintf("%s [%s] exit=%d %s", x.e.ID, x.e.Rule, x.code, x.out))
	}
	sort.Strings(detail)
	r.Extra["liveness"] = map[string]interface{}{"seeds": len(mine), "fired": fired, "skipped_anchor_text_missing": skipped, "seed_does_not_compile": nocompile, "silent": silent, "detail": detail}
	fmt.Printf("liveness bank for %s: %d seeds, %d fired, %d skipped, %d not compiling, %d silent\n", prop, len(mine), fired, skipped, nocompile, len(silent))
	for _, s := range silent {
		fmt.Println("LIVENESS-SILENT:", s)
	}
	if len(silent) > 0 && os.Getenv("VERIF_STRICT_LIVENESS") != "" {
		r.Rule("rule-liveness", "overlay variants", "every rule fires on its seeded single-edit variant of the current source", 0)
		for _, s := range silent {
			r.Und("liveness/"+s, "-", "rule stayed silent on its seed: the rule is vacuous on the current tree")
		}
	}
}
