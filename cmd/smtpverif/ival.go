package main

import (
	"fmt"
	"go/token"
	"sort"

	"golang.org/x/tools/go/ssa"
)

// Interval-class abstract interpreter (E5, interval form). A loop body or a
// small function is walked once per class of a symbolic integer input; the
// classes are the intervals induced by the constants the input is compared
// with, so every comparison is decided uniformly inside a class. Everything
// that is not integer comparison / boolean structure / an event call is
// opaque. Undecidable branches make the class undecided.

type ivKind int

const (
	ivOpaque ivKind = iota
	ivInt
	ivBool
	ivSym // the symbolic input, value in [Lo,Hi]
)

type ivVal struct {
	K      ivKind
	I      int64
	B      bool
	Lo, Hi int64
}

type ivHooks struct {
	// Value gives the abstract value of v when the interpreter does not know
	// it (symbolic inputs, lengths); ok=false: opaque.
	Value func(v ssa.Value) (ivVal, bool)
	// Call is invoked for every call; may append events. Returns the value of
	// the call (opaque by default).
	Call func(call *ssa.Call, arg func(ssa.Value) ivVal) (ivVal, string)
	// Store is invoked for stores (events such as "REJECT").
	Store func(st *ssa.Store, val ivVal) string
	// Return is invoked for returns.
	Return func(r *ssa.Return, arg func(ssa.Value) ivVal) string
	// Stop: entering this block ends the walk (loop header).
	Stop func(b *ssa.BasicBlock) bool
}

type ivRun struct {
	h      ivHooks
	env    map[ssa.Value]ivVal
	Events []string
	Und    string
}

func (r *ivRun) val(v ssa.Value) ivVal {
	if a, ok := r.env[v]; ok {
		return a
	}
	if c, ok := v.(*ssa.Const); ok {
		if k, ok := constInt(c); ok {
			return ivVal{K: ivInt, I: k}
		}
		if b, ok := constBool(c); ok {
			return ivVal{K: ivBool, B: b}
		}
		return ivVal{}
	}
	if r.h.Value != nil {
		if a, ok := r.h.Value(v); ok {
			return a
		}
	}
	switch x := v.(type) {
	case *ssa.Convert:
		return r.val(x.X)
	case *ssa.ChangeType:
		return r.val(x.X)
	}
	return ivVal{}
}

func cmpInt(op token.Token, a, b int64) bool {
	switch op {
	case token.EQL:
		return a == b
	case token.NEQ:
		return a != b
	case token.LSS:
		return a < b
	case token.LEQ:
		return a <= b
	case token.GTR:
		return a > b
	case token.GEQ:
		return a >= b
	}
	return false
}

// cmpSym decides sym OP k uniformly over [lo,hi]; ok=false if not uniform.
func cmpSym(op token.Token, lo, hi, k int64) (bool, bool) {
	a, b := cmpInt(op, lo, k), cmpInt(op, hi, k)
	if a != b {
		return false, false
	}
	// EQL/NEQ can be non-monotone inside the interval
	if (op == token.EQL || op == token.NEQ) && lo < k && k < hi {
		return false, false
	}
	return a, true
}

func (r *ivRun) binop(x *ssa.BinOp) (ivVal, bool) {
	a, b := r.val(x.X), r.val(x.Y)
	switch x.Op {
	case token.EQL, token.NEQ, token.LSS, token.LEQ, token.GTR, token.GEQ:
		switch {
		case a.K == ivInt && b.K == ivInt:
			return ivVal{K: ivBool, B: cmpInt(x.Op, a.I, b.I)}, true
		case a.K == ivSym && b.K == ivInt:
			v, ok := cmpSym(x.Op, a.Lo, a.Hi, b.I)
			return ivVal{K: ivBool, B: v}, ok
		case a.K == ivInt && b.K == ivSym:
			v, ok := cmpSym(swapOp(x.Op), b.Lo, b.Hi, a.I)
			return ivVal{K: ivBool, B: v}, ok
		case a.K == ivBool && b.K == ivBool && (x.Op == token.EQL || x.Op == token.NEQ):
			return ivVal{K: ivBool, B: (a.B == b.B) == (x.Op == token.EQL)}, true
		}
		return ivVal{}, false
	case token.LAND, token.AND:
		if a.K == ivBool && b.K == ivBool {
			return ivVal{K: ivBool, B: a.B && b.B}, true
		}
	case token.LOR, token.OR:
		if a.K == ivBool && b.K == ivBool {
			return ivVal{K: ivBool, B: a.B || b.B}, true
		}
	case token.ADD, token.SUB:
		if a.K == ivInt && b.K == ivInt {
			if x.Op == token.ADD {
				return ivVal{K: ivInt, I: a.I + b.I}, true
			}
			return ivVal{K: ivInt, I: a.I - b.I}, true
		}
	}
	return ivVal{}, true // opaque arithmetic
}

// Walk interprets from block b (entered from `from`, nil for entry).
func (r *ivRun) Walk(b, from *ssa.BasicBlock) {
	for steps := 0; steps < 500; steps++ {
		if from != nil {
			idx := -1
			for i, p := range b.Preds {
				if p == from {
					idx = i
				}
			}
			nv := map[ssa.Value]ivVal{}
			for _, in := range b.Instrs {
				phi, ok := in.(*ssa.Phi)
				if !ok {
					break
				}
				nv[phi] = r.val(phi.Edges[idx])
			}
			for k, v := range nv {
				r.env[k] = v
			}
		}
		for _, in := range b.Instrs {
			switch x := in.(type) {
			case *ssa.Phi, *ssa.DebugRef:
			case *ssa.BinOp:
				if _, pre := r.env[x]; pre {
					continue // pre-seeded by the caller (e.g. err == nil for well-formed input)
				}
				v, ok := r.binop(x)
				if !ok {
					r.Und = fmt.Sprintf("comparison %s is not uniform on the class", x.String())
					return
				}
				r.env[x] = v
			case *ssa.UnOp:
				if x.Op == token.NOT {
					a := r.val(x.X)
					if a.K == ivBool {
						r.env[x] = ivVal{K: ivBool, B: !a.B}
					}
				}
			case *ssa.Call:
				if r.h.Call != nil {
					v, ev := r.h.Call(x, r.val)
					if ev != "" {
						r.Events = append(r.Events, ev)
					}
					if v.K != ivOpaque {
						r.env[x] = v
					}
				}
			case *ssa.Store:
				if r.h.Store != nil {
					if ev := r.h.Store(x, r.val(x.Val)); ev != "" {
						r.Events = append(r.Events, ev)
					}
				}
			case *ssa.Return:
				if r.h.Return != nil {
					if ev := r.h.Return(x, r.val); ev != "" {
						r.Events = append(r.Events, ev)
					}
				}
				return
			case *ssa.Panic:
				r.Events = append(r.Events, "PANIC")
				return
			}
		}
		last := b.Instrs[len(b.Instrs)-1]
		var next *ssa.BasicBlock
		switch x := last.(type) {
		case *ssa.Jump:
			next = b.Succs[0]
		case *ssa.If:
			c := r.val(x.Cond)
			if c.K != ivBool {
				r.Und = "branch on a value the class interpreter cannot decide: " + describe(x.Cond)
				return
			}
			if c.B {
				next = b.Succs[0]
			} else {
				next = b.Succs[1]
			}
		default:
			return
		}
		if r.h.Stop != nil && r.h.Stop(next) {
			return
		}
		from, b = b, next
	}
	r.Und = "walk does not terminate"
}

// classBoundaries collects the constants an SSA value is compared with inside
// f (through conversions) and returns the sorted class intervals over
// [min,max].
func classIntervals(f *ssa.Function, isSym func(ssa.Value) bool, min, max int64, extra []int64) [][2]int64 {
	cuts := map[int64]bool{min: true}
	add := func(k int64) {
		if k >= min && k <= max {
			cuts[k] = true
		}
		if k+1 >= min && k+1 <= max {
			cuts[k+1] = true
		}
	}
	for _, k := range extra {
		add(k - 1)
		add(k)
	}
	for _, g := range withClosures(f) {
		allInstrs(g, func(in ssa.Instruction) {
			bo, ok := in.(*ssa.BinOp)
			if !ok {
				return
			}
			for _, p := range [][2]ssa.Value{{bo.X, bo.Y}, {bo.Y, bo.X}} {
				if isSym(stripConv(p[0])) {
					if k, ok := constInt(p[1]); ok {
						add(k - 1)
						add(k)
					}
				}
			}
		})
	}
	var cs []int64
	for k := range cuts {
		cs = append(cs, k)
	}
	sort.Slice(cs, func(i, j int) bool { return cs[i] < cs[j] })
	var out [][2]int64
	for i, lo := range cs {
		hi := max
		if i+1 < len(cs) {
			hi = cs[i+1] - 1
		}
		out = append(out, [2]int64{lo, hi})
	}
	return out
}
