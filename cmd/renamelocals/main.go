// renamelocals rewrites, in place, every non-test Go file of the package in the given directory: each local variable
// (parameters, results, receivers, := and var declarations inside functions, range variables) gets a suffix appended
// to its name. The edit preserves behaviour; it is used by tools/renamecheck.sh to show that no rule of the checker
// depends on the identifiers chosen for locals.
package main

import (
	"fmt"
	"go/ast"
	"go/token"
	"go/types"
	"os"
	"sort"
	"strings"

	"golang.org/x/tools/go/packages"
)

func main() {
	dir, suffix := os.Args[1], "_r"
	if len(os.Args) > 2 {
		suffix = os.Args[2]
	}
	cfg := &packages.Config{Mode: packages.LoadSyntax, Dir: dir, Tests: false}
	pkgs, err := packages.Load(cfg, ".")
	if err != nil || len(pkgs) != 1 || len(pkgs[0].Errors) > 0 {
		fmt.Fprintln(os.Stderr, "load:", err, pkgs)
		os.Exit(2)
	}
	pkg := pkgs[0]
	type edit struct {
		off int
		old string
	}
	edits := map[string][]edit{}
	isLocal := func(o types.Object) bool {
		v, ok := o.(*types.Var)
		if !ok || v.IsField() || v.Name() == "_" || v.Pkg() == nil || v.Pkg() != pkg.Types {
			return false
		}
		return v.Parent() != pkg.Types.Scope() && v.Parent() != nil
	}
	n := 0
	add := func(id *ast.Ident, o types.Object) {
		if o == nil || !isLocal(o) {
			return
		}
		p := pkg.Fset.Position(id.Pos())
		if strings.HasSuffix(p.Filename, "_test.go") {
			return
		}
		edits[p.Filename] = append(edits[p.Filename], edit{p.Offset, id.Name})
		n++
	}
	for id, o := range pkg.TypesInfo.Defs {
		add(id, o)
	}
	for id, o := range pkg.TypesInfo.Uses {
		add(id, o)
	}
	// implicit objects of type switches (switch x := v.(type)) are in Implicits, keyed by the case clause: the
	// identifier uses inside resolve through Uses to those objects, the defining identifier has no object in Defs
	for _, f := range pkg.Syntax {
		ast.Inspect(f, func(nd ast.Node) bool {
			ts, ok := nd.(*ast.TypeSwitchStmt)
			if !ok {
				return true
			}
			if as, ok := ts.Assign.(*ast.AssignStmt); ok {
				if id, ok := as.Lhs[0].(*ast.Ident); ok && id.Name != "_" {
					p := pkg.Fset.Position(id.Pos())
					edits[p.Filename] = append(edits[p.Filename], edit{p.Offset, id.Name})
				}
			}
			return true
		})
	}
	_ = token.NoPos
	for file, es := range edits {
		src, err := os.ReadFile(file)
		if err != nil {
			panic(err)
		}
		sort.Slice(es, func(i, j int) bool { return es[i].off > es[j].off })
		last := -1
		for _, e := range es {
			if e.off == last {
				continue
			}
			last = e.off
			if string(src[e.off:e.off+len(e.old)]) != e.old {
				panic(fmt.Sprintf("%s:%d: expected %q", file, e.off, e.old))
			}
			src = append(src[:e.off+len(e.old)], append([]byte(suffix), src[e.off+len(e.old):]...)...)
		}
		if err := os.WriteFile(file, src, 0644); err != nil {
			panic(err)
		}
	}
	fmt.Printf("renamed %d identifier occurrences in %d files\n", n, len(edits))
}
