// nestguards rewrites, in place, every non-test Go file of the package in the given directory: in each function body a
// guard clause `if c { ...; return }` (no init statement, no else) followed by further statements becomes
// `if !(c) { <the further statements> } else { ...; return }`, applied from the last guard to the first. The edit
// preserves behaviour (functions using labels or goto are left alone); tools/shapecheck.sh uses it to show that the
// rules do not depend on guard clauses being written as early returns.
package main

import (
	"bytes"
	"fmt"
	"go/ast"
	"go/format"
	"go/parser"
	"go/token"
	"os"
	"path/filepath"
	"strings"
)

func endsInReturn(b *ast.BlockStmt) bool {
	if len(b.List) == 0 {
		return false
	}
	_, ok := b.List[len(b.List)-1].(*ast.ReturnStmt)
	return ok
}

func hasLabels(b *ast.BlockStmt) bool {
	found := false
	ast.Inspect(b, func(n ast.Node) bool {
		switch x := n.(type) {
		case *ast.LabeledStmt:
			found = true
		case *ast.BranchStmt:
			if x.Tok == token.GOTO {
				found = true
			}
		}
		return true
	})
	return found
}

func nest(b *ast.BlockStmt) int {
	n := 0
	for i := len(b.List) - 2; i >= 0; i-- {
		is, ok := b.List[i].(*ast.IfStmt)
		if !ok || is.Init != nil || is.Else != nil || !endsInReturn(is.Body) {
			continue
		}
		rest := append([]ast.Stmt(nil), b.List[i+1:]...)
		// a declaration in the rest must not be needed... it is not: nothing follows the rest
		nw := &ast.IfStmt{If: is.If, Cond: &ast.UnaryExpr{Op: token.NOT, X: &ast.ParenExpr{X: is.Cond}}, Body: &ast.BlockStmt{List: rest}, Else: is.Body}
		b.List = append(b.List[:i:i], nw)
		n++
	}
	return n
}

func main() {
	dir := os.Args[1]
	files, _ := filepath.Glob(filepath.Join(dir, "*.go"))
	total := 0
	for _, fn := range files {
		if strings.HasSuffix(fn, "_test.go") {
			continue
		}
		fset := token.NewFileSet()
		f, err := parser.ParseFile(fset, fn, nil, parser.ParseComments)
		if err != nil {
			panic(err)
		}
		n := 0
		ast.Inspect(f, func(nd ast.Node) bool {
			var body *ast.BlockStmt
			switch x := nd.(type) {
			case *ast.FuncDecl:
				body = x.Body
			case *ast.FuncLit:
				body = x.Body
			}
			if body != nil && !hasLabels(body) {
				n += nest(body)
			}
			return true
		})
		if n == 0 {
			continue
		}
		f.Comments = nil
		var buf bytes.Buffer
		if err := format.Node(&buf, fset, f); err != nil {
			panic(err)
		}
		if err := os.WriteFile(fn, buf.Bytes(), 0644); err != nil {
			panic(err)
		}
		total += n
	}
	fmt.Printf("nested %d guard clauses\n", total)
}
