// flipifs rewrites, in place, every non-test Go file of the package in the given directory: each
// `if c { A } else { B }` becomes `if !(c) { B } else { A }` (an else-if chain is wrapped in a block). The edit
// preserves behaviour; tools/flipcheck.sh uses it to show that no rule depends on which branch of a two-way test is
// written first.
package main

import (
	"bytes"
	"fmt"
	"go/ast"
	"go/format"
	"go/parser"
	"go/token"
	"os"
	"path/filepath"
	"strings"
)

func main() {
	dir := os.Args[1]
	files, _ := filepath.Glob(filepath.Join(dir, "*.go"))
	total := 0
	for _, fn := range files {
		if strings.HasSuffix(fn, "_test.go") {
			continue
		}
		fset := token.NewFileSet()
		f, err := parser.ParseFile(fset, fn, nil, parser.ParseComments)
		if err != nil {
			panic(err)
		}
		n := 0
		ast.Inspect(f, func(nd ast.Node) bool {
			is, ok := nd.(*ast.IfStmt)
			if !ok || is.Else == nil {
				return true
			}
			var elseBlock *ast.BlockStmt
			switch e := is.Else.(type) {
			case *ast.BlockStmt:
				elseBlock = e
			case *ast.IfStmt:
				elseBlock = &ast.BlockStmt{Lbrace: e.Pos(), List: []ast.Stmt{e}, Rbrace: e.End()}
			}
			is.Cond = &ast.UnaryExpr{Op: token.NOT, X: &ast.ParenExpr{X: is.Cond}}
			is.Body, is.Else = elseBlock, is.Body
			n++
			return true
		})
		if n == 0 {
			continue
		}
		// comments are dropped from function bodies that changed shape: positions no longer correspond
		f.Comments = nil
		var buf bytes.Buffer
		if err := format.Node(&buf, fset, f); err != nil {
			panic(err)
		}
		if err := os.WriteFile(fn, buf.Bytes(), 0644); err != nil {
			panic(err)
		}
		total += n
	}
	fmt.Printf("flipped %d if/else statements\n", total)
}
