// hoistfields rewrites, in place, the non-test Go files of the package in the given directory: in every method of
// *Conn that reads c.server, and every method of *dataCloser that reads d.c, the field is loaded once into a local at
// the top of the method and the local is used instead. Both fields are set at construction and never reassigned, so
// the edit preserves behaviour; tools/shapecheck.sh uses it to show that the rules see through such locals.
package main

import (
	"bytes"
	"fmt"
	"go/ast"
	"go/format"
	"go/parser"
	"go/token"
	"os"
	"path/filepath"
	"strings"
)

var hoist = map[string][2]string{"Conn": {"server", "srvLocal"}, "dataCloser": {"c", "clientLocal"}}

func main() {
	dir := os.Args[1]
	files, _ := filepath.Glob(filepath.Join(dir, "*.go"))
	total := 0
	for _, fn := range files {
		if strings.HasSuffix(fn, "_test.go") {
			continue
		}
		fset := token.NewFileSet()
		f, err := parser.ParseFile(fset, fn, nil, parser.ParseComments)
		if err != nil {
			panic(err)
		}
		n := 0
		for _, d := range f.Decls {
			fd, ok := d.(*ast.FuncDecl)
			if !ok || fd.Recv == nil || fd.Body == nil || len(fd.Recv.List) != 1 || len(fd.Recv.List[0].Names) != 1 {
				continue
			}
			st, ok := fd.Recv.List[0].Type.(*ast.StarExpr)
			if !ok {
				continue
			}
			tn, ok := st.X.(*ast.Ident)
			if !ok {
				continue
			}
			h, ok := hoist[tn.Name]
			if !ok {
				continue
			}
			recv := fd.Recv.List[0].Names[0].Name
			uses := 0
			assigned := false
			ast.Inspect(fd.Body, func(nd ast.Node) bool {
				if as, ok := nd.(*ast.AssignStmt); ok {
					for _, l := range as.Lhs {
						if se, ok := l.(*ast.SelectorExpr); ok {
							if id, ok := se.X.(*ast.Ident); ok && id.Name == recv && se.Sel.Name == h[0] {
								assigned = true
							}
						}
					}
				}
				return true
			})
			if assigned {
				continue
			}
			var rewrite func(nd ast.Node) bool
			rewrite = func(nd ast.Node) bool {
				// replace in the fields of the parent: handled generically through a small set of parents
				return true
			}
			_ = rewrite
			astReplace(fd.Body, func(e ast.Expr) ast.Expr {
				if se, ok := e.(*ast.SelectorExpr); ok {
					if id, ok := se.X.(*ast.Ident); ok && id.Name == recv && se.Sel.Name == h[0] {
						uses++
						return &ast.Ident{Name: h[1], NamePos: se.Pos()}
					}
				}
				return e
			})
			if uses == 0 {
				continue
			}
			decl := &ast.AssignStmt{Lhs: []ast.Expr{ast.NewIdent(h[1])}, Tok: token.DEFINE, Rhs: []ast.Expr{&ast.SelectorExpr{X: ast.NewIdent(recv), Sel: ast.NewIdent(h[0])}}}
			fd.Body.List = append([]ast.Stmt{decl}, fd.Body.List...)
			n++
		}
		if n == 0 {
			continue
		}
		f.Comments = nil
		var buf bytes.Buffer
		if err := format.Node(&buf, fset, f); err != nil {
			panic(err)
		}
		if err := os.WriteFile(fn, buf.Bytes(), 0644); err != nil {
			panic(err)
		}
		total += n
	}
	fmt.Printf("hoisted a field in %d methods\n", total)
}

// astReplace applies fn to every expression position below n (post-order) by walking with reflection-free cases for
// the node kinds that occur in the package.
func astReplace(n ast.Node, fn func(ast.Expr) ast.Expr) {
	var re func(e ast.Expr) ast.Expr
	re = func(e ast.Expr) ast.Expr {
		if e == nil {
			return nil
		}
		switch x := e.(type) {
		case *ast.SelectorExpr:
			x.X = re(x.X)
		case *ast.CallExpr:
			x.Fun = re(x.Fun)
			for i := range x.Args {
				x.Args[i] = re(x.Args[i])
			}
		case *ast.BinaryExpr:
			x.X, x.Y = re(x.X), re(x.Y)
		case *ast.UnaryExpr:
			x.X = re(x.X)
		case *ast.ParenExpr:
			x.X = re(x.X)
		case *ast.StarExpr:
			x.X = re(x.X)
		case *ast.IndexExpr:
			x.X, x.Index = re(x.X), re(x.Index)
		case *ast.SliceExpr:
			x.X, x.Low, x.High, x.Max = re(x.X), re(x.Low), re(x.High), re(x.Max)
		case *ast.TypeAssertExpr:
			x.X = re(x.X)
		case *ast.KeyValueExpr:
			x.Value = re(x.Value)
		case *ast.CompositeLit:
			for i := range x.Elts {
				x.Elts[i] = re(x.Elts[i])
			}
		case *ast.FuncLit:
			astReplace(x.Body, fn)
		}
		return fn(e)
	}
	ast.Inspect(n, func(nd ast.Node) bool {
		switch x := nd.(type) {
		case *ast.ExprStmt:
			x.X = re(x.X)
			return false
		case *ast.AssignStmt:
			for i := range x.Rhs {
				x.Rhs[i] = re(x.Rhs[i])
			}
			for i := range x.Lhs {
				x.Lhs[i] = re(x.Lhs[i])
			}
			return false
		case *ast.ReturnStmt:
			for i := range x.Results {
				x.Results[i] = re(x.Results[i])
			}
			return false
		case *ast.IfStmt:
			x.Cond = re(x.Cond)
		case *ast.ForStmt:
			x.Cond = re(x.Cond)
		case *ast.RangeStmt:
			x.X = re(x.X)
		case *ast.SwitchStmt:
			x.Tag = re(x.Tag)
		case *ast.CaseClause:
			for i := range x.List {
				x.List[i] = re(x.List[i])
			}
		case *ast.GoStmt:
			x.Call = re(x.Call).(*ast.CallExpr)
			return false
		case *ast.DeferStmt:
			x.Call = re(x.Call).(*ast.CallExpr)
			return false
		case *ast.SendStmt:
			x.Chan, x.Value = re(x.Chan), re(x.Value)
			return false
		case *ast.IncDecStmt:
			x.X = re(x.X)
			return false
		case *ast.DeclStmt:
			if gd, ok := x.Decl.(*ast.GenDecl); ok {
				for _, sp := range gd.Specs {
					if vs, ok := sp.(*ast.ValueSpec); ok {
						for i := range vs.Values {
							vs.Values[i] = re(vs.Values[i])
						}
					}
				}
			}
			return false
		}
		return true
	})
}
