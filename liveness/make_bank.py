#!/usr/bin/env python3
"""Builds /verif/liveness/bank.json: one seeded single-edit variant per rule.
Each seed is (id, property, expected rule, file, old text, new text, note).
Seeds are applied in memory (packages overlay) by `smtpverif -variant <id>`."""
import json, os

S = []
def seed(id, prop, rule, file, old, new, note="", more=None):
    d = dict(id=id, property=prop, rule=rule, file=file, old=old, new=new, note=note)
    if more:
        d["more"] = [list(m) for m in more]
    S.append(d)

# ---------------- C01 / C02 / C07: data reader ----------------
seed("c01-dot-kept", "C01", "R-dot-table", "data.go",
"""			if c == '.' {
				r.state = stateDot
				continue
			}""",
"""			if c == '.' {
				r.state = stateDot
			}""", "leading dot no longer removed")
seed("c01-source", "C01", "R-data-source", "data.go",
"""		r: c.text.R,""", """		r: bufio.NewReader(c.conn),""", "reader bypasses the connection's buffered reader")
seed("c02-bare-lf-line", "C02", "R-dot-table", "data.go",
"""			if c == '\\r' {
				r.state = stateCR
			}
		}
		b[n] = c""",
"""			if c == '\\r' {
				r.state = stateCR
			}
			if c == '\\n' {
				r.state = stateBeginLine
			}
		}
		b[n] = c""", "bare LF starts a line: LF.CRLF ends the message")
seed("c02-no-drain", "C02", "R-drain-after-data", "conn.go",
"""	r.limited = false
	_, drainErr := io.Copy(ioutil.Discard, r) // Make sure all the data has been consumed
	c.writeResponse(code, enhancedCode, msg)""",
"""	r.limited = false
	var drainErr error
	c.writeResponse(code, enhancedCode, msg)""", "SMTP drain removed")
seed("c02-drain-limited", "C02", "R-drain-unlimited", "conn.go",
"""	code, enhancedCode, msg := dataErrorToStatus(c.Session().Data(r))
	r.limited = false""",
"""	code, enhancedCode, msg := dataErrorToStatus(c.Session().Data(r))""", "limit not lifted before the drain")
seed("c02-done-before-drain", "C02", "R-lmtp-join", "conn.go",
"""			r.limited = false
			_, drainErr := io.Copy(ioutil.Discard, r) // Make sure all the data has been consumed
			done <- drainErr == nil""",
"""			done <- true
			r.limited = false
			io.Copy(ioutil.Discard, r) // Make sure all the data has been consumed""", "completion signalled before the drain")
seed("c07-eof-as-eof", "C07", "R-eof-only-at-end", "data.go",
"""			if err == io.EOF {
				err = io.ErrUnexpectedEOF
			}
			break""",
"""			break""", "network EOF mid-message reported as io.EOF")
seed("c07-count-not-checked", "C07", "R-pipe-clean-close", "conn.go",
"""	if err == nil && n != int64(size) {""", """	if err == nil && n > int64(size) {""", "short LAST chunk accepted")
seed("c07-reset-clean-close", "C07", "R-abort-on-every-exit", "conn.go",
"""	if c.bdatPipe != nil {
		c.bdatPipe.CloseWithError(ErrDataReset)
		c.bdatPipe = nil
	}
	c.bdatStatus = nil""",
"""	if c.bdatPipe != nil {
		c.bdatPipe.Close()
		c.bdatPipe = nil
	}
	c.bdatStatus = nil""", "reset closes the pipe cleanly")

# ---------------- C03 ----------------
seed("c03-missing-return", "C03", "R-guard-mail", "conn.go",
"""		c.writeResponse(502, EnhancedCode{5, 5, 1}, "Please introduce yourself first.")
		return
	}
	if c.bdatPipe != nil {
		c.writeResponse(502, EnhancedCode{5, 5, 1}, "MAIL not""",
"""		c.writeResponse(502, EnhancedCode{5, 5, 1}, "Please introduce yourself first.")
	}
	if c.bdatPipe != nil {
		c.writeResponse(502, EnhancedCode{5, 5, 1}, "MAIL not""", "return dropped after the greeting refusal")
seed("c03-rcptmax-off-by-one", "C03", "R-guard-rcpt", "conn.go",
"len(c.recipients) >= c.server.MaxRecipients {", "len(c.recipients) > c.server.MaxRecipients {", "one recipient too many")
seed("c03-reset-keeps-rcpts", "C03", "R-reset-effects", "conn.go",
"""	c.fromReceived = false
	c.recipients = nil
}""", """	c.fromReceived = false
}""", "reset keeps the recipients")
seed("c03-rset-no-reset", "C03", "R-reset-at-end", "conn.go",
"""	case "RSET": // Reset session
		c.reset()""", """	case "RSET": // Reset session""", "RSET does not reset")
seed("c03-rcpt-append-on-error", "C03", "R-state-set-on-success", "conn.go",
"""		c.writeError(451, EnhancedCode{4, 0, 0}, err)
		return
	}
	c.recipients = append""", """		c.writeError(451, EnhancedCode{4, 0, 0}, err)
	}
	c.recipients = append""", "rejected recipient recorded")
seed("c03-helo-after-newsession", "C03", "R-helo-before-newsession", "conn.go",
"""			c.helo = ""
			c.writeError(451, EnhancedCode{4, 0, 0}, err)""", """			c.writeError(451, EnhancedCode{4, 0, 0}, err)""", "helo kept after failed NewSession")
seed("c03-data-no-rcpt-guard", "C03", "R-guard-data", "conn.go",
"""	if !c.fromReceived || len(c.recipients) == 0 {
		c.writeResponse(502, EnhancedCode{5, 5, 1}, "Missing RCPT TO command.")
		return
	}

	// We have recipients, go to accept data""",
"""	if !c.fromReceived {
		c.writeResponse(502, EnhancedCode{5, 5, 1}, "Missing RCPT TO command.")
		return
	}

	// We have recipients, go to accept data""", "DATA accepted without recipients")

# ---------------- C04 ----------------
seed("c04-double-reply", "C04", "R-reply-count", "conn.go",
"""		c.writeResponse(501, EnhancedCode{5, 5, 4}, "Unable to parse RCPT ESMTP parameters")
		return""", """		c.writeResponse(501, EnhancedCode{5, 5, 4}, "Unable to parse RCPT ESMTP parameters")""", "two replies for one RCPT")
seed("c04-wrong-class", "C04", "R-reply-const", "conn.go",
"c.writeResponse(452, EnhancedCode{4, 5, 3}", "c.writeResponse(452, EnhancedCode{5, 5, 3}", "452 with class 5 enhanced code")
seed("c04-const-verdict", "C04", "R-reply-const", "conn.go",
"""	c.writeResponse(code, enhancedCode, msg)
	if drainErr != nil {""", """	_ = code
	c.writeResponse(250, enhancedCode, msg)
	if drainErr != nil {""", "DATA always answered 250")
seed("c04-goroutine-rereads", "C04", "R-go-capture", "conn.go",
"""			dataResult <- err
			r.CloseWithError(err)""", """			c.dataResult <- err
			r.CloseWithError(err)""", "goroutine sends on the connection's current channel")
seed("c04-loop-double-dispatch", "C04", "R-loop-one-dispatch", "server.go",
"""				c.protocolError(501, EnhancedCode{5, 5, 2}, "Bad command")
				continue""", """				c.protocolError(501, EnhancedCode{5, 5, 2}, "Bad command")""", "unparsable line dispatched twice")

# ---------------- C05 / C06 ----------------
seed("c05-refusal-keeps-chunk", "C05", "R-bdat-consume", "conn.go",
"""		_, discardErr := io.Copy(ioutil.Discard, io.LimitReader(c.text.R, int64(size)))
		c.writeResponse(502, EnhancedCode{5, 5, 1}, "Missing RCPT TO command.")""",
"""		var discardErr error
		c.writeResponse(502, EnhancedCode{5, 5, 1}, "Missing RCPT TO command.")""", "refused BDAT leaves its chunk")
seed("c05-frame-from-conn", "C05", "R-bdat-frame", "conn.go",
"""	chunk := io.LimitReader(c.text.R, int64(size))""", """	chunk := io.LimitReader(c.conn, int64(size))""", "chunk read below the buffered reader")
seed("c05-accounting", "C05", "R-bdat-accounting", "conn.go",
"""	c.bytesReceived += int64(size)""", """	c.bytesReceived = int64(size)""", "running total overwritten")
seed("c05-pipe-reused", "C05", "R-bdat-one-call", "conn.go",
"""	if c.bdatPipe == nil {
		var r *io.PipeReader""", """	if c.bdatPipe == nil || last {
		var r *io.PipeReader""", "second delivery started for LAST")
seed("c06-size-ge", "C06", "R-size-param", "conn.go",
"""			if c.server.MaxMessageBytes > 0 && int64(size) > c.server.MaxMessageBytes {""",
"""			if c.server.MaxMessageBytes > 0 && int64(size) >= c.server.MaxMessageBytes {""", "SIZE equal to the limit refused")
seed("c06-bdat-ge", "C06", "R-bdat-limit", "conn.go",
"c.bytesReceived+int64(size) > c.server.MaxMessageBytes {", "c.bytesReceived+int64(size) >= c.server.MaxMessageBytes {", "chunk reaching exactly the limit refused")
seed("c06-exact-n-refused", "C06", "R-limit-budget", "data.go",
"""		if r.n < 0 {
			return 0, ErrDataTooLarge
		}
		// Ask""", """		if r.n <= 0 {
			return 0, ErrDataTooLarge
		}
		// Ask""", "message of exactly N octets refused")
seed("c06-overflow-octet-delivered", "C06", "R-limit-budget", "data.go",
"""			return n - 1, ErrDataTooLarge""", """			return n, ErrDataTooLarge""", "the octet beyond the limit is handed out")
seed("c06-no-decrement", "C06", "R-limit-budget", "data.go",
"""		r.n -= int64(n)
		if r.n < 0 {""", """		if r.n < 0 {""", "budget never reduced")
seed("c06-limit-lifted-early", "C06", "R-limit-armed", "conn.go",
"""	code, enhancedCode, msg := dataErrorToStatus(c.Session().Data(r))
	r.limited = false""", """	r.limited = false
	code, enhancedCode, msg := dataErrorToStatus(c.Session().Data(r))""", "limit lifted before the backend reads")

# ---------------- C08 ----------------
seed("c08-double-logout", "C08", "R-logout-sites", "conn.go",
"""		c.session.Logout()
		c.session = nil""", """		c.session.Logout()""", "session not cleared after Logout")
seed("c08-quit-no-close", "C08", "R-close-paths", "conn.go",
"""		c.writeResponse(221, EnhancedCode{2, 0, 0}, "Bye")
		c.Close()""", """		c.writeResponse(221, EnhancedCode{2, 0, 0}, "Bye")""", "QUIT does not close")
seed("c08-session-not-stored", "C08", "R-session-stored", "conn.go",
"""		c.setSession(sess)
	}""", """		_ = sess
	}""", "new session never stored")
seed("c08-no-close-check", "C08", "R-no-dispatch-after-close", "server.go",
"""		if c.isClosed() {
			return nil
		}

		line, err := c.readLine()""", """		line, err := c.readLine()""", "loop dispatches after Close")
seed("c08-no-deferred-close", "C08", "R-close-on-exit", "server.go",
"""	defer func() {
		c.Close()

		s.locker.Lock()""", """	defer func() {
		s.locker.Lock()""", "connection not closed on exit")

# ---------------- C09 / C10 ----------------
seed("c09-authallowed-lmtp", "C09", "R-authallowed-def", "conn.go",
"	return isTLS || c.server.AllowInsecureAuth", "	return isTLS || c.server.AllowInsecureAuth || c.server.LMTP", "AUTH allowed for LMTP in plaintext")
seed("c09-auth-twice", "C09", "R-auth-gate", "conn.go",
"""	if c.didAuth {
		c.writeResponse(503, EnhancedCode{5, 5, 1}, "Already authenticated")
		return
	}""", "", "AUTH accepted twice")
seed("c09-star-not-tested", "C09", "R-auth-octets", "conn.go",
"""		if encoded == "*" {""", """		if encoded == "*" && false {""", "cancel not recognised")
seed("c09-client-no-cancel", "C09", "R-cauth-cancel", "client.go",
"""			// abort the AUTH
			c.cmd(501, "*")
			break""", """			break""", "client does not cancel")
seed("c10-didauth-kept", "C10", "R-tls-success-effects", "conn.go",
"""	c.helo = ""
	c.didAuth = false
	c.reset()""", """	c.helo = ""
	c.reset()""", "authentication survives STARTTLS")
seed("c10-no-reinit", "C10", "R-tls-success-effects", "conn.go",
"""	c.conn = tlsConn
	c.init()""", """	c.conn = tlsConn
	c.lineLimitReader.R = c.conn""", "plaintext buffer kept after STARTTLS")
seed("c10-client-keeps-hello", "C10", "R-ctls-success-effects", "client.go",
"""	c.setConn(tls.Client(c.conn, config))
	c.didHello = false""", """	c.setConn(tls.Client(c.conn, config))""", "client trusts plaintext capabilities")
seed("c10-downgrade", "C10", "R-ctls-no-downgrade", "client.go",
"""		return errors.New("smtp: server doesn't support STARTTLS")""", """		return nil""", "missing STARTTLS silently accepted")
seed("c10-noop-no-hello", "C10", "R-ctls-rehello", "client.go",
"""func (c *Client) Noop() error {
	if err := c.hello(); err != nil {
		return err
	}""", """func (c *Client) Noop() error {""", "command without hello()")

# ---------------- C11 / C12 ----------------
seed("c11-size-error-ignored", "C11", "R-param-flow", "conn.go",
"""			size, err := strconv.ParseUint(value, 10, 32)
			if err != nil {
				c.writeResponse(501, EnhancedCode{5, 5, 4}, "Unable to parse SIZE as an integer")
				return
			}""", """			size, _ := strconv.ParseUint(value, 10, 32)""", "malformed SIZE accepted")
seed("c11-rcpt-default", "C11", "R-param-dispatch", "conn.go",
"""		default:
			c.writeResponse(500, EnhancedCode{5, 5, 4}, "Unknown RCPT TO argument")
			return
		}""", """		}""", "unknown RCPT parameter accepted")
seed("c11-envid-lower", "C11", "R-param-flow", "conn.go",
"""			opts.EnvelopeID = value""", """			opts.EnvelopeID = strings.ToLower(value)""", "ENVID altered")
seed("c11-ret-whitelist", "C11", "R-enum-whitelist", "conn.go",
"""			case DSNReturnFull, DSNReturnHeaders:
				// This space is intentionally left blank
			default:
				c.writeResponse(501, EnhancedCode{5, 5, 4}, "Unknown RET value")
				return
			}""", """			}""", "any RET value accepted")
seed("c11-quoted-pair", "C11", "R-quoted-pair-table", "parse.go",
"""			switch ch {
			case '\\\\':
				ch, ok = p.readByte()
			case '"':
				return sb.String(), nil
			}""", """			if ch == '\\\\' {
				ch, ok = p.readByte()
			}
			if ch == '"' {
				return sb.String(), nil
			}""", "escaped quote ends the quoted-string")
seed("c14-orcpt-split-all", "C14", "R-enc-dec-disjoint", "conn.go",
"""	tv := strings.SplitN(val, ";", 2)""", """	tv := strings.Split(val, ";")""", "ORCPT address split at every ';'")
seed("c15-encoder-bypass", "C15", "R-enc-raw-set", "conn.go",
"""func encodeXtext(raw string) string {
	var out strings.Builder""", """func encodeXtext(raw string) string {
	if !strings.ContainsAny(raw, "+= ") {
		return raw
	}
	var out strings.Builder""", "encoder fast path returns the raw value")
seed("c16-loop-returns-early", "C16", "R-lmtp-loop-complete", "client.go",
"""					} else if firstErr == nil {
						firstErr = smtpErr
					}""", """					} else {
						return smtpErr
					}""", "first LMTP refusal leaves the other replies unread")
seed("c10-reset-skips-envelope", "C10", "R-tls-success-effects", "conn.go",
"""	if c.session != nil {
		c.session.Reset()
	}

	c.fromReceived = false""", """	if c.session == nil {
		return
	}
	c.session.Reset()

	c.fromReceived = false""", "reset() keeps the envelope when no session exists (after STARTTLS)")
seed("c09-client-empty-resp", "C09", "R-cauth-empty-response", "client.go",
"""		if resp == nil {
			break
		}""", """		if len(resp) == 0 {
			break
		}""", "empty non-nil SASL response ends the exchange")
seed("c10-ehlo-stale-ext", "C10", "R-ctls-rehello", "client.go",
"""	ext := make(map[string]string)
	extList := strings.Split(msg, "\\n")
	if len(extList) > 1 {
		extList = extList[1:]""", """	extList := strings.Split(msg, "\\n")
	if len(extList) <= 1 {
		return nil
	}
	ext := make(map[string]string)
	if len(extList) > 1 {
		extList = extList[1:]""", "EHLO without extension lines keeps the old map")
seed("c13-reset-keeps-collector", "C13", "R-status-frozen", "conn.go",
"""	c.bdatStatus = nil
	c.bytesReceived = 0""", """	c.bytesReceived = 0""", "reset keeps the BDAT status collector")
seed("c06-size-64bit", "C06", "R-size-param", "conn.go",
"""			size, err := strconv.ParseUint(value, 10, 32)
			if err != nil {
				c.writeResponse(501, EnhancedCode{5, 5, 4}, "Unable to parse SIZE as an integer")""", """			size, err := strconv.ParseUint(value, 10, 64)
			if err != nil {
				c.writeResponse(501, EnhancedCode{5, 5, 4}, "Unable to parse SIZE as an integer")""", "SIZE >= 2^63 wraps negative")
seed("c12-authallowed-no-tlsconfig", "C12", "R-authallowed-def", "conn.go",
"	return isTLS || c.server.AllowInsecureAuth", "	return isTLS || c.server.AllowInsecureAuth || c.server.TLSConfig == nil", "AUTH offered in plaintext when TLS is not configured")
seed("c11-args-cut", "C11", "R-args-single-equals", "parse.go",
"""		m := strings.Split(arg, "=")
		switch len(m) {
		case 2:
			argMap[strings.ToUpper(m[0])] = m[1]
		case 1:
			argMap[strings.ToUpper(m[0])] = ""
		default:
			return nil, fmt.Errorf("failed to parse arg string: %q", arg)
		}""", """		k, v, _ := strings.Cut(arg, "=")
		if k == "" {
			return nil, fmt.Errorf("failed to parse arg string: %q", arg)
		}
		argMap[strings.ToUpper(k)] = v""", "raw '=' inside a parameter value accepted")
seed("c14-format-string", "C14", "R-render-verbatim", "client.go",
"""	_, _, err := c.cmd(250, "%s", sb.String())""", """	_, _, err := c.cmd(250, sb.String())""", "rendered line used as printf format")
seed("c15-format-string", "C15", "R-line-taint", "client.go",
"""	if _, _, err := c.cmd(25, "%s", sb.String()); err != nil {""", """	if _, _, err := c.cmd(25, sb.String()); err != nil {""", "rendered line used as printf format")
seed("c17-enhcode-four-parts", "C17", "R-enhcode-parse", "client.go",
"""	if len(parts) != 3 {""", """	if len(parts) < 3 {""", "IPv4-looking token parsed as an enhanced code")
seed("c19-guard-on-other-string", "C19", "R-const-index-guarded", "parse.go",
"""	l := len(line)
	switch {""", """	l := len(strings.ToUpper(line))
	switch {""", "length guard taken on the upper-cased copy")
seed("c12-requiretls-plain", "C12", "R-caps-table", "conn.go",
"if _, isTLS := c.TLSConnectionState(); isTLS && c.server.EnableREQUIRETLS {", "if c.server.EnableREQUIRETLS {", "REQUIRETLS advertised in plaintext")
seed("c12-size-value", "C12", "R-caps-table", "conn.go",
"""		caps = append(caps, fmt.Sprintf("SIZE %v", c.server.MaxMessageBytes))""", """		caps = append(caps, fmt.Sprintf("SIZE %v", c.server.MaxRecipients))""", "wrong SIZE value")
seed("c12-rrvs-gate", "C12", "R-param-enable", "conn.go",
"""			if !c.server.EnableRRVS {
				c.writeResponse(504, EnhancedCode{5, 5, 4}, "RRVS is not implemented")
				return
			}""", "", "RRVS accepted when disabled")

# ---------------- C13 ----------------
seed("c13-cap-one", "C13", "R-status-shape", "conn.go",
"""		status.statusMap[rcpt] = make(chan error, count)""", """		status.statusMap[rcpt] = make(chan error, 1)
		_ = count""", "duplicate recipients lose statuses")
seed("c13-no-fill", "C13", "R-status-fill", "conn.go",
"""			c.bdatStatus.fillRemaining(err)
""", "", "BDAT LAST blocks on missing statuses")
seed("c13-blocking-setstatus", "C13", "R-status-nonblocking", "conn.go",
"""	select {
	case ch <- err:
	default:
		// There enough""", """	select {
	case ch <- err:
	case <-time.After(time.Second):
		// There enough""", "SetStatus can block")
seed("c13-wrong-rcpt-name", "C13", "R-status-emit", "conn.go",
"""			code, enchCode, msg := dataErrorToStatus(<-status.status[i])
		c.writeResponse(code, enchCode, "<"+rcpt+"> "+msg)""".replace("			code", "		code"),
"""		code, enchCode, msg := dataErrorToStatus(<-status.status[i])
		c.writeResponse(code, enchCode, "<"+c.recipients[0]+"> "+msg)
		_ = rcpt""", "all replies name the first recipient")

# ---------------- C14 .. C18 ----------------
seed("c14-backslash-raw", "C14", "R-enc-dec-disjoint", "conn.go",
"""		case ch >= '!' && ch <= '~' && ch != '+' && ch != '=' && ch != '\\\\':
			// printable non-space US-ASCII except '+', '=' and '\\\\'
			out.WriteRune(ch)
		case ch <= '\\x7F':""",
"""		case ch >= '!' && ch <= '~' && ch != '+' && ch != '=':
			// printable non-space US-ASCII except '+', '=' and '\\\\'
			out.WriteRune(ch)
		case ch <= '\\x7F':""", "backslash passed through by the unitext encoder")
seed("c14-one-digit", "C14", "R-enc-dec-width", "conn.go",
"""			if ch < 0x10 {
				out.WriteRune('0')
			}
""", "", "single hex digit below 0x10")
seed("c14-rrvs-layout", "C14", "R-field-key", "client.go",
"opts.RequireRecipientValidSince.Format(time.RFC3339)", "opts.RequireRecipientValidSince.Format(time.RFC1123Z)", "RRVS layout differs from the server's")
seed("c15-verify-unvalidated", "C15", "R-line-taint", "client.go",
"""func (c *Client) Verify(addr string) error {
	if err := validateLine(addr); err != nil {
		return err
	}""", """func (c *Client) Verify(addr string) error {""", "VRFY argument not validated")
seed("c15-validate-lf-only", "C15", "R-validate-first", "client.go",
"""	if strings.ContainsAny(line, "\\n\\r") {""", """	if strings.ContainsAny(line, "\\n") {""", "CR allowed")
seed("c15-rrvs-ungated", "C15", "R-ext-gate", "client.go",
"""	if _, ok := c.ext["RRVS"]; ok && opts != nil && !opts.RequireRecipientValidSince.IsZero() {""",
"""	if opts != nil && !opts.RequireRecipientValidSince.IsZero() {""", "RRVS sent without negotiation")
seed("c16-closed-late", "C16", "R-close-once", "client.go",
"""	// Whatever the outcome, the end-of-data exchange must not be repeated.
	d.closed = true
""", "", "closed never set")
seed("c16-sendmail-wrong-from", "C16", "R-sendmail-envelope", "client.go",
"""	if err = c.Mail(from, nil); err != nil {""", """	if err = c.Mail(c.localName, nil); err != nil {""", "wrong sender")
seed("c17-continuation-no-code", "C17", "R-multiline-agree", "conn.go",
"""		if enhCode == NoEnhancedCode {
			c.text.PrintfLine("%d-%v", code, text[i])
		} else {
			c.text.PrintfLine("%d-%v.%v.%v %v", code, enhCode[0], enhCode[1], enhCode[2], text[i])
		}""", """		c.text.PrintfLine("%d-%v", code, text[i])""", "continuation lines lose the enhanced code")
seed("c17-generic-code", "C17", "R-err-passthrough", "conn.go",
"""		c.writeResponse(smtpErr.Code, smtpErr.EnhancedCode, smtpErr.Message)""", """		c.writeResponse(code, smtpErr.EnhancedCode, smtpErr.Message)""", "backend's code replaced by the generic one")
seed("c18-rcpts-kept", "C18", "R-rcpts-lifecycle", "client.go",
"""	// MAIL starts a new transaction, the recipients accepted for the
	// previous one must not be expected again.
	c.rcpts = nil
""", "", "recipients accumulate across transactions")
seed("c18-error-lost", "C18", "R-lmtp-error-not-lost", "client.go",
"""					} else if firstErr == nil {
						firstErr = smtpErr
					}""", """					}""", "LMTP refusal lost without callback")

# ---------------- C19 / C20 ----------------
seed("c19-threshold", "C19", "R-errcount", "conn.go", "const errThreshold = 3", "const errThreshold = 30", "thirty errors tolerated")
seed("c19-limit-slack", "C19", "R-linelimit-threshold", "lengthlimit_reader.go",
"""		if r.curLineLength > r.LineLimit {
			return 0, ErrTooLongLine""", """		if r.curLineLength > r.LineLimit+100 {
			return 0, ErrTooLongLine""", "limit has 100 octets of slack")
seed("c19-no-500", "C19", "R-toolong-close", "server.go",
"""			if err == ErrTooLongLine {
				c.writeResponse(500, EnhancedCode{5, 4, 0}, "Too long line, closing connection")
				return nil
			}""", "", "too long line answered with a generic 421")
seed("c19-limit-not-restored", "C19", "R-linelimit-restored", "conn.go",
"""	defer func() {
		c.lineLimitReader.LineLimit = c.server.MaxLineLength
	}()""", "", "limit stays off between chunks")
seed("c19-init-no-limit", "C19", "R-linelimit-layer", "conn.go",
"""		LineLimit: c.server.MaxLineLength,
	}
	rwc := struct {""", """		LineLimit: 0,
	}
	rwc := struct {""", "limiter disabled at init")
seed("c19-count-while-lifted", "C19", "R-linelimit-bypass-uncounted", "lengthlimit_reader.go",
"""	if r.LineLimit == 0 {
		return n, nil
	}

	for _, chr := range b[:n] {""", """	for _, chr := range b[:n] {""", "octets counted while the limit is lifted")
seed("c20-session-unlocked", "C20", "R-lockset", "conn.go",
"""func (c *Conn) Session() Session {
	c.locker.Lock()
	defer c.locker.Unlock()
	return c.session""", """func (c *Conn) Session() Session {
	return c.session""", "Session() without the lock")
seed("c20-add-after-go", "C20", "R-serve-loop", "server.go",
"""		s.wg.Add(1)
		go func() {""", """		go func() {
			s.wg.Add(1)""", "wg.Add inside the goroutine")
seed("c20-unlocked-register", "C20", "R-close-effects", "server.go",
"""	s.locker.Lock()
	s.conns[c] = struct{}{}
	s.locker.Unlock()""", """	s.conns[c] = struct{}{}""", "connection registered without the lock")
seed("c20-temp-error-returns", "C20", "R-serve-loop", "server.go",
"""				time.Sleep(tempDelay)
				continue""", """				time.Sleep(tempDelay)
				return err""", "temporary Accept error ends Serve")

seed("c07-short-copy-positive", "C07", "R-no-positive-after-short-copy", "conn.go",
"""	if err == nil && n != int64(size) {
		// The connection was closed in the middle of the chunk, the
		// message is incomplete.
		err = io.ErrUnexpectedEOF
	}
	if err != nil {""", """	if err != nil || n != int64(size) {""", "short chunk answered by dataErrorToStatus(nil) = 250")
seed("c20-close-first-listener-error", "C20", "R-close-effects", "server.go",
"""		if lerr := l.Close(); lerr != nil && err == nil {
			err = lerr
		}
	}

	for conn := range s.conns {""", """		if lerr := l.Close(); lerr != nil {
			s.locker.Unlock()
			return lerr
		}
	}

	for conn := range s.conns {""", "Close stops at the first failing listener")
seed("c04-writeerror-callsite-enh", "C04", "R-err-passthrough", "conn.go",
"""		c.writeResponse(smtpErr.Code, smtpErr.EnhancedCode, smtpErr.Message)""", """		c.writeResponse(smtpErr.Code, enhCode, smtpErr.Message)""", "backend code paired with the call site's enhanced code")

seed("c15-ehlo-merges-ext", "C15", "R-ext-latest-ehlo", "client.go",
"""	c.ext = ext
	return err""", """	if c.ext == nil {
		c.ext = ext
	} else {
		for k, v := range ext {
			c.ext[k] = v
		}
	}
	return err""", "extensions of an earlier EHLO are kept")
seed("c14-rrvs-literal-z", "C14", "R-field-key", "client.go",
"""opts.RequireRecipientValidSince.Format(time.RFC3339)""", """opts.RequireRecipientValidSince.Format("2006-01-02T15:04:05Z")""", "layout with a literal Z (server side changed too would still lose the zone)")
seed("c12-size-64bit", "C12", "R-size-param", "conn.go",
"""strconv.ParseUint(value, 10, 32)""", """strconv.ParseUint(value, 10, 64)""", "advertised SIZE not honoured for values >= 2^63")
seed("c06-overlimit-unread", "C06", "R-dot-state-carried", "data.go",
"""			// The last octet is beyond the limit, it is not handed out.
			return n - 1, ErrDataTooLarge""", """			r.r.UnreadByte()
			return n - 1, ErrDataTooLarge""", "over-limit octet pushed back after the automaton advanced on it")

seed("c09-success-not-recorded", "C09", "R-auth-once", "conn.go",
"""	c.writeResponse(235, EnhancedCode{2, 0, 0}, "Authentication succeeded")
	c.didAuth = true""", """	c.writeResponse(235, EnhancedCode{2, 0, 0}, "Authentication succeeded")""", "AUTH can succeed twice")
seed("c20-shutdown-ignores-ctx", "C20", "R-close-effects", "server.go",
"""	select {
	case <-ctx.Done():
		return ctx.Err()
	case <-connDone:
		return err
	}""", """	<-connDone
	return err""", "Shutdown waits without its context")
seed("c11-notify-case", "C11", "R-enum-whitelist", "conn.go",
"notify = append(notify, DSNNotify(strings.ToUpper(val)))", "notify = append(notify, DSNNotify(val))", "lower-case NOTIFY keyword refused")
seed("c11-size-base0", "C11", "R-size-param", "conn.go",
"strconv.ParseUint(value, 10, 32)", "strconv.ParseUint(value, 0, 32)", "SIZE=0x10 accepted")
seed("c05-size-64bit", "C05", "R-bdat-frame", "conn.go",
"size, err := strconv.ParseUint(args[0], 10, 32)", "size, err := strconv.ParseUint(args[0], 10, 64)", "chunk size wraps negative")
seed("c05-last-prefix", "C05", "R-pipe-clean-close", "conn.go",
"""		if !strings.EqualFold(args[1], "LAST") {""", """		if !strings.HasPrefix(strings.ToUpper(args[1]), "LAST") {""", "LASTX ends the message")
seed("c19-badcmd-not-counted", "C19", "R-errcount", "server.go",
"""				c.protocolError(501, EnhancedCode{5, 5, 2}, "Bad command")""", """				c.writeResponse(501, EnhancedCode{5, 5, 2}, "Bad command")""", "unparsable lines are not counted")
seed("c19-reset-clears-errcount", "C19", "R-errcount", "conn.go",
"""	c.bytesReceived = 0
""", """	c.bytesReceived = 0
	c.errCount = 0
""", "RSET forgives earlier errors")
seed("c01-initial-state", "C01", "R-data-source", "data.go",
"""		r: c.text.R,
	}""", """		r:     c.text.R,
		state: 4,
	}""", "message does not start at line start")
seed("c18-rcpt-dedup", "C18", "R-rcpts-lifecycle", "client.go",
"""	c.rcpts = append(c.rcpts, to)
	return nil""", """	for _, rcpt := range c.rcpts {
		if rcpt == to {
			return nil
		}
	}
	c.rcpts = append(c.rcpts, to)
	return nil""", "repeated recipient recorded once")
seed("c16-stuffed-dot-bol", "C16", "R-dot-table", "data.go",
"""				r.state = stateDotCR
				continue
			}
			r.state = stateData
		case stateDotCR:""", """				r.state = stateDotCR
				continue
			}
			r.state = stateBeginLine
		case stateDotCR:""", "after the stuffing dot the line start state is kept")

seed("c17-client-keeps-prefix", "C17", "R-client-parse", "client.go",
"""	smtpErr.EnhancedCode = enchCode
	smtpErr.Message = msg
	return smtpErr""", """	smtpErr.EnhancedCode = enchCode
	return smtpErr""", "client message keeps the enhanced code prefix")
seed("c17-data-generic-550", "C17", "R-data-generic", "conn.go",
"""			return 554, EnhancedCode{5, 0, 0}, "Error: transaction failed: " + err.Error()""", """			return 550, EnhancedCode{5, 0, 0}, "Error: transaction failed: " + err.Error()""", "generic data error code changed")
seed("c17-data-generic-text", "C17", "R-data-generic", "conn.go",
"""			return 554, EnhancedCode{5, 0, 0}, "Error: transaction failed: " + err.Error()""", """			return 554, EnhancedCode{5, 0, 0}, "Error: transaction failed" """, "generic data error text lost")
seed("c09-auth-advertised-insecure", "C09", "R-auth-gate", "conn.go",
"""	if c.authAllowed() {
		mechs := c.authMechanisms()
""", """	if true {
		mechs := c.authMechanisms()
""", "AUTH advertised in plaintext")

seed("c02-drain-failure-ignored", "C02", "R-drain-failure-closes", "conn.go",
"""	c.writeResponse(code, enhancedCode, msg)
	if drainErr != nil {
		// The end of the message was not reached (timeout, connection
		// error): what follows in the stream is not a command.
		c.Close()
	}""", """	c.writeResponse(code, enhancedCode, msg)
	_ = drainErr""", "failed drain after DATA does not end the connection")
seed("c02-lmtp-drain-failure-ignored", "C02", "R-drain-failure-closes", "conn.go",
"""			_, drainErr := io.Copy(ioutil.Discard, r) // Make sure all the data has been consumed
			done <- drainErr == nil
		}()""", """			io.Copy(ioutil.Discard, r) // Make sure all the data has been consumed
			done <- true
		}()""", "LMTP delivery reports success although the drain failed")
seed("c05-discard-failure-ignored", "C05", "R-drain-failure-closes", "conn.go",
"""		if err == errPanic || discardErr != nil {
			c.Close()
		}""", """		_ = discardErr
		if err == errPanic {
			c.Close()
		}""", "failed discard of a chunk remainder does not end the connection")
seed("c04-lmtp-false-not-closed", "C04", "R-drain-failure-closes", "conn.go",
"""	if !<-done {
		c.Close()
	}""", """	<-done""", "handler ignores the delivery's failure report")

seed("c14-auth-null-identity", "C14", "R-field-key", "client.go",
"""			if *opts.Auth == "" {
				// An empty identity is written as "<>" (RFC 4954 section 5).
				sb.WriteString(" AUTH=<>")
			} else {
				fmt.Fprintf(&sb, " AUTH=%s", encodeXtext(*opts.Auth))
			}""", """			fmt.Fprintf(&sb, " AUTH=%s", encodeXtext(*opts.Auth))""", "empty identity sent as a bare AUTH=")
seed("c11-empty-local-part", "C11", "R-grammar-guards", "parse.go",
"""	} else if localPart == "" {
		return "", fmt.Errorf("local-part is empty")
	}""", """	}""", "empty local part accepted")
seed("c11-empty-domain", "C11", "R-grammar-guards", "parse.go",
"""	if strings.HasSuffix(sb.String(), "@") {
		return "", fmt.Errorf("domain is empty")
	}
""", "", "empty domain accepted")
seed("c11-bracket-unchecked", "C11", "R-grammar-guards", "parse.go",
"""	if hasBracket {
		if err := p.expectByte('>'); err != nil {
			return "", err
		}
	}
	return mbox, nil""", """	if hasBracket {
		p.acceptByte('>')
	}
	return mbox, nil""", "'<' without '>' accepted")
seed("c11-xtext-incomplete", "C11", "R-grammar-guards", "conn.go",
"""		if len(match) != 3 {""", """		if len(match) < 2 {""", "+A accepted as a hexchar")
seed("c11-surrogates", "C11", "R-grammar-guards", "conn.go",
"""			case 0x1000 <= char && char <= 0xD7FF:
			case 0xE000 <= char && char <= 0xFFFF:""", """			case 0x1000 <= char && char <= 0xFFFF:""", "surrogate code points accepted")
seed("c11-never-combined", "C11", "R-grammar-guards", "conn.go",
"""	if _, ok := seen[DSNNotifyNever]; ok && len(seen) > 1 {
		return errors.New("Malformed NOTIFY parameter value")
	}
""", "", "NOTIFY=NEVER,SUCCESS accepted")
seed("c11-auth-empty", "C11", "R-grammar-guards", "conn.go",
"""			if err != nil || value == "" {
				c.writeResponse(500, EnhancedCode{5, 5, 4}, "Malformed AUTH parameter value")""", """			if err != nil {
				c.writeResponse(500, EnhancedCode{5, 5, 4}, "Malformed AUTH parameter value")""", "bare AUTH= accepted")
seed("c11-dotstring-space", "C11", "R-grammar-guards", "parse.go",
"""'\\\\', ',', '"', ' ', '\\t':""", """'\\\\', ',', '"', '\\t':""", "space inside a dot-string accepted")
seed("c14-auth-pointer-shared", "C14", "R-opts-pointer-fresh", "conn.go",
"""			value, err := decodeXtext(value)
			if err != nil || value == "" {
				c.writeResponse(500, EnhancedCode{5, 5, 4}, "Malformed AUTH parameter value")""", """			value, err = decodeXtext(value)
			if err != nil || value == "" {
				c.writeResponse(500, EnhancedCode{5, 5, 4}, "Malformed AUTH parameter value")""", "opts.Auth points at the range variable")

seed("c13-fill-stops-early", "C13", "R-status-fill", "conn.go",
"""			default:
				continue chLoop
			}""", """			default:
				break chLoop
			}""", "only the first recipient channel is filled")
seed("c10-initstarttls-error-ignored", "C10", "R-ctls-no-downgrade", "client.go",
"""	if err := c.startTLS(tlsConfig); err != nil {
		return err
	}
	return nil""", """	c.startTLS(tlsConfig)
	return nil""", "failed upgrade reported as success")
seed("c17-no-line-split", "C17", "R-reply-format", "conn.go",
"""	text = strings.Split(strings.Join(text, "\\n"), "\\n")
""", "", "multi-line message printed as one reply line with embedded LF")
seed("c04-enh-default-drops-4", "C04", "R-enh-default", "conn.go",
"""		case 2, 4, 5:
			enhCode = EnhancedCode{cat, 0, 0}""", """		case 2, 5:
			enhCode = EnhancedCode{cat, 0, 0}""", "4xx replies without explicit code lose the enhanced code")

seed("c03-mail-clears-recipients", "C03", "R-state-set-on-success", "conn.go",
"""	c.writeResponse(250, EnhancedCode{2, 0, 0}, fmt.Sprintf("Roger, accepting mail from <%v>", from))
	c.fromReceived = true""", """	c.writeResponse(250, EnhancedCode{2, 0, 0}, fmt.Sprintf("Roger, accepting mail from <%v>", from))
	c.fromReceived = true
	c.recipients = nil""", "nested MAIL forgets the recipients without Reset")
seed("c08-giveup-without-close", "C08", "R-giveup-closes", "conn.go",
"""func (c *Conn) Reject() {
	c.writeResponse(421, EnhancedCode{4, 4, 5}, "Too busy. Try again later.")
	c.Close()""", """func (c *Conn) Reject() {
	c.writeResponse(421, EnhancedCode{4, 4, 5}, "Too busy. Try again later.")""", "421 without closing")
seed("c19-regexp-multibyte-class", "C19", "R-const-index-guarded", "conn.go",
"""[[:cntrl:] \\\\+=]`)""", """[\\p{Cc} \\\\+=]`)""", "two-octet control characters reach the slicing callback")
seed("c04-reset-keeps-total", "C04", "R-reset-effects", "conn.go",
"""	c.bdatStatus = nil
	c.bytesReceived = 0

	if c.session != nil {""", """	if c.session != nil {""", "per-message BDAT state survives reset")

seed("c05-nonlast-no-reply", "C05", "R-bdat-one-reply", "conn.go",
"""	} else {
		c.writeResponse(250, EnhancedCode{2, 0, 0}, "Continue")
	}
}""", """	}
}""", "non-final chunk not answered")
seed("c08-reader-end-left-open", "C08", "R-result-on-every-exit", "conn.go",
"""			dataResult <- err
			r.CloseWithError(err)
		}()""", """			dataResult <- err
		}()""", "delivery goroutine leaves the reading end open")
seed("c08-bdat-panic-no-close", "C08", "R-giveup-closes", "conn.go",
"""		if err == errPanic {
			c.Close()
			return
		}

		c.reset()
	} else {""", """		c.reset()
	} else {""", "backend panic at BDAT LAST answered 421 without closing")
seed("c20-wait-before-close", "C20", "R-result-on-every-exit", "conn.go",
"""		c.bdatPipe.Close()

		err := <-c.dataResult
""", """		err := <-c.dataResult
""", "handler waits for the result with the pipe still open")
seed("c20-result-channel-unbuffered", "C20", "R-go-bounded", "conn.go",
"		dataResult := make(chan error, 1)", "		dataResult := make(chan error)", "delivery goroutine blocks forever after RSET")

seed("c01-lf-reset-needs-cr", "C01", "R-linelimit-threshold", "lengthlimit_reader.go",
"""	for _, chr := range b[:n] {
		if chr == '\\n' {""", """	for i, chr := range b[:n] {
		if chr == '\\n' && i > 0 && b[i-1] == '\\r' {""", "line count reset only for a CRLF inside one read")

seed("c20-caps-shared-array", "C20", "R-no-shared-mutable-globals", "conn.go",
"""	caps := []string{
		"PIPELINING",
		"8BITMIME",
		"ENHANCEDSTATUSCODES",
		"CHUNKING",
	}""", """	caps := baseCaps""", "capability list built on a package-level slice with spare capacity",
more=[("func (c *Conn) Server() *Server {", "var baseCaps = append(make([]string, 0, 16), \"PIPELINING\", \"8BITMIME\", \"ENHANCEDSTATUSCODES\", \"CHUNKING\")\n\nfunc (c *Conn) Server() *Server {")])

seed("c19-partial-long-line", "C19", "R-line-terminated", "conn.go",
"""	line, err := c.text.R.ReadString('\\n')
	if err != nil {
		if c.lineLimitReader.exceeded() {
			return "", ErrTooLongLine
		}
		return "", err
	}
	line = strings.TrimSuffix(line, "\\n")
	line = strings.TrimSuffix(line, "\\r")
	return line, nil""", """	return c.text.ReadLine()""", "the received part of an unterminated or over-long line is dispatched")
seed("c13-panic-under-lock", "C13", "R-no-panic-under-lock", "conn.go",
"""func (c *Conn) Session() Session {
	c.locker.Lock()
	defer c.locker.Unlock()
	return c.session""", """func (c *Conn) Session() Session {
	c.locker.Lock()
	if c.closed && c.session != nil {
		panic("session used after close")
	}
	s := c.session
	c.locker.Unlock()
	return s""", "panic between Lock and an explicit Unlock")
seed("c16-own-write-method", "C16", "R-data-writer", "client.go",
"""func (d *dataCloser) Close() error {""", """func (d *dataCloser) Write(p []byte) (int, error) {
	if len(p) > 0 && p[len(p)-1] == '\\r' {
		return 0, errors.New("smtp: bare CR in message data")
	}
	return d.WriteCloser.Write(p)
}

func (d *dataCloser) Close() error {""", "message filtered one Write call at a time")
seed("c18-callback-on-client", "C18", "R-rcpts-lifecycle", "client.go",
"""	return &dataCloser{c: c, WriteCloser: c.text.DotWriter(), statusCb: statusCb}, nil""", """	c.DebugWriter = c.DebugWriter
	return &dataCloser{c: c, WriteCloser: c.text.DotWriter(), statusCb: c.lastStatusCb(statusCb)}, nil""", "callback routed through the client",
more=[("func (c *Client) Data() (io.WriteCloser, error) {", "func (c *Client) lastStatusCb(cb func(rcpt string, status *SMTPError)) func(rcpt string, status *SMTPError) {\n	return cb\n}\n\nfunc (c *Client) Data() (io.WriteCloser, error) {")])
seed("c20-shutdown-falls-through", "C20", "R-close-effects", "server.go",
"""func (s *Server) Shutdown(ctx context.Context) error {
	select {
	case <-s.done:
		return ErrServerClosed
	default:
		close(s.done)
	}

	var err error""", """func (s *Server) Shutdown(ctx context.Context) error {
	var err error
	select {
	case <-s.done:
		err = ErrServerClosed
	default:
		close(s.done)
	}
""", "second Shutdown closes the listeners again and waits")

seed("c14-xtext-leading-plus-raw", "C14", "R-xtext-decodes-every-plus", "conn.go",
"""	if !strings.Contains(val, "+") {
		return val, nil
	}""", """	if strings.IndexByte(val, '+') <= 0 {
		return val, nil
	}""", "a value starting with '+' is returned undecoded")

seed("c13-shared-error-mutated", "C13", "R-smtperror-not-mutated", "conn.go",
"""func (c *Conn) writeError(code int, enhCode EnhancedCode, err error) {
	if smtpErr, ok := err.(*SMTPError); ok {""", """func (c *Conn) writeError(code int, enhCode EnhancedCode, err error) {
	if smtpErr, ok := err.(*SMTPError); ok {
		if smtpErr.EnhancedCode == EnhancedCodeNotSet {
			smtpErr.EnhancedCode = enhCode
		}""", "the backend's error object is modified in place")

seed("c11-keyword-case", "C11", "R-args-single-equals", "parse.go",
"""			argMap[strings.ToUpper(m[0])] = m[1]""", """			argMap[m[0]] = m[1]""", "lower-case parameter keyword treated as unknown")

seed("c12-mechanism-case", "C12", "R-cmd-gates-agree", "conn.go",
"	mechanism := strings.ToUpper(parts[0])", "	mechanism := parts[0]", "advertised mechanism refused when spelled in lower case")

seed("c19-limit-raised-for-sasl", "C19", "R-linelimit-restored", "conn.go",
"""	response := ir
	for {
		challenge, done, err := sasl.Next(response)""", """	c.lineLimitReader.LineLimit = 12288
	response := ir
	for {
		challenge, done, err := sasl.Next(response)""", "limit raised in handleAuth and never restored")

seed("c18-loop-by-writer-flag", "C18", "R-lmtp-loop", "client.go",
"""	if d.c.lmtp {""", """	if d.lmtp {""", "reply loop selected by a writer field that Data() never sets",
more=[("	statusCb func(rcpt string, status *SMTPError)\n	closed   bool\n}", "	lmtp     bool\n	statusCb func(rcpt string, status *SMTPError)\n	closed   bool\n}"),
      ("	return &dataCloser{c: c, WriteCloser: c.text.DotWriter(), statusCb: statusCb}, nil", "	return &dataCloser{c: c, WriteCloser: c.text.DotWriter(), lmtp: true, statusCb: statusCb}, nil")])

seed("c17-helo-error-rewritten", "C17", "R-err-passthrough", "conn.go",
"""			c.helo = ""
			c.writeError(451, EnhancedCode{4, 0, 0}, err)
			return""", """			c.helo = ""
			if !enhanced {
				if smtpErr, ok := err.(*SMTPError); ok {
					err = &SMTPError{Code: smtpErr.Code, EnhancedCode: NoEnhancedCode, Message: smtpErr.Message}
				}
				c.writeError(451, NoEnhancedCode, err)
				return
			}
			c.writeError(451, EnhancedCode{4, 0, 0}, err)
			return""", "session-creation error answered with a stripped copy on the HELO path")

seed("c16-lmtp-data-no-reset", "C16", "R-envelope-per-message", "conn.go",
"""	defer c.reset()

	if c.server.LMTP {
		c.handleDataLMTP()
		return
	}
""", """	if c.server.LMTP {
		c.handleDataLMTP()
		return
	}

	defer c.reset()
""", "LMTP DATA keeps the envelope: the next message is delivered to the old recipients too")

seed("c13-fill-outer-err", "C13", "R-fill-value", "conn.go",
"""		err := <-c.dataResult

		if c.server.LMTP {
			c.bdatStatus.fillRemaining(err)""", """		dataErr := <-c.dataResult

		if c.server.LMTP {
			c.bdatStatus.fillRemaining(err)""", "missing statuses filled with the chunk copy's (nil) error",
more=[("			c.writeResponse(dataErrorToStatus(err))\n		}\n\n		if err == errPanic {", "			c.writeResponse(dataErrorToStatus(dataErr))\n		}\n\n		if dataErr == errPanic {")])

seed("c07-callback-before-abort", "C07", "R-abort-on-every-exit", "conn.go",
"""	if c.bdatPipe != nil {
		c.bdatPipe.CloseWithError(ErrDataReset)
		c.bdatPipe = nil
	}
	c.bdatStatus = nil
	c.bytesReceived = 0

	if c.session != nil {
		c.session.Reset()
	}

	c.fromReceived = false
	c.recipients = nil
}""", """	if c.session != nil {
		c.session.Reset()
	}

	c.fromReceived = false
	c.recipients = nil

	if c.bdatPipe != nil {
		c.bdatPipe.CloseWithError(ErrDataReset)
		c.bdatPipe = nil
	}
	c.bdatStatus = nil
	c.bytesReceived = 0
}""", "Session.Reset called while the abandoned transfer is still live")

seed("c14-domain-stops-at-high-byte", "C14", "R-path-bytes-pass-through", "parse.go",
"""		if ch == ' ' || ch == '\\t' || ch == '>' {
			break
		}
		p.readByte()""", """		if ch == ' ' || ch == '\\t' || ch == '>' || ch == 0x85 || ch == 0xA0 {
			break
		}
		p.readByte()""", "UTF-8 continuation bytes 0x85/0xA0 end the domain")

seed("c06-writeto-lifts-limit", "C06", "R-limit-armed", "data.go",
"""func (r *dataReader) Read(b []byte) (n int, err error) {""", """func (r *dataReader) WriteTo(w io.Writer) (written int64, err error) {
	r.limited = false
	buf := make([]byte, 4096)
	for err == nil {
		var n int
		if n, err = r.Read(buf); n > 0 {
			if _, werr := w.Write(buf[:n]); werr != nil {
				return written, werr
			}
			written += int64(n)
		}
	}
	if err == io.EOF {
		err = nil
	}
	return written, err
}

func (r *dataReader) Read(b []byte) (n int, err error) {""", "io.Copy in the backend reaches WriteTo, which lifts the limit")

seed("c14-notify-join-guard", "C14", "R-field-key", "client.go",
"""				if i != 0 {
					sb.WriteString(",")
				}""", """				if i > 1 {
					sb.WriteString(",")
				}""", "first two NOTIFY elements run together")
seed("c14-ret-zero-value-refused", "C14", "R-zero-options", "client.go",
"""		case "":
			// This space is intentionally left blank
		default:""", """		default:""", "options with Return left empty make Mail fail")
seed("c13-fallback-status-nil", "C13", "R-fill-value", "conn.go",
"""		for _, rcpt := range c.recipients {
			status.SetStatus(rcpt, err)
		}""", """		_ = err
		for _, rcpt := range c.recipients {
			status.SetStatus(rcpt, nil)
		}""", "plain backend's Data error dropped: every recipient gets 250")
seed("c04-fallback-status-nil", "C04", "R-fill-value", "conn.go",
"""		for _, rcpt := range c.recipients {
			status.SetStatus(rcpt, err)
		}""", """		_ = err
		for _, rcpt := range c.recipients {
			status.SetStatus(rcpt, nil)
		}""", "plain backend's Data error dropped: every recipient gets 250")
seed("c08-reset-explicit-unlock", "C08", "R-no-panic-under-lock", "conn.go",
"""func (c *Conn) reset() {
	c.locker.Lock()
	defer c.locker.Unlock()

	if c.bdatPipe != nil {
		c.bdatPipe.CloseWithError(ErrDataReset)
		c.bdatPipe = nil
	}
	c.bdatStatus = nil
	c.bytesReceived = 0

	if c.session != nil {
		c.session.Reset()
	}
""", """func (c *Conn) reset() {
	c.locker.Lock()

	if c.bdatPipe != nil {
		c.bdatPipe.CloseWithError(ErrDataReset)
		c.bdatPipe = nil
	}
	if c.session != nil {
		c.session.Reset()
	}
	c.locker.Unlock()
	c.bdatStatus = nil
	c.bytesReceived = 0
""", "a panic in Session.Reset leaves Conn.locker held: the recovery's Close blocks")
seed("c01-budget-zero-is-error", "C01", "R-limit-not-early", "data.go",
"""		if r.n < 0 {
			return 0, ErrDataTooLarge""", """		if r.n <= 0 {
			return 0, ErrDataTooLarge""", "reads adding up to exactly the budget end in 552 instead of EOF")
seed("c05-dispatcher-answers-bdat", "C05", "R-bdat-consume", "conn.go",
"""	cmd = strings.ToUpper(cmd)
	switch cmd {""", """	cmd = strings.ToUpper(cmd)
	if cmd == "BDAT" && c.helo == "" {
		c.writeResponse(502, EnhancedCode{5, 5, 1}, "Please introduce yourself first.")
		return
	}
	switch cmd {""", "BDAT refused one level up: its chunk stays in the command stream")
seed("c04-rcpt-recorded-before-callback", "C04", "R-replies-for-accepted-only", "conn.go",
"""	if err := c.Session().Rcpt(recipient, opts); err != nil {
		c.writeError(451, EnhancedCode{4, 0, 0}, err)
		return
	}
	c.recipients = append(c.recipients, recipient)""", """	c.recipients = append(c.recipients, recipient)
	if err := c.Session().Rcpt(recipient, opts); err != nil {
		c.writeError(451, EnhancedCode{4, 0, 0}, err)
		return
	}""", "refused recipient stays in the list: LMTP sends a final reply for it")
seed("c02-limiter-check-before-count", "C02", "R-linelimit-threshold", "lengthlimit_reader.go",
"""		r.curLineLength++

		if r.curLineLength > r.LineLimit {
			return 0, ErrTooLongLine
		}""", """		if r.curLineLength >= r.LineLimit {
			return 0, ErrTooLongLine
		}
		r.curLineLength++""", "counter stops at the limit: the refusal is no longer sticky")
seed("c07-oversize-chunk-no-reset", "C07", "R-oversize-chunk-aborts", "conn.go",
"""			c.Close()
		}

		c.reset()
		return
	}

	if c.bdatStatus == nil && c.server.LMTP {""", """			c.Close()
		}

		return
	}

	if c.bdatStatus == nil && c.server.LMTP {""", "an oversize chunk is dropped but the transfer goes on: LAST completes a message with a hole")

seed("c14-flags-in-one-switch", "C14", "R-set-options-rendered", "client.go",
"""			return errors.New("smtp: server does not support REQUIRETLS")
		}
	}
	if opts != nil && opts.UTF8 {""", """			return errors.New("smtp: server does not support REQUIRETLS")
		}
	} else if opts != nil && opts.UTF8 {""", "SMTPUTF8 dropped when REQUIRETLS is requested too")
seed("c12-valueless-keyword-case", "C12", "R-cmd-gates-agree", "parse.go",
"""			argMap[strings.ToUpper(m[0])] = \"\"""", """			argMap[m[0]] = \"\"""", "smtputf8 / requiretls in lower case miss their gate: 500 instead of 250/504")
seed("c19-toolong-loop-continues", "C19", "R-toolong-close", "server.go",
"""				c.writeResponse(500, EnhancedCode{5, 4, 0}, "Too long line, closing connection")
				return nil""", """				c.writeResponse(500, EnhancedCode{5, 4, 0}, "Too long line, closing connection")
				continue""", "loop goes on after a too long line: the sticky refusal answers 500 forever")
seed("c20-listener-not-recorded", "C20", "R-close-effects", "server.go",
"""	s.locker.Lock()
	s.listeners = append(s.listeners, l)
	s.locker.Unlock()

	var tempDelay""", """	var tempDelay""", "Close cannot close the listener Serve accepts on")

seed("c15-ehlo-first-line-is-extension", "C15", "R-ehlo-keys", "client.go",
"""	if len(extList) > 1 {
		extList = extList[1:]
		for""", """	if len(extList) > 0 {
		for""", "the greeting line (server name) is parsed as an extension keyword")
seed("c14-ehlo-keys-lower-cased", "C14", "R-ehlo-keys", "client.go",
"""				ext[args[0]] = args[1]
			} else {
				ext[args[0]] = \"\"
			}""", """				ext[strings.ToLower(args[0])] = args[1]
			} else {
				ext[strings.ToLower(args[0])] = \"\"
			}""", "no upper-case lookup finds an advertised extension: every option is silently dropped")

seed("c19-counter-reset-per-command", "C19", "R-linelimit-threshold", "conn.go",
"""	line, err := c.text.R.ReadString('\\n')
	if err != nil {""", """	c.lineLimitReader.curLineLength = 0
	line, err := c.text.R.ReadString('\\n')
	if err != nil {""", "readLine zeroes the limiter's count: read-ahead octets of a pipelined long line are forgotten")

seed("c17-reply-lines-trimmed-in-place", "C17", "R-reply-format", "conn.go",
"""	lastLineIndex := len(text) - 1
	for i := 0; i < lastLineIndex; i++ {""", """	for i, line := range text {
		text[i] = strings.TrimSpace(line)
	}

	lastLineIndex := len(text) - 1
	for i := 0; i < lastLineIndex; i++ {""", "leading/trailing blanks of the backend's message text are lost")
seed("c17-reply-line-trimmed-at-print", "C17", "R-reply-format", "conn.go",
"""		c.text.PrintfLine("%d %v.%v.%v %v", code, enhCode[0], enhCode[1], enhCode[2], text[lastLineIndex])""",
"""		c.text.PrintfLine("%d %v.%v.%v %v", code, enhCode[0], enhCode[1], enhCode[2], strings.TrimSpace(text[lastLineIndex]))""", "last line trimmed when printed")

seed("c09-auth-read-error-continues", "C09", "R-auth-read-failure-ends", "conn.go",
"""		encoded, err = c.readLine()
		if err != nil {
			return // TODO: error handling
		}""", """		encoded, err = c.readLine()
		if err != nil {
			continue
		}""", "a failed read inside the SASL exchange steps the mechanism again with the previous response, forever on a dead connection")

seed("c04-readline-arms-both-deadlines", "C04", "R-write-deadline-owner", "conn.go",
"""		if err := c.conn.SetReadDeadline(time.Now().Add(c.server.ReadTimeout)); err != nil {""",
"""		if err := c.conn.SetDeadline(time.Now().Add(c.server.ReadTimeout)); err != nil {""", "the read deadline also expires replies when WriteTimeout is unset")
seed("c12-rcptmax-off-by-one", "C12", "R-cmd-gates-agree", "conn.go",
"	if c.server.MaxRecipients > 0 && len(c.recipients) >= c.server.MaxRecipients {", "	if c.server.MaxRecipients > 0 && len(c.recipients)+1 >= c.server.MaxRecipients {", "one recipient fewer than the advertised RCPTMAX is accepted")
seed("c05-too-many-args-keeps-chunk", "C05", "R-bdat-consume", "conn.go",
"""		// The size is known: the chunk of this refused BDAT must be
		// discarded as well, it must not be interpreted as commands.
		_, discardErr := io.Copy(ioutil.Discard, io.LimitReader(c.text.R, int64(size)))
		c.writeResponse(501, EnhancedCode{5, 5, 4}, "Too many arguments")
		if discardErr != nil {
			c.Close()
		}
		return""", """		c.writeResponse(501, EnhancedCode{5, 5, 4}, "Too many arguments")
		return""", "BDAT n LAST x refused without consuming its chunk")
seed("c17-data-error-replaced", "C17", "R-verdict-flow", "conn.go",
"""	r := newDataReader(c)
	code, enhancedCode, msg := dataErrorToStatus(c.Session().Data(r))""", """	r := newDataReader(c)
	dataErr := c.Session().Data(r)
	if dataErr != nil && r.limited && r.n < 0 {
		dataErr = ErrDataTooLarge
	}
	code, enhancedCode, msg := dataErrorToStatus(dataErr)""", "the backend's own error is replaced by 552 when the message was over the limit")
seed("c08-reader-eof-after-error", "C08", "R-dot-state-carried", "data.go",
"""			if err == io.EOF {
				err = io.ErrUnexpectedEOF
			}
			break""", """			if err == io.EOF {
				err = io.ErrUnexpectedEOF
			}
			r.state = stateEOF
			break""", "after a failed read the reader reports EOF: the drain succeeds and the connection is kept")

seed("c13-rcpt-recorded-early-rolled-back", "C13", "R-recipients-in-order", "conn.go",
"""	if err := c.Session().Rcpt(recipient, opts); err != nil {
		c.writeError(451, EnhancedCode{4, 0, 0}, err)
		return
	}
	c.recipients = append(c.recipients, recipient)""", """	c.recipients = append(c.recipients, recipient)
	if err := c.Session().Rcpt(recipient, opts); err != nil {
		for i, r := range c.recipients {
			if r == recipient {
				c.recipients = append(c.recipients[:i], c.recipients[i+1:]...)
				break
			}
		}
		c.writeError(451, EnhancedCode{4, 0, 0}, err)
		return
	}""", "a refused repeat removes the earlier accepted occurrence: replies out of RCPT order")
seed("c16-lmtp-fallback-per-distinct-rcpt", "C16", "R-fill-value", "conn.go",
"""		for _, rcpt := range c.recipients {
			status.SetStatus(rcpt, err)
		}""", """		for rcpt := range status.statusMap {
			status.SetStatus(rcpt, err)
		}""", "a recipient named twice gets one status: the client's Close waits forever for the last reply")

seed("c11-hexchar-only-complete", "C11", "R-xtext-decodes-every-plus", "conn.go",
"var hexcharRe = regexp.MustCompile(`\\+[0-9A-F]?[0-9A-F]?`)", "var hexcharRe = regexp.MustCompile(`\\+[0-9A-F]{2}?`)", "incomplete hexchars are not matched and pass through as literal text")
seed("c09-challenge-carried-over", "C09", "R-auth-challenge", "conn.go",
"""	response := ir
	for {
		challenge, done, err := sasl.Next(response)""", """	response := ir
	var encoded string
	for {
		challenge, done, err := sasl.Next(response)""", "an empty challenge on a later step is sent as the client's previous line",
more=[("""		encoded := \"\"
		if len(challenge) > 0 {""", """		if len(challenge) > 0 {""")])
seed("c13-bdat-panic-single-reply", "C13", "R-lmtp-last-only-per-recipient", "conn.go",
"""		err := <-c.dataResult

		if c.server.LMTP {""", """		err := <-c.dataResult

		if err == errPanic {
			c.writeResponse(dataErrorToStatus(err))
			c.Close()
			return
		}

		if c.server.LMTP {""", "after a backend panic BDAT LAST answers once, naming no recipient")
seed("c16-client-rcpt-recorded-early", "C16", "R-recipients-as-accepted", "client.go",
"""	if _, _, err := c.cmd(25, "%s", sb.String()); err != nil {
		return err
	}
	c.rcpts = append(c.rcpts, to)
	return nil""", """	c.rcpts = append(c.rcpts, to)
	if _, _, err := c.cmd(25, "%s", sb.String()); err != nil {
		return err
	}
	return nil""", "a refused recipient stays in the client's list: Close waits for a reply that never comes")

seed("c11-notify-empty-elements-dropped", "C11", "R-enum-whitelist", "conn.go",
"""			for _, val := range strings.Split(value, ",") {""", """			for _, val := range strings.FieldsFunc(value, func(r rune) bool { return r == ',' }) {""", "NOTIFY=SUCCESS, and NOTIFY=A,,B are accepted")
seed("c04-binarymime-survives-refused-mail", "C04", "R-binarymime-per-mail", "conn.go",
"""	opts := &MailOptions{}

	c.binarymime = false
""", """	opts := &MailOptions{}

""", "BODY=BINARYMIME of a refused MAIL makes the next plain message's DATA fail",
more=[("""	c.bdatStatus = nil
	c.bytesReceived = 0

	if c.session != nil {
		c.session.Reset()""", """	c.bdatStatus = nil
	c.bytesReceived = 0
	c.binarymime = false

	if c.session != nil {
		c.session.Reset()""")])
seed("c13-collector-without-pipe", "C13", "R-collector-with-pipe", "conn.go",
"""	if c.bdatPipe == nil {
		var r *io.PipeReader
		r, c.bdatPipe = io.Pipe()""", """	if size == 0 && !last {
		c.writeResponse(250, EnhancedCode{2, 0, 0}, "Continue")
		return
	}

	if c.bdatPipe == nil {
		var r *io.PipeReader
		r, c.bdatPipe = io.Pipe()""", "an empty first chunk creates the collector but no pipe: a later RCPT is accepted and has no status slot")

seed("c16-client-strips-first-continuation-only", "C16", "R-client-parse", "client.go",
"""strings.ReplaceAll(msg, "\\n"+parts[0]+" ", "\\n")""", """strings.Replace(msg, "\\n"+parts[0]+" ", "\\n", 1)""", "a three-line verdict keeps the enhanced code on its third line")
seed("c18-readresponse-plain-error", "C18", "R-client-parse", "client.go",
"""	if protoErr, ok := err.(*textproto.Error); ok {
		err = toSMTPErr(protoErr)
	}
	return code, msg, err""", """	if protoErr, ok := err.(*textproto.Error); ok {
		if protoErr.Code < 400 {
			return code, msg, fmt.Errorf("smtp: unexpected reply: %d %s", protoErr.Code, protoErr.Msg)
		}
		err = toSMTPErr(protoErr)
	}
	return code, msg, err""", "a 251 verdict is not an SMTPError: Close stops in the middle of the replies")
seed("c07-bdat-timeout-returns", "C07", "R-failed-chunk-aborts", "conn.go",
"""	n, err := io.Copy(c.bdatPipe, chunk)
	if err == nil && n != int64(size) {""", """	n, err := io.Copy(c.bdatPipe, chunk)
	if neterr, ok := err.(net.Error); ok && neterr.Timeout() {
		c.writeResponse(421, EnhancedCode{4, 4, 2}, "Idle timeout, bye bye")
		return
	}
	if err == nil && n != int64(size) {""", "a read timeout inside a chunk is answered 421 and the handler returns with the pipe still open")
seed("c15-notify-checker-normalises", "C15", "R-notify-checker-exact", "conn.go",
"""	for _, val := range values {
		switch val {""", """	for _, val := range values {
		val = DSNNotify(strings.ToUpper(strings.TrimSpace(string(val))))
		switch val {""", "NEVER\\r\\n passes the check and is written raw")
seed("c20-hostname-takes-lock", "C20", "R-callback-reentrancy", "conn.go",
"""func (c *Conn) Hostname() string {
	return c.helo
}""", """func (c *Conn) Hostname() string {
	c.locker.Lock()
	defer c.locker.Unlock()
	return c.helo
}""", "a backend calling Hostname from Reset/Logout deadlocks")

seed("c17-enh-default-after-continuation", "C17", "R-enh-default", "conn.go",
"""	// All responses must include an enhanced code, if it is missing - use
	// a generic code X.0.0.
	if enhCode == EnhancedCodeNotSet {
		cat := code / 100
		switch cat {
		case 2, 4, 5:
			enhCode = EnhancedCode{cat, 0, 0}
		default:
			enhCode = NoEnhancedCode
		}
	}

	// transform each single line with \\n, into separate lines
	text = strings.Split(strings.Join(text, "\\n"), "\\n")

	lastLineIndex := len(text) - 1
	for i := 0; i < lastLineIndex; i++ {
		// RFC 2034: the enhanced code is repeated on every line.
		if enhCode == NoEnhancedCode {
			c.text.PrintfLine("%d-%v", code, text[i])
		} else {
			c.text.PrintfLine("%d-%v.%v.%v %v", code, enhCode[0], enhCode[1], enhCode[2], text[i])
		}
	}
""", """	// transform each single line with \\n, into separate lines
	text = strings.Split(strings.Join(text, "\\n"), "\\n")

	lastLineIndex := len(text) - 1
	for i := 0; i < lastLineIndex; i++ {
		// RFC 2034: the enhanced code is repeated on every line.
		if enhCode == NoEnhancedCode {
			c.text.PrintfLine("%d-%v", code, text[i])
		} else {
			c.text.PrintfLine("%d-%v.%v.%v %v", code, enhCode[0], enhCode[1], enhCode[2], text[i])
		}
	}

	// All responses must include an enhanced code, if it is missing - use
	// a generic code X.0.0.
	if enhCode == EnhancedCodeNotSet {
		cat := code / 100
		switch cat {
		case 2, 4, 5:
			enhCode = EnhancedCode{cat, 0, 0}
		default:
			enhCode = NoEnhancedCode
		}
	}
""", "continuation lines of a reply with an unset code carry 0.0.0")
seed("c19-closed-check-after-handle-only", "C19", "R-no-dispatch-after-close", "server.go",
"""		if c.isClosed() {
			return nil
		}

		line, err := c.readLine()""", """		line, err := c.readLine()""", "the loop no longer tests the closed flag at its top",
more=[("""			c.handle(cmd, arg)
		} else {""", """			c.handle(cmd, arg)
			if c.isClosed() {
				return nil
			}
		} else {""")])

seed("c10-client-starttls-454-ok", "C10", "R-ctls-success-effects", "client.go",
"""	_, _, err := c.cmd(220, "STARTTLS")
	if err != nil {
		return err
	}""", """	_, _, err := c.cmd(220, "STARTTLS")
	if err != nil {
		if smtpErr, ok := err.(*SMTPError); ok && smtpErr.Temporary() {
			return nil
		}
		return err
	}""", "a 454 answer to STARTTLS is not an error: the caller continues in plaintext")
seed("c20-registered-after-handshake", "C20", "R-close-effects", "server.go",
"""	s.locker.Lock()
	s.conns[c] = struct{}{}
	s.locker.Unlock()

	defer func() {
		c.Close()

		s.locker.Lock()
		delete(s.conns, c)
		s.locker.Unlock()
	}()

	if tlsConn, ok := c.conn.(*tls.Conn); ok {
		if d := s.ReadTimeout; d != 0 {
			c.conn.SetReadDeadline(time.Now().Add(d))
		}
		if d := s.WriteTimeout; d != 0 {
			c.conn.SetWriteDeadline(time.Now().Add(d))
		}
		if err := tlsConn.Handshake(); err != nil {
			return err
		}
	}
""", """	defer c.Close()

	if tlsConn, ok := c.conn.(*tls.Conn); ok {
		if d := s.ReadTimeout; d != 0 {
			c.conn.SetReadDeadline(time.Now().Add(d))
		}
		if d := s.WriteTimeout; d != 0 {
			c.conn.SetWriteDeadline(time.Now().Add(d))
		}
		if err := tlsConn.Handshake(); err != nil {
			return err
		}
	}

	s.locker.Lock()
	s.conns[c] = struct{}{}
	s.locker.Unlock()

	defer func() {
		s.locker.Lock()
		delete(s.conns, c)
		s.locker.Unlock()
	}()
""", "Server.Close cannot end a connection that is still in its TLS handshake")
for pid in ("C04", "C09", "C11"):
    seed(pid.lower()+"-line-error-ignored-when-data", pid, "R-line-terminated", "conn.go",
"""	line, err := c.text.R.ReadString('\\n')
	if err != nil {""", """	line, err := c.text.R.ReadString('\\n')
	if err != nil && line == \"\" {""", "a fragment cut off by a timeout or the end of the stream is dispatched as a command")

seed("c07-bdat-reader-wrapped", "C07", "R-bdat-reader-is-the-pipe", "conn.go",
"""				err = session.Data(r)
			} else {
				lmtpSession, ok := session.(LMTPSession)""", """				err = session.Data(io.LimitReader(r, 1<<40))
			} else {
				lmtpSession, ok := session.(LMTPSession)""", "the backend reads a wrapper around the pipe")
seed("c01-budget-from-announced-size", "C01", "R-limit-not-early", "data.go",
"""		dr.n = int64(c.server.MaxMessageBytes)""", """		dr.n = int64(c.server.MaxMessageBytes)
		if c.bytesReceived > 0 && c.bytesReceived < dr.n {
			dr.n = c.bytesReceived
		}""", "the reader's budget comes from something else than the configured maximum")
seed("c17-chunk-error-replaced", "C17", "R-chunk-error-kept", "conn.go",
"""	if err == nil && n != int64(size) {""", """	if _, rejected := err.(*SMTPError); n != int64(size) && !rejected {""", "a backend's plain error is reported as unexpected EOF")

seed("c12-auth-prefiltered", "C12", "R-cmd-gates-agree", "conn.go",
"""	if authSession, ok := c.Session().(AuthSession); ok {
		return authSession.Auth(mech)
	}
	return nil, ErrAuthUnknownMechanism""", """	if authSession, ok := c.Session().(AuthSession); ok {
		if ms := authSession.AuthMechanisms(); len(ms) > 0 && ms[0] != mech {
			return nil, ErrAuthUnknownMechanism
		}
		return authSession.Auth(mech)
	}
	return nil, ErrAuthUnknownMechanism""", "the handler filters the mechanism itself: advertised mechanisms other than the first are refused")
seed("c16-server-dedups-rcpt", "C16", "R-positive-after-callback", "conn.go",
"""	if err := c.Session().Rcpt(recipient, opts); err != nil {""", """	for _, r := range c.recipients {
		if r == recipient && len(args) == 0 {
			c.writeResponse(250, EnhancedCode{2, 1, 5}, fmt.Sprintf("<%v> is already a recipient", recipient))
			return
		}
	}
	if err := c.Session().Rcpt(recipient, opts); err != nil {""", "a repeated recipient is answered 250 without asking the backend")
seed("c08-closed-only-if-socket-closes", "C08", "R-no-dispatch-after-close", "conn.go",
"""	c.closed = true
	return c.conn.Close()
}""", """	if err := c.conn.Close(); err != nil {
		return err
	}
	c.closed = true
	return nil
}""", "closed is not set when closing the socket fails (TLS close_notify to a vanished peer)")
seed("c20-close-returns-before-abort", "C20", "R-close-releases", "conn.go",
"""func (c *Conn) Close() error {
	c.locker.Lock()
	defer c.locker.Unlock()

	if c.bdatPipe != nil {""", """func (c *Conn) Close() error {
	c.locker.Lock()
	defer c.locker.Unlock()

	c.closed = true
	if err := c.conn.Close(); err != nil {
		return err
	}

	if c.bdatPipe != nil {""", "a failing socket close skips the pipe abort and the Logout")

WIRE_OLD = """			io.TeeReader(rwc.Reader, c.server.Debug),
			io.MultiWriter(rwc.Writer, c.server.Debug),"""
WIRE_NEW = """			io.TeeReader(rwc.Reader, printableWriter{c.server.Debug}),
			io.MultiWriter(rwc.Writer, printableWriter{c.server.Debug}),"""
seed("c01-debug-writer-mutates-tee-buffer", "C01", "R-stream-layers-readonly", "conn.go", WIRE_OLD, WIRE_NEW,
  "a debug sanitiser that rewrites octets in place changes what the reader behind io.TeeReader returns",
  more=[("// Commands are dispatched to the appropriate handler functions.", """type printableWriter struct{ w io.Writer }

func (p printableWriter) Write(b []byte) (int, error) {
	for i, ch := range b {
		if ch >= 0x7f {
			b[i] = '?'
		}
	}
	return p.w.Write(b)
}

// Commands are dispatched to the appropriate handler functions.""")])
seed("c05-limiter-rewrites-buffer", "C05", "R-stream-layers-readonly", "lengthlimit_reader.go",
"""	n, err := r.R.Read(b)""", """	n, err := r.R.Read(b)
	for i := 0; i < n; i++ {
		if b[i] == 0 {
			b[i] = ' '
		}
	}""", "the limiter layer replaces NUL octets in the buffer it passes up")

seed("c09-challenge-helper-urlsafe", "C09", "R-auth-challenge", "conn.go",
"""			encoded = base64.StdEncoding.EncodeToString(challenge)""", """			encoded = encodeSASLChallenge(challenge)""",
  "the challenge is encoded by a helper that uses the URL-safe alphabet: binary challenges do not decode at the client",
  more=[("func decodeSASLResponse(s string) ([]byte, error) {", """func encodeSASLChallenge(b []byte) string {
	if len(b) == 0 {
		return ""
	}
	return base64.URLEncoding.EncodeToString(b)
}

func decodeSASLResponse(s string) ([]byte, error) {""")])
seed("c13-lmtp-data-returns-before-reset", "C13", "R-envelope-per-message", "conn.go",
"""	defer c.reset()

	if c.server.LMTP {
		c.handleDataLMTP()
		return
	}
""", """	if c.server.LMTP {
		c.handleDataLMTP()
		return
	}
	defer c.reset()
""", "an LMTP DATA message ends without reset(): the next message is answered for the earlier recipients as well")

seed("c20-reset-callback-outside-lock", "C20", "R-reset-serialised-with-close", "conn.go",
"""	c.bdatStatus = nil
	c.bytesReceived = 0

	if c.session != nil {
		c.session.Reset()
	}
""", """	c.bdatStatus = nil
	c.bytesReceived = 0
	session := c.session
	c.locker.Unlock()
	if session != nil {
		session.Reset()
	}
	c.locker.Lock()
""", "Session.Reset is called with Conn.locker released: Server.Close can log the session out while, or before, it runs")
seed("c12-disabled-param-counts-as-protocol-error", "C12", "R-protocol-error-sites", "conn.go",
"""				c.writeResponse(504, EnhancedCode{5, 5, 4}, "SMTPUTF8 is not implemented")""",
"""				c.protocolError(504, EnhancedCode{5, 5, 4}, "SMTPUTF8 is not implemented")""",
  "a refused extension parameter counts towards the error threshold: the fourth one closes the connection")
seed("c04-noop-counts-as-protocol-error", "C04", "R-protocol-error-sites", "conn.go",
"""		c.writeResponse(252, EnhancedCode{2, 5, 0}, "Cannot VRFY user, but will accept message")""",
"""		c.protocolError(252, EnhancedCode{2, 5, 0}, "Cannot VRFY user, but will accept message")""",
  "a recognised command answered through protocolError: the fourth VRFY gets two replies")
seed("c19-debug-tee-bypasses-limiter", "C19", "R-linelimit-layer", "conn.go",
"""			io.TeeReader(rwc.Reader, c.server.Debug),""", """			io.TeeReader(c.conn, c.server.Debug),""",
  "with a debug writer configured textproto reads from the socket directly: no line limit")
seed("c16-limiter-lf-first-in-chunk", "C16", "R-linelimit-threshold", "lengthlimit_reader.go",
"""		if chr == '\\n' {
			r.curLineLength = 0
		}""", """		if chr == '\\n' && r.curLineLength > 0 {
			r.curLineLength = 0
		}""", "an LF that is the first octet counted on a line does not reset the count")

seed("c17-client-reply-line-limit-lowered", "C17", "R-client-parse", "client.go",
"""		LineLimit: 2000,""", """		LineLimit: 2 * 512,""", "the client refuses verdict lines the server sends intact")
seed("c01-data-handler-lowers-line-limit", "C01", "R-linelimit-owners", "conn.go",
"""	r := newDataReader(c)
	code, enhancedCode, msg := dataErrorToStatus(c.Session().Data(r))""", """	c.lineLimitReader.LineLimit = 1000
	defer func() { c.lineLimitReader.LineLimit = c.server.MaxLineLength }()
	r := newDataReader(c)
	code, enhancedCode, msg := dataErrorToStatus(c.Session().Data(r))""", "body lines capped at 1000 octets whatever the configured limit")
seed("c06-bdat-limit-remaining-budget-off-by-one", "C06", "R-bdat-limit", "conn.go",
"""	if c.server.MaxMessageBytes != 0 && c.bytesReceived+int64(size) > c.server.MaxMessageBytes {""",
"""	if limit := c.server.MaxMessageBytes; limit != 0 && int64(size) >= limit-c.bytesReceived {""", "remaining-budget form with >=: the chunk that fills the budget exactly is refused")

# ---- batch 35 (2026-09-28) ----
for pid in ("C11", "C12", "C14"):
    seed(pid.lower()+"-null-path-only-when-alone", pid, "R-parser-cursor", "parse.go",
"""	if strings.HasPrefix(p.s, "<>") {
		p.s = strings.TrimPrefix(p.s, "<>")""", """	if p.s == "<>" {
		p.s = \"\"""", "MAIL FROM:<> with parameters is refused: the parameters of a bounce never reach the switch")
seed("c14-null-path-trims-both-ends", "C14", "R-parser-cursor", "parse.go",
"""		p.s = strings.TrimPrefix(p.s, "<>")""", """		p.s = strings.Trim(p.s, "<>")""", "the last parameter of a null-sender MAIL loses trailing '<'/'>'")
seed("c20-accept-loop-shares-conn-variable", "C20", "R-go-fresh-captures", "server.go",
"""	var tempDelay time.Duration // how long to sleep on accept failure

	for {
		c, err := l.Accept()""", """	var tempDelay time.Duration // how long to sleep on accept failure
	var (
		c   net.Conn
		err error
	)

	for {
		c, err = l.Accept()""", "one connection variable shared by all serving goroutines")
for pid in ("C10", "C15"):
    seed(pid.lower()+"-hello-failure-forgotten", pid, "R-chello-sticky", "client.go",
"""		} else {
			c.helloError = err
		}
	}
	return c.helloError""", """		} else {
			return err
		}
	}
	return c.helloError""", "a refused EHLO (after STARTTLS) is reported once; later calls trust the plaintext capabilities")
seed("c16-cmd-clears-read-deadline-only", "C16", "R-cdeadline-paired", "client.go",
"""	c.conn.SetDeadline(time.Now().Add(c.CommandTimeout))
	defer c.conn.SetDeadline(time.Time{})

	id, err := c.text.Cmd(format, args...)""", """	c.conn.SetDeadline(time.Now().Add(c.CommandTimeout))
	defer c.conn.SetReadDeadline(time.Time{})

	id, err := c.text.Cmd(format, args...)""", "the write deadline of the DATA command is still armed while the body is written")
seed("c09-client-empty-initial-response-dropped", "C09", "R-cauth-initial-empty", "client.go",
"""	} else if resp != nil {
		resp64 = []byte{'='}
	}""", """	}""", "an empty initial response is not sent: the exchange gets an extra empty challenge")
for pid in ("C18", "C16"):
    seed(pid.lower()+"-lmtp-io-error-returns-first-verdict", pid, "R-lmtp-loop-complete", "client.go",
"""				} else {
					return err
				}
			} else if d.statusCb != nil {""", """				} else {
					return firstErr
				}
			} else if d.statusCb != nil {""", "a failed read of a per-recipient reply is reported as success")
seed("c04-limiter-counts-while-lifted", "C04", "R-linelimit-bypass-uncounted", "lengthlimit_reader.go",
"""	if r.LineLimit == 0 {
		return n, nil
	}

	for _, chr := range b[:n] {""", """	for _, chr := range b[:n] {""", "a binary chunk leaves a line count behind; the next command is refused as too long")

# ---- batch 36 (2026-09-28) ----
for pid in ("C17", "C04"):
    seed(pid.lower()+"-data-verdict-after-close", pid, "R-no-reply-after-close", "conn.go",
"""	c.writeResponse(code, enhancedCode, msg)
	if drainErr != nil {
		// The end of the message was not reached (timeout, connection
		// error): what follows in the stream is not a command.
		c.Close()
	}
}""", """	if drainErr != nil {
		c.Close()
	}
	c.writeResponse(code, enhancedCode, msg)
}""", "the backend's DATA verdict is written to a closed socket when the drain failed")
for pid in ("C07", "C16"):
    seed(pid.lower()+"-sendmail-resets-after-failed-copy", pid, "R-no-command-while-data-open", "client.go",
"""	_, err = io.Copy(w, r)
	if err != nil {
		return err
	}
	return w.Close()""", """	_, err = io.Copy(w, r)
	if err != nil {
		c.Reset()
		return err
	}
	return w.Close()""", "RSET after a failed copy: textproto ends the open dot-writer, the truncated body is delivered as complete")
for pid in ("C01", "C05"):
    seed(pid.lower()+"-limiter-drops-octets-delivered-with-error", pid, "R-stream-layers-readonly", "lengthlimit_reader.go",
"""	n, err := r.R.Read(b)
	if err != nil {
		return n, err
	}""", """	n, err := r.R.Read(b)
	if err != nil {
		return 0, err
	}""", "octets the transport delivered together with an error (TLS record before close_notify) are dropped")
for pid in ("C13", "C17"):
    seed(pid.lower()+"-readline-arms-both-deadlines", pid, "R-write-deadline-owner", "conn.go",
"""		if err := c.conn.SetReadDeadline(time.Now().Add(c.server.ReadTimeout)); err != nil {""",
"""		if err := c.conn.SetDeadline(time.Now().Add(c.server.ReadTimeout)); err != nil {""", "replies written later than ReadTimeout after the command line are lost")
seed("c05-second-limiter-around-debug-tee", "C05", "R-linelimit-layer", "conn.go",
"""			io.TeeReader(rwc.Reader, c.server.Debug),""", """			&lineLimitReader{R: io.TeeReader(c.conn, c.server.Debug), LineLimit: c.server.MaxLineLength},""",
  "with a debug writer the chain holds a limiter handleBdat cannot lift")
seed("c03-starttls-keeps-session-pointer", "C03", "R-tls-success-effects", "conn.go",
"""		session.Logout()
		c.setSession(nil)
	}
	c.helo = \"\"""", """		session.Logout()
	}
	c.helo = \"\"""", "the EHLO after STARTTLS is taken for a repeated greeting: no session sees the TLS state")

# ---- batch 37 (2026-09-28) ----
seed("c08-close-logs-out-outside-lock", "C08", "R-logout-once-under-lock", "conn.go",
"""	if c.session != nil {
		c.session.Logout()
		c.session = nil
	}

	c.closed = true
	return c.conn.Close()""", """	session := c.session
	c.closed = true
	c.locker.Unlock()
	if session != nil {
		session.Logout()
	}
	c.locker.Lock()
	c.session = nil
	return c.conn.Close()""", "two overlapping Close calls both log the session out")
seed("c08-giveup-closes-raw-socket", "C08", "R-socket-close-owner", "conn.go",
"""		c.writeResponse(500, EnhancedCode{5, 5, 1}, "Too many errors. Quiting now")
		c.Close()""", """		c.writeResponse(500, EnhancedCode{5, 5, 1}, "Too many errors. Quiting now")
		c.conn.Close()""", "the closed flag is never set: buffered commands are still dispatched")
for pid in ("C18", "C16"):
    seed(pid.lower()+"-refused-data-drops-recipients", pid, "R-rcpts-lifecycle" if pid == "C18" else "R-recipients-as-accepted", "client.go",
"""	_, _, err := c.cmd(354, "DATA")
	if err != nil {
		return nil, err
	}
	return &dataCloser{c: c, WriteCloser: c.text.DotWriter()}, nil""", """	_, _, err := c.cmd(354, "DATA")
	if err != nil {
		c.rcpts = nil
		return nil, err
	}
	return &dataCloser{c: c, WriteCloser: c.text.DotWriter()}, nil""", "a retried DATA is answered once per recipient but Close waits for none")
for pid in ("C19", "C09"):
    seed(pid.lower()+"-auth-without-commaok", pid, "R-typeassert-guarded", "conn.go",
"""	if authSession, ok := c.Session().(AuthSession); ok {
		return authSession.Auth(mech)
	}
	return nil, ErrAuthUnknownMechanism""", """	authSession, _ := c.Session().(AuthSession)
	return authSession.Auth(mech)""", "AUTH on a backend without AuthSession panics (nil interface)")
for pid in ("C09", "C12"):
    seed(pid.lower()+"-tls-state-true-without-tls", pid, "R-authallowed-def", "conn.go",
"""	tc, ok := c.conn.(*tls.Conn)
	if !ok {
		return
	}
	return tc.ConnectionState(), true
}

func (c *Conn) Hostname""", """	tc, ok := c.conn.(*tls.Conn)
	if !ok {
		return state, c.server.TLSConfig == nil
	}
	return tc.ConnectionState(), true
}

func (c *Conn) Hostname""", "a plaintext connection of a server without TLSConfig passes for TLS")
seed("c18-newclientlmtp-forgets-flag", "C18", "R-lmtp-flag", "client.go",
"""	c := NewClient(conn)
	c.lmtp = true
	return c""", """	c := NewClient(conn)
	return c""", "an LMTP exchange is read as SMTP: one reply per message")

# ---- batches 38/39 (2026-09-28) ----
seed("c03-data-reset-deferred-before-refusals", "C03", "R-refusal-no-reset", "conn.go",
"""	if !c.fromReceived || len(c.recipients) == 0 {
		c.writeResponse(502, EnhancedCode{5, 5, 1}, "Missing RCPT TO command.")
		return
	}

	// We have recipients, go to accept data
	c.writeResponse(354, NoEnhancedCode, "Go ahead. End your data with <CR><LF>.<CR><LF>")

	defer c.reset()
""", """	defer c.reset()

	if !c.fromReceived || len(c.recipients) == 0 {
		c.writeResponse(502, EnhancedCode{5, 5, 1}, "Missing RCPT TO command.")
		return
	}

	// We have recipients, go to accept data
	c.writeResponse(354, NoEnhancedCode, "Go ahead. End your data with <CR><LF>.<CR><LF>")
""", "a refused DATA resets the transaction the client is still building")
for pid in ("C17", "C10"):
    seed(pid.lower()+"-sendmail-auth-query-before-hello", pid, "R-hello-error-not-masked", "client.go",
"""		if err = c.hello(); err != nil {
			return err
		}
		if ok, _ := c.Extension("AUTH"); !ok {""", """		if ok, _ := c.Extension("AUTH"); !ok {""", "a refused EHLO inside TLS is reported as 'server doesn't support AUTH'")
seed("c11-auth-identity-parsed-as-path", "C11", "R-param-errors-checked", "conn.go",
"""				value, err = p.parseMailbox()
				if err != nil || p.s != "" {""", """				value, err = p.parsePath()
				if err != nil || p.s != "" {""", "AUTH=<bob@example.net> is accepted and handed on without the brackets")
seed("c09-client-auth-buffer-reused", "C09", "R-cauth-flow", "client.go",
"""		resp64 = make([]byte, encoding.EncodedLen(len(resp)))
		encoding.Encode(resp64, resp)
		code, msg64, err = c.cmd(0, string(resp64))""", """		if n := encoding.EncodedLen(len(resp)); n > len(resp64) {
			resp64 = make([]byte, n)
		}
		encoding.Encode(resp64, resp)
		code, msg64, err = c.cmd(0, string(resp64))""", "a shorter response drags the tail of the previous one along")
for pid in ("C16", "C18"):
    seed(pid.lower()+"-close-waits-command-timeout", pid, "R-cdeadline-paired", "client.go",
"""	d.c.conn.SetDeadline(time.Now().Add(d.c.SubmissionTimeout))""", """	d.c.conn.SetDeadline(time.Now().Add(d.c.CommandTimeout))""", "a slow delivery makes Close return a local timeout instead of the verdict")
seed("c20-logout-before-pipe-abort", "C20", "R-close-releases", "conn.go",
"""	if c.bdatPipe != nil {
		c.bdatPipe.CloseWithError(ErrDataReset)
		c.bdatPipe = nil
	}

	if c.session != nil {
		c.session.Logout()
		c.session = nil
	}

	c.closed = true""", """	if c.session != nil {
		c.session.Logout()
		c.session = nil
	}

	if c.bdatPipe != nil {
		c.bdatPipe.CloseWithError(ErrDataReset)
		c.bdatPipe = nil
	}

	c.closed = true""", "a Logout that waits for the session's Data call deadlocks under both locks")
seed("c12-starttls-verb-case-sensitive", "C12", "R-verb-case-insensitive", "parse.go",
"""	case strings.HasPrefix(strings.ToUpper(line), "STARTTLS"):""", """	case strings.HasPrefix(line, "STARTTLS"):""", "'starttls' is answered 501 although STARTTLS is advertised")
seed("c13-reply-text-as-format", "C13", "R-reply-format", "conn.go",
"""		c.text.PrintfLine("%d %v.%v.%v %v", code, enhCode[0], enhCode[1], enhCode[2], text[lastLineIndex])""",
"""		c.text.PrintfLine(fmt.Sprintf("%d %v.%v.%v ", code, enhCode[0], enhCode[1], enhCode[2]) + text[lastLineIndex])""", "a '%' in a recipient address garbles the reply that names it")
seed("c01-lmtp-drain-beside-backend", "C01", "R-drain-after-data", "conn.go",
"""			status.fillRemaining(lmtpSession.LMTPData(r, status))
			r.limited = false
			_, drainErr := io.Copy(ioutil.Discard, r) // Make sure all the data has been consumed
			done <- drainErr == nil""", """			status.fillRemaining(lmtpSession.LMTPData(r, status))
			done <- true""", "the message is no longer drained after the backend returned")
seed("c06-bdat-result-through-conn-field", "C06", "R-go-capture", "conn.go",
"""			dataResult <- err
			r.CloseWithError(err)
		}()""", """			c.dataResult <- err
			r.CloseWithError(err)
		}()""", "the delivery of a message refused with 552 reports into the next message's channel")
seed("c08-fill-one-status-per-channel", "C08", "R-status-fill-shape", "conn.go",
"""				continue chLoop""", """				break chLoop""", "a duplicated recipient gets one status: the serving goroutine blocks for good")

# ---- batches 40-43 (2026-09-28) ----
for pid in ("C01", "C07"):
    seed(pid.lower()+"-body-read-deadline-from-write-timeout", pid, "R-write-deadline-owner", "conn.go",
"""	defer c.reset()

	if c.server.LMTP {
		c.handleDataLMTP()""", """	defer c.reset()

	if c.server.ReadTimeout != 0 {
		c.conn.SetReadDeadline(time.Now().Add(c.server.WriteTimeout))
	}

	if c.server.LMTP {
		c.handleDataLMTP()""", "the body is read against the write timeout")
seed("c14-rrvs-rounded", "C14", "R-field-key", "client.go",
"""opts.RequireRecipientValidSince.Format(time.RFC3339)""", """opts.RequireRecipientValidSince.Round(time.Second).Format(time.RFC3339)""", "a timestamp with .5 s or more is sent as the next second")
for pid in ("C10", "C03"):
    seed(pid.lower()+"-setsession-keeps-existing", pid, "R-tls-success-effects", "conn.go",
"""	defer c.locker.Unlock()
	c.session = session""", """	defer c.locker.Unlock()
	if c.session == nil {
		c.session = session
	}""", "setSession(nil) after the STARTTLS logout is a no-op")
for pid in ("C12", "C14"):
    seed(pid.lower()+"-auth-not-advertised-once-authenticated", pid, "R-caps-table", "conn.go",
"""	if c.authAllowed() {
		mechs := c.authMechanisms()""", """	if c.authAllowed() && !c.didAuth {
		mechs := c.authMechanisms()""", "after AUTH and a re-EHLO the client drops MailOptions.Auth silently")
seed("c20-handshake-under-conn-lock", "C20", "R-lock-order", "conn.go",
"""	tlsConn := tls.Server(c.conn, c.server.TLSConfig)

	if err := tlsConn.Handshake(); err != nil {
		c.writeResponse(550, EnhancedCode{5, 0, 0}, "Handshake error")
		return
	}

	c.conn = tlsConn
	c.init()
""", """	c.locker.Lock()
	tlsConn := tls.Server(c.conn, c.server.TLSConfig)

	if err := tlsConn.Handshake(); err != nil {
		c.locker.Unlock()
		c.writeResponse(550, EnhancedCode{5, 0, 0}, "Handshake error")
		return
	}

	c.conn = tlsConn
	c.init()
	c.locker.Unlock()
""", "Server.Close waits for a peer that stalls in the TLS handshake")
seed("c19-wrapped-toolong", "C19", "R-toolong-close", "conn.go",
"""		if c.lineLimitReader.exceeded() {
			return \"\", ErrTooLongLine
		}""", """		if c.lineLimitReader.exceeded() {
			return \"\", fmt.Errorf("%w (%d octets withheld)", ErrTooLongLine, len(line))
		}""", "the refusal is not recognised by == and answered 421")
for pid in ("C02", "C08"):
    seed(pid.lower()+"-closed-check-behind-timeout-config", pid, "R-no-dispatch-after-close", "server.go",
"""		if c.isClosed() {
			return nil
		}

		line, err := c.readLine()""", """		if s.ReadTimeout != 0 && c.isClosed() {
			return nil
		}

		line, err := c.readLine()""", "without a read timeout the loop keeps dispatching buffered commands after Close")
for pid in ("C13", "C03"):
    seed(pid.lower()+"-rcptmax-after-backend-accepts", pid, "R-accepted-recorded", "conn.go",
"""		c.writeError(451, EnhancedCode{4, 0, 0}, err)
		return
	}
	c.recipients = append(c.recipients, recipient)""", """		c.writeError(451, EnhancedCode{4, 0, 0}, err)
		return
	}
	if c.server.MaxRecipients > 0 && len(c.recipients) >= c.server.MaxRecipients+1 {
		c.writeResponse(452, EnhancedCode{4, 5, 3}, "Too many recipients")
		return
	}
	c.recipients = append(c.recipients, recipient)""", "the backend holds a recipient the server does not record")

# ---- batches 44/45 (2026-09-28) ----
for pid in ("C17", "C13"):
    seed(pid.lower()+"-line-count-before-split", pid, "R-reply-format", "conn.go",
"""	text = strings.Split(strings.Join(text, "\\n"), "\\n")

	lastLineIndex := len(text) - 1""", """	lastLineIndex := len(text) - 1
	text = strings.Split(strings.Join(text, "\\n"), "\\n")
""", "a multi-line backend error is cut after its first line")
seed("c10-extension-skips-hello", "C10", "R-ctls-rehello", "client.go",
"""	if err := c.hello(); err != nil {
		return false, \"\"
	}
	ext = strings.ToUpper(ext)""", """	if c.ext == nil {
		if err := c.hello(); err != nil {
			return false, \"\"
		}
	}
	ext = strings.ToUpper(ext)""", "after STARTTLS Extension answers from the plaintext capabilities")
for pid in ("C12", "C09"):
    seed(pid.lower()+"-accepted-conn-wrapped", pid, "R-authallowed-def", "server.go",
"""			err := s.handleConn(newConn(c, s))""", """			err := s.handleConn(newConn(struct{ net.Conn }{c}, s))""", "an implicit-TLS connection no longer passes for TLS")
seed("c13-rcpt-during-transfer-by-byte-count", "C13", "R-accepted-recorded", "conn.go",
"""	if c.bdatPipe != nil {
		c.writeResponse(502, EnhancedCode{5, 5, 1}, "RCPT not allowed during message transfer")""", """	if c.bytesReceived > 0 {
		c.writeResponse(502, EnhancedCode{5, 5, 1}, "RCPT not allowed during message transfer")""", "after BDAT 0 a recipient is added behind the status collector")
seed("c07-first-chunk-by-byte-count", "C07", "R-pipe-created-once", "conn.go",
"""	if c.bdatPipe == nil {
		var r *io.PipeReader""", """	if c.bytesReceived == 0 {
		var r *io.PipeReader""", "after BDAT 0 a second pipe orphans the first reader")
seed("c09-refused-greeting-keeps-helo", "C09", "R-helo-before-newsession", "conn.go",
"""			c.helo = \"\"
			c.writeError(451, EnhancedCode{4, 0, 0}, err)""", """			c.writeError(451, EnhancedCode{4, 0, 0}, err)""", "AUTH after a refused greeting passes the 'introduce yourself' test")
seed("c16-exact-limit-refused-at-entry", "C16", "R-limit-budget", "data.go",
"""		if r.n < 0 {
			return 0, ErrDataTooLarge
		}
		// Ask""", """		if r.n <= 0 {
			return 0, ErrDataTooLarge
		}
		// Ask""", "a message of exactly the limit is refused when a read ends at the limit")
seed("c04-lmtp-panic-loses-done", "C04", "R-result-on-every-exit", "conn.go",
"""					c.server.ErrorLog.Printf("panic serving %v: %v\\n%s", c.conn.RemoteAddr(), err, stack)
					done <- false""", """					c.server.ErrorLog.Printf("panic serving %v: %v\\n%s", c.conn.RemoteAddr(), err, stack)""", "after a backend panic the command loop waits for ever")

# ---- batches 46/47 (2026-09-28) ----
seed("c03-bdat-limit-check-before-envelope-check", "C03", "R-refusal-no-reset", "conn.go",
"""	if !c.fromReceived || len(c.recipients) == 0 {
		// RFC 3030: the chunk of a refused BDAT must be discarded, it
		// must not be interpreted as commands.
		_, discardErr := io.Copy(ioutil.Discard, io.LimitReader(c.text.R, int64(size)))
		c.writeResponse(502, EnhancedCode{5, 5, 1}, "Missing RCPT TO command.")
		if discardErr != nil {
			// The end of the chunk was not reached (timeout, connection
			// error): what follows in the stream is not a command.
			c.Close()
		}
		return
	}

	last := false""", """	last := false""", "an out-of-order BDAT over the size limit reaches reset()")
seed("c14-hexpoint-regexp-max-five", "C14", "R-enc-dec-width", "conn.go",
"""`\\\\x[{][0-9A-F]+[}]|[[:cntrl:] \\\\+=]`""", """`\\\\x[{][0-9A-F]{1,5}[}]|[[:cntrl:] \\\\+=]`""", "six-digit escapes (plane 16) are not matched: the backslash is refused as a disallowed character")
seed("c06-data-during-bdat-falls-through", "C06", "R-data-not-during-bdat", "conn.go",
"""		c.writeResponse(502, EnhancedCode{5, 5, 1}, "DATA not allowed during message transfer")
		return""", """		c.writeResponse(502, EnhancedCode{5, 5, 1}, "DATA not allowed during message transfer")""", "DATA's fresh budget adds to the chunks already taken")
seed("c07-bdat-size-base-detection", "C07", "R-bdat-size-decimal", "conn.go",
"""	size, err := strconv.ParseUint(args[0], 10, 32)
	if err != nil {
		c.writeResponse(501, EnhancedCode{5, 5, 4}, "Malformed size argument")""", """	size, err := strconv.ParseUint(args[0], 0, 32)
	if err != nil {
		c.writeResponse(501, EnhancedCode{5, 5, 4}, "Malformed size argument")""", "BDAT 010 LAST with 8 octets is taken for a complete chunk")
seed("c20-status-channel-capacity-distinct", "C20", "R-status-shape", "conn.go",
"""		status.statusMap[rcpt] = make(chan error, count)""", """		status.statusMap[rcpt] = make(chan error, len(rcptCounts)+0*count)""", "a recipient repeated more often than there are distinct ones blocks the command loop")
for pid in ("C05", "C09"):
    seed(pid.lower()+"-refusal-through-protocolerror", pid, "R-protocol-error-sites", "conn.go",
"""		c.writeResponse(501, EnhancedCode{5, 5, 4}, "Missing chunk size argument")""", """		c.protocolError(501, EnhancedCode{5, 5, 4}, "Missing chunk size argument")""", "a refused BDAT uses up the connection's error budget")
seed("c02-close-returns-before-closed", "C02", "R-no-dispatch-after-close", "conn.go",
"""	if c.session != nil {
		c.session.Logout()
		c.session = nil
	}

	c.closed = true""", """	if c.session != nil {
		if err := c.session.Logout(); err != nil {
			return err
		}
		c.session = nil
	}

	c.closed = true""", "a failing Logout leaves the connection open and the loop running")

seed("c01-negative-max-arms-limit", "C01", "R-limit-not-early", "data.go",
"""	if c.server.MaxMessageBytes > 0 {
		dr.limited = true""", """	if c.server.MaxMessageBytes != 0 {
		dr.limited = true""", "a negative maximum arms the limit: every message is 552")
seed("c02-refusal-after-354", "C02", "R-no-cmd-during-data", "conn.go",
"""	defer c.reset()

	if c.server.LMTP {
		c.handleDataLMTP()
		return
	}
""", """	defer c.reset()

	if c.binarymime {
		c.writeResponse(502, EnhancedCode{5, 5, 1}, "late refusal")
		return
	}

	if c.server.LMTP {
		c.handleDataLMTP()
		return
	}
""", "a refusal after 354 leaves the message to the command loop")
seed("c06-chunk-counted-after-reset", "C06", "R-bdat-accounting", "conn.go",
"""		c.reset()
	} else {
		c.writeResponse(250, EnhancedCode{2, 0, 0}, "Continue")""", """		c.reset()
		c.bytesReceived += int64(size)
	} else {
		c.writeResponse(250, EnhancedCode{2, 0, 0}, "Continue")""", "the last chunk is charged to the next message")
seed("c20-listeners-closed-before-done", "C20", "R-close-effects", "server.go",
"""func (s *Server) Close() error {
	select {
	case <-s.done:
		return ErrServerClosed
	default:
		close(s.done)
	}

	var err error
	s.locker.Lock()
	for _, l := range s.listeners {
		if lerr := l.Close(); lerr != nil && err == nil {
			err = lerr
		}
	}
""", """func (s *Server) Close() error {
	select {
	case <-s.done:
		return ErrServerClosed
	default:
	}

	var err error
	s.locker.Lock()
	for _, l := range s.listeners {
		if lerr := l.Close(); lerr != nil && err == nil {
			err = lerr
		}
	}
	close(s.done)
""", "Serve finds done open when Accept fails")
for pid in ("C09", "C19"):
    seed(pid.lower()+"-readline-skips-empty", pid, "R-line-terminated", "conn.go",
"""	line, err := c.text.R.ReadString('\\n')
	if err != nil {
		if c.lineLimitReader.exceeded() {
			return "", ErrTooLongLine
		}
		return "", err
	}
	line = strings.TrimSuffix(line, "\\n")
	line = strings.TrimSuffix(line, "\\r")
	return line, nil""", """	for {
		line, err := c.text.R.ReadString('\\n')
		if err != nil {
			if c.lineLimitReader.exceeded() {
				return "", ErrTooLongLine
			}
			return "", err
		}
		line = strings.TrimSuffix(line, "\\n")
		line = strings.TrimSuffix(line, "\\r")
		if line != "" {
			return line, nil
		}
	}""", "the empty SASL response is swallowed")
seed("c04-auth-read-error-answered", "C04", "R-auth-read-failure-ends", "conn.go",
"""		encoded, err = c.readLine()
		if err != nil {
			return // TODO: error handling
		}
""", """		encoded, err = c.readLine()
		if err != nil {
			c.writeResponse(501, EnhancedCode{5, 0, 0}, "Negotiation cancelled")
			return
		}
""", "the handler's 501 and the loop's 421 answer one command")

json.dump(S, open(os.path.join(os.path.dirname(os.path.abspath(__file__)), "bank.json"), "w"), indent=1)
print(len(S), "seeds")
