#!/bin/bash
# pretriage.sh <worktree>...: runs all quick checks on a seed worktree (not on /repo) and prints which fired
. /verif/env.sh
for d in "$@"; do
  export VERIF_DIR=$(mktemp -d /tmp/so.XXXX); cp /verif/known_findings.txt $VERIF_DIR/
  fired=$(/verif/bin/smtpverif -repo $d -property all 2>&1 | grep -E "^== C[0-9]+: " | grep -v " 0 violations" | sed -E 's/^== (C[0-9]+):.*/\1/' | tr '\n' ' ')
  rm -rf $VERIF_DIR; echo "$(basename $d): $fired"
done
