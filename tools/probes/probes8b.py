P = []
def p(i, props, f, old, new): P.append((i, props, f, old, new))
p("client-notify-join", "C14", "client.go", """				if i != 0 {
					sb.WriteString(",")
				}""", """				if i > 1 {
					sb.WriteString(",")
				}""")
p("client-ret-default-sent", "C14", "client.go", """		case "":
			// This space is intentionally left blank
		default:""", """		default:""")
p("lmtp-fallback-status-nil", "C13,C04", "conn.go", """		for _, rcpt := range c.recipients {
			status.SetStatus(rcpt, err)
		}""", """		_ = err
		for _, rcpt := range c.recipients {
			status.SetStatus(rcpt, nil)
		}""")
