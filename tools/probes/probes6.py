P = []
def p(i, props, f, old, new): P.append((i, props, f, old, new))
p("limiter-fastpath-no-lf-scan", "C19,C01", "lengthlimit_reader.go", """	for _, chr := range b[:n] {""", """	if r.curLineLength+n <= r.LineLimit {
		r.curLineLength += n
		return n, nil
	}

	for _, chr := range b[:n] {""")
p("reply-singleline-fastpath", "C04,C17", "conn.go", """	// transform each single line with \\n, into separate lines
""", """	if len(text) == 1 && enhCode != NoEnhancedCode {
		c.text.PrintfLine("%d %v.%v.%v %v", code, enhCode[0], enhCode[1], enhCode[2], text[0])
		return
	}

	// transform each single line with \\n, into separate lines
""")
p("isclosed-cached", "C08", "server.go", """		if c.isClosed() {
			return nil
		}

		line, err := c.readLine()""", """		line, err := c.readLine()""")
p("greet-skips-parse", "C03,C11", "conn.go", """	domain, err := parseHelloArgument(arg)
	if err != nil {
		c.writeResponse(501, EnhancedCode{5, 5, 2}, "Domain/address argument required for HELO")
		return
	}""", """	domain, err := parseHelloArgument(arg)
	if err != nil {
		domain = "unknown"
	}""")
p("parseargs-lowercase-keys", "C11,C12", "parse.go", """			argMap[strings.ToUpper(m[0])] = m[1]""", """			argMap[m[0]] = m[1]""")
p("mail-from-case-sensitive", "C11", "conn.go", """	arg, ok := cutPrefixFold(arg, "FROM:")""", """	arg, ok := strings.CutPrefix(arg, "FROM:")""")
p("rcpt-trailing-garbage-ok", "C11", "conn.go", """	args, err := parseArgs(p.s)
	if err != nil {
		c.writeResponse(501, EnhancedCode{5, 5, 4}, "Unable to parse RCPT ESMTP parameters")
		return
	}""", """	args, _ := parseArgs(p.s)""")
