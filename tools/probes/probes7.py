P = []
def p(i, props, f, old, new): P.append((i, props, f, old, new))
p("bdat-last-refused", "C05", "conn.go", """	if len(args) > 2 {
		// The size is known""", """	if len(args) >= 2 {
		// The size is known""")
p("auth-mech-case", "C09,C12", "conn.go", "	mechanism := strings.ToUpper(parts[0])", "	mechanism := parts[0]")
p("verb-case-sensitive", "C04,C11,C03", "conn.go", """	cmd = strings.ToUpper(cmd)
	switch cmd {""", """	switch cmd {""")
p("size-zero-refused", "C11,C06", "conn.go", """			if c.server.MaxMessageBytes > 0 && int64(size) > c.server.MaxMessageBytes {
				c.writeResponse(552, EnhancedCode{5, 3, 4}, "Max message size exceeded")
				return
			}""", """			if size == 0 || c.server.MaxMessageBytes > 0 && int64(size) > c.server.MaxMessageBytes {
				c.writeResponse(552, EnhancedCode{5, 3, 4}, "Max message size exceeded")
				return
			}""")
p("data-refused-after-any-bdat-bytes", "C03,C05", "conn.go", """	if c.binarymime {
		c.writeResponse(502, EnhancedCode{5, 5, 1}, "DATA not allowed for BINARYMIME messages")
		return
	}""", """	if c.binarymime || c.bytesReceived < 0 {
		c.writeResponse(502, EnhancedCode{5, 5, 1}, "DATA not allowed for BINARYMIME messages")
		return
	}""")
p("rcpt-limit-off-by-one-strict", "C03", "conn.go", "	if c.server.MaxRecipients > 0 && len(c.recipients) >= c.server.MaxRecipients {", "	if c.server.MaxRecipients > 0 && len(c.recipients)+1 >= c.server.MaxRecipients {")
p("ret-case-sensitive", "C11", "conn.go", """			value = strings.ToUpper(value)
			switch DSNReturn(value) {""", """			switch DSNReturn(value) {""")
p("orcpt-type-case-sensitive", "C11", "conn.go", "	aType, aAddr := strings.ToUpper(tv[0]), tv[1]", "	aType, aAddr := tv[0], tv[1]")
