P = []
def p(i, props, f, old, new): P.append((i, props, f, old, new))

# C20 / Shutdown
p("shutdown-no-ctx", "C20", "server.go", """	select {
	case <-ctx.Done():
		return ctx.Err()
	case <-connDone:
		return err
	}""", """	<-connDone
	return err""")
p("serve-closed-returns-err", "C20", "server.go", """			select {
			case <-s.done:
				// we called Close()
				return nil
			default:
			}""", """			select {
			case <-s.done:
				// we called Close()
				return err
			default:
			}""")
p("shutdown-closes-conns", "C20", "server.go", """	s.locker.Unlock()

	connDone := make(chan struct{})""", """	for conn := range s.conns {
		conn.Close()
	}
	s.locker.Unlock()

	connDone := make(chan struct{})""")
p("unregister-unlocked", "C20", "server.go", """		s.locker.Lock()
		delete(s.conns, c)
		s.locker.Unlock()""", """		delete(s.conns, c)""")
# C09
p("auth-no-didauth", "C09", "conn.go", """	c.writeResponse(235, EnhancedCode{2, 0, 0}, "Authentication succeeded")
	c.didAuth = true""", """	c.writeResponse(235, EnhancedCode{2, 0, 0}, "Authentication succeeded")""")
p("auth-ir-error-ignored", "C09", "conn.go", """		ir, err = decodeSASLResponse(parts[1])
		if err != nil {
			c.writeResponse(454, EnhancedCode{4, 7, 0}, "Invalid base64 data")
			return
		}""", """		ir, _ = decodeSASLResponse(parts[1])
		_ = err""")
p("auth-no-helo-guard", "C09", "conn.go", """func (c *Conn) handleAuth(arg string) {
	if c.helo == "" {
		c.writeResponse(502, EnhancedCode{5, 5, 1}, "Please introduce yourself first.")
		return
	}""", """func (c *Conn) handleAuth(arg string) {""")
p("auth-didauth-on-failure", "C09", "conn.go", """		challenge, done, err := sasl.Next(response)
		if err != nil {
			c.writeError(454, EnhancedCode{4, 7, 0}, err)
			return
		}""", """		challenge, done, err := sasl.Next(response)
		c.didAuth = true
		if err != nil {
			c.writeError(454, EnhancedCode{4, 7, 0}, err)
			return
		}""")
# C10
p("tls-helo-kept", "C10,C03", "conn.go", """	c.helo = ""
	c.didAuth = false
	c.reset()
}""", """	c.didAuth = false
	c.reset()
}""")
p("tls-gate-config-missing", "C10,C12", "conn.go", """	if c.server.TLSConfig == nil {
		c.writeResponse(502, EnhancedCode{5, 5, 1}, "TLS not supported")
		return
	}

	c.writeResponse(220""", """	c.writeResponse(220""")
# C11
p("size-base0", "C11,C06", "conn.go", "strconv.ParseUint(value, 10, 32)", "strconv.ParseUint(value, 0, 32)")
p("envid-error-ignored", "C11", "conn.go", """			value, err := decodeXtext(value)
			if err != nil || value == "" || !isPrintableASCII(value) {""", """			value, err := decodeXtext(value)
			if value == "" || !isPrintableASCII(value) {
				_ = err""")
p("orcpt-empty-addr-ok", "C11", "conn.go", """			if err != nil || aAddr == "" {""", """			if err != nil {""")
p("rcpt-unknown-param-ignored", "C11", "conn.go", """		default:
			c.writeResponse(500, EnhancedCode{5, 5, 4}, "Unknown RCPT TO argument")
			return
		}""", """		default:
		}""")
p("notify-not-upper", "C11", "conn.go", "notify = append(notify, DSNNotify(strings.ToUpper(val)))", "notify = append(notify, DSNNotify(val))")
p("body-stored-before-check", "C11", "conn.go", """			value = strings.ToUpper(value)
			switch BodyType(value) {""", """			opts.Body = BodyType(value)
			value = strings.ToUpper(value)
			switch BodyType(value) {""")
# C12
p("binarymime-adv-always", "C12", "conn.go", """	if c.server.EnableBINARYMIME {
		caps = append(caps, "BINARYMIME")
	}""", """	caps = append(caps, "BINARYMIME")""")
p("starttls-adv-under-tls", "C12", "conn.go", """	if _, isTLS := c.TLSConnectionState(); c.server.TLSConfig != nil && !isTLS {
		caps = append(caps, "STARTTLS")""", """	if c.server.TLSConfig != nil {
		caps = append(caps, "STARTTLS")""")
p("rcptmax-wrong-value", "C12", "conn.go", """fmt.Sprintf("LIMITS RCPTMAX=%v", c.server.MaxRecipients)""", """fmt.Sprintf("LIMITS RCPTMAX=%v", c.server.MaxMessageBytes)""")
# C05 / C06 / C07
p("bdat-last-prefix", "C05,C07", "conn.go", """		if !strings.EqualFold(args[1], "LAST") {""", """		if !strings.HasPrefix(strings.ToUpper(args[1]), "LAST") {""")
p("bdat-limit-before-add", "C06", "conn.go", "c.server.MaxMessageBytes != 0 && c.bytesReceived+int64(size) > c.server.MaxMessageBytes", "c.server.MaxMessageBytes != 0 && c.bytesReceived > c.server.MaxMessageBytes")
p("bdat-552-no-reset", "C03,C06", "conn.go", """		io.Copy(ioutil.Discard, io.LimitReader(c.text.R, int64(size)))

		c.reset()
		return
	}""", """		io.Copy(ioutil.Discard, io.LimitReader(c.text.R, int64(size)))

		return
	}""")
p("bdat-size-64", "C05", "conn.go", "size, err := strconv.ParseUint(args[0], 10, 32)", "size, err := strconv.ParseUint(args[0], 10, 64)")
# C01
p("reader-init-state", "C01,C02", "data.go", """		r: c.text.R,
	}""", """		r:     c.text.R,
		state: 4,
	}""")
# C04 / C08 / C19
p("noop-no-reply", "C04", "conn.go", """	case "NOOP":
		c.writeResponse(250, EnhancedCode{2, 0, 0}, "I have successfully done nothing")""", """	case "NOOP":""")
p("timeout-continues", "C08", "server.go", """				c.writeResponse(421, EnhancedCode{4, 4, 2}, "Idle timeout, bye bye")
				return nil""", """				c.writeResponse(421, EnhancedCode{4, 4, 2}, "Idle timeout, bye bye")
				continue""")
p("errcount-not-incremented", "C19", "conn.go", """	c.errCount++
	if c.errCount > errThreshold {""", """	if c.errCount > errThreshold {""")
p("badcmd-no-protocolerror", "C19", "server.go", """				c.protocolError(501, EnhancedCode{5, 5, 2}, "Bad command")""", """				c.writeResponse(501, EnhancedCode{5, 5, 2}, "Bad command")""")
p("recover-no-close", "C08,C19", "conn.go", """			c.writeResponse(421, EnhancedCode{4, 0, 0}, "Internal server error")
			c.Close()

			stack := debug.Stack()""", """			c.writeResponse(421, EnhancedCode{4, 0, 0}, "Internal server error")

			stack := debug.Stack()""")
# C03
p("ehlo-again-no-reset", "C03", "conn.go", """		// and reset the state exactly as if a RSET command has been issued."
		c.reset()""", """		// and reset the state exactly as if a RSET command has been issued."
		""")
p("lmtp-flavour-guard-dropped", "C03", "conn.go", """		if c.server.LMTP && !lmtp {
			c.writeResponse(500, EnhancedCode{5, 5, 1}, "This is a LMTP server, use LHLO")
			return
		}""", "")
p("rcpt-state-before-callback", "C03", "conn.go", """	if err := c.Session().Rcpt(recipient, opts); err != nil {
		c.writeError(451, EnhancedCode{4, 0, 0}, err)
		return
	}
	c.recipients = append(c.recipients, recipient)""", """	c.recipients = append(c.recipients, recipient)
	if err := c.Session().Rcpt(recipient, opts); err != nil {
		c.writeError(451, EnhancedCode{4, 0, 0}, err)
		return
	}""")
