P = []
def p(i, props, f, old, new): P.append((i, props, f, old, new))

p("mailbox-empty-local-ok", "C11", "parse.go", """	} else if localPart == "" {
		return "", fmt.Errorf("local-part is empty")
	}""", """	}""")
p("mailbox-empty-domain-ok", "C11", "parse.go", """	if strings.HasSuffix(sb.String(), "@") {
		return "", fmt.Errorf("domain is empty")
	}
""", "")
p("path-bracket-unchecked", "C11", "parse.go", """	if hasBracket {
		if err := p.expectByte('>'); err != nil {
			return "", err
		}
	}
	return mbox, nil""", """	if hasBracket {
		p.acceptByte('>')
	}
	return mbox, nil""")
p("dotstring-space-allowed", "C11", "parse.go", """			case '(', ')', '<', '>', '[', ']', ':', ';', '\\\\', ',', '"', ' ', '\\t':""", """			case '(', ')', '<', '>', '[', ']', ':', ';', '\\\\', ',', '"', '\\t':""")
p("hello-empty-domain-ok", "C03,C11", "parse.go", """	if domain == "" {
		return "", fmt.Errorf("invalid domain")
	}
	return domain, nil""", """	return domain, nil""")
p("adl-off-by-one", "C11", "parse.go", "		p.s = p.s[i+1:]", "		p.s = p.s[i:]")
p("xtext-incomplete-ok", "C11,C14", "conn.go", """		if len(match) != 3 {
			replaceErr = errors.New("incomplete hexchar")
			return ""
		}""", """		if len(match) < 2 {
			replaceErr = errors.New("incomplete hexchar")
			return ""
		}""")
p("xtext-parse-16bit", "C11,C14", "conn.go", "char, err := strconv.ParseInt(match, 16, 8)", "char, err := strconv.ParseInt(match, 16, 16)")
p("utf8addr-surrogates-ok", "C11,C14", "conn.go", """			case 0x1000 <= char && char <= 0xD7FF:
			case 0xE000 <= char && char <= 0xFFFF:""", """			case 0x1000 <= char && char <= 0xFFFF:""")
p("typedaddr-empty-type-ok", "C11", "conn.go", """	if len(tv) != 2 || tv[0] == "" || tv[1] == "" {""", """	if len(tv) != 2 || tv[1] == "" {""")
p("typedaddr-rfc822-nonascii-ok", "C11", "conn.go", """		if err == nil && !isPrintableASCII(aAddr) {
			err = errors.New("illegal address:" + aAddr)
		}""", "")
p("notify-never-combined-ok", "C11", "conn.go", """	if _, ok := seen[DSNNotifyNever]; ok && len(seen) > 1 {
		return errors.New("Malformed NOTIFY parameter value")
	}
""", "")
p("notify-dup-ok", "C11", "conn.go", """			if _, ok := seen[val]; ok {
				return errors.New("Malformed NOTIFY parameter value")
			}
""", "")
p("auth-param-empty-angle", "C11", "conn.go", """			if err != nil || value == "" {
				c.writeResponse(500, EnhancedCode{5, 5, 4}, "Malformed AUTH parameter value")""", """			if err != nil {
				c.writeResponse(500, EnhancedCode{5, 5, 4}, "Malformed AUTH parameter value")""")
p("cutprefix-le", "C11", "parse.go", "	if len(s) < len(prefix) || !strings.EqualFold(s[:len(prefix)], prefix) {", "	if len(s) <= len(prefix) || !strings.EqualFold(s[:len(prefix)], prefix) {")
p("parsecmd-no-space-check", "C19,C04", "parse.go", """	if line[4] != ' ' {
		// There wasn't a space after the command?
		return "", "", fmt.Errorf("mangled command: %q", line)
	}
""", "")
p("isprintable-allows-del", "C11,C14", "conn.go", "		if ch < ' ' || '~' < ch {", "		if ch < ' ' || '~' + 1 < ch {")
