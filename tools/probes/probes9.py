P = []
def p(i, props, f, old, new): P.append((i, props, f, old, new))
p("serve-tempdelay-never-reset-cap", "C20", "server.go", """				if max := 1 * time.Second; tempDelay > max {
					tempDelay = max
				}""", """				if max := 1 * time.Second; tempDelay < max {
					tempDelay = max
				}""")
p("serve-temp-error-returns", "C20", "server.go", """			if ne, ok := err.(net.Error); ok && ne.Temporary() {""", """			if ne, ok := err.(net.Error); ok && ne.Temporary() && tempDelay == 0 {""")
p("serve-done-check-after-temp", "C20", "server.go", """			select {
			case <-s.done:
				// we called Close()
				return nil
			default:
			}
			if ne, ok := err.(net.Error); ok && ne.Temporary() {""", """			if ne, ok := err.(net.Error); ok && ne.Temporary() {""")
p("serve-wg-add-inside-goroutine", "C20,C08", "server.go", """		s.wg.Add(1)
		go func() {
			defer s.wg.Done()
""", """		go func() {
			s.wg.Add(1)
			defer s.wg.Done()
""")
p("handleconn-conn-not-removed", "C20,C08", "server.go", """		s.locker.Lock()
		delete(s.conns, c)
		s.locker.Unlock()
	}()""", """	}()""")
p("handleconn-close-after-delete-only-on-error", "C08,C20", "server.go", """	defer func() {
		c.Close()

		s.locker.Lock()""", """	defer func() {
		if !c.isClosed() {
			c.Close()
		}

		s.locker.Lock()""")
p("handleconn-eof-continues", "C08,C19", "server.go", """			if err == io.EOF || errors.Is(err, net.ErrClosed) {
				return nil
			}""", """			if errors.Is(err, net.ErrClosed) {
				return nil
			}
			if err == io.EOF {
				continue
			}""")
p("handleconn-toolong-continues", "C19,C08", "server.go", """				c.writeResponse(500, EnhancedCode{5, 4, 0}, "Too long line, closing connection")
				return nil""", """				c.writeResponse(500, EnhancedCode{5, 4, 0}, "Too long line, closing connection")
				continue""")
p("handleconn-timeout-continues", "C08,C19", "server.go", """				c.writeResponse(421, EnhancedCode{4, 4, 2}, "Idle timeout, bye bye")
				return nil""", """				c.writeResponse(421, EnhancedCode{4, 4, 2}, "Idle timeout, bye bye")
				continue""")
p("handleconn-badcmd-plain-reply", "C19,C04", "server.go", """				c.protocolError(501, EnhancedCode{5, 5, 2}, "Bad command")
				continue""", """				c.writeResponse(501, EnhancedCode{5, 5, 2}, "Bad command")
				continue""")
p("handleconn-closed-check-after-read", "C08", "server.go", """		if c.isClosed() {
			return nil
		}

		line, err := c.readLine()
		if err == nil {""", """		line, err := c.readLine()
		if c.isClosed() {
			return nil
		}
		if err == nil {""")
p("handleconn-handshake-no-deadline", "C19,C10", "server.go", """		if d := s.ReadTimeout; d != 0 {
			c.conn.SetReadDeadline(time.Now().Add(d))
		}
		if d := s.WriteTimeout; d != 0 {
			c.conn.SetWriteDeadline(time.Now().Add(d))
		}
		if err := tlsConn.Handshake(); err != nil {""", """		if err := tlsConn.Handshake(); err != nil {""")
p("newserver-done-unbuffered-nil", "C20", "server.go", """		done:     make(chan struct{}, 1),""", """		done:     nil,""")
p("serve-listener-not-recorded", "C20", "server.go", """	s.locker.Lock()
	s.listeners = append(s.listeners, l)
	s.locker.Unlock()

	var tempDelay""", """	var tempDelay""")
