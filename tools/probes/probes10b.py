P = []
def p(i, props, f, old, new): P.append((i, props, f, old, new))
p("client-ehlo-first-line-kept", "C15", "client.go", """	if len(extList) > 1 {
		extList = extList[1:]
		for""", """	if len(extList) > 0 {
		for""")
p("client-ehlo-keyword-case", "C15,C14", "client.go", """				ext[args[0]] = args[1]
			} else {
				ext[args[0]] = \"\"
			}""", """				ext[strings.ToLower(args[0])] = args[1]
			} else {
				ext[strings.ToLower(args[0])] = \"\"
			}""")
