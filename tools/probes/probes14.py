P = []
ALL = "C01,C02,C04,C06,C07,C16"
def p(i, props, f, old, new): P.append((i, props, f, old, new))
p("limit-cut-to-n", ALL, "data.go", "\t\tif int64(len(b)) > r.n+1 {\n\t\t\tb = b[0 : r.n+1]\n\t\t}", "\t\tif int64(len(b)) > r.n {\n\t\t\tb = b[0:r.n]\n\t\t}")
p("limit-entry-le", ALL, "data.go", "\t\tif r.n < 0 {\n\t\t\treturn 0, ErrDataTooLarge\n\t\t}\n\t\t// Ask", "\t\tif r.n <= 0 {\n\t\t\treturn 0, ErrDataTooLarge\n\t\t}\n\t\t// Ask")
p("limit-exit-le", ALL, "data.go", "\t\tr.n -= int64(n)\n\t\tif r.n < 0 {", "\t\tr.n -= int64(n)\n\t\tif r.n <= 0 {")
p("limit-exit-hands-out-extra", ALL, "data.go", "\t\t\treturn n - 1, ErrDataTooLarge", "\t\t\treturn n, ErrDataTooLarge")
p("limit-cut-to-n-plus-2", ALL, "data.go", "\t\tif int64(len(b)) > r.n+1 {\n\t\t\tb = b[0 : r.n+1]\n\t\t}", "\t\tif int64(len(b)) > r.n+2 {\n\t\t\tb = b[0 : r.n+2]\n\t\t}")
p("limit-eof-wins-over-size", ALL, "data.go", "\tif r.limited {\n\t\tr.n -= int64(n)\n\t\tif r.n < 0 {", "\tif r.limited && err != io.EOF {\n\t\tr.n -= int64(n)\n\t\tif r.n < 0 {")
p("limit-armed-ge", ALL, "data.go", "\tif c.server.MaxMessageBytes > 0 {\n\t\tdr.limited = true", "\tif c.server.MaxMessageBytes > 1 {\n\t\tdr.limited = true")
p("limit-n-minus-one", ALL, "data.go", "\t\tdr.n = int64(c.server.MaxMessageBytes)", "\t\tdr.n = int64(c.server.MaxMessageBytes) - 1")
