#!/usr/bin/env python3
"""probe runner: probes.py defines P = [(id, props, file, old, new)], run each through overlay variant and print LIVE/SILENT."""
import json, subprocess, sys, os
from concurrent.futures import ThreadPoolExecutor
sys.path.insert(0, os.path.dirname(os.path.abspath(__file__)))
import importlib
mod = importlib.import_module(sys.argv[1] if len(sys.argv) > 1 else 'probes')
os.makedirs('/tmp/probe/liveness', exist_ok=True)
bank = []
for (i, props, f, old, new) in mod.P:
    for p in props.split(','):
        bank.append({"id": i + "@" + p, "property": p, "rule": "R-", "file": f, "old": old, "new": new, "why": ""})
json.dump(bank, open('/tmp/probe/liveness/bank.json', 'w'))
import shutil; shutil.copy('/verif/known_findings.txt', '/tmp/probe/known_findings.txt')
env = dict(os.environ, VERIF_DIR='/tmp/probe', GOFLAGS='-mod=mod', GOPROXY='off', GOSUMDB='off', GOTOOLCHAIN='local')
env.pop('GOWORK', None)
def run(x):
    r = subprocess.run(['/verif/bin/smtpverif', '-property', x['property'], '-variant', x['id']], env=env, capture_output=True, text=True)
    out = r.stdout.strip().splitlines()
    return x['id'], r.returncode, (out[-1][:230] if out else r.stderr[-200:])
with ThreadPoolExecutor(6) as ex:
    for i, rc, l in ex.map(run, bank):
        tag = {0: 'LIVE  ', 3: 'SILENT', 4: 'SKIP  ', 5: 'NOCOMP'}.get(rc, 'ERR%d' % rc)
        print(tag, i, '|', l if rc != 0 else l[:140])
