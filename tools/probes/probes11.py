P = []
def p(i, props, f, old, new): P.append((i, props, f, old, new))
p("auth-read-error-continues", "C09,C19,C08", "conn.go", """		encoded, err = c.readLine()
		if err != nil {
			return // TODO: error handling
		}""", """		encoded, err = c.readLine()
		if err != nil {
			continue
		}""")
p("auth-ir-last-field", "C09", "conn.go", """		ir, err = decodeSASLResponse(parts[1])""", """		ir, err = decodeSASLResponse(parts[len(parts)-1])""")
p("auth-mechanism-before-gate", "C09", "conn.go", """	if !c.authAllowed() {
		c.writeResponse(523, EnhancedCode{5, 7, 10}, "TLS is required")
		return
	}

	mechanism := strings.ToUpper(parts[0])

	// Parse client initial response if there is one
	var ir []byte
	if len(parts) > 1 {
		var err error
		ir, err = decodeSASLResponse(parts[1])
		if err != nil {
			c.writeResponse(454, EnhancedCode{4, 7, 0}, "Invalid base64 data")
			return
		}
	}

	sasl, err := c.auth(mechanism)
	if err != nil {
		c.writeError(454, EnhancedCode{4, 7, 0}, err)
		return
	}
""", """	mechanism := strings.ToUpper(parts[0])

	// Parse client initial response if there is one
	var ir []byte
	if len(parts) > 1 {
		var err error
		ir, err = decodeSASLResponse(parts[1])
		if err != nil {
			c.writeResponse(454, EnhancedCode{4, 7, 0}, "Invalid base64 data")
			return
		}
	}

	sasl, err := c.auth(mechanism)
	if err != nil {
		c.writeError(454, EnhancedCode{4, 7, 0}, err)
		return
	}

	if !c.authAllowed() {
		c.writeResponse(523, EnhancedCode{5, 7, 10}, "TLS is required")
		return
	}
""")
p("auth-didauth-not-for-anonymous", "C09", "conn.go", """	c.writeResponse(235, EnhancedCode{2, 0, 0}, "Authentication succeeded")
	c.didAuth = true""", """	c.writeResponse(235, EnhancedCode{2, 0, 0}, "Authentication succeeded")
	c.didAuth = mechanism != "ANONYMOUS\"""")
p("auth-cancel-keeps-going", "C09,C04", "conn.go", """			c.writeResponse(501, EnhancedCode{5, 0, 0}, "Negotiation cancelled")
			return""", """			c.writeResponse(501, EnhancedCode{5, 0, 0}, "Negotiation cancelled")
			break""")
p("auth-done-with-challenge-sends-334", "C09,C04", "conn.go", """		if done {
			break
		}

		encoded := \"\"""", """		if done && len(challenge) == 0 {
			break
		}

		encoded := \"\"""")
p("starttls-init-before-conn", "C10", "conn.go", """	c.conn = tlsConn
	c.init()
""", """	c.init()
	c.conn = tlsConn
""")
p("starttls-handshake-error-keeps-going", "C10", "conn.go", """		c.writeResponse(550, EnhancedCode{5, 0, 0}, "Handshake error")
		return
	}""", """		c.writeResponse(550, EnhancedCode{5, 0, 0}, "Handshake error")
	}""")
p("starttls-session-kept", "C10,C08", "conn.go", """	if session := c.Session(); session != nil {
		session.Logout()
		c.setSession(nil)
	}
	c.helo = \"\"""", """	c.helo = \"\"""")
p("starttls-logout-without-clear", "C10,C08", "conn.go", """		session.Logout()
		c.setSession(nil)
	}
	c.helo = \"\"""", """		session.Logout()
	}
	c.helo = \"\"""")
p("starttls-220-after-handshake", "C10", "conn.go", """	c.writeResponse(220, EnhancedCode{2, 0, 0}, "Ready to start TLS")

	// Upgrade to TLS
	tlsConn := tls.Server(c.conn, c.server.TLSConfig)
""", """	// Upgrade to TLS
	tlsConn := tls.Server(c.conn, c.server.TLSConfig)
	c.writeResponse(220, EnhancedCode{2, 0, 0}, "Ready to start TLS")
""")
