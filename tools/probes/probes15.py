P = []
ALL = "C08,C19,C20"
def p(i, props, f, old, new): P.append((i, props, f, old, new))
p("shutdown-ctx-returns-close-err", ALL, "server.go", "\tcase <-ctx.Done():\n\t\treturn ctx.Err()", "\tcase <-ctx.Done():\n\t\treturn err")
p("shutdown-no-wait", ALL, "server.go", "\t\tdefer close(connDone)\n\t\ts.wg.Wait()", "\t\tdefer close(connDone)")
p("shutdown-closes-conns", ALL, "server.go", "\t\t}\n\t}\n\ts.locker.Unlock()\n\n\tconnDone := make(chan struct{})", "\t\t}\n\t}\n\tfor conn := range s.conns {\n\t\tconn.Close()\n\t}\n\ts.locker.Unlock()\n\n\tconnDone := make(chan struct{})")
p("serve-listener-registered-late", ALL, "server.go", "\ts.locker.Lock()\n\ts.listeners = append(s.listeners, l)\n\ts.locker.Unlock()\n\n\tvar tempDelay", "\tvar tempDelay")
p("serve-temp-error-returns", ALL, "server.go", "\t\t\t\ttime.Sleep(tempDelay)\n\t\t\t\tcontinue", "\t\t\t\ttime.Sleep(tempDelay)\n\t\t\t\tif tempDelay >= time.Second {\n\t\t\t\t\treturn err\n\t\t\t\t}\n\t\t\t\tcontinue")
p("serve-accept-after-close-serves", ALL, "server.go", "\t\ts.wg.Add(1)\n\t\tgo func() {", "\t\tselect {\n\t\tcase <-s.done:\n\t\tdefault:\n\t\t}\n\t\ts.wg.Add(1)\n\t\tgo func() {")
p("handleconn-unregister-before-close", ALL, "server.go", "\tdefer func() {\n\t\tc.Close()\n\n\t\ts.locker.Lock()\n\t\tdelete(s.conns, c)\n\t\ts.locker.Unlock()\n\t}()", "\tdefer func() {\n\t\ts.locker.Lock()\n\t\tdelete(s.conns, c)\n\t\ts.locker.Unlock()\n\n\t\tc.Close()\n\t}()")
p("handleconn-register-after-handshake", ALL, "server.go", "\ts.locker.Lock()\n\ts.conns[c] = struct{}{}\n\ts.locker.Unlock()\n\n\tdefer func() {", "\tdefer func() {")
p("close-under-conn-lock-calls-server", ALL, "server.go", "\tfor conn := range s.conns {\n\t\tconn.Close()\n\t}", "\tfor conn := range s.conns {\n\t\tgo conn.Close()\n\t}")
p("done-chan-unbuffered-send", ALL, "server.go", "\tdefault:\n\t\tclose(s.done)\n\t}\n\n\tvar err error\n\ts.locker.Lock()\n\tfor _, l := range s.listeners {\n\t\tif lerr := l.Close(); lerr != nil && err == nil {\n\t\t\terr = lerr\n\t\t}\n\t}\n\n\tfor conn", "\tdefault:\n\t\ts.done <- struct{}{}\n\t}\n\n\tvar err error\n\ts.locker.Lock()\n\tfor _, l := range s.listeners {\n\t\tif lerr := l.Close(); lerr != nil && err == nil {\n\t\t\terr = lerr\n\t\t}\n\t}\n\n\tfor conn")
