P = []
def p(i, props, f, old, new): P.append((i, props, f, old, new))
p("handleconn-toolong-continues", "C19", "server.go", """				c.writeResponse(500, EnhancedCode{5, 4, 0}, "Too long line, closing connection")
				return nil""", """				c.writeResponse(500, EnhancedCode{5, 4, 0}, "Too long line, closing connection")
				continue""")
