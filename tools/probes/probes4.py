P = []
def p(i, props, f, old, new): P.append((i, props, f, old, new))

p("fill-breaks-after-first", "C13", "conn.go", """			default:
				continue chLoop
			}""", """			default:
				break chLoop
			}""")
p("initstarttls-error-ignored", "C10", "client.go", """	if err := c.startTLS(tlsConfig); err != nil {
		return err
	}
	return nil""", """	c.startTLS(tlsConfig)
	return nil""")
p("newclientstarttls-returns-client", "C10", "client.go", """	c := NewClient(conn)
	if err := initStartTLS(c, tlsConfig); err != nil {
		c.Close()
		return nil, err
	}""", """	c := NewClient(conn)
	if err := initStartTLS(c, tlsConfig); err != nil {
		return c, err
	}""")
p("sendmail-plain-dial", "C10", "client.go", """		c, err = DialStartTLS(addr, nil)""", """		c, err = Dial(addr)""")
p("reply-no-line-split", "C04,C17", "conn.go", """	text = strings.Split(strings.Join(text, "\\n"), "\\n")
""", "")
p("enh-default-drops-4", "C17,C04", "conn.go", """		case 2, 4, 5:
			enhCode = EnhancedCode{cat, 0, 0}""", """		case 2, 5:
			enhCode = EnhancedCode{cat, 0, 0}""")
p("data-reset-smtp-only", "C03", "conn.go", """	defer c.reset()

	if c.server.LMTP {
		c.handleDataLMTP()
		return
	}
""", """	if c.server.LMTP {
		c.handleDataLMTP()
		return
	}

	defer c.reset()
""")
p("hello-error-not-sticky", "C10,C15", "client.go", """	if c.didHello {
		return c.helloError
	}""", """	if c.didHello {
		return nil
	}""")
p("starttls-config-shared", "C10", "client.go", """	c.setConn(tls.Client(c.conn, config))
	c.didHello = false""", """	c.conn = tls.Client(c.conn, config)
	c.didHello = false""")
p("client-reset-keeps-rcpts", "C18", "client.go", """	c.rcpts = nil
	return nil
}""", """	return nil
}""")
p("lmtp-session-assert-dropped", "C13", "conn.go", """				lmtpSession, ok := session.(LMTPSession)
				if !ok {
					err = session.Data(r)
					for _, rcpt := range rcpts {
						status.SetStatus(rcpt, err)
					}
				} else {""", """				lmtpSession, ok := session.(LMTPSession)
				if !ok {
					err = session.Data(r)
				} else {""")
p("bdat-lmtp-emit-skips-fill", "C13", "conn.go", """		if c.server.LMTP {
			c.bdatStatus.fillRemaining(err)
			for i, rcpt := range c.recipients {""", """		if c.server.LMTP {
			for i, rcpt := range c.recipients {""")
p("status-from-wrong-index", "C13", "conn.go", """	for i, rcpt := range c.recipients {
		code, enchCode, msg := dataErrorToStatus(<-status.status[i])
		c.writeResponse(code, enchCode, "<"+rcpt+"> "+msg)
	}""", """	for i, rcpt := range c.recipients {
		code, enchCode, msg := dataErrorToStatus(<-status.status[0])
		_ = i
		c.writeResponse(code, enchCode, "<"+rcpt+"> "+msg)
	}""")
p("greet-lmtp-text", "C12", "conn.go", """	if c.server.LMTP {
		protocol = "LMTP"
	}""", "")
p("quit-client-no-close", "C16", "client.go", """func (c *Client) Quit() error {""", """func (c *Client) Quit() error {
	_ = 0""")
