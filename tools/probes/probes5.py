P = []
def p(i, props, f, old, new): P.append((i, props, f, old, new))
p("last-no-pipe-close", "C05,C07,C20", "conn.go", """		c.bdatPipe.Close()

		err := <-c.dataResult
""", """		err := <-c.dataResult
""")
p("nonlast-no-reply", "C04,C05", "conn.go", """	} else {
		c.writeResponse(250, EnhancedCode{2, 0, 0}, "Continue")
	}
}""", """	}
}""")
p("dataresult-unbuffered", "C08,C20", "conn.go", "		dataResult := make(chan error, 1)", "		dataResult := make(chan error)")
p("goroutine-keeps-reader-open", "C05,C20,C07,C08", "conn.go", """			dataResult <- err
			r.CloseWithError(err)
		}()""", """			dataResult <- err
		}()""")
p("collector-after-goroutine", "C13", "conn.go", """	if c.bdatStatus == nil && c.server.LMTP {
		c.bdatStatus = c.createStatusCollector()
	}

	if c.bdatPipe == nil {""", """	if c.bdatPipe == nil {""")
p("lmtp-done-unbuffered", "C20,C08", "conn.go", "	done := make(chan bool, 1)", "	done := make(chan bool)")
p("last-reply-before-result", "C04", "conn.go", """		err := <-c.dataResult

		if c.server.LMTP {""", """		var err error
		select {
		case err = <-c.dataResult:
		default:
		}

		if c.server.LMTP {""")
p("bdat-panic-no-close", "C08", "conn.go", """		if err == errPanic {
			c.Close()
			return
		}

		c.reset()
	} else {""", """		c.reset()
	} else {""")
p("starttls-reply-after-handshake", "C10", "conn.go", """	c.writeResponse(220, EnhancedCode{2, 0, 0}, "Ready to start TLS")

	// Upgrade to TLS
	tlsConn := tls.Server(c.conn, c.server.TLSConfig)
""", """	// Upgrade to TLS
	tlsConn := tls.Server(c.conn, c.server.TLSConfig)
	c.writeResponse(220, EnhancedCode{2, 0, 0}, "Ready to start TLS")
""")
p("handshake-error-continues-upgrade", "C10,C09", "conn.go", """	if err := tlsConn.Handshake(); err != nil {
		c.writeResponse(550, EnhancedCode{5, 0, 0}, "Handshake error")
		return
	}""", """	if err := tlsConn.Handshake(); err != nil {
		c.writeResponse(550, EnhancedCode{5, 0, 0}, "Handshake error")
	}""")
