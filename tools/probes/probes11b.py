P = []
def p(i, props, f, old, new): P.append((i, props, f, old, new))
p("auth-read-error-continues", "C09,C08", "conn.go", """		encoded, err = c.readLine()
		if err != nil {
			return // TODO: error handling
		}""", """		encoded, err = c.readLine()
		if err != nil {
			continue
		}""")
