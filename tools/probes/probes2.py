P = []
def p(i, props, f, old, new): P.append((i, props, f, old, new))

p("mail-size-ungated", "C15", "client.go", """	if _, ok := c.ext["SIZE"]; ok && opts != nil && opts.Size != 0 {""", """	if opts != nil && opts.Size != 0 {""")
p("mail-auth-ungated", "C15", "client.go", """		if _, ok := c.ext["AUTH"]; ok {
			fmt.Fprintf(&sb, " AUTH=%s", encodeXtext(*opts.Auth))
		}""", """		fmt.Fprintf(&sb, " AUTH=%s", encodeXtext(*opts.Auth))""")
p("mail-utf8-dropped", "C15", "client.go", """			sb.WriteString(" SMTPUTF8")
		} else {
			return errors.New("smtp: server does not support SMTPUTF8")
		}""", """			sb.WriteString(" SMTPUTF8")
		}""")
p("mail-envid-unchecked", "C14,C15", "client.go", """			if !isPrintableASCII(opts.EnvelopeID) {
				return errors.New("smtp: Malformed ENVID parameter value")
			}
""", "")
p("rcpt-unvalidated", "C15", "client.go", """func (c *Client) Rcpt(to string, opts *RcptOptions) error {
	if err := validateLine(to); err != nil {
		return err
	}
""", """func (c *Client) Rcpt(to string, opts *RcptOptions) error {
""")
p("data-expects-250", "C16", "client.go", """func (c *Client) Data() (io.WriteCloser, error) {
	_, _, err := c.cmd(354, "DATA")""", """func (c *Client) Data() (io.WriteCloser, error) {
	_, _, err := c.cmd(250, "DATA")""")
p("close-verdict-ignored", "C16", "client.go", """		_, _, err := d.c.readResponse(250)
		if err != nil {
			return err
		}
	}

	return nil""", """		d.c.readResponse(250)
	}

	return nil""")
p("lmtp-reverse-attribution", "C18", "client.go", "rcpt := d.c.rcpts[len(d.c.rcpts)-expectedResponses]", "rcpt := d.c.rcpts[expectedResponses-1]")
p("lmtp-callback-twice", "C18", "client.go", """			} else if d.statusCb != nil {
				d.statusCb(rcpt, nil)
			}
			expectedResponses--""", """			}
			if d.statusCb != nil {
				d.statusCb(rcpt, nil)
			}
			expectedResponses--""")
p("sendmail-skips-last", "C16", "client.go", """	for _, addr := range to {
		if err = c.Rcpt(addr, nil); err != nil {""", """	for _, addr := range to[:len(to)-1] {
		if err = c.Rcpt(addr, nil); err != nil {""")
p("auth-urlencoding", "C09", "client.go", "	encoding := base64.StdEncoding\n	mech, resp, err := a.Start()", "	encoding := base64.URLEncoding\n	mech, resp, err := a.Start()")
p("tosmtperr-keeps-prefix", "C17", "client.go", """	smtpErr.EnhancedCode = enchCode
	smtpErr.Message = msg
	return smtpErr""", """	smtpErr.EnhancedCode = enchCode
	return smtpErr""")
p("tosmtperr-no-multiline-strip", "C17", "client.go", """	msg = strings.ReplaceAll(msg, "\\n"+parts[0]+" ", "\\n")
""", "")
p("data-generic-550", "C17", "conn.go", """			return 554, EnhancedCode{5, 0, 0}, "Error: transaction failed: " + err.Error()""", """			return 550, EnhancedCode{5, 0, 0}, "Error: transaction failed: " + err.Error()""")
p("data-generic-text-lost", "C17", "conn.go", """			return 554, EnhancedCode{5, 0, 0}, "Error: transaction failed: " + err.Error()""", """			return 554, EnhancedCode{5, 0, 0}, "Error: transaction failed" """)
p("writeerror-fixed-text", "C17", "conn.go", """		c.writeResponse(code, enhCode, err.Error())""", """		c.writeResponse(code, enhCode, "Internal error")""")
p("closing-500-dropped", "C04", "conn.go", """		c.writeResponse(500, EnhancedCode{5, 5, 1}, "Too many errors. Quiting now")
		c.Close()""", """		c.Close()""")
p("limit-armed-minus-one", "C06", "data.go", "dr.n = int64(c.server.MaxMessageBytes)", "dr.n = int64(c.server.MaxMessageBytes) - 1")
p("auth-adv-without-mechs", "C12", "conn.go", """		if len(mechs) > 0 {
			caps = append(caps, authCap)
		}""", """		caps = append(caps, authCap)""")
p("auth-adv-insecure", "C09,C12", "conn.go", """	if c.authAllowed() {
		mechs := c.authMechanisms()
""", """	if true {
		mechs := c.authMechanisms()
""")
p("close-closed-flag-dropped", "C08", "conn.go", """	c.closed = true
	return c.conn.Close()""", """	return c.conn.Close()""")
p("conn-close-unlocked", "C20", "conn.go", """func (c *Conn) Close() error {
	c.locker.Lock()
	defer c.locker.Unlock()
""", """func (c *Conn) Close() error {
""")
p("lmtp-emit-reverse", "C13", "conn.go", """			for i, rcpt := range c.recipients {
				code, enchCode, msg := dataErrorToStatus(<-c.bdatStatus.status[i])
				c.writeResponse(code, enchCode, "<"+rcpt+"> "+msg)""", """			for i, rcpt := range c.recipients {
				code, enchCode, msg := dataErrorToStatus(<-c.bdatStatus.status[len(c.recipients)-1-i])
				c.writeResponse(code, enchCode, "<"+rcpt+"> "+msg)""")
p("mail-binarymime-sticky", "C03,C11", "conn.go", """	opts := &MailOptions{}

	c.binarymime = false
""", """	opts := &MailOptions{}

""")
p("starttls-client-no-ext-check", "C10", "client.go", """	if ok, _ := c.Extension("STARTTLS"); !ok {""", """	if ok, _ := c.Extension("STARTTLS"); !ok && false {""")
