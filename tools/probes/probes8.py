P = []
def p(i, props, f, old, new): P.append((i, props, f, old, new))
p("lmtp-fallback-status-nil", "C13,C04", "conn.go", """		for _, rcpt := range c.recipients {
			status.SetStatus(rcpt, err)
		}""", """		for _, rcpt := range c.recipients {
			status.SetStatus(rcpt, nil)
		}""")
p("collector-capacity-minus-one", "C13", "conn.go", "		status.statusMap[rcpt] = make(chan error, count)", "		status.statusMap[rcpt] = make(chan error, count-1)")
p("collector-order-from-map", "C13", "conn.go", """	for _, rcpt := range c.recipients {
		status.status = append(status.status, status.statusMap[rcpt])
	}""", """	for rcpt := range rcptCounts {
		status.status = append(status.status, status.statusMap[rcpt])
	}""")
p("emit-always-first-channel", "C13", "conn.go", """		code, enchCode, msg := dataErrorToStatus(<-status.status[i])
		c.writeResponse(code, enchCode, "<"+rcpt+"> "+msg)""", """		_ = i
		code, enchCode, msg := dataErrorToStatus(<-status.status[0])
		c.writeResponse(code, enchCode, "<"+rcpt+"> "+msg)""")
p("emit-names-first-rcpt", "C13", "conn.go", """		code, enchCode, msg := dataErrorToStatus(<-status.status[i])
		c.writeResponse(code, enchCode, "<"+rcpt+"> "+msg)""", """		code, enchCode, msg := dataErrorToStatus(<-status.status[i])
		_ = rcpt
		c.writeResponse(code, enchCode, "<"+c.recipients[0]+"> "+msg)""")
p("lmtp-fallback-done-true", "C02,C08,C13", "conn.go", """			status.SetStatus(rcpt, err)
		}
		done <- drainErr == nil""", """			status.SetStatus(rcpt, err)
		}
		_ = drainErr
		done <- true""")
p("lmtp-done-inverted", "C02,C08", "conn.go", """	if !<-done {
		c.Close()
	}""", """	if <-done {
		c.Close()
	}""")
p("client-rcpt-250-only", "C16,C18,C14", "client.go", """	if _, _, err := c.cmd(25, "%s", sb.String()); err != nil {""", """	if _, _, err := c.cmd(250, "%s", sb.String()); err != nil {""")
p("client-notify-join", "C14,C15", "client.go", """				if i != 0 {
					sb.WriteString(",")
				}""", """				if i > 1 {
					sb.WriteString(",")
				}""")
p("client-orcpt-utf8-swapped", "C14,C15", "client.go", """				if _, ok := c.ext["SMTPUTF8"]; ok {
					enc = encodeUTF8AddrUnitext(opts.OriginalRecipient)
				} else {
					enc = encodeUTF8AddrXtext(opts.OriginalRecipient)
				}""", """				if _, ok := c.ext["SMTPUTF8"]; !ok {
					enc = encodeUTF8AddrUnitext(opts.OriginalRecipient)
				} else {
					enc = encodeUTF8AddrXtext(opts.OriginalRecipient)
				}""")
p("client-rrvs-format", "C14", "client.go", "opts.RequireRecipientValidSince.Format(time.RFC3339)", "opts.RequireRecipientValidSince.Format(time.RFC1123)")
p("client-body-without-ext", "C15", "client.go", """	if _, ok := c.ext["8BITMIME"]; ok {
		sb.WriteString(" BODY=8BITMIME")""", """	if _, ok := c.ext["8BITMIME"]; ok || opts != nil {
		sb.WriteString(" BODY=8BITMIME")""")
p("client-size-without-ext", "C15", "client.go", """	if _, ok := c.ext["SIZE"]; ok && opts != nil && opts.Size != 0 {""", """	if opts != nil && opts.Size != 0 {""")
p("client-auth-raw", "C14,C15", "client.go", """				fmt.Fprintf(&sb, " AUTH=%s", encodeXtext(*opts.Auth))""", """				fmt.Fprintf(&sb, " AUTH=%s", *opts.Auth)""")
p("client-envid-unchecked", "C14,C15", "client.go", """			if !isPrintableASCII(opts.EnvelopeID) {
				return errors.New("smtp: Malformed ENVID parameter value")
			}
""", "")
p("client-orcpt-rfc822-unchecked", "C14,C15", "client.go", """				if !isPrintableASCII(opts.OriginalRecipient) {
					return errors.New("smtp: Illegal address")
				}
""", "")
p("client-ret-default-sent", "C14,C15", "client.go", """		case "":
			// This space is intentionally left blank
		default:""", """		default:""")
p("client-from-unvalidated", "C15", "client.go", """func (c *Client) Mail(from string, opts *MailOptions) error {
	if err := validateLine(from); err != nil {
		return err
	}""", """func (c *Client) Mail(from string, opts *MailOptions) error {""")
