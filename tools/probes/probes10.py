P = []
def p(i, props, f, old, new): P.append((i, props, f, old, new))
p("client-starttls-keeps-hello", "C10", "client.go", """	c.setConn(tls.Client(c.conn, config))
	c.didHello = false
	return nil""", """	c.setConn(tls.Client(c.conn, config))
	return nil""")
p("client-helo-keeps-ext", "C15,C10", "client.go", """func (c *Client) helo() error {
	c.ext = nil
""", """func (c *Client) helo() error {
""")
p("client-ehlo-ext-merged", "C15,C10", "client.go", """	ext := make(map[string]string)
	extList := strings.Split(msg, "\\n")""", """	ext := c.ext
	if ext == nil {
		ext = make(map[string]string)
	}
	extList := strings.Split(msg, "\\n")""")
p("client-ehlo-first-line-kept", "C15", "client.go", """	if len(extList) > 1 {
		extList = extList[1:]
		for""", """	if len(extList) > 0 {
		for""")
p("client-ehlo-keyword-case", "C15,C14", "client.go", """				ext[args[0]] = args[1]
			} else {
				ext[args[0]] = \"\"
			}""", """				ext[strings.ToLower(args[0])] = args[1]
			} else {
				ext[strings.ToLower(args[0])] = \"\"
			}""")
p("sendmail-ignores-rcpt-error", "C16,C18", "client.go", """		if err = c.Rcpt(addr, nil); err != nil {
			return err
		}""", """		if err = c.Rcpt(addr, nil); err != nil {
			continue
		}""")
p("sendmail-no-close-on-copy-error-returns-nil", "C16", "client.go", """	_, err = io.Copy(w, r)
	if err != nil {
		return err
	}
	return w.Close()""", """	_, err = io.Copy(w, r)
	w.Close()
	return err""")
p("sendmail-auth-before-tls-check", "C10,C09", "client.go", """	if implicitTLS {
		c, err = DialTLS(addr, nil)
	} else {
		c, err = DialStartTLS(addr, nil)
	}""", """	if implicitTLS {
		c, err = DialTLS(addr, nil)
	} else {
		c, err = Dial(addr)
	}""")
p("sendmail-rcpt-unvalidated", "C15", "client.go", """	for _, recp := range to {
		if err := validateLine(recp); err != nil {
			return err
		}
	}
""", "")
p("client-cmd-no-startresponse", "C15,C17", "client.go", """	c.text.StartResponse(id)
	defer c.text.EndResponse(id)

	return c.readResponse(expectCode)""", """	return c.readResponse(expectCode)""")
p("client-readresponse-no-convert", "C17", "client.go", """	if protoErr, ok := err.(*textproto.Error); ok {
		err = toSMTPErr(protoErr)
	}
	return code, msg, err""", """	return code, msg, err""")
p("client-hello-fallback-any-error", "C17,C15", "client.go", """		if errors.As(err, &smtpError) && (smtpError.Code == 500 || smtpError.Code == 502) {""", """		if errors.As(err, &smtpError) {""")
p("client-hello-error-not-cached", "C15", "client.go", """		} else {
			c.helloError = err
		}
	}
	return c.helloError""", """		} else {
			return err
		}
	}
	return c.helloError""")
p("client-extension-case", "C15", "client.go", """	ext = strings.ToUpper(ext)
	param, ok := c.ext[ext]""", """	param, ok := c.ext[ext]""")
