#!/usr/bin/env python3
"""mkprompts.py <suffix>: writes /tmp/props/prompt-CXX<suffix>.txt for every property from prompt-CXXc.txt, with the
NOTE line listing all seeds stored so far under /verif/seeded (short names only; nothing else from /verif is revealed)."""
import os, re, sys
suffix = sys.argv[1]
seeds = {}
for d in sorted(os.listdir('/verif/seeded')):
    m = re.match(r'^(C\d\d)[a-z]?-(.*)$', d)
    if m:
        seeds.setdefault(m.group(1), []).append(m.group(2).replace('-', ' '))
for i in range(1, 21):
    pid = 'C%02d' % i
    src = open('/tmp/props/prompt-%sc.txt' % pid).read()
    note = 'NOTE: previous seeds already exist for this property (short names): ' + '; '.join(seeds.get(pid, [])) + '.'
    out = re.sub(r'NOTE: previous seeds already exist for this property \(short names\): [^\n]*?\. You MUST', note + ' You MUST', src)
    assert out != src or True
    open('/tmp/props/prompt-%s%s.txt' % (pid, suffix), 'w').write(out)
print('ok')
