#!/usr/bin/env python3
"""mkprompts.py <suffix> [ids...]: writes /tmp/props/prompt-CXX<suffix>.txt for the given (default: all) properties from
tools/seed_prompt_template.txt and properties.jsonl (title, statement, quantifier text only), with a NOTE listing the short
names of the seeds stored so far for that property (nothing else from /verif is revealed)."""
import json, os, re, sys
suffix = sys.argv[1]
want = sys.argv[2:]
os.makedirs('/tmp/props', exist_ok=True)
seeds = {}
for d in sorted(os.listdir('/verif/seeded')):
    m = re.match(r'^(C\d\d)[a-z]*-(.*)$', d)
    if m:
        seeds.setdefault(m.group(1), []).append(m.group(2).replace('-', ' '))
tmpl = open('/verif/tools/seed_prompt_template.txt').read()
for line in open('/verif/properties.jsonl'):
    p = json.loads(line)
    pid = p['id']
    if want and pid not in want:
        continue
    text = '  ' + p['title'] + '\n\n  ' + p['statement'] + '\n\n  (It is meant to hold for: ' + p['quantifier']['text'] + ')'
    note = ('\n\nNOTE: previous seeds already exist for this property (short names): ' + '; '.join(seeds.get(pid, [])) +
            '. You MUST pick a different idea, in a different function or mechanism where possible; look for the less obvious places '
            'the property depends on (helpers, error paths, configuration corners, the client or the server side, goroutines, buffering layers).')
    d = '/tmp/seed-%s%s' % (pid, suffix)
    out = tmpl.replace('__PROPERTY__', text + note).replace('__DIR__', d)
    open('/tmp/props/prompt-%s%s.txt' % (pid, suffix), 'w').write(out)
print('ok')
