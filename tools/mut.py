#!/usr/bin/env python3
"""mut.py PROPS FILE 'old' 'new' [FILE old new ...] : apply textual edits to a scratch copy of /repo, build it,
run the checks for PROPS (comma separated) and print verdicts. Scratch copy is removed afterwards."""
import sys, os, shutil, subprocess, tempfile
props = sys.argv[1].split(',')
edits = sys.argv[2:]
d = tempfile.mkdtemp(prefix='mut.', dir='/tmp')
try:
    subprocess.check_call(['rsync','-a','--exclude','.git','/repo/', d+'/'])
    for i in range(0, len(edits), 3):
        f, old, new = edits[i:i+3]
        p = os.path.join(d, f)
        s = open(p).read()
        if s.count(old) != 1:
            print('EDIT-ERROR: %r occurs %d times in %s' % (old, s.count(old), f)); sys.exit(3)
        open(p,'w').write(s.replace(old, new))
    env = dict(os.environ, GOFLAGS='-mod=mod', GOPROXY='off', GOSUMDB='off', GOTOOLCHAIN='local')
    r = subprocess.run(['go','build','./...'], cwd=d, env=env, capture_output=True, text=True)
    if r.returncode != 0:
        print('BUILD-FAIL', r.stderr[:500]); sys.exit(4)
    out = tempfile.mkdtemp(prefix='mutout.', dir='/tmp')
    shutil.copy('/verif/known_findings.txt', out) if os.path.exists('/verif/known_findings.txt') else None
    env['VERIF_DIR'] = out
    for pr in props:
        r = subprocess.run(['/verif/bin/smtpverif','-repo',d,'-property',pr], env=env, capture_output=True, text=True)
        lines = [l for l in r.stdout.splitlines() if l.startswith(('VIOLATED','UNDECIDED','ERROR'))]
        print('%s exit=%d %s' % (pr, r.returncode, 'CAUGHT' if r.returncode==1 else ('MISSED' if r.returncode==0 else 'BROKEN')))
        for l in lines[:6]: print('   ', l[:300])
        if r.returncode not in (0,1): print(r.stdout[-800:], r.stderr[-800:])
    shutil.rmtree(out)
finally:
    shutil.rmtree(d)
