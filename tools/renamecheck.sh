#!/bin/bash
# renamecheck.sh: behaviour-preserving bulk edit. Copies /repo to a scratch directory, renames EVERY local variable
# (parameters, results, receivers, :=/var/range variables; cmd/renamelocals), confirms that the copy builds and its
# suite passes, and runs every property's quick check on it. Exit 0 iff no rule fires. The scratch copy is removed.
set -u
. /verif/env.sh
cd /verif && go build -o bin/renamelocals ./cmd/renamelocals || exit 2
D=$(mktemp -d /tmp/ren.XXXX); OUT=$(mktemp -d /tmp/renout.XXXX)
trap 'rm -rf $D $OUT' EXIT
rsync -a --exclude .git /repo/ $D/
(cd $D && /verif/bin/renamelocals . "${1:-_r}" && go build ./... && go test -count=1 -timeout 120s ./... | grep -E "^(ok|FAIL)" | head -3) || { echo "renamed copy does not build / pass"; exit 2; }
cp /verif/known_findings.txt $OUT/
VERIF_DIR=$OUT /verif/bin/smtpverif -repo $D -property all > $OUT/all.log 2>&1
grep -E "^(VIOLATED|UNDECIDED|ERROR)" $OUT/all.log | cut -c1-260 | head -20
BAD=$(grep -E "^== C[0-9]+: " $OUT/all.log | grep -vc " 0 violations")
N=$(grep -cE "^== C[0-9]+: " $OUT/all.log)
echo "properties checked: $N, with alarms: $BAD"
[ "$N" = 20 ] && [ "$BAD" = 0 ]
