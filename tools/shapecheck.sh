#!/bin/bash
# shapecheck.sh: behaviour-preserving bulk edits of the whole package, checked by every property's quick check.
#   rename : every local variable, parameter, result and receiver renamed (cmd/renamelocals)
#   flip   : every if/else written the other way round, condition negated (cmd/flipifs)
#   nest   : every guard clause `if c { ...; return }` turned into `if !c { rest } else { ...; return }` (cmd/nestguards)
#   hoist  : c.server / d.c loaded once into a local at the top of every method that uses them (cmd/hoistfields)
#   all    : the four applied one after the other
# For each: the scratch copy must build and pass its own suite, then bin/smtpverif -property all must stay silent.
# Exit 0 iff all five copies are silent. Scratch copies are removed.
set -u
. /verif/env.sh
cd /verif || exit 2
for t in renamelocals flipifs nestguards hoistfields; do go build -o bin/$t ./cmd/$t || exit 2; done
RC=0
for mode in rename flip nest hoist all; do
  D=$(mktemp -d /tmp/shape.XXXX); OUT=$(mktemp -d /tmp/shapeout.XXXX)
  rsync -a --exclude .git /repo/ $D/
  (
    cd $D || exit 2
    case $mode in
      rename) /verif/bin/renamelocals . ;;
      flip)   /verif/bin/flipifs . ;;
      nest)   /verif/bin/nestguards . ;;
      hoist)  /verif/bin/hoistfields . ;;
      all)    /verif/bin/hoistfields . && /verif/bin/flipifs . && /verif/bin/nestguards . && /verif/bin/renamelocals . ;;
    esac
  ) | tr '\n' ';'
  S=$(cd $D && go build ./... 2>&1 | tail -1; cd $D && go test -count=1 -timeout 120s ./... 2>&1 | grep -E "^(ok|FAIL)" | head -1)
  case "$S" in ok*) ;; *) echo "$mode: scratch copy does not build / pass: $S"; RC=2; rm -rf $D $OUT; continue;; esac
  cp /verif/known_findings.txt $OUT/
  VERIF_DIR=$OUT /verif/bin/smtpverif -repo $D -property all > $OUT/all.log 2>&1
  grep -E "^(VIOLATED|UNDECIDED|ERROR)" $OUT/all.log | cut -c1-260 | head -10
  BAD=$(grep -E "^== C[0-9]+: " $OUT/all.log | grep -vc " 0 violations")
  N=$(grep -cE "^== C[0-9]+: " $OUT/all.log)
  echo " $mode: properties checked $N, with alarms $BAD"
  if [ "$N" != 20 ] || [ "$BAD" != 0 ]; then RC=1; fi
  rm -rf $D $OUT
done
exit $RC
