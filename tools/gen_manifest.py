#!/usr/bin/env python3
"""Generates /verif/MANIFEST.json from the table below (single source of truth)."""
import json, os

# id -> (technique, level text, design ref)   -- only properties whose rules are built and armed
CLAIMED = {
 "C19": ("call-graph rule for recovery coverage, value flow of the limiter layering, threshold rules by edge-feasibility and per-iteration path counts, must-pass-through for restoring the limit, type-assertion guard facts, length arithmetic over must-facts for constant indexes",
         "Structural bounds on hostile input decided on every path: recovery above every callback, limiter below textproto on every init, exact counting/threshold of lineLimitReader (every LF resets, independent of read boundaries), the count written by the limiter alone, restoration after BDAT, 500+return (no further read) on too-long lines, no line handed out while the limiter refuses, constant indexes within guarded lengths, regexp alternatives matching the callback's length assumptions, monotone error count and threshold of protocolError. Panic-freedom of the standard library is trusted; the compiler's bounds-check list is cross-reference only.",
         "DESIGN.md §3 C19"),
 "C20": ("thread roles x locksets over all field accesses (must-lockset dataflow with interprocedural entry locksets, frozen happens-before edges), lock-order graph, capture rules (fields re-read by goroutines; cells reassigned after the go statement), path rules for Serve/Close/Shutdown",
         "Every (field, role, access, lockset) tuple of Conn/Server classified; unordered conflicting pairs are individual obligations (existing ones are listed known findings, new ones fail). Reports possible races; does not prove races occur nor deadlock freedom in general.",
         "DESIGN.md §3 C20"),
 "C14": ("interval-class abstract interpretation of the three encoders and of the UTF-8 decoder callback; regexp literals parsed from source constants; table agreement (pass-through set vs decoder specials/separators, escape width vs decoder acceptance); field/key pairing",
         "Character-class level agreement of encoders and decoders decided exhaustively over all scalar values (both sides only compare with constants), plus client/server pairing of option fields and keys; every option that is set and offered is rendered on every path (all subsets), zero-valued options add nothing and cannot fail, the NOTIFY separator shape and the keying of the EHLO extension map are decided. The RRVS layout must keep date, time to the second and a numeric zone; the null AUTH identity pairing, the verbatim rendering of the command line and pointer freshness of option fields are decided. Equality of whole option structs and mailbox syntax are NOT decided.",
         "DESIGN.md §3 C14"),
 "C15": ("whitelist taint over the resolved program (leaf sources through phis/cells, sanitiser table), edge-feasibility for extension gates and validate-first, path counting of commands",
         "No unsanitised dynamic string can reach a client command line; validation failures and missing REQUIRETLS/SMTPUTF8 reach no write; one command per step; every parameter token gated by the matching EHLO keyword. The SASL mechanism name and non-CR/LF octets are outside.",
         "DESIGN.md §3 C15"),
 "C16": ("value flow of the data writer, must-pass-through for the closed flag, path counting of reply reads, order/flow rules in SendMail, arm/deferred-clear pairing of client deadlines, never-after rule for commands while the DATA writer is open",
         "Structural conditions of the client DATA path on every path; stuffing itself is net/textproto's (trusted) and the receiving half is C01's table.",
         "DESIGN.md §3 C16"),
 "C17": ("value flow of error fields into replies, sibling format agreement between writeResponse and toSMTPErr, who-may-call for ReadResponse, never-after rule (no reply after Close), must-facts for capability queries (hello error not masked)",
         "Pass-through of SMTPError fields and generic codes decided by value flow at every site; the first reply after a failed callback carries the callback's own error on every path; every reply line with an enhanced code carries it (what the client's parser assumes). Unusual message shapes at value level are not decided.",
         "DESIGN.md §3 C17"),
 "C18": ("lifecycle rule for Client.rcpts (who-may-write + cleared only at transaction boundaries on all paths), affine loop shape of the LMTP reply loop, leaf-source flow of the per-recipient error and of the loop's I/O-error return, deadline pairing",
         "Structural conditions for correct per-transaction attribution in the LMTP client decided on every path.",
         "DESIGN.md §3 C18"),
 "C11": ("switch exhaustiveness, per-case value flow of option fields, edge-feasibility of decoder/parser failure edges, whitelist comparison rules",
         "Parameter dispatch, flow and error discipline of the MAIL/RCPT handlers decided for every case and failure edge. The refusing side is decided as a list of necessary conditions (R-grammar-guards): for each malformed shape this parser distinguishes, its accepting exit is unreachable; stop sets of the scanning loops, the utf-8-addr-xtext acceptance table (exact, against RFC 6533 HEXPOINT) and keyword/verb case folding are checked. That the accepted language equals RFC 5321's is NOT decided.",
         "DESIGN.md §3 C11"),
 "C12": ("capability table extracted from SSA guard facts and compared with the reference table by exhaustive truth table; 504-gate table agreement; value-shape rules for case-insensitive verb matching and the parser cursor",
         "The configuration space is finite and consulted only through boolean tests, so the extracted table is the behaviour; compared on every assignment of the configuration atoms. Parameter gates agree with the flags. Capability line syntax beyond the constants and backend mechanism lists are not decided.",
         "DESIGN.md §3 C12"),
 "C13": ("shape rules on the status collector (SSA pattern + value flow), attribution of per-recipient replies, fill-before-signal path rules, non-blocking send rules",
         "Structural conditions that make per-recipient attribution and deadlock-freedom possible, decided on every path and loop; the value filled in for recipients without a status is this delivery's outcome (received result, LMTPData's or Data's own return value). Channel FIFO is language semantics; timing of backend status calls is not decided.",
         "DESIGN.md §3 C13"),
 "C04": ("path counting of final-reply events on SSA with callee summaries; constant table of reply/enhanced codes; value flow of verdicts; capture rule for delivery goroutines",
         "Exactly one final reply on every path of the dispatcher and each handler (with the frozen, individually checked exceptions), every constant code/enhanced-code pair well-formed and class-consistent, reply line format by value flow, DATA/BDAT verdict only from this transaction's backend result, no transaction-scoped field re-read by the BDAT goroutine. Validity of echoed text and network write ordering are not decided.",
         "DESIGN.md §3 C04"),
 "C08": ("pairing and must-pass-through rules on SSA, loop typestate rule (close check before next dispatch), frozen go-statement table, who-may-call for the socket close, local lockset analysis of Conn.Close (read/Logout/forget in one critical section)",
         "Logout paired with clearing the session on all paths, sessions always stored, Close on every exit of handleConn, reply-then-close on QUIT/threshold/panic, no dispatch after a failed read, a branch on Close-written state between a closing dispatch and the next one; no backend callback runs under Conn.locker without a deferred unlock (a panicking callback must not block the recovery's Close). Goroutine termination depending on the backend is not decided.",
         "DESIGN.md §3 C08"),
 "C09": ("edge-feasibility guards, definition checks of authAllowed and TLSConnectionState, value flow of SASL octets (leaf sources through phis, exact-size encode buffers), type-assertion guard facts, path rules with one-step path sensitivity for the client cancel",
         "AUTH entry points unreachable when not allowed/greeted/already authenticated; didAuth set only after done+nil+235 and cleared only by the TLS upgrade; mechanism octets only from tested decodes; client uses StdEncoding both ways and cancels with '*' on every error path. Mechanism internals and TLS trusted.",
         "DESIGN.md §3 C09"),
 "C10": ("must-pass-through effects after the TLS upgrade, never-read-between rule, who-may-call / leaf-source rules for the client dial helpers, value flow + dominance for the sticky hello/greet outcome, must-facts for capability queries",
         "All structural effects of a successful STARTTLS on server and client, the gates, the re-EHLO discipline, and the no-downgrade discipline of initStartTLS/DialStartTLS/NewClientStartTLS/sendMail, on every path. The TLS handshake and kernel socket buffers are trusted.",
         "DESIGN.md §3 C10"),
 "C01": ("finite-table extraction of dataReader.Read by abstract interpretation of its SSA, exhaustive product comparison with the RFC 5321 reference transducer, value-flow rules for source/hand-off",
         "The reader touches the input byte only via comparisons with constants and a copy, and its only memory is a small-integer field, so the extracted (state x byte-class) table is the behaviour; equality with the reference transducer is decided for all octet streams, segmentations and read sizes. Source of the reader and hand-off to the backend are decided by value flow. bufio/net delivery is trusted.",
         "DESIGN.md §3 C01"),
 "C02": ("automaton table (shared with C01) + must-pass-through / never-before path rules on SSA with callee summaries",
         "End-of-data detection decided by the table for all streams; resynchronisation decided on every path: drain after each callback, limit lifted before the drain, goroutine joined after its drain, no line read during data, one reader per DATA.",
         "DESIGN.md §3 C02"),
 "C05": ("value flow of the chunk framing + path counting of consume events + edge-feasibility guards",
         "Structural necessary conditions of BDAT framing on every path: chunk = LimitReader(c.text.R, parsed size), raw payload path, every sized path consumes the chunk (also refusals), the dispatcher never answers a BDAT line itself, one goroutine per message, accounting. Failed discards end the connection on every path. The read-ahead/line-limit clause is decided structurally and fails on this tree: recorded as a known finding (limiter below the buffered reader).",
         "DESIGN.md §3 C05"),
 "C06": ("guards with exact thresholds by edge-feasibility under both polarities + must-summaries + value flow in Read",
         "Limit armed at construction, lifted only after the callback; budget cut/decrement/exhaustion in Read; SIZE and BDAT totals refused exactly when strictly greater than the limit with 552 and no callback. The DATA boundary at exactly N octets is decided by the budget rules (exhausted budget vs the octet beyond it); the handlers add no size verdict of their own (verdict-source rule); the reader's framing rules are shared so that an over-limit message still ends at its marker.",
         "DESIGN.md §3 C06"),
 "C07": ("automaton table for error/EOF results and its equivalence with the RFC 5321 transducer (end state reached by <CRLF>.<CRLF> only) + guard facts with phi refinement for the clean pipe close + must-summaries for aborts",
         "io.EOF only in the end state; read errors become non-EOF errors; clean pipe close only on LAST after a complete chunk (error nil and count == declared size); reset/Close abort an open pipe before calling into the backend; an oversize chunk's 552 ends the transfer; handleConn closes on every exit.",
         "DESIGN.md §3 C07"),
 "C03": ("typestate guards by edge-feasibility on SSA + must/may event summaries + path rules; never-after rules that account for defers registered before the trigger",
         "Structural necessary conditions of the transaction typestate decided for every call site and path: callbacks unreachable under each out-of-order state, state advanced only on success edges, reset()/Close on every transaction end, no advancing event after a refusal. Not a proof of the behaviour over all histories.",
         "DESIGN.md §3 C03"),
}

NOT_YET = "rules for this property are designed (DESIGN.md §3) but not yet armed in this commit; it is not claimed until they are"

def main():
    props = [json.loads(l) for l in open('/verif/properties.jsonl')]
    checks, na = [], []
    for p in props:
        pid = p['id']
        if pid in CLAIMED:
            tech, text, ref = CLAIMED[pid]
            checks.append({
                "property_id": pid,
                "quick_cmd": "./check.sh %s quick" % pid,
                "thorough_cmd": "./check.sh %s thorough" % pid,
                "evidence_file": "/verif/evidence/%s.json" % pid,
                "replay_cmd_template": "bin/smtpverif -replay {path}",
                "engine": "smtpverif",
                "level_claimed": {"category": "other", "text": text, "design_ref": ref},
                "level_note": "Trusted: go/types, go/ssa (x/tools v0.29.0), the library models and the anchor table (DESIGN.md §1.2, §2). Decides structure on all paths/sites of the current tree; backend contract and stdlib behaviour are assumed.",
                "technique": "static analysis: " + tech,
            })
        else:
            na.append({"property_id": pid, "reason": NA.get(pid, NOT_YET)})
    m = {
        "version": 1,
        "setup_cmd": "cd /verif && . ./env.sh && go build -o bin/smtpverif ./cmd/smtpverif",
        "hooks": {
            "guard": "verif",
            "enable": "none needed: the analysis reads the source; thorough tier additionally loads the tree with -tags verif to show no tagged file changes a verdict",
            "baseline_off_cmd": "cd /repo && GOFLAGS=-mod=mod GOPROXY=off GOSUMDB=off go test -vet=off -count=1 ./...",
            "source_commits": [],
            "add_only": True,
        },
        "engines": [{
            "name": "smtpverif", "path": "/verif/cmd/smtpverif",
            "serves_properties": sorted(CLAIMED.keys()),
            "kind_free_text": "repo-specific static analyser over go/packages + go/types + go/ssa: guard facts, event summaries, path rules, finite-table extraction, table agreement, thread-role locksets",
        }],
        "checks": checks,
        "not_applicable": na,
        "notes": "Every check re-loads and re-type-checks /repo's working tree on each run; nothing from /repo is executed. Known genuine defects that are recorded rather than repaired are listed in /verif/known_findings.txt.",
    }
    json.dump(m, open('/verif/MANIFEST.json', 'w'), indent=1)
    print("claimed:", len(checks), "not_applicable:", len(na))

NA = {}

if __name__ == '__main__':
    main()
