#!/bin/bash
# usage: seedcheck.sh <worktree dir> <seed id> <property>
# 1. confirms the seed (build, suite passes, demo fails with / passes without the change)
# 2. stores it under /verif/seeded/<id>/
# 3. applies it to /repo, runs every property's quick check, undoes it; prints which checks fired
set -u
WT=$1; ID=$2; PROP=$3
. /verif/env.sh
OUT=/verif/seeded/$ID; mkdir -p $OUT
cd $WT || exit 2
git diff > $OUT/patch.diff
cp zz_seed_demo_test.go $OUT/zz_seed_demo_test.go.txt 2>/dev/null
cp SEED_REPORT.md $OUT/SEED_REPORT.md 2>/dev/null
FILES=$(git diff --name-only | tr '\n' ' ')
echo "changed files: $FILES"
B=$(go build ./... 2>&1 | tail -1); echo "build: ${B:-ok}"
S=$(go test -count=1 -timeout 120s -run 'Test|Example' -skip TestSeedDemo ./... 2>&1 | grep -E "^(ok|FAIL|---)" | head -3 | tr '\n' ' '); echo "suite with change: $S"
D1=$(go test -count=1 -timeout 120s -run TestSeedDemo . 2>&1 | grep -E "^(ok|FAIL|--- FAIL)" | head -2 | tr '\n' ' '); echo "demo with change: $D1"
git stash push -q -- $FILES
D2=$(go test -count=1 -timeout 120s -run TestSeedDemo . 2>&1 | grep -E "^(ok|FAIL|--- FAIL)" | head -2 | tr '\n' ' '); echo "demo without change: $D2"
git stash pop -q
# run my checks on /repo with the patch applied
cd /repo && git apply $OUT/patch.diff || { echo "PATCH DOES NOT APPLY"; exit 3; }
export VERIF_DIR=$(mktemp -d /tmp/seedout.XXXX); cp /verif/known_findings.txt $VERIF_DIR/
/verif/bin/smtpverif -property all > $VERIF_DIR/all.log 2>&1
FIRED=$(grep -E "^== C[0-9]+: " $VERIF_DIR/all.log | grep -v " 0 violations" | sed -E 's/^== (C[0-9]+):.*/\1/' | tr '\n' ' ')
grep -E "^(VIOLATED|UNDECIDED|VIOLATION)" $VERIF_DIR/all.log | awk '/^VIOLATION/{print "--- " $2; next} {print}' | cut -c1-260 | head -24
FIRED=" $FIRED"
git -C /repo checkout -- . ; git -C /repo status --short | head -3
rm -rf $VERIF_DIR
echo "FIRED:${FIRED:- none}"
python3 - "$OUT" "$ID" "$PROP" "$FILES" "$S" "$D1" "$D2" "$FIRED" <<'PY'
import json,sys
out,id,prop,files,s,d1,d2,fired=sys.argv[1:9]
meta={"id":id,"breaks_property":prop,"changed_files":files.split(),"needs_to_manifest":"see SEED_REPORT.md","confirmed":{"suite_with_change":s.strip(),"demo_with_change":d1.strip(),"demo_without_change":d2.strip()},
      "commands":["go build ./...","go test -count=1 -run 'Test|Example' -skip TestSeedDemo ./...","go test -run TestSeedDemo . (with and without the change)","git -C /repo apply patch.diff; bin/smtpverif -property C01..C20; git -C /repo checkout -- ."],
      "checks_fired":fired.split(),"caught_by_own_property":prop in fired.split()}
json.dump(meta,open(out+"/meta.json","w"),indent=1)
PY
