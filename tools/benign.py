#!/usr/bin/env python3
"""benign.py: applies behaviour-preserving edits to a scratch copy of /repo and runs ALL checks; any alarm is a false positive."""
import sys, os, shutil, subprocess, tempfile, json, re
V = {}
def variant(name, *edits): V[name] = edits
KNOWN_ALARMING = {}
def alarming(name, *edits): KNOWN_ALARMING[name] = edits

variant("io.Discard",
  ("conn.go", "	_, drainErr := io.Copy(ioutil.Discard, r) // Make sure all the data has been consumed\n	c.writeResponse(code, enhancedCode, msg)", "	_, drainErr := io.Copy(io.Discard, r) // Make sure all the data has been consumed\n	c.writeResponse(code, enhancedCode, msg)"))
variant("comments-and-blank-lines",
  ("conn.go", "// READY state -> waiting for MAIL\n", "// READY state -> waiting for MAIL\n//\n// extra comment line 1\n// extra comment line 2\n\n"),
  ("data.go", "type dataReader struct {", "// a comment\n\n// another\ntype dataReader struct {"))
variant("helper-greeted",
  ("conn.go", """	if c.helo == "" {
		c.writeResponse(502, EnhancedCode{5, 5, 1}, "Please introduce yourself first.")
		return
	}
	if c.bdatPipe != nil {
		c.writeResponse(502, EnhancedCode{5, 5, 1}, "MAIL not""", """	if !c.greeted() {
		c.writeResponse(502, EnhancedCode{5, 5, 1}, "Please introduce yourself first.")
		return
	}
	if c.bdatPipe != nil {
		c.writeResponse(502, EnhancedCode{5, 5, 1}, "MAIL not"""),
  ("conn.go", "func (c *Conn) Server() *Server {", "func (c *Conn) greeted() bool {\n	return c.helo != \"\"\n}\n\nfunc (c *Conn) Server() *Server {"))
variant("drain-helper",
  ("conn.go", """	r.limited = false
	_, drainErr := io.Copy(ioutil.Discard, r) // Make sure all the data has been consumed
	c.writeResponse(code, enhancedCode, msg)""", """	drainErr := r.drain()
	c.writeResponse(code, enhancedCode, msg)"""),
  ("data.go", "func (r *dataReader) Read(b []byte) (n int, err error) {", "// drain consumes whatever the backend left unread.\nfunc (r *dataReader) drain() error {\n	r.limited = false\n	_, err := io.Copy(io.Discard, r)\n	return err\n}\n\nfunc (r *dataReader) Read(b []byte) (n int, err error) {"))
variant("reorder-success-stores",
  ("conn.go", """	c.writeResponse(250, EnhancedCode{2, 0, 0}, fmt.Sprintf("Roger, accepting mail from <%v>", from))
	c.fromReceived = true""", """	c.fromReceived = true
	c.writeResponse(250, EnhancedCode{2, 0, 0}, fmt.Sprintf("Roger, accepting mail from <%v>", from))"""))
variant("message-texts",
  ("conn.go", '"Missing MAIL FROM command."', '"MAIL FROM is required first."'),
  ("conn.go", '"Bye"', '"Goodbye"'))
variant("logging",
  ("conn.go", """func (c *Conn) handleRcpt(arg string) {
	if !c.fromReceived {""", """func (c *Conn) handleRcpt(arg string) {
	if c.server.Debug != nil {
		fmt.Fprintf(c.server.Debug, "RCPT %q\\n", arg)
	}
	if !c.fromReceived {"""))
variant("rename-locals",
  ("conn.go", """	domain, err := parseHelloArgument(arg)
	if err != nil {
		c.writeResponse(501, EnhancedCode{5, 5, 2}, "Domain/address argument required for HELO")
		return
	}
	// c.helo is populated before NewSession so
	// NewSession can access it via Conn.Hostname.
	c.helo = domain""", """	name, perr := parseHelloArgument(arg)
	if perr != nil {
		c.writeResponse(501, EnhancedCode{5, 5, 2}, "Domain/address argument required for HELO")
		return
	}
	domain := name
	// c.helo is populated before NewSession so
	// NewSession can access it via Conn.Hostname.
	c.helo = domain"""))
variant("state-consts-renumbered",
  ("data.go", """		stateBeginLine = iota // beginning of line; initial state; must be zero
		stateDot              // read . at beginning of line
		stateDotCR            // read .\\r at beginning of line
		stateCR               // read \\r (possibly at end of line)
		stateData             // reading data in middle of line
		stateEOF              // reached .\\r\\n end marker line""", """		stateBeginLine = iota // beginning of line; initial state; must be zero
		stateData             // reading data in middle of line
		stateCR               // read \\r (possibly at end of line)
		stateDot              // read . at beginning of line
		stateDotCR            // read .\\r at beginning of line
		stateEOF              // reached .\\r\\n end marker line"""))
variant("if-to-switch-in-data",
  ("data.go", """		case stateData:
			if c == '\\r' {
				r.state = stateCR
			}""", """		case stateData:
			switch c {
			case '\\r':
				r.state = stateCR
			}"""))
variant("client-builder-grow",
  ("client.go", "	sb.Grow(2048)\n	fmt.Fprintf(&sb, \"RCPT TO:<%s>\", to)", "	sb.Grow(4096)\n	fmt.Fprintf(&sb, \"RCPT TO:<%s>\", to)"))
variant("quit-helper",
  ("conn.go", """	case "QUIT":
		c.writeResponse(221, EnhancedCode{2, 0, 0}, "Bye")
		c.Close()""", """	case "QUIT":
		c.handleQuit()"""),
  ("conn.go", "func (c *Conn) Server() *Server {", "func (c *Conn) handleQuit() {\n	c.writeResponse(221, EnhancedCode{2, 0, 0}, \"Bye\")\n	c.Close()\n}\n\nfunc (c *Conn) Server() *Server {"))

variant("refusechunk-helper-correct",
  ("conn.go", """		_, discardErr := io.Copy(ioutil.Discard, io.LimitReader(c.text.R, int64(size)))
		c.writeResponse(502, EnhancedCode{5, 5, 1}, "Missing RCPT TO command.")
		if discardErr != nil {
			// The end of the chunk was not reached (timeout, connection
			// error): what follows in the stream is not a command.
			c.Close()
		}
		return""", """		c.refuseChunk(size, 502, EnhancedCode{5, 5, 1}, "Missing RCPT TO command.")
		return"""),
  ("conn.go", """			_, discardErr := io.Copy(ioutil.Discard, io.LimitReader(c.text.R, int64(size)))
			c.writeResponse(501, EnhancedCode{5, 5, 4}, "Unknown BDAT argument")
			if discardErr != nil {
				c.Close()
			}
			return""", """			c.refuseChunk(size, 501, EnhancedCode{5, 5, 4}, "Unknown BDAT argument")
			return"""),
  ("conn.go", "// ErrDataReset is returned by Reader pased", "func (c *Conn) refuseChunk(size uint64, code int, ec EnhancedCode, msg string) {\n	_, err := io.Copy(ioutil.Discard, io.LimitReader(c.text.R, int64(size)))\n	c.writeResponse(code, ec, msg)\n	if err != nil {\n		c.Close()\n	}\n}\n\n// ErrDataReset is returned by Reader pased"))
variant("greet-reply-helper",
  ("conn.go", """	if !enhanced {
		c.writeResponse(250, EnhancedCode{2, 0, 0}, fmt.Sprintf("Hello %s", domain))
		return
	}""", """	if !enhanced {
		c.ok(fmt.Sprintf("Hello %s", domain))
		return
	}"""),
  ("conn.go", "func (c *Conn) Server() *Server {", "func (c *Conn) ok(msg string) {\n	c.writeResponse(250, EnhancedCode{2, 0, 0}, msg)\n}\n\nfunc (c *Conn) Server() *Server {"))
variant("lmtp-close-range-loop",
  ("client.go", """		for expectedResponses > 0 {
			rcpt := d.c.rcpts[len(d.c.rcpts)-expectedResponses]
			if _, _, err""", """		for _, rcpt := range d.c.rcpts {
			if _, _, err"""),
  ("client.go", """			expectedResponses--
		}
		return firstErr""", """		}
		return firstErr"""),
  ("client.go", """	expectedResponses := len(d.c.rcpts)
	if d.c.lmtp {""", """	if d.c.lmtp {"""))
variant("mail-params-reordered",
  ("client.go", """	if opts != nil && opts.RequireTLS {
		if _, ok := c.ext["REQUIRETLS"]; ok {
			sb.WriteString(" REQUIRETLS")
		} else {
			return errors.New("smtp: server does not support REQUIRETLS")
		}
	}
	if opts != nil && opts.UTF8 {
		if _, ok := c.ext["SMTPUTF8"]; ok {
			sb.WriteString(" SMTPUTF8")
		} else {
			return errors.New("smtp: server does not support SMTPUTF8")
		}
	}""", """	if opts != nil && opts.UTF8 {
		if _, ok := c.ext["SMTPUTF8"]; ok {
			sb.WriteString(" SMTPUTF8")
		} else {
			return errors.New("smtp: server does not support SMTPUTF8")
		}
	}
	if opts != nil && opts.RequireTLS {
		if _, ok := c.ext["REQUIRETLS"]; !ok {
			return errors.New("smtp: server does not support REQUIRETLS")
		}
		sb.WriteString(" REQUIRETLS")
	}"""))
variant("handlemail-session-local",
  ("conn.go", """	if err := c.Session().Mail(from, opts); err != nil {
		c.writeError(451, EnhancedCode{4, 0, 0}, err)
		return
	}""", """	sess := c.Session()
	err = sess.Mail(from, opts)
	if err != nil {
		c.writeError(451, EnhancedCode{4, 0, 0}, err)
		return
	}"""))
variant("rcptmax-check-first",
  ("conn.go", """	p := parser{s: trimASCIISpace(arg)}
	recipient, err := p.parsePath()
	if err != nil {
		c.writeResponse(501, EnhancedCode{5, 5, 2}, "Was expecting RCPT arg syntax of TO:<address>")
		return
	}

	if c.server.MaxRecipients > 0 && len(c.recipients) >= c.server.MaxRecipients {
		c.writeResponse(452, EnhancedCode{4, 5, 3}, fmt.Sprintf("Maximum limit of %v recipients reached", c.server.MaxRecipients))
		return
	}
""", """	if max := c.server.MaxRecipients; max > 0 && len(c.recipients) >= max {
		c.writeResponse(452, EnhancedCode{4, 5, 3}, fmt.Sprintf("Maximum limit of %v recipients reached", max))
		return
	}

	p := parser{s: trimASCIISpace(arg)}
	recipient, err := p.parsePath()
	if err != nil {
		c.writeResponse(501, EnhancedCode{5, 5, 2}, "Was expecting RCPT arg syntax of TO:<address>")
		return
	}
"""))
variant("serve-backoff-helper",
  ("server.go", """				if tempDelay == 0 {
					tempDelay = 5 * time.Millisecond
				} else {
					tempDelay *= 2
				}
				if max := 1 * time.Second; tempDelay > max {
					tempDelay = max
				}""", """				tempDelay = nextDelay(tempDelay)"""),
  ("server.go", "func (s *Server) handleConn(c *Conn) error {", "func nextDelay(d time.Duration) time.Duration {\n	if d == 0 {\n		return 5 * time.Millisecond\n	}\n	d *= 2\n	if max := 1 * time.Second; d > max {\n		d = max\n	}\n	return d\n}\n\nfunc (s *Server) handleConn(c *Conn) error {"))
variant("auth-error-helper",
  ("conn.go", """	sasl, err := c.auth(mechanism)
	if err != nil {
		c.writeError(454, EnhancedCode{4, 7, 0}, err)
		return
	}""", """	sasl, err := c.auth(mechanism)
	if err != nil {
		c.authFailed(err)
		return
	}"""),
  ("conn.go", """			challenge, done, err := sasl.Next(response)
			if err != nil {
				c.writeError(454, EnhancedCode{4, 7, 0}, err)
				return
			}""".replace("			challenge","		challenge").replace("			if err","		if err").replace("				c.write","			c.write").replace("				return","			return").replace("			}","		}"), """		challenge, done, err := sasl.Next(response)
		if err != nil {
			c.authFailed(err)
			return
		}"""),
  ("conn.go", "func (c *Conn) Server() *Server {", "func (c *Conn) authFailed(err error) {\n	c.writeError(454, EnhancedCode{4, 7, 0}, err)\n}\n\nfunc (c *Conn) Server() *Server {"))
variant("close-switch-on-error",
  ("server.go", """			if err == io.EOF || errors.Is(err, net.ErrClosed) {
				return nil
			}
			if err == ErrTooLongLine {
				c.writeResponse(500, EnhancedCode{5, 4, 0}, "Too long line, closing connection")
				return nil
			}
""", """			switch {
			case err == io.EOF || errors.Is(err, net.ErrClosed):
				return nil
			case err == ErrTooLongLine:
				c.writeResponse(500, EnhancedCode{5, 4, 0}, "Too long line, closing connection")
				return nil
			}
"""))
variant("size-helper-correct",
  ("conn.go", """			size, err := strconv.ParseUint(value, 10, 32)
			if err != nil {
				c.writeResponse(501, EnhancedCode{5, 5, 4}, "Unable to parse SIZE as an integer")
				return
			}

			if c.server.MaxMessageBytes > 0 && int64(size) > c.server.MaxMessageBytes {
				c.writeResponse(552, EnhancedCode{5, 3, 4}, "Max message size exceeded")
				return
			}

			opts.Size = int64(size)""", """			size, err := parseSizeParam(value)
			if err != nil {
				c.writeResponse(501, EnhancedCode{5, 5, 4}, "Unable to parse SIZE as an integer")
				return
			}

			if c.server.MaxMessageBytes > 0 && size > c.server.MaxMessageBytes {
				c.writeResponse(552, EnhancedCode{5, 3, 4}, "Max message size exceeded")
				return
			}

			opts.Size = size"""),
  ("conn.go", "func (c *Conn) Server() *Server {", "func parseSizeParam(value string) (int64, error) {\n	size, err := strconv.ParseUint(value, 10, 32)\n	if err != nil {\n		return 0, err\n	}\n	return int64(size), nil\n}\n\nfunc (c *Conn) Server() *Server {"))
variant("data-step-helper",
  ("data.go", """		switch r.state {
		case stateBeginLine:
			if c == '.' {
				r.state = stateDot
				continue
			}
			if c == '\\r' {
				r.state = stateCR
				break
			}
			r.state = stateData
		case stateDot:""", """		if r.state == stateBeginLine {
			if r.beginLine(c) {
				continue
			}
			b[n] = c
			n++
			continue
		}
		switch r.state {
		case stateDot:"""),
  ("data.go", "func (r *dataReader) Read(b []byte) (n int, err error) {", "// beginLine handles an octet at the beginning of a line; it reports whether the octet is swallowed.\nfunc (r *dataReader) beginLine(c byte) bool {\n	if c == '.' {\n		r.state = 1\n		return true\n	}\n	if c == '\\r' {\n		r.state = 3\n		return false\n	}\n	r.state = 4\n	return false\n}\n\nfunc (r *dataReader) Read(b []byte) (n int, err error) {"))
variant("close-defer-unlock",
  ("server.go", """	var err error
	s.locker.Lock()
	for _, l := range s.listeners {
		if lerr := l.Close(); lerr != nil && err == nil {
			err = lerr
		}
	}

	for conn := range s.conns {
		conn.Close()
	}
	s.locker.Unlock()

	return err""", """	var err error
	s.locker.Lock()
	defer s.locker.Unlock()
	for _, l := range s.listeners {
		lerr := l.Close()
		if lerr == nil || err != nil {
			continue
		}
		err = lerr
	}

	for conn := range s.conns {
		conn.Close()
	}

	return err"""))
variant("short-chunk-switch",
  ("conn.go", """	if err == nil && n != int64(size) {
		// The connection was closed in the middle of the chunk, the
		// message is incomplete.
		err = io.ErrUnexpectedEOF
	}
	if err != nil {""", """	short := n != int64(size)
	if short && err == nil {
		err = io.ErrUnexpectedEOF
	}
	if err != nil {"""))
variant("rrvs-utc-first",
  ("client.go", "opts.RequireRecipientValidSince.Format(time.RFC3339)", "opts.RequireRecipientValidSince.UTC().Format(time.RFC3339)"))
variant("ehlo-ext-stored-early",
  ("client.go", """	c.ext = ext
	return err
}""", """	return err
}"""),
  ("client.go", """	ext := make(map[string]string)
	extList := strings.Split(msg, "\\n")""", """	ext := make(map[string]string)
	c.ext = ext
	extList := strings.Split(msg, "\\n")"""))
variant("didauth-before-235",
  ("conn.go", """	c.writeResponse(235, EnhancedCode{2, 0, 0}, "Authentication succeeded")
	c.didAuth = true""", """	c.didAuth = true
	c.writeResponse(235, EnhancedCode{2, 0, 0}, "Authentication succeeded")"""))
variant("shutdown-timer-select",
  ("server.go", """	select {
	case <-ctx.Done():
		return ctx.Err()
	case <-connDone:
		return err
	}""", """	done := ctx.Done()
	select {
	case <-connDone:
		return err
	case <-done:
	}
	return ctx.Err()"""))
variant("notify-upper-whole-value",
  ("conn.go", """			for _, val := range strings.Split(value, ",") {
				notify = append(notify, DSNNotify(strings.ToUpper(val)))
			}""", """			for _, val := range strings.Split(strings.ToUpper(value), ",") {
				notify = append(notify, DSNNotify(val))
			}"""))
variant("rcpt-record-helper",
  ("client.go", """	c.rcpts = append(c.rcpts, to)
	return nil""", """	c.recordRcpt(to)
	return nil"""),
  ("client.go", "func (c *Client) Rcpt(to string, opts *RcptOptions) error {", "func (c *Client) recordRcpt(to string) {\n	c.rcpts = append(c.rcpts, to)\n}\n\nfunc (c *Client) Rcpt(to string, opts *RcptOptions) error {"))
variant("last-toupper-compare",
  ("conn.go", """		if !strings.EqualFold(args[1], "LAST") {""", """		if strings.ToUpper(args[1]) != "LAST" {"""))
variant("bdat-args-len-lt1",
  ("conn.go", """	args := strings.Fields(arg)
	if len(args) == 0 {
		c.writeResponse(501, EnhancedCode{5, 5, 4}, "Missing chunk size argument")""", """	args := strings.Fields(arg)
	if len(args) < 1 {
		c.writeResponse(501, EnhancedCode{5, 5, 4}, "Missing chunk size argument")"""))
variant("intransfer-helper",
  ("conn.go", """	if c.bdatPipe != nil {
		c.writeResponse(502, EnhancedCode{5, 5, 1}, "RCPT not allowed during message transfer")""", """	if c.inTransfer() {
		c.writeResponse(502, EnhancedCode{5, 5, 1}, "RCPT not allowed during message transfer")"""),
  ("conn.go", "func (c *Conn) Server() *Server {", "func (c *Conn) inTransfer() bool {\n	return c.bdatPipe != nil\n}\n\nfunc (c *Conn) Server() *Server {"))
variant("new-verb-xclient",
  ("conn.go", """	case "STARTTLS":
		c.handleStartTLS()""", """	case "STARTTLS":
		c.handleStartTLS()
	case "XCLIENT":
		c.writeResponse(502, EnhancedCode{5, 5, 1}, "XCLIENT command not implemented")"""))
variant("rset-reply-first",
  ("conn.go", """		c.reset()
		c.writeResponse(250, EnhancedCode{2, 0, 0}, "Session reset")""", """		c.writeResponse(250, EnhancedCode{2, 0, 0}, "Session reset")
		c.reset()"""))
variant("quit-const-reply",
  ("conn.go", """		c.writeResponse(221, EnhancedCode{2, 0, 0}, "Bye")
		c.Close()""", """		const bye = "Bye"
		c.writeResponse(221, EnhancedCode{2, 0, 0}, bye)
		c.Close()"""))
variant("errcount-plus-equals",
  ("conn.go", """	c.errCount++
	if c.errCount > errThreshold {""", """	c.errCount += 1
	if c.errCount > errThreshold {"""))
variant("threshold-ge-plus1",
  ("conn.go", """	if c.errCount > errThreshold {""", """	if c.errCount >= errThreshold+1 {"""))
variant("client-close-early-guard",
  ("client.go", """	expectedResponses := len(d.c.rcpts)
	if d.c.lmtp {""", """	expectedResponses := len(d.c.rcpts)
	if d.c.lmtp && expectedResponses >= 0 {"""))
variant("data-reader-named-var",
  ("conn.go", """	r := newDataReader(c)
	code, enhancedCode, msg := dataErrorToStatus(c.Session().Data(r))""", """	body := newDataReader(c)
	r := body
	code, enhancedCode, msg := dataErrorToStatus(c.Session().Data(r))"""))
variant("envid-assign-no-shadow",
  ("conn.go", """			value, err := decodeXtext(value)
			if err != nil || value == "" || !isPrintableASCII(value) {""", """			value, err = decodeXtext(value)
			if err != nil || value == "" || !isPrintableASCII(value) {"""))
variant("linelimit-switch-form",
  ("lengthlimit_reader.go", """		if chr == '\\n' {
			r.curLineLength = 0
		}""", """		switch chr {
		case '\\n':
			r.curLineLength = 0
		}"""))
variant("reset-envelope-helper",
  ("conn.go", """	c.fromReceived = false
	c.recipients = nil
}""", """	c.clearEnvelope()
}

// clearEnvelope forgets sender and recipients. The caller holds c.locker.
func (c *Conn) clearEnvelope() {
	c.fromReceived = false
	c.recipients = nil
}"""))
variant("reply-lines-loop-split",
  ("conn.go", """	text = strings.Split(strings.Join(text, "\\n"), "\\n")
""", """	var lines []string
	for _, t := range text {
		lines = append(lines, strings.Split(t, "\\n")...)
	}
	text = lines
"""))
variant("errthreshold-local-const",
  ("conn.go", """	c.errCount++
	if c.errCount > errThreshold {""", """	const limit = errThreshold
	c.errCount++
	if c.errCount > limit {"""))
variant("handle-early-return-style",
  ("conn.go", """	case "RSET": // Reset session
		c.reset()
		c.writeResponse(250, EnhancedCode{2, 0, 0}, "Session reset")""", """	case "RSET": // Reset session
		c.reset()
		c.writeResponse(250, EnhancedCode{2, 0, 0}, "Session reset")
		return"""))
variant("mail-guard-combined",
  ("conn.go", """	if c.helo == "" {
		c.writeResponse(502, EnhancedCode{5, 5, 1}, "Please introduce yourself first.")
		return
	}
	if c.bdatPipe != nil {
		c.writeResponse(502, EnhancedCode{5, 5, 1}, "MAIL not allowed during message transfer")
		return
	}""", """	switch {
	case c.helo == "":
		c.writeResponse(502, EnhancedCode{5, 5, 1}, "Please introduce yourself first.")
		return
	case c.bdatPipe != nil:
		c.writeResponse(502, EnhancedCode{5, 5, 1}, "MAIL not allowed during message transfer")
		return
	}"""))
variant("finishbdat-helper-correct",
  ("conn.go", """	if last {
		c.lineLimitReader.LineLimit = c.server.MaxLineLength

		c.bdatPipe.Close()

		err := <-c.dataResult

		if c.server.LMTP {
			c.bdatStatus.fillRemaining(err)
			for i, rcpt := range c.recipients {
				code, enchCode, msg := dataErrorToStatus(<-c.bdatStatus.status[i])
				c.writeResponse(code, enchCode, "<"+rcpt+"> "+msg)
			}
		} else {
			c.writeResponse(dataErrorToStatus(err))
		}

		if err == errPanic {
			c.Close()
			return
		}

		c.reset()
	} else {
		c.writeResponse(250, EnhancedCode{2, 0, 0}, "Continue")
	}
}""", """	if last {
		c.finishBdat()
	} else {
		c.writeResponse(250, EnhancedCode{2, 0, 0}, "Continue")
	}
}

// finishBdat ends the message after its LAST chunk and reports the outcome.
func (c *Conn) finishBdat() {
	c.lineLimitReader.LineLimit = c.server.MaxLineLength

	c.bdatPipe.Close()

	err := <-c.dataResult

	if c.server.LMTP {
		c.bdatStatus.fillRemaining(err)
		for i, rcpt := range c.recipients {
			code, enchCode, msg := dataErrorToStatus(<-c.bdatStatus.status[i])
			c.writeResponse(code, enchCode, "<"+rcpt+"> "+msg)
		}
	} else {
		c.writeResponse(dataErrorToStatus(err))
	}

	if err == errPanic {
		c.Close()
		return
	}

	c.reset()
}"""))
variant("finishdata-helper-correct",
  ("conn.go", """	code, enhancedCode, msg := dataErrorToStatus(c.Session().Data(r))
	r.limited = false
	_, drainErr := io.Copy(ioutil.Discard, r) // Make sure all the data has been consumed
	c.writeResponse(code, enhancedCode, msg)""", """	code, enhancedCode, msg := dataErrorToStatus(c.Session().Data(r))
	drainErr := c.drainData(r)
	c.writeResponse(code, enhancedCode, msg)"""),
  ("conn.go", "func (c *Conn) handleBdat(arg string) {", "// drainData consumes what the backend left unread of the message.\nfunc (c *Conn) drainData(r *dataReader) error {\n	r.limited = false\n	_, err := io.Copy(ioutil.Discard, r) // Make sure all the data has been consumed\n	return err\n}\n\nfunc (c *Conn) handleBdat(arg string) {"))
variant("capabilities-helper",
  ("conn.go", """	caps := []string{
		"PIPELINING",""", """	c.writeCapabilities(domain)
}

// writeCapabilities sends the EHLO/LHLO reply.
func (c *Conn) writeCapabilities(domain string) {
	caps := []string{
		"PIPELINING","""))
variant("upgradetls-helper",
  ("conn.go", """	c.conn = tlsConn
	c.init()

	// Reset all state and close the previous Session.
	// This is different from just calling reset() since we want the Backend to
	// be able to see the information about TLS connection in the
	// ConnectionState object passed to it.
	if session := c.Session(); session != nil {
		session.Logout()
		c.setSession(nil)
	}
	c.helo = ""
	c.didAuth = false
	c.reset()
}""", """	c.switchToTLS(tlsConn)
}

// switchToTLS installs the TLS connection and forgets everything learned in plaintext.
func (c *Conn) switchToTLS(tlsConn *tls.Conn) {
	c.conn = tlsConn
	c.init()

	if session := c.Session(); session != nil {
		session.Logout()
		c.setSession(nil)
	}
	c.helo = ""
	c.didAuth = false
	c.reset()
}"""))
variant("aborttransfer-helper",
  ("conn.go", """func (c *Conn) Close() error {
	c.locker.Lock()
	defer c.locker.Unlock()

	if c.bdatPipe != nil {
		c.bdatPipe.CloseWithError(ErrDataReset)
		c.bdatPipe = nil
	}
""", """// abortTransfer fails an open chunked transfer. The caller holds c.locker.
func (c *Conn) abortTransfer() {
	if c.bdatPipe != nil {
		c.bdatPipe.CloseWithError(ErrDataReset)
		c.bdatPipe = nil
	}
}

func (c *Conn) Close() error {
	c.locker.Lock()
	defer c.locker.Unlock()

	c.abortTransfer()
"""))
variant("closelisteners-helper",
  ("server.go", """	var err error
	s.locker.Lock()
	for _, l := range s.listeners {
		if lerr := l.Close(); lerr != nil && err == nil {
			err = lerr
		}
	}
	s.locker.Unlock()

	connDone := make(chan struct{})""", """	s.locker.Lock()
	err := s.closeListeners()
	s.locker.Unlock()

	connDone := make(chan struct{})"""),
  ("server.go", "// Shutdown gracefully shuts down the server without interrupting any", "// closeListeners closes every listener and returns the first error. The caller holds s.locker.\nfunc (s *Server) closeListeners() error {\n	var err error\n	for _, l := range s.listeners {\n		if lerr := l.Close(); lerr != nil && err == nil {\n			err = lerr\n		}\n	}\n	return err\n}\n\n// Shutdown gracefully shuts down the server without interrupting any"))
variant("readerror-helper",
  ("server.go", """		} else {
			if err == io.EOF || errors.Is(err, net.ErrClosed) {
				return nil
			}
			if err == ErrTooLongLine {
				c.writeResponse(500, EnhancedCode{5, 4, 0}, "Too long line, closing connection")
				return nil
			}

			if neterr, ok := err.(net.Error); ok && neterr.Timeout() {
				c.writeResponse(421, EnhancedCode{4, 4, 2}, "Idle timeout, bye bye")
				return nil
			}

			c.writeResponse(421, EnhancedCode{4, 4, 0}, "Connection error, sorry")
			return err
		}""", """		} else {
			return c.readFailed(err)
		}"""),
  ("server.go", "func (s *Server) network() string {", "// readFailed answers a failed read of a command line; the caller ends the connection.\nfunc (c *Conn) readFailed(err error) error {\n	if err == io.EOF || errors.Is(err, net.ErrClosed) {\n		return nil\n	}\n	if err == ErrTooLongLine {\n		c.writeResponse(500, EnhancedCode{5, 4, 0}, \"Too long line, closing connection\")\n		return nil\n	}\n\n	if neterr, ok := err.(net.Error); ok && neterr.Timeout() {\n		c.writeResponse(421, EnhancedCode{4, 4, 2}, \"Idle timeout, bye bye\")\n		return nil\n	}\n\n	c.writeResponse(421, EnhancedCode{4, 4, 0}, \"Connection error, sorry\")\n	return err\n}\n\nfunc (s *Server) network() string {"))
variant("client-mailcmd-helper",
  ("client.go", """	_, _, err := c.cmd(250, "%s", sb.String())
	return err
}

// Rcpt issues a RCPT command""", """	return c.sendLine(sb.String())
}

// sendLine sends a fully rendered command line expecting 250.
func (c *Client) sendLine(line string) error {
	_, _, err := c.cmd(250, "%s", line)
	return err
}

// Rcpt issues a RCPT command"""))
variant("auth-decode-helper",
  ("conn.go", """		response, err = decodeSASLResponse(encoded)
		if err != nil {
			c.writeResponse(454, EnhancedCode{4, 7, 0}, "Invalid base64 data")
			return
		}""", """		var ok bool
		if response, ok = c.decodeResponse(encoded); !ok {
			return
		}"""),
  ("conn.go", "func decodeSASLResponse(s string) ([]byte, error) {", "// decodeResponse decodes a SASL response line; it answers 454 and reports false when the line is not base64.\nfunc (c *Conn) decodeResponse(encoded string) ([]byte, bool) {\n	response, err := decodeSASLResponse(encoded)\n	if err != nil {\n		c.writeResponse(454, EnhancedCode{4, 7, 0}, \"Invalid base64 data\")\n		return nil, false\n	}\n	return response, true\n}\n\nfunc decodeSASLResponse(s string) ([]byte, error) {"))
variant("bdat-guard-order-swapped",
  ("conn.go", """	if !c.fromReceived || len(c.recipients) == 0 {
		// RFC 3030: the chunk of a refused BDAT must be discarded, it""", """	if len(c.recipients) == 0 || !c.fromReceived {
		// RFC 3030: the chunk of a refused BDAT must be discarded, it"""))
variant("bdat-limit-gt-zero",
  ("conn.go", "	if c.server.MaxMessageBytes != 0 && c.bytesReceived+int64(size) > c.server.MaxMessageBytes {", "	if c.server.MaxMessageBytes > 0 && c.bytesReceived+int64(size) > c.server.MaxMessageBytes {"))
variant("rcptmax-local",
  ("conn.go", """	if c.server.MaxRecipients > 0 && len(c.recipients) >= c.server.MaxRecipients {""", """	if max := c.server.MaxRecipients; max > 0 && len(c.recipients) >= max {"""))
variant("lmtp-flavour-single-test",
  ("conn.go", """		if c.server.LMTP && !lmtp {
			c.writeResponse(500, EnhancedCode{5, 5, 1}, "This is a LMTP server, use LHLO")
			return
		}
		if !c.server.LMTP && lmtp {
			c.writeResponse(500, EnhancedCode{5, 5, 1}, "This is not a LMTP server")
			return
		}""", """		if c.server.LMTP != lmtp {
			if c.server.LMTP {
				c.writeResponse(500, EnhancedCode{5, 5, 1}, "This is a LMTP server, use LHLO")
			} else {
				c.writeResponse(500, EnhancedCode{5, 5, 1}, "This is not a LMTP server")
			}
			return
		}"""))
variant("budget-le-minus-one",
  ("data.go", """	if r.limited {
		if r.n < 0 {
			return 0, ErrDataTooLarge
		}""", """	if r.limited {
		if r.n <= -1 {
			return 0, ErrDataTooLarge
		}"""))
variant("continuation-loop-range",
  ("conn.go", """	for i := 0; i < lastLineIndex; i++ {
		// RFC 2034: the enhanced code is repeated on every line.
		if enhCode == NoEnhancedCode {
			c.text.PrintfLine("%d-%v", code, text[i])
		} else {
			c.text.PrintfLine("%d-%v.%v.%v %v", code, enhCode[0], enhCode[1], enhCode[2], text[i])
		}
	}""", """	for _, line := range text[:lastLineIndex] {
		// RFC 2034: the enhanced code is repeated on every line.
		if enhCode == NoEnhancedCode {
			c.text.PrintfLine("%d-%v", code, line)
		} else {
			c.text.PrintfLine("%d-%v.%v.%v %v", code, enhCode[0], enhCode[1], enhCode[2], line)
		}
	}"""))
variant("tosmtperr-cut",
  ("client.go", """	parts := strings.SplitN(protoErr.Msg, " ", 2)
	if len(parts) != 2 {
		return smtpErr
	}

	enchCode, err := parseEnhancedCode(parts[0])
	if err != nil {
		return smtpErr
	}

	msg := parts[1]

	// Per RFC 2034, enhanced code should be prepended to each line.
	msg = strings.ReplaceAll(msg, "\\n"+parts[0]+" ", "\\n")
""", """	first, rest, found := strings.Cut(protoErr.Msg, " ")
	if !found {
		return smtpErr
	}

	enchCode, err := parseEnhancedCode(first)
	if err != nil {
		return smtpErr
	}

	// Per RFC 2034, enhanced code should be prepended to each line.
	msg := strings.ReplaceAll(rest, "\\n"+first+" ", "\\n")
"""))
variant("rcpt-fprintf",
  ("client.go", """		sb.WriteString(fmt.Sprintf(" RRVS=%s", opts.RequireRecipientValidSince.Format(time.RFC3339)))""", """		fmt.Fprintf(&sb, " RRVS=%s", opts.RequireRecipientValidSince.Format(time.RFC3339))"""))
variant("xtext-hex-helper",
  ("conn.go", """			// hexchar is "+" followed by exactly two hex digits
			out.WriteRune('+')
			if ch < 0x10 {
				out.WriteRune('0')
			}
			out.WriteString(strings.ToUpper(strconv.FormatInt(int64(ch), 16)))""", """			// hexchar is "+" followed by exactly two hex digits
			fmt.Fprintf(&out, "+%02X", ch)"""))
variant("xtext-indexbyte-guard",
  ("conn.go", """	if !strings.Contains(val, "+") {
		return val, nil
	}""", """	if strings.IndexByte(val, '+') < 0 {
		return val, nil
	}"""))
variant("rcptstatus-helper-correct",
  ("conn.go", """			for i, rcpt := range c.recipients {
				code, enchCode, msg := dataErrorToStatus(<-c.bdatStatus.status[i])
				c.writeResponse(code, enchCode, "<"+rcpt+"> "+msg)
			}""", """			for i, rcpt := range c.recipients {
				c.writeRcptStatus(rcpt, <-c.bdatStatus.status[i])
			}"""),
  ("conn.go", """	for i, rcpt := range c.recipients {
		code, enchCode, msg := dataErrorToStatus(<-status.status[i])
		c.writeResponse(code, enchCode, "<"+rcpt+"> "+msg)
	}""", """	for i, rcpt := range c.recipients {
		c.writeRcptStatus(rcpt, <-status.status[i])
	}"""),
  ("conn.go", "func dataErrorToStatus(err error) (code int, enchCode EnhancedCode, msg string) {", "// writeRcptStatus sends the LMTP reply for one recipient.\nfunc (c *Conn) writeRcptStatus(rcpt string, err error) {\n	code, enchCode, msg := dataErrorToStatus(err)\n	c.writeResponse(code, enchCode, \"<\"+rcpt+\"> \"+msg)\n}\n\nfunc dataErrorToStatus(err error) (code int, enchCode EnhancedCode, msg string) {"))
variant("notify-nil-check-dropped",
  ("client.go", "		if opts.Notify != nil && len(opts.Notify) != 0 {", "		if len(opts.Notify) != 0 {"))
variant("bdat-redundant-restore-dropped",
  ("conn.go", """	if last {
		c.lineLimitReader.LineLimit = c.server.MaxLineLength

		c.bdatPipe.Close()""", """	if last {
		c.bdatPipe.Close()"""))
variant("handle-redundant-toupper-dropped",
  ("conn.go", """	cmd = strings.ToUpper(cmd)
	switch cmd {""", """	switch cmd {"""))
variant("reset-pure-stores-after-callback",
  ("conn.go", """	c.bdatStatus = nil
	c.bytesReceived = 0

	if c.session != nil {
		c.session.Reset()
	}

	c.fromReceived = false
	c.recipients = nil
}""", """	if c.session != nil {
		c.session.Reset()
	}

	c.bdatStatus = nil
	c.bytesReceived = 0
	c.fromReceived = false
	c.recipients = nil
}"""))
variant("close-lmtp-local",
  ("client.go", """	expectedResponses := len(d.c.rcpts)
	if d.c.lmtp {""", """	expectedResponses := len(d.c.rcpts)
	perRecipient := d.c.lmtp
	if perRecipient {"""))
variant("bdat-result-renamed",
  ("conn.go", """		err := <-c.dataResult

		if c.server.LMTP {
			c.bdatStatus.fillRemaining(err)""", """		dataErr := <-c.dataResult

		if c.server.LMTP {
			c.bdatStatus.fillRemaining(dataErr)"""),
  ("conn.go", "			c.writeResponse(dataErrorToStatus(err))\n		}\n\n		if err == errPanic {", "			c.writeResponse(dataErrorToStatus(dataErr))\n		}\n\n		if dataErr == errPanic {"))
variant("newsession-error-local",
  ("conn.go", """			c.helo = ""
			c.writeError(451, EnhancedCode{4, 0, 0}, err)
			return""", """			c.helo = ""
			sessErr := err
			c.writeError(451, EnhancedCode{4, 0, 0}, sessErr)
			return"""))
variant("lmtp-data-own-defer",
  ("conn.go", """	defer c.reset()

	if c.server.LMTP {
		c.handleDataLMTP()
		return
	}
""", """	if c.server.LMTP {
		defer c.reset()
		c.handleDataLMTP()
		return
	}

	defer c.reset()
"""))
variant("mail-helo-check-in-dispatcher",
  ("conn.go", """	cmd = strings.ToUpper(cmd)
	switch cmd {""", """	cmd = strings.ToUpper(cmd)
	if cmd == "MAIL" && c.helo == "" {
		c.writeResponse(502, EnhancedCode{5, 5, 1}, "Please introduce yourself first.")
		return
	}
	switch cmd {"""),
  ("conn.go", """func (c *Conn) handleMail(arg string) {
	if c.helo == "" {
		c.writeResponse(502, EnhancedCode{5, 5, 1}, "Please introduce yourself first.")
		return
	}
""", """func (c *Conn) handleMail(arg string) {
"""))
variant("notify-join-gt-zero",
  ("client.go", """				if i != 0 {
					sb.WriteString(",")
				}""", """				if i > 0 {
					sb.WriteString(",")
				}"""))
variant("mail-size-gt-zero",
  ("client.go", """	if _, ok := c.ext["SIZE"]; ok && opts != nil && opts.Size != 0 {""", """	if _, ok := c.ext["SIZE"]; ok && opts != nil && opts.Size > 0 {"""))
variant("mail-flags-under-one-nil-check",
  ("client.go", """	if opts != nil && opts.RequireTLS {
		if _, ok := c.ext["REQUIRETLS"]; ok {
			sb.WriteString(" REQUIRETLS")
		} else {
			return errors.New("smtp: server does not support REQUIRETLS")
		}
	}
	if opts != nil && opts.UTF8 {
		if _, ok := c.ext["SMTPUTF8"]; ok {
			sb.WriteString(" SMTPUTF8")
		} else {
			return errors.New("smtp: server does not support SMTPUTF8")
		}
	}""", """	if opts != nil {
		if opts.RequireTLS {
			if _, ok := c.ext["REQUIRETLS"]; !ok {
				return errors.New("smtp: server does not support REQUIRETLS")
			}
			sb.WriteString(" REQUIRETLS")
		}
		if opts.UTF8 {
			if _, ok := c.ext["SMTPUTF8"]; !ok {
				return errors.New("smtp: server does not support SMTPUTF8")
			}
			sb.WriteString(" SMTPUTF8")
		}
	}"""))
variant("mail-guards-swapped",
  ("conn.go", """	if c.helo == "" {
		c.writeResponse(502, EnhancedCode{5, 5, 1}, "Please introduce yourself first.")
		return
	}
	if c.bdatPipe != nil {
		c.writeResponse(502, EnhancedCode{5, 5, 1}, "MAIL not allowed during message transfer")
		return
	}
""", """	if c.bdatPipe != nil {
		c.writeResponse(502, EnhancedCode{5, 5, 1}, "MAIL not allowed during message transfer")
		return
	}
	if c.helo == "" {
		c.writeResponse(502, EnhancedCode{5, 5, 1}, "Please introduce yourself first.")
		return
	}
"""))
variant("errcount-plus-equals",
  ("conn.go", """	c.errCount++
	if c.errCount > errThreshold {""", """	c.errCount += 1
	if c.errCount > errThreshold {"""))
variant("setsession-explicit-unlock",
  ("conn.go", """	c.locker.Lock()
	defer c.locker.Unlock()
	c.session = session
}""", """	c.locker.Lock()
	c.session = session
	c.locker.Unlock()
}"""))
variant("loop-until-closed",
  ("server.go", """	for {
		// QUIT, too many errors or a backend panic close the connection
		// while further commands may already be buffered: they must not
		// be executed.
		if c.isClosed() {
			return nil
		}

		line, err := c.readLine()""", """	// QUIT, too many errors or a backend panic close the connection
	// while further commands may already be buffered: they must not
	// be executed.
	for !c.isClosed() {
		line, err := c.readLine()"""),
  ("server.go", """			c.writeResponse(421, EnhancedCode{4, 4, 0}, "Connection error, sorry")
			return err
		}
	}
}""", """			c.writeResponse(421, EnhancedCode{4, 4, 0}, "Connection error, sorry")
			return err
		}
	}
	return nil
}"""))
variant("backoff-cap-constant",
  ("server.go", """				if max := 1 * time.Second; tempDelay > max {
					tempDelay = max
				}""", """				const maxDelay = time.Second
				if tempDelay > maxDelay {
					tempDelay = maxDelay
				}"""))
variant("no-rcpt-len-lt-one",
  ("conn.go", """	if !c.fromReceived || len(c.recipients) == 0 {
		// RFC 3030""", """	if !c.fromReceived || len(c.recipients) < 1 {
		// RFC 3030"""))
variant("lmtp-emit-index-loop",
  ("conn.go", """	for i, rcpt := range c.recipients {
		code, enchCode, msg := dataErrorToStatus(<-status.status[i])
		c.writeResponse(code, enchCode, "<"+rcpt+"> "+msg)
	}""", """	for i := range c.recipients {
		rcpt := c.recipients[i]
		code, enchCode, msg := dataErrorToStatus(<-status.status[i])
		c.writeResponse(code, enchCode, "<"+rcpt+"> "+msg)
	}"""))
variant("writeresponse-lines-var",
  ("conn.go", """	text = strings.Split(strings.Join(text, "\\n"), "\\n")

	lastLineIndex := len(text) - 1
	for i := 0; i < lastLineIndex; i++ {
		// RFC 2034: the enhanced code is repeated on every line.
		if enhCode == NoEnhancedCode {
			c.text.PrintfLine("%d-%v", code, text[i])
		} else {
			c.text.PrintfLine("%d-%v.%v.%v %v", code, enhCode[0], enhCode[1], enhCode[2], text[i])
		}
	}
	if enhCode == NoEnhancedCode {
		c.text.PrintfLine("%d %v", code, text[lastLineIndex])
	} else {
		c.text.PrintfLine("%d %v.%v.%v %v", code, enhCode[0], enhCode[1], enhCode[2], text[lastLineIndex])
	}""", """	lines := strings.Split(strings.Join(text, "\\n"), "\\n")

	lastLineIndex := len(lines) - 1
	for i := 0; i < lastLineIndex; i++ {
		// RFC 2034: the enhanced code is repeated on every line.
		if enhCode == NoEnhancedCode {
			c.text.PrintfLine("%d-%v", code, lines[i])
		} else {
			c.text.PrintfLine("%d-%v.%v.%v %v", code, enhCode[0], enhCode[1], enhCode[2], lines[i])
		}
	}
	if enhCode == NoEnhancedCode {
		c.text.PrintfLine("%d %v", code, lines[lastLineIndex])
	} else {
		c.text.PrintfLine("%d %v.%v.%v %v", code, enhCode[0], enhCode[1], enhCode[2], lines[lastLineIndex])
	}"""))
variant("client-rcpt-comma-fprintf",
  ("client.go", """				if i != 0 {
					sb.WriteString(",")
				}
				sb.WriteString(string(v))""", """				if i != 0 {
					sb.WriteByte(',')
				}
				sb.WriteString(string(v))"""))
variant("data-guards-switch",
  ("conn.go", """	if c.bdatPipe != nil {
		c.writeResponse(502, EnhancedCode{5, 5, 1}, "DATA not allowed during message transfer")
		return
	}
	if c.binarymime {
		c.writeResponse(502, EnhancedCode{5, 5, 1}, "DATA not allowed for BINARYMIME messages")
		return
	}""", """	switch {
	case c.bdatPipe != nil:
		c.writeResponse(502, EnhancedCode{5, 5, 1}, "DATA not allowed during message transfer")
		return
	case c.binarymime:
		c.writeResponse(502, EnhancedCode{5, 5, 1}, "DATA not allowed for BINARYMIME messages")
		return
	}"""))
variant("caps-order-changed",
  ("conn.go", """	caps := []string{
		"PIPELINING",
		"8BITMIME",
		"ENHANCEDSTATUSCODES",
		"CHUNKING",
	}""", """	caps := []string{
		"8BITMIME",
		"PIPELINING",
		"CHUNKING",
		"ENHANCEDSTATUSCODES",
	}"""))
variant("limiter-index-loop",
  ("lengthlimit_reader.go", """	for _, chr := range b[:n] {
		if chr == '\\n' {""", """	for i := 0; i < n; i++ {
		chr := b[i]
		if chr == '\\n' {"""))
variant("starttls-clears-swapped",
  ("conn.go", """	c.helo = ""
	c.didAuth = false
	c.reset()
}""", """	c.didAuth = false
	c.helo = ""
	c.reset()
}"""))
variant("close-flag-before-logout",
  ("conn.go", """	if c.session != nil {
		c.session.Logout()
		c.session = nil
	}

	c.closed = true
	return c.conn.Close()""", """	c.closed = true
	if c.session != nil {
		c.session.Logout()
		c.session = nil
	}

	return c.conn.Close()"""))
variant("auth-parts-ge-two",
  ("conn.go", """	if len(parts) > 1 {
		var err error
		ir, err = decodeSASLResponse(parts[1])""", """	if len(parts) >= 2 {
		var err error
		ir, err = decodeSASLResponse(parts[1])"""))
variant("bdat-size-local",
  ("conn.go", """	chunk := io.LimitReader(c.text.R, int64(size))""", """	chunkSize := int64(size)
	chunk := io.LimitReader(c.text.R, chunkSize)"""))
variant("ehlo-cut",
  ("client.go", """			args := strings.SplitN(line, " ", 2)
			if len(args) > 1 {
				ext[args[0]] = args[1]
			} else {
				ext[args[0]] = \"\"
			}""", """			keyword, param, _ := strings.Cut(line, " ")
			ext[keyword] = param"""))
variant("validateline-indexany",
  ("client.go", """	if strings.ContainsAny(line, "\\n\\r") {
		return errors.New("smtp: a line must not contain CR or LF")
	}""", """	if strings.IndexAny(line, "\\r\\n") >= 0 {
		return errors.New("smtp: a line must not contain CR or LF")
	}"""))
variant("mail-no-grow",
  ("client.go", """	// A high enough power of 2 than 510+14+26+11+9+9+39+500
	sb.Grow(2048)
""", ""))
variant("hello-fallback-switch",
  ("client.go", """		if errors.As(err, &smtpError) && (smtpError.Code == 500 || smtpError.Code == 502) {""", """		if errors.As(err, &smtpError) && (smtpError.Code == 502 || smtpError.Code == 500) {"""))
variant("writeerror-type-switch",
  ("conn.go", """	if smtpErr, ok := err.(*SMTPError); ok {
		c.writeResponse(smtpErr.Code, smtpErr.EnhancedCode, smtpErr.Message)
	} else {
		c.writeResponse(code, enhCode, err.Error())
	}""", """	switch smtpErr := err.(type) {
	case *SMTPError:
		c.writeResponse(smtpErr.Code, smtpErr.EnhancedCode, smtpErr.Message)
	default:
		c.writeResponse(code, enhCode, err.Error())
	}"""))
variant("beginline-byte-switch",
  ("data.go", """			if c == '.' {
				r.state = stateDot
				continue
			}
			if c == '\\r' {
				r.state = stateCR
				break
			}
			r.state = stateData
		case stateDot:""", """			switch c {
			case '.':
				r.state = stateDot
				continue
			case '\\r':
				r.state = stateCR
			default:
				r.state = stateData
			}
		case stateDot:"""))
variant("dataerrortostatus-early-nil",
  ("conn.go", """	if err != nil {
		if smtperr, ok := err.(*SMTPError); ok {
			return smtperr.Code, smtperr.EnhancedCode, smtperr.Message
		} else {
			return 554, EnhancedCode{5, 0, 0}, "Error: transaction failed: " + err.Error()
		}
	}

	return 250, EnhancedCode{2, 0, 0}, "OK: queued\"""", """	if err == nil {
		return 250, EnhancedCode{2, 0, 0}, "OK: queued"
	}
	if smtperr, ok := err.(*SMTPError); ok {
		return smtperr.Code, smtperr.EnhancedCode, smtperr.Message
	}
	return 554, EnhancedCode{5, 0, 0}, "Error: transaction failed: " + err.Error()"""))
variant("reset-also-clears-binarymime",
  ("conn.go", """	c.bdatStatus = nil
	c.bytesReceived = 0

	if c.session != nil {
		c.session.Reset()""", """	c.bdatStatus = nil
	c.bytesReceived = 0
	c.binarymime = false

	if c.session != nil {
		c.session.Reset()"""))
variant("bdat-empty-chunk-shortcut",
  ("conn.go", """	// The chunk is binary data, not lines. The limit must be back in place
	// for the next command line whatever happens below.
	c.lineLimitReader.LineLimit = 0""", """	if size == 0 && !last {
		// nothing to hand over
		c.writeResponse(250, EnhancedCode{2, 0, 0}, "Continue")
		return
	}

	// The chunk is binary data, not lines. The limit must be back in place
	// for the next command line whatever happens below.
	c.lineLimitReader.LineLimit = 0"""))
variant("timeouts-gt-zero",
  ("conn.go", """	if c.server.WriteTimeout != 0 {
		c.conn.SetWriteDeadline(time.Now().Add(c.server.WriteTimeout))
	}""", """	if c.server.WriteTimeout > 0 {
		c.conn.SetWriteDeadline(time.Now().Add(c.server.WriteTimeout))
	}"""),
  ("conn.go", """	if c.server.ReadTimeout != 0 {
		if err := c.conn.SetReadDeadline(""", """	if c.server.ReadTimeout > 0 {
		if err := c.conn.SetReadDeadline("""),
  ("server.go", """		if d := s.WriteTimeout; d != 0 {""", """		if d := s.WriteTimeout; d > 0 {"""))
variant("data-envelope-guard-split",
  ("conn.go", """	if !c.fromReceived || len(c.recipients) == 0 {
		c.writeResponse(502, EnhancedCode{5, 5, 1}, "Missing RCPT TO command.")
		return
	}

	// We have recipients, go to accept data""", """	if len(c.recipients) == 0 {
		c.writeResponse(502, EnhancedCode{5, 5, 1}, "Missing RCPT TO command.")
		return
	}
	if !c.fromReceived {
		c.writeResponse(502, EnhancedCode{5, 5, 1}, "Missing MAIL FROM command.")
		return
	}

	// We have recipients, go to accept data"""))
variant("mail-size-formatint",
  ("client.go", """		fmt.Fprintf(&sb, " SIZE=%v", opts.Size)""", """		sb.WriteString(" SIZE=" + strconv.FormatInt(opts.Size, 10))"""))
variant("close-index-loop",
  ("client.go", """		for expectedResponses > 0 {
			rcpt := d.c.rcpts[len(d.c.rcpts)-expectedResponses]""", """		for ; expectedResponses > 0; expectedResponses-- {
			rcpt := d.c.rcpts[len(d.c.rcpts)-expectedResponses]"""),
  ("client.go", """				d.statusCb(rcpt, nil)
			}
			expectedResponses--
		}""", """				d.statusCb(rcpt, nil)
			}
		}"""))
variant("hello-arg-indexbyte",
  ("parse.go", """	if idx := strings.IndexRune(arg, ' '); idx >= 0 {
		domain = arg[:idx]
	}""", """	if idx := strings.IndexByte(arg, ' '); idx >= 0 {
		domain = arg[:idx]
	}"""))
variant("reversepath-cutprefix",
  ("parse.go", """	if strings.HasPrefix(p.s, "<>") {
		p.s = strings.TrimPrefix(p.s, "<>")
		return "", nil
	}""", """	if rest, ok := strings.CutPrefix(p.s, "<>"); ok {
		p.s = rest
		return "", nil
	}"""))
variant("readbyte-early-return",
  ("parse.go", """	ch, ok := p.peekByte()
	if ok {
		p.s = p.s[1:]
	}
	return ch, ok""", """	ch, ok := p.peekByte()
	if !ok {
		return 0, false
	}
	p.s = p.s[1:]
	return ch, true"""))
variant("expectbyte-no-else",
  ("parse.go", """		if len(p.s) == 0 {
			return fmt.Errorf("expected '%v', got EOF", string(ch))
		} else {
			return fmt.Errorf("expected '%v', got '%v'", string(ch), string(p.s[0]))
		}""", """		if len(p.s) == 0 {
			return fmt.Errorf("expected '%v', got EOF", string(ch))
		}
		return fmt.Errorf("expected '%v', got '%v'", string(ch), string(p.s[0]))"""))
variant("rcpt-limit-helper",
  ("conn.go", """	if c.server.MaxRecipients > 0 && len(c.recipients) >= c.server.MaxRecipients {
		c.writeResponse(452, EnhancedCode{4, 5, 3}, fmt.Sprintf("Maximum limit of %v recipients reached", c.server.MaxRecipients))
		return
	}""", """	if c.recipientLimitReached() {
		c.writeResponse(452, EnhancedCode{4, 5, 3}, fmt.Sprintf("Maximum limit of %v recipients reached", c.server.MaxRecipients))
		return
	}"""),
  ("conn.go", "func (c *Conn) Server() *Server {", "func (c *Conn) recipientLimitReached() bool {\n	return c.server.MaxRecipients > 0 && len(c.recipients) >= c.server.MaxRecipients\n}\n\nfunc (c *Conn) Server() *Server {"))
variant("size-over-limit-helper",
  ("conn.go", """			if c.server.MaxMessageBytes > 0 && int64(size) > c.server.MaxMessageBytes {
				c.writeResponse(552, EnhancedCode{5, 3, 4}, "Max message size exceeded")
				return
			}

			opts.Size = int64(size)""", """			if c.overSizeLimit(int64(size)) {
				c.writeResponse(552, EnhancedCode{5, 3, 4}, "Max message size exceeded")
				return
			}

			opts.Size = int64(size)"""),
  ("conn.go", "func (c *Conn) Server() *Server {", "func (c *Conn) overSizeLimit(n int64) bool {\n	return c.server.MaxMessageBytes > 0 && n > c.server.MaxMessageBytes\n}\n\nfunc (c *Conn) Server() *Server {"))
variant("starttls-dropsession-helper",
  ("conn.go", """	if session := c.Session(); session != nil {
		session.Logout()
		c.setSession(nil)
	}
	c.helo = ""
	c.didAuth = false
	c.reset()
}""", """	c.dropSession()
	c.helo = ""
	c.didAuth = false
	c.reset()
}

// dropSession logs the current session out, if any.
func (c *Conn) dropSession() {
	if session := c.Session(); session != nil {
		session.Logout()
		c.setSession(nil)
	}
}"""))
variant("greet-newsession-helper",
  ("conn.go", """		sess, err := c.server.Backend.NewSession(c)
		if err != nil {
			c.helo = ""
			c.writeError(451, EnhancedCode{4, 0, 0}, err)
			return
		}

		c.setSession(sess)
	}""", """		if err := c.openSession(); err != nil {
			c.helo = ""
			c.writeError(451, EnhancedCode{4, 0, 0}, err)
			return
		}
	}"""),
  ("conn.go", "func (c *Conn) Server() *Server {", "// openSession asks the backend for a session and installs it.\nfunc (c *Conn) openSession() error {\n	sess, err := c.server.Backend.NewSession(c)\n	if err != nil {\n		return err\n	}\n	c.setSession(sess)\n	return nil\n}\n\nfunc (c *Conn) Server() *Server {"))
variant("mail-callback-helper",
  ("conn.go", """	if err := c.Session().Mail(from, opts); err != nil {
		c.writeError(451, EnhancedCode{4, 0, 0}, err)
		return
	}

	c.writeResponse(250, EnhancedCode{2, 0, 0}, fmt.Sprintf("Roger, accepting mail from <%v>", from))""", """	if err := c.askMail(from, opts); err != nil {
		c.writeError(451, EnhancedCode{4, 0, 0}, err)
		return
	}

	c.writeResponse(250, EnhancedCode{2, 0, 0}, fmt.Sprintf("Roger, accepting mail from <%v>", from))"""),
  ("conn.go", "func (c *Conn) Server() *Server {", "// askMail asks the backend whether it takes mail from this sender.\nfunc (c *Conn) askMail(from string, opts *MailOptions) error {\n	return c.Session().Mail(from, opts)\n}\n\nfunc (c *Conn) Server() *Server {"))
variant("bdat-discard-helper",
  ("conn.go", """		// RFC 3030: the chunk of a refused BDAT must be discarded, it
		// must not be interpreted as commands.
		_, discardErr := io.Copy(ioutil.Discard, io.LimitReader(c.text.R, int64(size)))
		c.writeResponse(502, EnhancedCode{5, 5, 1}, "Missing RCPT TO command.")""", """		// RFC 3030: the chunk of a refused BDAT must be discarded, it
		// must not be interpreted as commands.
		discardErr := c.discardChunk(int64(size))
		c.writeResponse(502, EnhancedCode{5, 5, 1}, "Missing RCPT TO command.")"""),
  ("conn.go", "func (c *Conn) Server() *Server {", "// discardChunk skips the n octets of a chunk that is not handed to the backend.\nfunc (c *Conn) discardChunk(n int64) error {\n	_, err := io.Copy(ioutil.Discard, io.LimitReader(c.text.R, n))\n	return err\n}\n\nfunc (c *Conn) Server() *Server {"))
variant("close-lmtp-replies-helper",
  ("client.go", """	expectedResponses := len(d.c.rcpts)
	if d.c.lmtp {
		// Without a status callback the first per-recipient failure is
		// reported by Close itself instead of being lost.
		var firstErr error
		for expectedResponses > 0 {
			rcpt := d.c.rcpts[len(d.c.rcpts)-expectedResponses]
			if _, _, err := d.c.readResponse(250); err != nil {
				if smtpErr, ok := err.(*SMTPError); ok {
					if d.statusCb != nil {
						d.statusCb(rcpt, smtpErr)
					} else if firstErr == nil {
						firstErr = smtpErr
					}
				} else {
					return err
				}
			} else if d.statusCb != nil {
				d.statusCb(rcpt, nil)
			}
			expectedResponses--
		}
		return firstErr
	} else {""", """	if d.c.lmtp {
		return d.readLMTPReplies()
	} else {"""),
  ("client.go", "func (d *dataCloser) Close() error {", """// readLMTPReplies reads one reply per accepted recipient.
func (d *dataCloser) readLMTPReplies() error {
	expectedResponses := len(d.c.rcpts)
	// Without a status callback the first per-recipient failure is
	// reported by Close itself instead of being lost.
	var firstErr error
	for expectedResponses > 0 {
		rcpt := d.c.rcpts[len(d.c.rcpts)-expectedResponses]
		if _, _, err := d.c.readResponse(250); err != nil {
			if smtpErr, ok := err.(*SMTPError); ok {
				if d.statusCb != nil {
					d.statusCb(rcpt, smtpErr)
				} else if firstErr == nil {
					firstErr = smtpErr
				}
			} else {
				return err
			}
		} else if d.statusCb != nil {
			d.statusCb(rcpt, nil)
		}
		expectedResponses--
	}
	return firstErr
}

func (d *dataCloser) Close() error {"""))
variant("debug-writer-sanitises-a-copy",
  ("conn.go", """			io.TeeReader(rwc.Reader, c.server.Debug),
			io.MultiWriter(rwc.Writer, c.server.Debug),""", """			io.TeeReader(rwc.Reader, printableWriter{c.server.Debug}),
			io.MultiWriter(rwc.Writer, printableWriter{c.server.Debug}),"""),
  ("conn.go", "// Commands are dispatched to the appropriate handler functions.", """// printableWriter keeps 8-bit octets out of the debug log; it works on a copy,
// the slice it is handed belongs to the caller.
type printableWriter struct{ w io.Writer }

func (p printableWriter) Write(b []byte) (int, error) {
	c := append([]byte(nil), b...)
	for i, ch := range c {
		if ch >= 0x7f {
			c[i] = '?'
		}
	}
	if _, err := p.w.Write(c); err != nil {
		return 0, err
	}
	return len(b), nil
}

// Commands are dispatched to the appropriate handler functions."""))

variant("auth-challenge-encode-helper",
  ("conn.go", """			encoded = base64.StdEncoding.EncodeToString(challenge)""", """			encoded = encodeSASLChallenge(challenge)"""),
  ("conn.go", "func decodeSASLResponse(s string) ([]byte, error) {", """// encodeSASLChallenge is the counterpart of decodeSASLResponse.
func encodeSASLChallenge(b []byte) string {
	if len(b) == 0 {
		return ""
	}
	return base64.StdEncoding.EncodeToString(b)
}

func decodeSASLResponse(s string) ([]byte, error) {"""))

variant("counting-reader-layer",
  ("conn.go", "		Reader: c.lineLimitReader,", "		Reader: &countingReader{r: c.lineLimitReader},"),
  ("conn.go", "// Commands are dispatched to the appropriate handler functions.", """// countingReader counts the octets received on the connection.
type countingReader struct {
	r io.Reader
	n int64
}

func (cr *countingReader) Read(b []byte) (int, error) {
	n, err := cr.r.Read(b)
	cr.n += int64(n)
	return n, err
}

// Commands are dispatched to the appropriate handler functions."""))

variant("init-layers-in-locals",
  ("conn.go", """	rwc := struct {
		io.Reader
		io.Writer
		io.Closer
	}{
		Reader: c.lineLimitReader,
		Writer: c.conn,
		Closer: c.conn,
	}

	if c.server.Debug != nil {
		rwc = struct {
			io.Reader
			io.Writer
			io.Closer
		}{
			io.TeeReader(rwc.Reader, c.server.Debug),
			io.MultiWriter(rwc.Writer, c.server.Debug),
			rwc.Closer,
		}
	}

	c.text = textproto.NewConn(rwc)""", """	var r io.Reader = c.lineLimitReader
	var w io.Writer = c.conn
	if c.server.Debug != nil {
		r = io.TeeReader(r, c.server.Debug)
		w = io.MultiWriter(w, c.server.Debug)
	}

	c.text = textproto.NewConn(struct {
		io.Reader
		io.Writer
		io.Closer
	}{r, w, c.conn})"""))

variant("lmtp-status-read-helper",
  ("client.go", """			if _, _, err := d.c.readResponse(250); err != nil {
				if smtpErr, ok := err.(*SMTPError); ok {""", """			if err := d.c.readRcptStatus(); err != nil {
				if smtpErr, ok := err.(*SMTPError); ok {"""),
  ("client.go", "type clientDebugWriter struct {", """// readRcptStatus reads the reply for one recipient of an LMTP transaction.
func (c *Client) readRcptStatus() error {
	_, _, err := c.readResponse(250)
	return err
}

type clientDebugWriter struct {"""))

# ---- local renames: the whole function is the edit (old text read from /repo, new text = old with the identifier renamed)
def rename_in_func(name, file, header, pairs):
    src = open(os.path.join('/repo', file)).read()
    i = src.index(header)
    j = src.index("\n}\n", i) + 3
    old = src[i:j]
    new = old
    for a, b in pairs:
        new = re.sub(r'\b' + re.escape(a) + r'\b', b, new)
    assert new != old, name
    variant(name, (file, old, new))

rename_in_func("rename-close-counter", "client.go", "func (d *dataCloser) Close() error {", [("expectedResponses", "remaining")])
rename_in_func("rename-mail-parser-local", "conn.go", "func (c *Conn) handleMail(arg string) {", [("p", "ps"), ("value", "val"), ("key", "k")])
rename_in_func("rename-rcpt-parser-local", "conn.go", "func (c *Conn) handleRcpt(arg string) {", [("p", "ps"), ("value", "v"), ("recipient", "rcpt")])
rename_in_func("rename-writeresponse-params", "conn.go", "func (c *Conn) writeResponse(code int, enhCode EnhancedCode, text ...string) {", [("enhCode", "ec"), ("lastLineIndex", "last")])
rename_in_func("rename-mailbox-builder", "parse.go", "func (p *parser) parseMailbox() (string, error) {", [("sb", "b")])
rename_in_func("rename-datareader-locals", "data.go", "func (r *dataReader) Read(b []byte) (n int, err error) {", [("c", "ch")])
rename_in_func("rename-limiter-locals", "lengthlimit_reader.go", "func (r *lineLimitReader) Read(b []byte) (int, error) {", [("chr", "octet")])
rename_in_func("rename-bdat-locals", "conn.go", "func (c *Conn) handleBdat(arg string) {", [("size", "chunkSize"), ("last", "isLast"), ("chunk", "lr")])
rename_in_func("rename-auth-locals", "conn.go", "func (c *Conn) handleAuth(arg string) {", [("encoded", "line"), ("challenge", "chal"), ("ir", "initial"), ("response", "resp")])
rename_in_func("rename-client-rcpt-locals", "client.go", "func (c *Client) Rcpt(to string, opts *RcptOptions) error {", [("sb", "b"), ("to", "addr")])
rename_in_func("rename-client-mail-locals", "client.go", "func (c *Client) Mail(from string, opts *MailOptions) error {", [("sb", "b"), ("from", "sender")])

variant("bdat-limit-remaining-budget",
  ("conn.go", "	if c.server.MaxMessageBytes != 0 && c.bytesReceived+int64(size) > c.server.MaxMessageBytes {",
   "	if limit := c.server.MaxMessageBytes; limit != 0 && int64(size) > limit-c.bytesReceived {"))
variant("bdat-limit-operands-swapped",
  ("conn.go", "	if c.server.MaxMessageBytes != 0 && c.bytesReceived+int64(size) > c.server.MaxMessageBytes {",
   "	if c.server.MaxMessageBytes != 0 && c.server.MaxMessageBytes < int64(size)+c.bytesReceived {"))

variant("null-path-slice-two",
  ("parse.go", 'p.s = strings.TrimPrefix(p.s, "<>")', 'p.s = p.s[2:]'))
variant("lmtp-read-error-wrapped-in-local",
  ("client.go", """				} else {
					return err
				}
			} else if d.statusCb != nil {""", """				} else {
					ioErr := err
					return ioErr
				}
			} else if d.statusCb != nil {"""))
variant("client-deadline-clear-in-closure",
  ("client.go", """	c.conn.SetDeadline(time.Now().Add(c.CommandTimeout))
	defer c.conn.SetDeadline(time.Time{})

	id, err := c.text.Cmd(format, args...)""", """	c.conn.SetDeadline(time.Now().Add(c.CommandTimeout))
	defer func() {
		c.conn.SetReadDeadline(time.Time{})
		c.conn.SetWriteDeadline(time.Time{})
	}()

	id, err := c.text.Cmd(format, args...)"""))
variant("hello-error-local-then-stored",
  ("client.go", """		} else {
			c.helloError = err
		}
	}
	return c.helloError""", """		} else {
			c.helloError = err
			return err
		}
	}
	return c.helloError"""))
variant("serve-conn-copied-per-iteration",
  ("server.go", """		s.wg.Add(1)
		go func() {
			defer s.wg.Done()

			err := s.handleConn(newConn(c, s))""", """		s.wg.Add(1)
		nc := c
		go func() {
			defer s.wg.Done()

			err := s.handleConn(newConn(nc, s))"""))
variant("auth-assert-early-return",
  ("conn.go", """	if authSession, ok := c.Session().(AuthSession); ok {
		return authSession.Auth(mech)
	}
	return nil, ErrAuthUnknownMechanism""", """	authSession, ok := c.Session().(AuthSession)
	if !ok {
		return nil, ErrAuthUnknownMechanism
	}
	return authSession.Auth(mech)"""))
variant("client-end-transaction-helper",
  ("client.go", """	// MAIL starts a new transaction, the recipients accepted for the
	// previous one must not be expected again.
	c.rcpts = nil
""", """	// MAIL starts a new transaction, the recipients accepted for the
	// previous one must not be expected again.
	c.forgetRecipients()
"""),
  ("client.go", """	c.helloError = nil

	c.rcpts = nil
	return nil""", """	c.helloError = nil

	c.forgetRecipients()
	return nil"""),
  ("client.go", "func (c *Client) greet() error {", "func (c *Client) forgetRecipients() {\n	c.rcpts = nil\n}\n\nfunc (c *Client) greet() error {"))
variant("close-drop-session-helper",
  ("conn.go", """	if c.session != nil {
		c.session.Logout()
		c.session = nil
	}

	c.closed = true
	return c.conn.Close()""", """	c.dropSessionLocked()

	c.closed = true
	return c.conn.Close()"""),
  ("conn.go", "// isClosed reports whether", "// dropSessionLocked logs the session out; the caller holds c.locker.\nfunc (c *Conn) dropSessionLocked() {\n	if c.session != nil {\n		c.session.Logout()\n		c.session = nil\n	}\n}\n\n// isClosed reports whether"))
variant("tls-state-named-results",
  ("conn.go", """	tc, ok := c.conn.(*tls.Conn)
	if !ok {
		return
	}
	return tc.ConnectionState(), true
}

func (c *Conn) Hostname""", """	if tc, isTLS := c.conn.(*tls.Conn); isTLS {
		return tc.ConnectionState(), true
	}
	return tls.ConnectionState{}, false
}

func (c *Conn) Hostname"""))
variant("data-close-then-return-on-drain-failure",
  ("conn.go", """	c.writeResponse(code, enhancedCode, msg)
	if drainErr != nil {
		// The end of the message was not reached (timeout, connection
		// error): what follows in the stream is not a command.
		c.Close()
	}
}""", """	c.writeResponse(code, enhancedCode, msg)
	if drainErr == nil {
		return
	}
	// The end of the message was not reached (timeout, connection
	// error): what follows in the stream is not a command.
	c.Close()
}"""))
variant("readline-readbytes",
  ("conn.go", """	line, err := c.text.R.ReadString('\\n')
	if err != nil {
		if c.lineLimitReader.exceeded() {
			return "", ErrTooLongLine
		}
		return "", err
	}
	line = strings.TrimSuffix(line, "\\n")
	line = strings.TrimSuffix(line, "\\r")
	return line, nil""", """	raw, err := c.text.R.ReadBytes('\\n')
	if err != nil {
		if c.lineLimitReader.exceeded() {
			return "", ErrTooLongLine
		}
		return "", err
	}
	line := strings.TrimRight(string(raw), "\\r\\n")
	return line, nil"""))
variant("parsecmd-starttls-equalfold",
  ("parse.go", """	case strings.HasPrefix(strings.ToUpper(line), "STARTTLS"):""", """	case len(line) >= 8 && strings.EqualFold(line[:8], "STARTTLS"):"""))
variant("handledata-refusal-helper",
  ("conn.go", """	if !c.fromReceived || len(c.recipients) == 0 {
		c.writeResponse(502, EnhancedCode{5, 5, 1}, "Missing RCPT TO command.")
		return
	}

	// We have recipients, go to accept data""", """	if !c.fromReceived || len(c.recipients) == 0 {
		c.outOfOrder("Missing RCPT TO command.")
		return
	}

	// We have recipients, go to accept data"""),
  ("conn.go", "func (c *Conn) Server() *Server {", "func (c *Conn) outOfOrder(msg string) {\n	c.writeResponse(502, EnhancedCode{5, 5, 1}, msg)\n}\n\nfunc (c *Conn) Server() *Server {"))
variant("rcpt-record-then-reply-swapped",
  ("conn.go", """	c.recipients = append(c.recipients, recipient)
	c.writeResponse(250, EnhancedCode{2, 0, 0}, fmt.Sprintf("I'll make sure <%v> gets this", recipient))""", """	c.writeResponse(250, EnhancedCode{2, 0, 0}, fmt.Sprintf("I'll make sure <%v> gets this", recipient))
	c.recipients = append(c.recipients, recipient)"""))
variant("caps-auth-local-bool",
  ("conn.go", """	if c.authAllowed() {
		mechs := c.authMechanisms()
""", """	if offer := c.authAllowed(); offer {
		mechs := c.authMechanisms()
"""))
variant("toolong-errors-is",
  ("server.go", """			if err == ErrTooLongLine {""", """			if errors.Is(err, ErrTooLongLine) {"""))
variant("starttls-lock-only-around-swap",
  ("conn.go", """	c.conn = tlsConn
	c.init()
""", """	c.locker.Lock()
	c.conn = tlsConn
	c.locker.Unlock()
	c.init()
"""))
variant("datareader-max-local",
  ("data.go", """	if c.server.MaxMessageBytes > 0 {
		dr.limited = true
		dr.n = int64(c.server.MaxMessageBytes)
	}""", """	if max := c.server.MaxMessageBytes; max >= 1 {
		dr.limited = true
		dr.n = int64(max)
	}"""))
variant("bdat-count-before-error-check-free",
  ("conn.go", """	c.bytesReceived += int64(size)

	if last {
		c.lineLimitReader.LineLimit = c.server.MaxLineLength
""", """	if last {
		c.bytesReceived += int64(size)
		c.lineLimitReader.LineLimit = c.server.MaxLineLength
"""), ("conn.go", """		c.reset()
	} else {
		c.writeResponse(250, EnhancedCode{2, 0, 0}, "Continue")""", """		c.reset()
	} else {
		c.bytesReceived += int64(size)
		c.writeResponse(250, EnhancedCode{2, 0, 0}, "Continue")"""))
variant("server-close-done-then-lock-early",
  ("server.go", """func (s *Server) Close() error {
	select {
	case <-s.done:
		return ErrServerClosed
	default:
		close(s.done)
	}

	var err error
	s.locker.Lock()
""", """func (s *Server) Close() error {
	select {
	case <-s.done:
		return ErrServerClosed
	default:
		close(s.done)
	}

	s.locker.Lock()
	var err error
"""))
variant("data-drain-err-named",
  ("conn.go", """	_, drainErr := io.Copy(ioutil.Discard, r) // Make sure all the data has been consumed
	c.writeResponse(code, enhancedCode, msg)
	if drainErr != nil {""", """	_, incomplete := io.Copy(ioutil.Discard, r) // Make sure all the data has been consumed
	c.writeResponse(code, enhancedCode, msg)
	if incomplete != nil {"""))
variant("readline-trim-one-call",
  ("conn.go", """	line = strings.TrimSuffix(line, "\\n")
	line = strings.TrimSuffix(line, "\\r")
	return line, nil""", """	return strings.TrimSuffix(strings.TrimSuffix(line, "\\n"), "\\r"), nil"""))
if sys.argv[1:] == ['--export']:
    out = [{"id": "benign-" + n, "edits": [{"file": f, "old": o, "new": w} for f, o, w in V[n]]} for n in V]
    json.dump(out, open('/verif/liveness/benign.json', 'w'), indent=1)
    print(len(out), 'variants exported')
    sys.exit(0)
names = sys.argv[1:] or list(V)
V.update({k: v for k, v in KNOWN_ALARMING.items() if k in names})
env = dict(os.environ, GOFLAGS='-mod=mod', GOPROXY='off', GOSUMDB='off', GOTOOLCHAIN='local')
for name in names:
    d = tempfile.mkdtemp(prefix='benign.', dir='/tmp')
    out = tempfile.mkdtemp(prefix='benignout.', dir='/tmp')
    try:
        subprocess.check_call(['rsync','-a','--exclude','.git','/repo/', d+'/'])
        bad = False
        for f, old, new in V[name]:
            p = os.path.join(d, f); s = open(p).read()
            if s.count(old) != 1:
                print(name, 'EDIT-ERROR', f, s.count(old)); bad = True; break
            open(p,'w').write(s.replace(old, new))
        if bad: continue
        r = subprocess.run(['go','test','-count=1','-timeout','120s','./...'], cwd=d, env=env, capture_output=True, text=True)
        if r.returncode != 0:
            print(name, 'SUITE-FAIL', r.stdout[-300:], r.stderr[-300:]); continue
        shutil.copy('/verif/known_findings.txt', out)
        env2 = dict(env, VERIF_DIR=out)
        alarms = []
        r = subprocess.run(['/verif/bin/smtpverif','-repo',d,'-property','all'], env=env2, capture_output=True, text=True)
        for l in r.stdout.splitlines():
            m = re.match(r'^== (C\d+): .* (\d+) violations', l)
            if m and m.group(2) != '0':
                alarms.append(m.group(1))
        if alarms:
            for l in [l for l in r.stdout.splitlines() if l.startswith(('VIOLATED','UNDECIDED','ERROR'))][:6]:
                print('   ', l[:260])
        print(name, 'FALSE-ALARMS:' if alarms else 'quiet', ' '.join(alarms))
    finally:
        shutil.rmtree(d); shutil.rmtree(out)
