#!/bin/bash
# recheck.sh <seed dir name>: re-run all checks with the stored patch applied and update meta.json's checks_fired
. /verif/env.sh
ID=$1; OUT=/verif/seeded/$ID
cd /repo && git apply $OUT/patch.diff || { echo "PATCH DOES NOT APPLY $ID"; exit 3; }
/verif/bin/smtpverif -property all > /tmp/recheck.$$.log 2>&1
FIRED=$(grep -E "^== C[0-9]+: " /tmp/recheck.$$.log | grep -v " 0 violations" | sed -E 's/^== (C[0-9]+):.*/\1/' | tr '\n' ' ')
git -C /repo checkout -- .
python3 - "$OUT" "$FIRED" <<'PY'
import json,sys
out,fired=sys.argv[1:3]
m=json.load(open(out+'/meta.json'))
if 'checks_fired_first_run' not in m: m['checks_fired_first_run']=m['checks_fired']
m['checks_fired']=fired.split(); m['caught_by_own_property']=m['breaks_property'] in fired.split()
json.dump(m,open(out+'/meta.json','w'),indent=1)
print(out.split('/')[-1], 'FIRED:', fired, 'own:', m['caught_by_own_property'])
PY
