#!/bin/bash
# Re-runs every stored seed against the CURRENT /repo: applies patch.diff, runs all quick checks, undoes it.
. /verif/env.sh
cd /repo || exit 2
[ -n "$(git status --short)" ] && { echo "/repo not clean"; exit 2; }
for d in /verif/seeded/*/; do
  id=$(basename $d); prop=$(python3 -c "import json;print(json.load(open('$d/meta.json'))['breaks_property'])")
  if ! git apply --check $d/patch.diff 2>/dev/null; then
     if git apply --3way $d/patch.diff >/dev/null 2>&1; then git diff HEAD > $d/patch.diff; git reset -q --hard HEAD; echo "  ($id: patch refreshed by 3-way merge)"; else git reset -q --hard HEAD; echo "$id: PATCH DOES NOT APPLY"; continue; fi
  fi
  git apply $d/patch.diff
  if ! go build ./... 2>/dev/null; then echo "$id: does not build"; git checkout -- .; continue; fi
  export VERIF_DIR=$(mktemp -d /tmp/seedout.XXXX); cp /verif/known_findings.txt $VERIF_DIR/
  fired=$(/verif/bin/smtpverif -property all 2>&1 | grep -E "^== C[0-9]+: " | grep -v " 0 violations" | sed -E 's/^== (C[0-9]+):.*/\1/' | tr '\n' ' ')
  fired=" $fired"
  rm -rf $VERIF_DIR
  git checkout -- .
  own="MISSED-BY-OWN"; case " $fired " in *" $prop "*) own="own-ok";; esac
  [ -z "$fired" ] && own="MISSED-BY-ALL"
  echo "$id [$prop]: fired:$fired  $own"
done
git status --short | head -3
