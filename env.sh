# sourced by every script: offline Go environment
export GOFLAGS=-mod=mod GOPROXY=off GOSUMDB=off GOTOOLCHAIN=local
export CGO_ENABLED=0
unset GOWORK
